"""C17 -- Boolean, comparison and range rewrites are logically equivalent (kernel K6)."""
from __future__ import annotations

import ast
import itertools
import json
import random
import re
import time
from collections import Counter
from pathlib import Path

from . import common, c17_hunt
from .common import gz, glist, gbool

PID = "C17"
BOPS = ["BEq", "BNe", "BGt", "BLt", "BGe", "BLe"]
BOP_TXT = {"BEq": "==", "BNe": "!=", "BGt": ">", "BLt": "<", "BGe": ">=", "BLe": "<="}
KEYS = ["x", "y", "z"]
BOX = range(-2, 5)

# ---------------------------------------------------------------------------------------------
# operand terms:  ("cmp", key, op, c, flipped) | ("var", i) | ("const", b) | ("not", o) | ("bool", isand, [..])
#                 | ("chain", t0, [(op, t), (op, t), ..])   a chained comparison with TWO OR MORE operators;
#                   a term t is ("k", key) or ("c", int)      (`0 < x <= 9` = ("chain", ("c", 0), [("BLt", ("k", 0)), ("BLe", ("c", 9))]))


def o_text(o, top=False) -> str:
    k = o[0]
    if k == "cmp":
        _, key, op, c, fl = o
        return f"{c} {BOP_TXT[op]} {KEYS[key]}" if fl else f"{KEYS[key]} {BOP_TXT[op]} {c}"
    if k == "var":
        return f"p{o[1]}"
    if k == "const":
        return "True" if o[1] else "False"
    if k == "not":
        return f"not ({o_text(o[1])})"
    if k == "bool":
        s = (" and " if o[1] else " or ").join(o_text(v) for v in o[2])
        return s if top else f"({s})"
    if k == "chain":
        assert len(o[2]) >= 2, o       # one operator is a "cmp": the rule reads bounds from those
        return t_text(o[1]) + "".join(f" {BOP_TXT[op]} {t_text(t)}" for op, t in o[2])
    raise ValueError(o)


def t_text(t) -> str:
    return KEYS[t[1]] if t[0] == "k" else str(t[1])


def t_coq(t) -> str:
    return f"(TKey {t[1]})" if t[0] == "k" else f"(TLit {gz(t[1])})"


def o_has_chain(o) -> bool:
    return o[0] == "chain" or (o[0] == "not" and o_has_chain(o[1])) or (o[0] == "bool" and any(o_has_chain(v) for v in o[2]))


def o_coq(o) -> str:
    k = o[0]
    if k == "cmp":
        return f"(OCmp {o[1]} {o[2]} {gz(o[3])} {gbool(o[4])})"
    if k == "var":
        return f"(OVar {o[1]})"
    if k == "const":
        return f"(OConst {gbool(o[1])})"
    if k == "not":
        return f"(ONot {o_coq(o[1])})"
    if k == "chain":
        return f"(OChain {t_coq(o[1])} {glist(o[2], lambda l: f'({l[0]}, {t_coq(l[1])})')})"
    return f"(OBool {gbool(o[1])} {glist(o[2], o_coq)})"


def gval(v) -> str:
    return f"(VB {gbool(v)})" if isinstance(v, bool) else f"(VI {gz(v)})"


def r_coq(r) -> str:
    if r[0] == "const":
        return f"(RConst {gbool(r[1])})"
    if r[0] == "values":
        return f"(RValues {glist(r[1], o_coq)})"
    return "RNone"


def bound_source(isand, vs, ctx) -> str:
    """ctx = True: only the truth value of the formula is used (an `if` test); False: the value is used"""
    f = o_text(("bool", isand, vs), top=True)
    return f"if {f}:\n    pass\n" if ctx else f"y = {f}\n"


def top_expr(tree):
    s = tree.body[0]
    return s.test if isinstance(s, ast.If) else s.value


def o_has_var(o) -> bool:
    return o[0] == "var" or (o[0] == "not" and o_has_var(o[1])) or (o[0] == "bool" and any(o_has_var(v) for v in o[2]))


def impl_bound(mods, isand, vs, ctx=False):
    """Run the real generator on `y = <formula>` / `if <formula>: pass` and read what it yields for the top BoolOp."""
    core, sm = mods["core"], mods["symbolic_math"]
    source = bound_source(isand, vs, ctx)
    with common.quiet():
        root = core.parse(source)
        top = top_expr(root)
        assert isinstance(top, ast.BoolOp) and len(top.values) == len(vs), source
        res = ("none",)
        for item in sm.simplify_boolean_expressions._fix_func(source):
            node, repl = item[0], item[1]
            if node is top:
                if isinstance(repl, ast.Constant):
                    res = ("const", bool(repl.value))
                elif isinstance(repl, ast.BoolOp) and not any(repl is v for v in top.values):
                    idx = [next(i for i, v in enumerate(top.values) if v is w) for w in repl.values]
                    res = ("values", [vs[i] for i in idx])
                else:
                    i = next(i for i, v in enumerate(top.values) if v is repl)
                    res = ("values", [vs[i]])
                break
    return source, res


PVALS = (0, 3)      # values of the bare names p0..p2: integers (the property's quantifier), falsy and truthy


def eval_all(expr_src: str, nvars=2):
    """Value of an expression for every valuation of x,y in the box and p0..p2 in PVALS."""
    code = compile(expr_src, "<f>", "eval")
    out = []
    for x, y in itertools.product(BOX, repeat=2):
        for p in itertools.product(PVALS, repeat=3):
            env = {"x": x, "y": y, "z": 0, "p0": p[0], "p1": p[1], "p2": p[2]}
            try:
                out.append(eval(code, {"__builtins__": {}}, env))
            except Exception as e:  # noqa
                out.append(("exc", type(e).__name__))
    return out


def expr_text(program: str) -> str:
    return ast.unparse(top_expr(ast.parse(program)))


def property_fails(mods, source: str, rule) -> dict | None:
    """The property's own oracle on the real rule: same VALUE before/after for every valuation where the
    value is used (`y = ...`), same truth value where only that is used (`if ...:`)."""
    with common.quiet():
        new = rule(source)
    if new == source:
        return None
    truth_only = source.startswith("if ")
    before = eval_all(expr_text(source))
    try:
        after = eval_all(expr_text(new))
    except SyntaxError:
        return {"source": source, "output": new, "problem": "output does not parse"}
    for b, a in zip(before, after):
        if truth_only:
            if isinstance(b, tuple) or isinstance(a, tuple) or bool(b) != bool(a):
                return {"source": source, "output": new, "problem": f"truth value differs: {b!r} vs {a!r}"}
        elif b != a or type(b) is not type(a):
            return {"source": source, "output": new, "problem": f"value differs: {b!r} vs {a!r}"}
    return None


# ---------------------------------------------------------------------------------------------
# generators


def all_cmps(keys=(0,), consts=(0, 1, 2), flips=(False, True)):
    return [("cmp", k, op, c, fl) for k in keys for op in BOPS for c in consts for fl in flips]


def rand_chain(rnd):
    """a random chained comparison with 2 or 3 operators over x, y and small constants"""
    n = rnd.choice([2, 2, 2, 3])
    terms = [rnd.choice([("k", 0), ("k", 0), ("k", 1), ("c", rnd.choice([-1, 0, 1, 2, 3]))]) for _ in range(n + 1)]
    if all(t[0] == "c" for t in terms):
        terms[rnd.randrange(n + 1)] = ("k", 0)
    return ("chain", terms[0], [(rnd.choice(BOPS), t) for t in terms[1:]])


def rand_operand(rnd, depth=0):
    r = rnd.random()
    if r < 0.10:
        return rand_chain(rnd)
    if r < 0.62 or depth >= 2:
        return ("cmp", rnd.choice([0, 0, 0, 1]), rnd.choice(BOPS), rnd.choice([-1, 0, 1, 2, 3]), rnd.random() < 0.25)
    if r < 0.74:
        return ("var", rnd.randrange(3))
    if r < 0.80:
        return ("const", rnd.random() < 0.5)
    if r < 0.88:
        return ("not", rand_operand(rnd, depth + 1))
    return ("bool", rnd.random() < 0.5, [rand_operand(rnd, depth + 1) for _ in range(rnd.randint(2, 3))])


def bound_cases(tier, rnd):
    cs = all_cmps()
    cases = chain_cases(tier, rnd)
    for a, b in itertools.product(cs, cs):
        for isand in (True, False):
            cases.append((isand, [a, b]))
    n_pairs = len(cs) * len(cs) * 2
    plain = all_cmps(flips=(False,))
    triples = [(isand, [a, b, c]) for a, b, c in itertools.product(plain, repeat=3) for isand in (True, False)]
    if tier == "quick":
        triples = rnd.sample(triples, 1500)
    cases += triples
    nrand = 1500 if tier == "quick" else 20000
    for _ in range(nrand):
        cases.append((rnd.random() < 0.5, [rand_operand(rnd) for _ in range(rnd.randint(2, 5))]))
    # nested same-operator forms (the flattening / direct-operand rule)
    for a, b in itertools.product(plain, plain):
        for isand in (True, False):
            cases.append((isand, [a, ("bool", isand, [b, ("var", 0)])]))
            if tier != "quick" or rnd.random() < 0.15:
                cases.append((isand, [("bool", isand, [a, ("var", 0)]), b, ("var", 1)]))
    return cases, n_pairs


# ---- chained comparisons as operands (round 5, seed C17-d) -----------------------------------
CHAIN_WITNESS = (False, [("chain", ("c", 0), [("BLt", ("k", 0)), ("BLt", ("c", 2))]), ("cmp", 1, "BGt", 3, False)])


def chain_pool():
    """deterministic pool of chained comparisons: `c1 op1 x op2 c2` for EVERY ordered pair of the six operators
    (constants in increasing order; for the order-sensitive pairs also decreasing and equal constants, so every order
    relation between the two bounds occurs), chains that mention a second variable, and chains with three operators"""
    X, Y = ("k", 0), ("k", 1)
    c = lambda n: ("c", n)      # noqa
    pool = [("chain", c(0), [(o1, X), (o2, c(2))]) for o1 in BOPS for o2 in BOPS]
    for o1, o2 in (("BLt", "BLt"), ("BLe", "BLe"), ("BLt", "BLe"), ("BGt", "BGt"), ("BGe", "BGt"), ("BEq", "BLt"),
                   ("BNe", "BLt"), ("BGt", "BLt"), ("BLt", "BGt"), ("BGe", "BLe")):
        pool.append(("chain", c(2), [(o1, X), (o2, c(0))]))
        pool.append(("chain", c(1), [(o1, X), (o2, c(1))]))
    pool += [("chain", X, [("BLt", Y), ("BLt", c(2))]), ("chain", c(0), [("BLe", X), ("BLt", Y)]),
             ("chain", X, [("BLt", c(1)), ("BLe", Y)]), ("chain", X, [("BEq", Y), ("BGt", c(0))]),
             ("chain", Y, [("BGt", X), ("BGe", c(1))]), ("chain", X, [("BNe", Y), ("BNe", c(1))]),
             ("chain", X, [("BGt", c(0)), ("BLt", c(2))]), ("chain", X, [("BLt", c(2)), ("BGt", c(0))]),
             # three operators
             ("chain", c(0), [("BLt", X), ("BLt", Y), ("BLe", c(2))]), ("chain", c(0), [("BLe", X), ("BLe", c(1)), ("BLe", Y)]),
             ("chain", c(2), [("BGt", X), ("BGe", c(0)), ("BEq", Y)]), ("chain", X, [("BLt", Y), ("BLt", c(2)), ("BGt", c(0))]),
             ("chain", c(-1), [("BLt", X), ("BNe", c(1)), ("BLt", c(3))]), ("chain", c(0), [("BEq", X), ("BEq", Y), ("BEq", c(0))])]
    return pool


def chain_cases(tier, rnd):
    """(isand, operands) with chained comparisons among the operands: the minimal witness of seed C17-d first, then
    every chain of the pool x partner (a bound on the same variable, on another variable, a bare name) in both orders
    under and / or; with a second partner; opposite / identical / constant operands; under `not`; nested in
    same-operator and other-operator BoolOps; chain next to chain.  Deterministic (seed independent)."""
    pool = chain_pool()
    core_partners = [("cmp", 0, "BGt", 1, False), ("cmp", 0, "BLe", 0, False), ("cmp", 0, "BEq", 1, True),
                     ("cmp", 1, "BGt", 3, False), ("var", 0)]
    more_partners = [p for p in all_cmps(flips=(False,)) + [("cmp", 1, op, 1, False) for op in BOPS] if p not in core_partners]
    cases = [CHAIN_WITNESS]
    for ch in pool:
        for isand in (True, False):
            for p in core_partners:
                cases.append((isand, [ch, p]))
                cases.append((isand, [p, ch]))
            cases.append((isand, [ch, ("not", ch)]))
            cases.append((isand, [ch, ch]))
            cases.append((isand, [ch, ("const", isand)]))
            cases.append((isand, [("not", ch), ("cmp", 0, "BGt", 1, False)]))
            cases.append((isand, [("not", ch), ("cmp", 0, "BGt", 1, False), ("cmp", 0, "BGt", 0, False)]))
    k = 0
    for ch in pool:
        for p in more_partners:
            for isand in (True, False):
                k += 1
                if tier != "quick" or k % 5 == 0:
                    cases.append((isand, [ch, p] if k % 2 else [p, ch]))
    sub = pool[::3]
    for i, ch in enumerate(sub):
        a, b = core_partners[i % 4], core_partners[(i + 1) % 4]
        for isand in (True, False):
            cases.append((isand, [ch, a, b]))
            cases.append((isand, [a, ch, b, ("var", 1)]))
            cases.append((isand, [("bool", isand, [ch, a]), b]))                    # flattened by the rule
            cases.append((isand, [a, ("bool", isand, [b, ("bool", isand, [ch, ("var", 0)])])]))
            cases.append((isand, [("bool", not isand, [ch, a]), b]))                # other operator: opaque
            cases.append((isand, [("not", ("bool", not isand, [ch, a])), b, a]))
            cases.append((isand, [ch, sub[(i + 1) % len(sub)]]))
            cases.append((isand, [ch, sub[(i + 5) % len(sub)], a]))
    return cases


# ---- negate --------------------------------------------------------------------------------
CMPOPS = ["CEq", "CNotEq", "CLt", "CLtE", "CGt", "CGtE", "CIs", "CIsNot", "CIn", "CNotIn"]
CMP_TXT = {"CEq": "==", "CNotEq": "!=", "CLt": "<", "CLtE": "<=", "CGt": ">", "CGtE": ">=", "CIs": "is",
           "CIsNot": "is not", "CIn": "in", "CNotIn": "not in"}
CMP_AST = {"Eq": "CEq", "NotEq": "CNotEq", "Lt": "CLt", "LtE": "CLtE", "Gt": "CGt", "GtE": "CGtE", "Is": "CIs",
           "IsNot": "CIsNot", "In": "CIn", "NotIn": "CNotIn"}


def c_text(c) -> str:
    k = c[0]
    if k == "not":
        return f"not ({c_text(c[1])})"
    if k == "cmp":
        return f"(t{c[1]} {CMP_TXT[c[2]]} t{c[3]})"
    if k == "atom":
        i = c[1]
        return f"a{i}" if i < 100 else f"(t{i - 100} < t1 < t2)"
    return "(" + (" and " if c[1] else " or ").join(c_text(v) for v in c[2]) + ")"


def c_coq(c) -> str:
    k = c[0]
    if k == "not":
        return f"(CNot {c_coq(c[1])})"
    if k == "cmp":
        return f"(CCmp {c[1]} {c[2]} {c[3]})"
    if k == "atom":
        return f"(CAtom {c[1]})"
    return f"(CBool {gbool(c[1])} {glist(c[2], c_coq)})"


def c_of_ast(n) -> tuple:
    if isinstance(n, ast.UnaryOp) and isinstance(n.op, ast.Not):
        return ("not", c_of_ast(n.operand))
    if isinstance(n, ast.Compare) and len(n.ops) == 1:
        return ("cmp", int(n.left.id[1:]), CMP_AST[type(n.ops[0]).__name__], int(n.comparators[0].id[1:]))
    if isinstance(n, ast.Compare):
        return ("atom", 100 + int(n.left.id[1:]))
    if isinstance(n, ast.Name):
        return ("atom", int(n.id[1:]))
    if isinstance(n, ast.BoolOp):
        return ("bool", isinstance(n.op, ast.And), [c_of_ast(v) for v in n.values])
    raise ValueError(ast.dump(n))


def rand_cond(rnd, depth=0):
    r = rnd.random()
    if r < 0.35 or depth >= 3:
        return ("cmp", rnd.randrange(3), rnd.choice(CMPOPS), rnd.randrange(3))
    if r < 0.5:
        return ("atom", rnd.choice([0, 1, 2, 100, 101]))
    if r < 0.65:
        return ("not", rand_cond(rnd, depth + 1))
    return ("bool", rnd.random() < 0.5, [rand_cond(rnd, depth + 1) for _ in range(rnd.randint(2, 3))])


def negate_cases(tier, rnd):
    cs = [("cmp", 0, op, 1) for op in CMPOPS] + [("atom", 0), ("atom", 100), ("not", ("atom", 0)),
                                                 ("not", ("cmp", 0, "CLt", 1))]
    for a, b in itertools.product(list(cs), repeat=2):
        for isand in (True, False):
            cs.append(("bool", isand, [a, b]))
    for _ in range(600 if tier == "quick" else 10000):
        cs.append(rand_cond(rnd))
    return cs


def impl_negate(mods, c):
    node = ast.parse(c_text(c), mode="eval").body
    with common.quiet():
        r = mods["fixes"]._negate_condition(node)
    try:
        term = c_of_ast(r)
    except Exception:  # a shape outside the term language (e.g. a chain with other operators)
        term = ("atom", 999)
    return term, ast.unparse(r)


def negate_property_fails(c, nc_text) -> str | None:
    """not c  vs  the real negated text under all valuations of t0..t2 in {0,1,2} and atoms in {False,True}."""
    a, b = compile("not " + c_text(c), "<c>", "eval"), compile(nc_text, "<n>", "eval")
    for t in itertools.product([0, 1, 2], repeat=3):
        for at in itertools.product([False, True], repeat=3):
            env = {"t0": t[0], "t1": t[1], "t2": t[2], "a0": at[0], "a1": at[1], "a2": at[2]}
            env2 = dict(env)
            try:
                va = eval(a, {}, env)
            except TypeError:
                continue  # `in` on ints: outside the integer-comparison claim
            try:
                vb = eval(b, {}, env2)
            except TypeError:
                continue
            if bool(va) != bool(vb):
                return f"valuation {env}: not c = {va!r}, negated = {vb!r}"
    return None


# ---- remove_redundant_boolop_values ---------------------------------------------------------
TRUTHY = ["1", "2", "3", "'a'", "(0,)", "4", "5"]
FALSY = ["0", "''", "()", "None", "False", "[]", "{}"]


def mask_source(isand, mask):
    ops, t, f, u = [], 0, 0, 0
    for m in mask:
        if m == "Truthy":
            ops.append(TRUTHY[t]); t += 1
        elif m == "Falsy":
            ops.append(FALSY[f]); f += 1
        else:
            ops.append(f"u{u}()"); u += 1
    return "y = " + (" and " if isand else " or ").join(ops) + "\n"


def impl_redundant(mods, isand, mask):
    core, fixes = mods["core"], mods["fixes"]
    source = mask_source(isand, mask)
    with common.quiet():
        root = core.parse(source)
        top = root.body[0].value
        kept = list(range(len(mask)))
        for item in fixes.remove_redundant_boolop_values._fix_func(source):
            node, repl = item[0], item[1]
            if node is top:
                if isinstance(repl, ast.BoolOp) and not any(repl is v for v in top.values):
                    kept = [next(i for i, v in enumerate(top.values) if v is w) for w in repl.values]
                else:
                    kept = [next(i for i, v in enumerate(top.values) if v is repl)]
    return source, [i not in kept for i in range(len(mask))]


def redundant_property_fails(mods, source) -> str | None:
    """execute before/after with logging stubs for the unknown operands, all truthiness valuations"""
    with common.quiet():
        new = mods["fixes"].remove_redundant_boolop_values(source)
    if new == source:
        return None
    nu = source.count("u")
    for vals in itertools.product([0, 7], repeat=max(nu, 1)):
        outs = []
        for text in (source, new):
            log = []
            env = {}
            for i in range(nu):
                env[f"u{i}"] = (lambda i=i: (log.append(i), vals[i])[1])
            try:
                exec(text, env)
                outs.append((repr(env["y"]), tuple(log)))
            except Exception as e:  # noqa
                outs.append(("exc " + type(e).__name__, tuple(log)))
        if outs[0] != outs[1]:
            return f"{source!r} -> {new!r}: values {vals}: {outs[0]} vs {outs[1]}"
    return None


# ---- sum(range(a, b)) ------------------------------------------------------------------------


def sum_cases(mods):
    """sum(range(..)) with literal and with symbolic bounds: value of the rule's output vs Python"""
    sm = mods["symbolic_math"]
    res = []
    for a in range(-4, 7):
        for b in range(-4, 7):
            for form in ("two", "one", "sym2", "sym1"):
                if form in ("one", "sym1") and a != 0:
                    continue
                pre = {"two": "", "one": "", "sym2": f"m = {a}\nn = {b}\n", "sym1": f"n = {b}\n"}[form]
                expr = {"two": f"sum(range({a}, {b}))", "one": f"sum(range({b}))", "sym2": "sum(range(m, n))",
                        "sym1": "sum(range(n))"}[form]
                src = f"{pre}y = {expr}\n"
                with common.quiet():
                    new = sm.simplify_math_iterators(src)
                env = {}
                try:
                    exec(new, env)
                    val = env["y"]
                except Exception as e:  # noqa
                    val = ("exc", type(e).__name__)
                res.append({"a": a, "b": b, "form": form, "source": src, "output": new, "value": val,
                            "python": sum(range(a, b)), "fired": new != src})
    return res


# ---- simplify_constrained_range ---------------------------------------------------------------
# a case: (form, args, ifs) -- form in list/set/gen; args: list of int | "n" | "m";
# ifs: list of `if` clauses, each a (possibly nested) and-tree: a leaf is a condition
#   ("cmp", optext, c, flipped) | ("other", text), a node is ("and", [trees]).
ROP = {">": "RGt", "<": "RLt", ">=": "RGe", "<=": "RLe", "==": "REq", "!=": "RNe"}
FOLD_OPS = [">", "<", ">=", "<=", "=="]
SYMS = {"n": 0, "m": 1}
SYM_RE = re.compile(r"\b[nm]\b")
OTHER_TXT = ["p(x)", "x % 2 == 0", "x > 2.5", "x > True", "x > n", "y > 1", "x > 1 or x < 0", "not x < 3",
             "0 < x < 4", "x < 'a'"]
OTHER_TOTAL = OTHER_TXT[:-1]   # "x < 'a'" raises for every x: used as a single filter only
RBOX = range(-2, 7)
CBOX = range(-2, 8)


def rc_leaf_text(c) -> str:
    if c[0] == "cmp":
        return f"{c[2]} {c[1]} x" if c[3] else f"x {c[1]} {c[2]}"
    return c[1]


def rc_tree_text(t, top=True) -> str:
    if t[0] == "and":
        s = " and ".join(rc_tree_text(v, False) for v in t[1])
        return s if top else f"({s})"
    return rc_leaf_text(t) if t[0] == "cmp" or top else f"({rc_leaf_text(t)})"


def rc_flat(t) -> list:
    return [l for v in t[1] for l in rc_flat(v)] if t[0] == "and" else [t]


def rc_source(case) -> str:
    form, args, ifs = case
    body = f"x for x in range({', '.join(str(a) for a in args)})" + "".join(f" if {rc_tree_text(t)}" for t in ifs)
    return {"list": f"[{body}]", "set": f"{{{body}}}", "gen": f"({body})"}[form] + "\n"


def rc_conds(case) -> list:
    return [l for t in case[2] for l in rc_flat(t)]


def rcond_coq(c) -> str:
    if c[0] == "cmp":
        return f"(RCmp {ROP[c[1]]} {gz(c[2])} {gbool(c[3])})"
    return f"(ROther {OTHER_TXT.index(c[1])})"


def rarg_coq(a) -> str:
    return f"(ASym {SYMS[a]})" if isinstance(a, str) else f"(AInt {gz(a)})"


def rverdict_coq(v) -> str:
    if v[0] == "fold":
        return f"(VFold {glist(v[1], rarg_coq)} {glist(v[2], gbool)})"
    return {"none": "VNone", "empty": "VEmpty"}[v[0]]


def _flat_ifs(ifs):
    out = []
    for c in ifs:
        if isinstance(c, ast.BoolOp) and isinstance(c.op, ast.And):
            out += _flat_ifs(c.values)
        else:
            out.append(c)
    return out


def impl_range(mods, source):
    """Run the real generator and read what it yields: ("none",) | ("empty",) | ("fold", new range args,
    per flattened condition whether it was replaced by True) | ("weird", why)."""
    core, sm = mods["core"], mods["symbolic_math"]
    with common.quiet():
        root = core.parse(source)
        node = root.body[0].value
        comp = node.generators[0]
        flat = _flat_ifs(comp.ifs)
        red, new_args, empty, extra = [False] * len(flat), None, False, 0
        for item in sm.simplify_constrained_range._fix_func(source):
            tgt, repl = item[0], item[1]
            if tgt is node:
                g = repl.generators[0]
                if not (type(repl) is type(node) and isinstance(g.iter, ast.Tuple) and not g.iter.elts and not g.ifs
                        and g.target is comp.target and repl.elt is node.elt and len(repl.generators) == 1):
                    return ("weird", "empty replacement of unexpected shape: " + ast.dump(repl))
                empty = True
            elif tgt is comp.iter:
                if new_args is not None or not (isinstance(repl, ast.Call) and isinstance(repl.func, ast.Name)
                                                and repl.func.id == "range" and not repl.keywords):
                    return ("weird", "range replacement of unexpected shape")
                new_args = []
                for a in repl.args:
                    if isinstance(a, ast.Constant) and type(a.value) is int:
                        new_args.append(a.value)
                    elif isinstance(a, ast.Name) and any(a is o for o in comp.iter.args):
                        new_args.append(a.id)
                    else:
                        return ("weird", "range argument " + ast.dump(a))
            else:
                idx = [i for i, c in enumerate(flat) if c is tgt]
                if not idx or not (isinstance(repl, ast.Constant) and repl.value is True) or red[idx[0]]:
                    return ("weird", "unexpected yield " + ast.dump(tgt) + " => " + ast.dump(repl))
                red[idx[0]] = True
            if empty and (new_args is not None or any(red)):
                extra += 1
    if empty:
        return ("empty",) if not extra else ("weird", "empty verdict followed by further rewrites")
    if new_args is None and not any(red):
        return ("none",)
    if new_args is None or not any(red):
        return ("weird", "conditions and range not rewritten together")
    return ("fold", new_args, red)


def _pfun(x):
    return x % 3 != 1


def comp_values(text: str, n, m=2):
    """value of the comprehension (list / sorted set / list(generator)) or the exception type"""
    try:   # (a text that does not parse is an exception value too, so it differs from every proper value)
        v = eval(text, {"n": n, "m": m, "p": _pfun, "y": 3})
        return ("set", sorted(v)) if isinstance(v, (set, frozenset)) else ("list", list(v))
    except Exception as e:  # noqa
        return ("exc", type(e).__name__)


def range_property_fails(source: str, new: str) -> str | None:
    """the property's oracle: same elements in the same order for every value of the symbolic bounds"""
    if new == source:
        return None
    symbolic = SYM_RE.search(source) is not None          # literal bounds: one evaluation is all there is
    for n in (range(-3, 9) if symbolic else (3,)):
        b, a = comp_values(source, n), comp_values(new, n)
        if b != a:
            return f"n={n}: before {b}, after {a}"
    return None


def range_arg_forms():
    forms = [[e] for e in RBOX] + [[s, e] for s in RBOX for e in RBOX]
    forms += [[s, e, st] for s in RBOX for e in RBOX for st in (1, 2, 3, -1)]
    forms += [["n"], ["n", 4], [1, "n"], [-1, "n"], ["m", "n"], ["n", 5, 2], [0, "n", 2], [1, "n", 3], [0, 5, "n"],
              ["n", 6, 1], [0, 6, 0], [2, "n", -1], [1, 2, 3, 4], []]
    return forms


def range_cases(tier, rnd):
    """exhaustive: every range form x every single constant filter (list form); pairs of filters: a
    deterministic 1-in-K shard (quick) / all of the 2-argument forms + shard of the rest (thorough);
    seeded random: 1-4 filters with opaque conditions, nesting, several ifs, set/generator forms."""
    singles = [("cmp", op, c, fl) for op in FOLD_OPS for c in CBOX for fl in (False, True)]
    forms = range_arg_forms()
    cases = []
    j = 0
    for args in forms:
        # quick: the 3-literal-argument forms are strided 1-in-3 (seed independent); everything else is complete
        strided = tier == "quick" and len(args) == 3 and all(isinstance(a, int) for a in args)
        for f in singles + [("cmp", "!=", 0, False), ("cmp", "!=", 3, True)] + [("other", t) for t in OTHER_TXT]:
            j += 1
            if not strided or j % 3 == 0:
                cases.append(("list", args, [f]))
    n_single = len(cases)
    # pairs: index-strided shard (seed independent) / all pairs for the 2-argument forms in the thorough tier
    K = 499 if tier == "quick" else 29
    k = 0
    for args in forms:
        two_arg_full = tier != "quick" and len(args) == 2 and all(isinstance(a, int) and 0 <= a <= 4 for a in args)
        for f in singles:
            for g in singles:
                k += 1
                if two_arg_full or k % K == 0:
                    joined = [("and", [f, g])] if k % 2 else [f, g]
                    cases.append((("list", "set", "gen")[k % 3], args, joined))
    n_pairs = len(cases) - n_single
    leaves = singles + [("other", t) for t in OTHER_TOTAL] + [("cmp", "!=", 2, False)]
    for _ in range(1200 if tier == "quick" else 30000):
        args = rnd.choice(forms) if rnd.random() < 0.8 else [rnd.choice(["n", -1, 0, 2]), rnd.choice(["n", 5, 6, 9]),
                                                            rnd.choice([1, 1, 2, 3, 4])]
        def tree(d=0):
            if d < 2 and rnd.random() < 0.35:
                return ("and", [tree(d + 1) for _ in range(rnd.randint(2, 3))])
            return rnd.choice(leaves) if rnd.random() < 0.8 else ("cmp", rnd.choice(FOLD_OPS), rnd.randint(-3, 12),
                                                                  rnd.random() < 0.3)
        cases.append((rnd.choice(["list", "set", "gen"]), args, [tree() for _ in range(rnd.randint(1, 3))]))
    return cases, n_single, n_pairs


def rc_apply(case, res):
    """source text of the case after the rewrite the rule yielded (new range arguments, redundant filters -> True)"""
    form, args, ifs = case
    if res[0] == "empty":
        return {"list": "[x for x in ()]", "set": "{x for x in ()}", "gen": "(x for x in ())"}[form] + "\n"
    it = iter(res[2])

    def sub(t):
        if t[0] == "and":
            return ("and", [sub(v) for v in t[1]])
        return ("other", "True") if next(it) else t
    return rc_source((form, res[1], [sub(t) for t in ifs]))


# inputs the pre-repair rule got wrong (or crashed on); they must pass from now on (fixed: F17-4..F17-9)
RANGE_WITNESSES = [
    ("F17-4", "[x for x in range(m, n) if x > 5]\n"), ("F17-4", "[x for x in range(0, n) if x < 5]\n"),
    ("F17-4", "[x for x in range(-1, 3) if x < 0]\n"), ("F17-4", "[x for x in range(-2, 6) if x >= 1]\n"),
    ("F17-5", "[x for x in range(0, 5) if x <= 5]\n"), ("F17-5", "[x for x in range(1, 4) if 4 >= x]\n"),
    ("F17-6", "[x for x in range(0, 10, 2) if x > 2]\n"), ("F17-6", "[x for x in range(0, 10, 2) if x < 5]\n"),
    ("F17-6", "[x for x in range(1, 10, 3) if x == 5]\n"), ("F17-6", "[x for x in range(0, 10, n) if x < 5]\n"),
    ("F17-7", "[x for x in range(10, 0, -1) if x > 2]\n"), ("F17-7", "[x for x in range(0, 10, -1) if x > 2]\n"),
    ("F17-8", "[x for x in range(0, 10) if x > 2.5]\n"), ("F17-8", "[x for x in range(0, 10) if x > True]\n"),
    ("F17-9", "[x for x in range(0, 10) if x > 2 and x > 5]\n"), ("F17-9", "[x for x in range(0, 10) if x > 5 and x > 2]\n"),
]


_RANGE_MODS = None


def _range_eval(jobs):
    """worker: real rule on each case (yields), the property oracle on what it yielded and, where asked,
    on the rule's text result"""
    mods = _RANGE_MODS
    rule = mods["symbolic_math"].simplify_constrained_range
    out = []
    for _, case, do_text in jobs:
        source = rc_source(case)
        fails = []
        try:
            res = impl_range(mods, source)
        except Exception as e:  # noqa
            res = ("weird", f"crash {type(e).__name__}: {e}")
        did_text = 0
        if res[0] in ("fold", "empty"):
            new = rc_apply(case, res)
            pr = range_property_fails(source, new)
            if pr:
                fails.append(("simplify_constrained_range", {"source": source, "output": new, "problem": pr}))
            if do_text:
                did_text = 1
                with common.quiet():
                    try:
                        new = rule(source)
                    except Exception as e:  # noqa
                        new = f"<crash {type(e).__name__}: {e}>"
                pr = range_property_fails(source, new)
                if pr:
                    fails.append(("simplify_constrained_range", {"source": source, "output": new, "problem": pr}))
        elif res[0] == "weird":
            fails.append(("simplify_constrained_range", {"source": source, "output": None, "problem": res[1]}))
        out.append((case, res, source, fails, did_text))
    return out


def _fmt_eval(srcs):
    """worker: the comprehension inside a function, through format_code; f(n, ..) before/after"""
    fmt = _RANGE_MODS["main"].format_code
    fails = []
    for src in srcs:
        prog = "def f(n, m, p, y):\n    return " + src
        with common.quiet():
            try:
                new = fmt(prog, preserve=frozenset({"f"}))
            except Exception as e:  # noqa
                fails.append(("main.format_code", {"source": prog, "output": None,
                                                   "problem": f"crash {type(e).__name__}: {e}"}))
                continue
        pr = program_property_fails(prog, new)
        if pr:
            fails.append(("main.format_code", {"source": prog, "output": new, "problem": pr}))
    return fails


def check_range(run, mods, rnd, wd, hist, distinct):
    """correspondence + oracles for simplify_constrained_range; returns (files, shards, failures, stats)"""
    rule = mods["symbolic_math"].simplify_constrained_range
    cases, n_single, n_pairs = range_cases(run.tier, rnd)
    items, failures = [], []
    # the real rule + the oracles run in forked workers (the parent imported pyrefact already)
    global _RANGE_MODS
    _RANGE_MODS = mods
    step_t = 9 if run.tier == "quick" else 6
    jobs = [(i, case, i % step_t == run.seed % step_t) for i, case in enumerate(cases)]
    nw = 4 if run.tier == "quick" else 8
    size = max(200, len(jobs) // (nw * 8))
    import multiprocessing
    with multiprocessing.get_context("fork").Pool(nw) as pool:
        parts = pool.map(_range_eval, [jobs[k:k + size] for k in range(0, len(jobs), size)])
    n_text = 0
    for part in parts:
        for case, res, source, fails, did_text in part:
            items.append((case, res, source))
            hist["range:" + res[0]] += 1
            if res[0] in ("fold", "empty"):
                distinct.add(source)
            failures += fails
            n_text += did_text
    files, shards = [], []
    SH = 500
    for k in range(0, len(items), SH):
        shard = items[k:k + SH]
        body = ";\n ".join(f"({glist(c[1], rarg_coq)}, {glist(rc_conds(c), rcond_coq)}, "
                           f"{rverdict_coq(r) if r[0] != 'weird' else 'VFold [] []'})" for (c, r, _) in shard)
        p = wd / f"range_{k // SH}.v"
        p.write_text("From Coq Require Import List ZArith.\nImport ListNotations.\nOpen Scope Z_scope.\n"
                     "Require Import Pyrefact.Base Pyrefact.RangeModel.\n"
                     f"Definition cases : list (list arg * list rcond * verdict) := [\n {body}\n].\n"
                     "Eval vm_compute in (bad_idx range_case_ok cases).\n")
        files.append(p); shards.append([("range",) + it for it in shard])

    # reference semantics vs CPython: list(range(..)) and list(<comprehension>)
    zc = [(a, b, st, list(range(a, b, st))) for a in range(-3, 8) for b in range(-3, 8) for st in (1, 2, 3, 5, -1, -2, -3)]
    zc += [(rnd.randint(-40, 40), rnd.randint(-40, 40), rnd.choice([1, 2, 3, 4, 7, 11, -1, -2, -5])) for _ in range(150)]
    zc = [(c[0], c[1], c[2], list(range(c[0], c[1], c[2]))) for c in zc]
    for k in range(0, len(zc), SH):
        shard = zc[k:k + SH]
        body = ";\n ".join(f"({gz(a)}, {gz(b)}, {gz(st)}, {glist(l, gz)})" for (a, b, st, l) in shard)
        p = wd / f"zrange_{k // SH}.v"
        p.write_text("From Coq Require Import List ZArith.\nImport ListNotations.\nOpen Scope Z_scope.\n"
                     "Require Import Pyrefact.Base Pyrefact.RangeModel.\n"
                     f"Definition cases : list (Z * Z * Z * list Z) := [\n {body}\n].\n"
                     "Eval vm_compute in (bad_idx zrange_case_ok cases).\n")
        files.append(p); shards.append([("zrange",) + it for it in shard])
    sem, seen = [], set()
    pure = [it for it in items if all(c[0] == "cmp" for c in rc_conds(it[0])) and 1 <= len(it[0][1]) <= 3
            and not (len(it[0][1]) == 3 and it[0][1][2] in (0, "n", "m"))]
    for it in pure[::17] + pure[-300:]:
        case = it[0]
        src = rc_source(("list", case[1], case[2]))
        for n in (-1, 3, 6):
            if (src, n) in seen or ("n" not in case[1] and "m" not in case[1] and n != 3):
                continue
            seen.add((src, n))
            v = comp_values(src, n, m=n)
            if v[0] == "list":
                sem.append((case, n, v[1]))
    for k in range(0, len(sem), SH):
        shard = sem[k:k + SH]
        body = ";\n ".join(f"({glist(c[1], rarg_coq)}, {glist(rc_conds(c), rcond_coq)}, {gz(n)}, {glist(l, gz)})"
                           for (c, n, l) in shard)
        p = wd / f"rsem_{k // SH}.v"
        p.write_text("From Coq Require Import List ZArith.\nImport ListNotations.\nOpen Scope Z_scope.\n"
                     "Require Import Pyrefact.Base Pyrefact.RangeModel.\n"
                     f"Definition cases : list (list arg * list rcond * Z * list Z) := [\n {body}\n].\n"
                     "Eval vm_compute in (bad_idx sem_case_ok cases).\n")
        files.append(p); shards.append([("range-sem",) + it for it in shard])

    # the text result of the real rule (shard) and of format_code (smaller shard), plus the fixed witnesses
    fired = [it for it in items if it[1][0] in ("fold", "empty")]
    n_fmt = 0
    e2e = [it[2] for it in fired[run.seed % 97::(len(fired) // (90 if run.tier == "quick" else 1000) or 1)]]
    e2e += [w for _, w in RANGE_WITNESSES]
    with multiprocessing.get_context("fork").Pool(nw) as pool:
        for part in pool.map(_fmt_eval, [e2e[k::nw * 2] for k in range(nw * 2)]):
            failures += part
    n_fmt = len(e2e)
    for fid, w in RANGE_WITNESSES:
        with common.quiet():
            try:
                new = rule(w)
            except Exception as e:  # noqa
                new = f"<crash {type(e).__name__}: {e}>"
        pr = range_property_fails(w, new)
        if pr:
            failures.append(("simplify_constrained_range", {"source": w, "output": new, "problem": f"[{fid} witness] {pr}"}))
    stats = {"cases": len(items), "single_filter_exhaustive": n_single, "pair_shard": n_pairs, "fired": len(fired),
             "zrange_cases": len(zc), "sem_cases": len(sem), "text_oracle": n_text, "format_code_oracle": n_fmt,
             "samples": [items[7][2], items[n_single + 5][2], items[-1][2]]}
    return files, shards, failures, stats


# ---- simplify_boolean_expressions_symmath: translation validation ---------------------------------
# formula terms: ("name", v) | ("cmp", v, op, c, flipped) | ("opq", i) | ("const", b) | ("not", f)
#                | ("and", [f..]) | ("or", [f..])         (v indexes SVARS, op is a key of BOP_TXT)
#                | ("chain", v, op1, c1, op2, c2)         the chained comparison `c1 op1 v op2 c2`: ONE atom to the rule
#                  (its text), the conjunction `c1 op1 v and v op2 c2` of two boolean atoms to the checker (sf_coq)
SVARS = ["x", "y", "z"]
SBOX = range(-3, 6)          # strictly contains every constant used below ([-1, 3])


def sf_text(f, top=True) -> str:
    k = f[0]
    if k == "name":
        return SVARS[f[1]]
    if k == "cmp":
        _, v, op, c, fl = f
        return f"{c} {BOP_TXT[op]} {SVARS[v]}" if fl else f"{SVARS[v]} {BOP_TXT[op]} {c}"
    if k == "opq":
        return f"o{f[1]}()"
    if k == "chain":
        _, v, o1, c1, o2, c2 = f
        return f"{c1} {BOP_TXT[o1]} {SVARS[v]} {BOP_TXT[o2]} {c2}"
    if k == "const":
        return "True" if f[1] else "False"
    if k == "not":
        return f"not {sf_text(f[1], False)}" if f[1][0] != "chain" else f"not ({sf_text(f[1])})"
    s = f" {k} ".join(sf_text(v, False) for v in f[1])
    return s if top else f"({s})"


def sf_coq(f) -> str:
    k = f[0]
    if k == "name":
        return f"(PAtom (AName {f[1]}))"
    if k == "cmp":
        return f"(PAtom (ACmp {f[1]} {f[2]} {gz(f[3])} {gbool(f[4])}))"
    if k == "opq":
        return f"(PAtom (AOpq {f[1]}))"
    if k == "chain":
        _, v, o1, c1, o2, c2 = f
        return f"(PAnd (PAtom (ACmp {v} {o1} {gz(c1)} true)) (PAtom (ACmp {v} {o2} {gz(c2)} false)))"
    if k == "const":
        return f"(PConst {gbool(f[1])})"
    if k == "not":
        return f"(PNot {sf_coq(f[1])})"
    # `a and b and c` is `a and (b and c)`: same value, same evaluation order
    con = "PAnd" if k == "and" else "POr"
    vs = f[1]
    out = sf_coq(vs[-1])
    for v in reversed(vs[:-1]):
        out = f"({con} {sf_coq(v)} {out})"
    return out


_AST_BOP = {ast.Eq: "BEq", ast.NotEq: "BNe", ast.Gt: "BGt", ast.Lt: "BLt", ast.GtE: "BGe", ast.LtE: "BLe"}


def _int_const(n):
    if isinstance(n, ast.Constant) and type(n.value) is int:
        return n.value
    if isinstance(n, ast.UnaryOp) and isinstance(n.op, ast.USub) and isinstance(n.operand, ast.Constant) \
            and type(n.operand.value) is int:
        return -n.operand.value
    return None


def sf_of_ast(n) -> tuple:
    """AST of a condition (input node or the rule's replacement) -> formula term; ValueError outside the language"""
    if isinstance(n, ast.BoolOp):
        return ("and" if isinstance(n.op, ast.And) else "or", [sf_of_ast(v) for v in n.values])
    if isinstance(n, ast.UnaryOp) and isinstance(n.op, ast.Not):
        return ("not", sf_of_ast(n.operand))
    if isinstance(n, ast.Constant) and isinstance(n.value, bool):
        return ("const", n.value)
    if isinstance(n, ast.Name) and n.id in SVARS:
        return ("name", SVARS.index(n.id))
    if isinstance(n, ast.Call) and isinstance(n.func, ast.Name) and re.fullmatch(r"o\d", n.func.id) and not n.args:
        return ("opq", int(n.func.id[1:]))
    if isinstance(n, ast.Compare) and len(n.ops) == 1 and type(n.ops[0]) in _AST_BOP:
        l, r = n.left, n.comparators[0]
        if isinstance(l, ast.Name) and l.id in SVARS and _int_const(r) is not None:
            return ("cmp", SVARS.index(l.id), _AST_BOP[type(n.ops[0])], _int_const(r), False)
        if isinstance(r, ast.Name) and r.id in SVARS and _int_const(l) is not None:
            return ("cmp", SVARS.index(r.id), _AST_BOP[type(n.ops[0])], _int_const(l), True)
    if isinstance(n, ast.Compare) and len(n.ops) == 2 and all(type(o) in _AST_BOP for o in n.ops):
        l, m, r = n.left, n.comparators[0], n.comparators[1]
        if isinstance(m, ast.Name) and m.id in SVARS and _int_const(l) is not None and _int_const(r) is not None:
            return ("chain", SVARS.index(m.id), _AST_BOP[type(n.ops[0])], _int_const(l), _AST_BOP[type(n.ops[1])], _int_const(r))
    raise ValueError("outside the formula language: " + ast.dump(n))


def truth_tested(root) -> set:
    """ids of the expression nodes of which only the truth value can be observed (the harness's own reading of
    Python, independent of symbolic_math._truth_tested_nodes): tests of if / while / conditional expressions /
    assert / comprehension filters, operands of `not`, unused expression statements, and operands of and/or in
    such a position"""
    work = []
    for n in ast.walk(root):
        if isinstance(n, (ast.If, ast.While, ast.IfExp, ast.Assert)):
            work.append(n.test)
        elif isinstance(n, ast.comprehension):
            work += n.ifs
        elif isinstance(n, ast.UnaryOp) and isinstance(n.op, ast.Not):
            work.append(n.operand)
        elif isinstance(n, ast.Expr):
            work.append(n.value)
    out = set()
    while work:
        n = work.pop()
        out.add(id(n))
        if isinstance(n, ast.BoolOp):
            work += n.values
    return out


SYM_SHAPES = {          # how the formula is embedded; True = only its truth value is used
    "assign": ("y = {f}\n", False), "if": ("if {f}:\n    pass\n", True), "ifexp": ("y = 1 if {f} else 2\n", True),
    "not": ("y = not ({f})\n", True), "call": ("print({f})\n", False), "return": ("def g(x, y, z):\n    return {f}\n", False),
    "while": ("while {f}:\n    break\n", True), "comp": ("y = [1 for _ in (1,) if {f}]\n", True),
    "expr": ("{f}\n", True), "nested": ("y = ({f}) or x\n", False), "assert": ("assert {f}\n", True),
    "ifexp_body": ("y = ({f}) if z else 0\n", False), "subscript": ("y = t[{f}]\n", False),
}


def sf_vars_used(f, acc=None):
    """(variables compared with constants, variables used as bare operands, opaque calls)"""
    acc = acc if acc is not None else (set(), set(), set())
    if f[0] in ("cmp", "chain"):
        acc[0].add(f[1])
    elif f[0] == "name":
        acc[1].add(f[1])
    elif f[0] == "opq":
        acc[2].add(f[1])
    elif f[0] == "not":
        sf_vars_used(f[1], acc)
    elif f[0] in ("and", "or"):
        for v in f[1]:
            sf_vars_used(v, acc)
    return acc


NAME_BOX = [(0, 2), (0, 3), (0, 5)]     # a variable that is only used as a bare operand: zero / a value of its own


def sym_pair_fails(f, g, ctx) -> str | None:
    """the property's oracle on one (input, output) pair: CPython's value (or truth value where only that is
    used) of both texts under every integer valuation of the box and every truth value of the opaque calls"""
    a, b = compile(sf_text(f), "<in>", "eval"), compile(sf_text(g), "<out>", "eval")
    cs, ns, os_ = set(), set(), set()
    for h in (f, g):
        u = sf_vars_used(h)
        cs |= u[0]; ns |= u[1]; os_ |= u[2]
    boxes = [SBOX if i in cs else NAME_BOX[i] if i in ns else (0,) for i in range(3)]
    obox = [(False, True) if i in os_ else (False,) for i in range(2)]
    for x, y, z in itertools.product(*boxes):
        for o in itertools.product(*obox):
            env = {"x": x, "y": y, "z": z, "o0": (lambda o=o: o[0]), "o1": (lambda o=o: o[1])}
            va, vb = eval(a, {"__builtins__": {}}, env), eval(b, {"__builtins__": {}}, dict(env))
            if ctx:
                if bool(va) != bool(vb):
                    return f"x={x} y={y} z={z} o0()={o[0]} o1()={o[1]}: truth value {bool(va)} vs {bool(vb)}"
            elif va != vb or type(va) is not type(vb):
                return f"x={x} y={y} z={z} o0()={o[0]} o1()={o[1]}: value {va!r} vs {vb!r}"
    return None


def sym_leaf_forms(n, atoms):
    """all binary and/or trees with n leaves over the atoms, `not` on leaves only"""
    if n == 1:
        for a in atoms:
            yield a
            yield ("not", a)
        return
    for k in range(1, n):
        for l in sym_leaf_forms(k, atoms):
            for r in sym_leaf_forms(n - k, atoms):
                yield ("and", [l, r])
                yield ("or", [l, r])


SYM_POOLS = {
    "names": [("name", 0), ("name", 1), ("name", 2)],
    "cmps": [("cmp", 0, "BGt", 1, False), ("cmp", 0, "BLe", 1, False), ("cmp", 0, "BEq", 2, False)],
    "mixed": [("name", 0), ("cmp", 0, "BGt", 0, False), ("opq", 0)],
    # round 5: chained comparisons are atoms of the rule, related to the bounds on the same variable only semantically
    "chains": [("chain", 0, "BLt", 0, "BLt", 3), ("cmp", 0, "BGt", 1, False), ("chain", 0, "BLe", 1, "BLe", 2)],
}


def sym_atom(rnd):
    k = rnd.random()
    if k < 0.35:
        return ("name", rnd.randrange(3))
    if k < 0.72:
        return ("cmp", rnd.choice([0, 0, 1]), rnd.choice(BOPS), rnd.choice([-1, 0, 1, 2, 3]), rnd.random() < 0.2)
    if k < 0.8:
        return ("chain", rnd.choice([0, 0, 1]), rnd.choice(BOPS), rnd.choice([-1, 0, 1]), rnd.choice(BOPS), rnd.choice([1, 2, 3]))
    if k < 0.93:
        return ("opq", rnd.randrange(2))
    return ("const", rnd.random() < 0.5)


def sym_rand(rnd, palette, depth=0):
    """a random formula over a palette of at most 5 atoms (sympy's minimisation is exponential in the atoms)"""
    r = rnd.random()
    if depth >= 3 or r < 0.42:
        return rnd.choice(palette)
    if r < 0.55:
        return ("not", sym_rand(rnd, palette, depth + 1))
    return (rnd.choice(["and", "or"]), [sym_rand(rnd, palette, depth + 1) for _ in range(rnd.randint(2, 4))])


def sym_cases(tier, rnd):
    """(formula, shape) list: exhaustive small scope first (seed independent), then seeded random"""
    cases = []
    stride4 = 48 if tier == "quick" else 1
    k = 0
    for pool, atoms in SYM_POOLS.items():
        shapes = {"names": ["if", "if", "not", "assign"], "cmps": ["assign", "if", "return", "ifexp"],
                  "mixed": ["if", "assign", "comp", "call"], "chains": ["if", "assign", "not", "return"]}[pool]
        for n in ((2, 3, 4) if pool != "chains" or tier != "quick" else (2, 3)):
            for f in sym_leaf_forms(n, atoms):
                k += 1
                if n < 4 or k % (stride4 if pool != "chains" else 4) == 0:
                    cases.append((f, shapes[k % len(shapes)]))
    n_exh = len(cases)
    shapes = sorted(SYM_SHAPES)
    for _ in range(600 if tier == "quick" else 20000):
        palette = [sym_atom(rnd) for _ in range(rnd.randint(2, 5))]
        f = sym_rand(rnd, palette)
        while f[0] not in ("and", "or", "not"):
            f = sym_rand(rnd, palette)
        cases.append((f, rnd.choice(shapes)))
    # n-ary and duplicated-operand forms sympy collapses
    for a, b in itertools.permutations(SYM_POOLS["names"] + SYM_POOLS["cmps"][:2], 2):
        cases.append((("and", [a, b, a]), "if"))
        cases.append((("or", [a, ("and", [a, b]), b]), "assign"))
        cases.append((("or", [("and", [a, b]), ("and", [a, ("not", b)])]), "ifexp"))
        cases.append((("or", [("and", [a, b]), ("and", [a, ("not", b)])]), "assign"))
    return cases, n_exh


_SYM_MODS = None


def _sym_eval(jobs):
    """worker: the real rule on every case; every (node, replacement) it yields -> (input term, output term,
    truth-context flag by the harness's own reading) + the CPython oracle on the pair"""
    mods = _SYM_MODS
    core, sm = mods["core"], mods["symbolic_math"]
    out, memo = [], {}
    for f, shape in jobs:
        tmpl, _ = SYM_SHAPES[shape]
        source = tmpl.format(f=sf_text(f))
        pairs, problems = [], []
        try:
            with common.quiet():
                root = core.parse(source)
                tt = truth_tested(root)
                ys = [(it[0], it[1]) for it in sm.simplify_boolean_expressions_symmath._fix_func(source)]
            for node, repl in ys:
                try:
                    fi, fo = sf_of_ast(node), sf_of_ast(repl)
                except ValueError as e:
                    problems.append(f"{e}")
                    continue
                ctx = id(node) in tt
                key = (sf_text(fi), sf_text(fo), ctx)
                if key not in memo:
                    memo[key] = sym_pair_fails(fi, fo, ctx)
                pairs.append((fi, fo, ctx, memo[key]))
        except Exception as e:  # noqa
            problems.append(f"crash {type(e).__name__}: {e}")
        out.append((f, shape, source, pairs, problems))
    return out


def check_symmath(run, mods, rnd, wd, hist, distinct):
    """every output of the real sympy rule is validated by the verified checkers of BoolEquivModel.v"""
    global _SYM_MODS
    _SYM_MODS = mods
    cases, n_exh = sym_cases(run.tier, rnd)
    nw = 4 if run.tier == "quick" else 8
    size = max(100, len(cases) // (nw * 6))
    import multiprocessing
    with multiprocessing.get_context("fork").Pool(nw) as pool:
        parts = pool.map(_sym_eval, [cases[k:k + size] for k in range(0, len(cases), size)])
    pairs, failures, seen, n_yields = [], [], set(), 0
    for part in parts:
        for f, shape, source, ps_, problems in part:
            hist["symmath:" + ("yield" if ps_ else "none")] += 1
            for pr in problems:
                failures.append(("simplify_boolean_expressions_symmath", {"source": source, "output": None, "problem": pr}))
            for fi, fo, ctx, pyfail in ps_:
                n_yields += 1
                key = (sf_text(fi), sf_text(fo), ctx)
                if key in seen:
                    continue
                seen.add(key)
                pairs.append((fi, fo, ctx, pyfail, source))
                distinct.add("sym:" + " => ".join(key[:2]) + (" [truth]" if ctx else " [value]"))
                hist["symmath:pair:" + ("truth-ctx" if ctx else "value-ctx")] += 1
    files, shards = [], []
    SH = 2500
    for k in range(0, len(pairs), SH):
        shard = pairs[k:k + SH]
        body = ";\n ".join(f"({sf_coq(fi)}, {sf_coq(fo)}, {gbool(ctx)})" for (fi, fo, ctx, _, _) in shard)
        p = wd / f"symmath_{k // SH}.v"
        p.write_text("From Coq Require Import List ZArith.\nImport ListNotations.\nOpen Scope Z_scope.\n"
                     "Require Import Pyrefact.Base Pyrefact.BoundModel Pyrefact.BoolEquivModel.\n"
                     f"Definition cases : list (form * form * bool) := [\n {body}\n].\n"
                     "Eval vm_compute in (bad_idx sym_case_ok cases).\n")
        files.append(p); shards.append([("symmath",) + it for it in shard])
    # reference semantics veval vs CPython: value of a sample of the formulas at a few valuations
    sem = []
    for f, _ in cases[5::9][:800]:
        code = compile(sf_text(f), "<f>", "eval")
        for (xs, o) in (((1, 0, 2), (True, False)), ((0, 3, -1), (False, True)), ((2, 2, 0), (True, True))):
            env = {"x": xs[0], "y": xs[1], "z": xs[2], "o0": (lambda o=o: o[0]), "o1": (lambda o=o: o[1])}
            sem.append((f, xs, [i for i in range(2) if o[i]], eval(code, {"__builtins__": {}}, env)))
    for k in range(0, len(sem), 800):
        shard = sem[k:k + 800]
        body = ";\n ".join(f"({sf_coq(f)}, [(0%nat, {gz(xs[0])}); (1%nat, {gz(xs[1])}); (2%nat, {gz(xs[2])})], "
                           f"{glist(s, lambda i: str(i) + chr(37) + chr(110)+chr(97)+chr(116))}, {gval(v)})" for (f, xs, s, v) in shard)
        p = wd / f"veval_{k // 800}.v"
        p.write_text("From Coq Require Import List ZArith.\nImport ListNotations.\nOpen Scope Z_scope.\n"
                     "Require Import Pyrefact.Base Pyrefact.BoundModel Pyrefact.BoolEquivModel.\n"
                     f"Definition cases : list (form * list (nat * Z) * list nat * val) := [\n {body}\n].\n"
                     "Eval vm_compute in (bad_idx veval_case_ok cases).\n")
        files.append(p); shards.append([("veval", sf_text(f), xs, s, repr(v)) for (f, xs, s, v) in shard])
    # the CPython oracle on every pair (independent of the checker), and the rule's text result on a shard
    for fi, fo, ctx, pyfail, source in pairs:
        if pyfail:
            failures.append(("simplify_boolean_expressions_symmath",
                             {"source": source, "input": sf_text(fi), "output": sf_text(fo), "truth_context": ctx,
                              "problem": pyfail}))
    stats = {"cases": len(cases), "exhaustive_small_scope": n_exh, "yields": n_yields, "distinct_pairs_validated": len(pairs),
             "veval_cases": len(sem), "samples": [cases[3][0] and SYM_SHAPES[cases[3][1]][0].format(f=sf_text(cases[3][0])),
                                                  SYM_SHAPES[cases[-1][1]][0].format(f=sf_text(cases[-1][0]))]}
    return files, shards, failures, stats


# ---- simplify_math_iterators: sums handed to sympy (translation validation) ---------------------------
# a case: {"elt": text, "gens": [(target, kind, [arg texts])], "form": "list" | "gen"}; kind: range | tuple | list | set
SM_BOX = (-3, 6)


def sm_source(case) -> str:
    gens = []
    for v, kind, args in case["gens"]:
        it = {"range": "range({})", "tuple": "({},)", "list": "[{}]", "set": "{{{}}}"}[kind].format(", ".join(args))
        gens.append(f"for {v} in {it}")
    body = f"{case['elt']} {' '.join(gens)}"
    return f"y = sum([{body}])\n" if case["form"] == "list" else f"y = sum({body})\n"


def ax_of_ast(n, vm):
    """Python arithmetic -> aexp term; vm: name -> variable index (extended on the fly)"""
    if isinstance(n, ast.Constant) and type(n.value) is int:
        return ("num", n.value)
    if isinstance(n, ast.Name):
        return ("var", vm.setdefault(n.id, len(vm)))
    if isinstance(n, ast.UnaryOp) and isinstance(n.op, ast.USub):
        return ("neg", ax_of_ast(n.operand, vm))
    if isinstance(n, ast.UnaryOp) and isinstance(n.op, ast.UAdd):
        return ax_of_ast(n.operand, vm)
    if isinstance(n, ast.BinOp):
        k = {ast.Add: "add", ast.Sub: "sub", ast.Mult: "mul", ast.Div: "div", ast.FloorDiv: "fdiv"}.get(type(n.op))
        if k:
            return (k, ax_of_ast(n.left, vm), ax_of_ast(n.right, vm))
        if isinstance(n.op, ast.Pow) and isinstance(n.right, ast.Constant) and type(n.right.value) is int \
                and 0 <= n.right.value <= 12:
            return ("pow", ax_of_ast(n.left, vm), n.right.value)
    raise ValueError("outside the arithmetic language: " + ast.dump(n))


def ax_text(s, vm):
    return ax_of_ast(ast.parse(s, mode="eval").body, vm)


def ax_coq(a) -> str:
    k = a[0]
    if k == "num":
        return f"(ANum {gz(a[1])})"
    if k == "var":
        return f"(AVar {a[1]})"
    if k == "neg":
        return f"(ANeg {ax_coq(a[1])})"
    if k == "pow":
        return f"(APow {ax_coq(a[1])} {a[2]})"
    return f"({ {'add': 'AAdd', 'sub': 'ASub', 'mul': 'AMul', 'div': 'ADiv', 'fdiv': 'AFdiv'}[k] } {ax_coq(a[1])} {ax_coq(a[2])})"


def ax_vars(a, acc=None):
    acc = set() if acc is None else acc
    if a[0] == "var":
        acc.add(a[1])
    elif a[0] != "num":
        for x in a[1:]:
            if isinstance(x, tuple):
                ax_vars(x, acc)
    return acc


def sm_terms(case):
    """(gens as terms, elt term, vm, free variable indices); ValueError outside the language"""
    vm = {}
    gens = []
    for v, kind, args in case["gens"]:
        # bounds are evaluated before the target is bound: translate them first
        if kind == "range":
            a = [ax_text(x, vm) for x in args]
            lo, hi, st = (("num", 0), a[0], ("num", 1)) if len(a) == 1 else (a[0], a[1], ("num", 1)) if len(a) == 2 \
                else tuple(a)
            gens.append(("range", vm.setdefault(v, len(vm)), lo, hi, st))
        else:
            es = [ax_text(x, vm) for x in args]
            gens.append(("list", vm.setdefault(v, len(vm)), es, kind == "set"))
    elt = ax_text(case["elt"], vm)
    targets = {g[1] for g in gens}
    return gens, elt, vm, sorted(set(vm.values()) - targets)


def sm_gen_coq(g) -> str:
    if g[0] == "range":
        return f"(GRange {g[1]} {ax_coq(g[2])} {ax_coq(g[3])} {ax_coq(g[4])})"
    return f"(GList {g[1]} {glist(g[2], ax_coq)} {gbool(g[3])})"


class _Frac(ast.NodeTransformer):
    """evaluate an emitted closed form exactly: every int literal becomes a Fraction"""
    def visit_Constant(self, n):
        if type(n.value) is int:
            return ast.Call(func=ast.Name(id="_F", ctx=ast.Load()), args=[n], keywords=[])
        return n


def sm_exact(expr_text: str, env):
    import fractions
    tree = ast.fix_missing_locations(_Frac().visit(ast.parse(expr_text, mode="eval")))
    return eval(compile(tree, "<out>", "eval"), {"_F": fractions.Fraction, "__builtins__": {}}, dict(env))


def sm_reversed(case, env) -> bool:
    """does some range that is iterated have its bounds the wrong way round under env (F17-1 / F17-12)?"""
    def go(k, env):
        if k == len(case["gens"]):
            return False
        v, kind, args = case["gens"][k]
        vals = [eval(a, {"__builtins__": {}}, dict(env)) for a in args]
        if kind == "range":
            lo, hi, st = (0, vals[0], 1) if len(vals) == 1 else (vals[0], vals[1], 1) if len(vals) == 2 else vals
            if (st > 0 and hi < lo) or (st < 0 and hi > lo):
                return True
            it = range(lo, hi, st)
        else:
            it = vals
        return any(go(k + 1, {**env, v: z}) for z in it)
    return go(0, env)


def sm_oracle(case, source, new, fv_names):
    """CPython before/after on the box: (None | problem text, failing env, reversed?)"""
    out_text = new[len("y = "):].strip()
    lo, hi = SM_BOX if len(fv_names) <= 2 else (-2, 3)
    first_rev = None
    for vals in itertools.product(range(lo, hi + 1), repeat=len(fv_names)):
        env = dict(zip(fv_names, vals))
        try:
            before = eval(source[len("y = "):], {"sum": sum, "range": range, **env})   # (generators see globals only)
        except Exception as e:  # noqa   (the original raises: the rewrite must raise the same)
            before = ("exc", type(e).__name__)
        try:     # what Python computes for the emitted text: value AND type (an int sum must stay an int)
            after = eval(out_text, {"__builtins__": {}, **env})
        except Exception as e:  # noqa
            after = ("exc", type(e).__name__)
            if before != after:
                return f"the output raises {type(e).__name__}: {e}", env, False
        if after != before or type(after) is not type(before):
            rev = sm_reversed(case, env)
            if not rev:
                return f"value {before!r} became {after!r}", env, False
            first_rev = first_rev or (f"value {before!r} became {after!r}", env, True)
    return first_rev or (None, None, False)


SM_ELTS = ["i", "i * i", "i ** 2 + 3 * i - 2", "2 * i + 1", "i ** 3", "1", "-i", "x * i", "i * (i - 1)", "(i + 1) ** 2",
           "i ** 4 - i"]
SM_SYM_RANGES = [["n"], ["m", "n"], ["2", "n"], ["n", "7"], ["n + 1"], ["-n", "n"], ["m", "n", "1"], ["0", "n", "2"],
                 ["n", "2 * n"], ["m + 1", "n"], ["1", "n"]]


def sm_cases(tier, rnd):
    lit = [[str(b)] for b in range(-2, 6)] + [[str(a), str(b)] for a in range(-2, 5) for b in range(-2, 6)]
    lit += [[str(a), str(b), str(s)] for a in (-1, 0, 2) for b in (0, 3, 6, 7) for s in (2, 3, -1, -2)]
    # negative steps (seed C02-c: ceil replaced by the positive-divisor idiom (b - a + s - 1) // s)
    lit += [[str(a), str(b), str(s)] for a in (3, 7, 9, 11) for b in (-4, 0, 7) for s in (-1, -3, -4)]
    cases = []
    for k, r in enumerate(lit):
        elts = SM_ELTS if tier != "quick" else [SM_ELTS[k % len(SM_ELTS)]]
        for e in dict.fromkeys(elts):
            cases.append({"elt": e, "gens": [("i", "range", r)], "form": ("list", "gen")[k % 2]})
    for k, r in enumerate(SM_SYM_RANGES):
        for j, e in enumerate(SM_ELTS):
            if tier != "quick" or (j + k) % 2 == 0:
                cases.append({"elt": e, "gens": [("i", "range", r)], "form": "list"})
    nested = [
        ("i * j", [("i", "range", ["3"]), ("j", "range", ["4"])]), ("i * j", [("i", "range", ["n"]), ("j", "range", ["i"])]),
        ("i + j", [("i", "range", ["4"]), ("j", "range", ["i", "5"])]), ("1", [("i", "range", ["n"]), ("j", "range", ["i", "n"])]),
        ("i", [("i", "range", ["3"]), ("i", "range", ["2"])]), ("i * j", [("i", "range", ["4"]), ("j", "range", ["i"])]),
        ("j", [("i", "range", ["3"]), ("j", "tuple", ["i", "2"])]), ("i * j - j", [("i", "range", ["1", "n"]), ("j", "range", ["m"])]),
        ("x * a ** 3 - a * z ** 2", [("a", "range", ["10", "19", "2"]), ("z", "range", ["3", "7"]), ("x", "range", ["1", "9", "5"])]),
        ("x * a ** 3 - a * z ** 2", [("a", "range", ["10", "19", "2"]), ("z", "set", ["3", "4", "5", "6", "6", "5"]), ("x", "range", ["1", "3"])]),
        ("a * a", [("a", "tuple", ["1", "2", "2"])]), ("a * a", [("a", "set", ["1", "2", "2"])]), ("a * a", [("a", "list", ["1", "2", "2"])]),
        ("a", [("a", "list", ["1", "2", "n"])]), ("a * a", [("a", "tuple", ["n", "n"])]), ("a * a", [("a", "set", ["n", "n", "3"])]),
        ("a + b + c + d", [("_", "range", ["k", "w"])]), ("i * j", [("i", "range", ["2", "n"]), ("j", "range", ["0", "i", "2"])]),
        ("i + j", [("i", "range", ["n"]), ("j", "range", ["m"])]), ("i - j", [("i", "range", ["n", "m"]), ("j", "tuple", ["1", "-1"])]),
    ]
    for e, g in nested:
        cases.append({"elt": e, "gens": g, "form": "list"})
        cases.append({"elt": e, "gens": g, "form": "gen"})
    for _ in range(30 if tier == "quick" else 1500):
        deg = rnd.randint(0, 3)
        e = " + ".join(f"{rnd.randint(-3, 4)} * i ** {d}" for d in range(deg + 1))
        r = rnd.choice(SM_SYM_RANGES[:6] + [[str(rnd.randint(-3, 3)), str(rnd.randint(-3, 8))],
                                            [str(rnd.randint(-3, 3)), str(rnd.randint(-3, 8)), str(rnd.choice([1, 2, 3, -1, -2]))]])
        cases.append({"elt": e, "gens": [("i", "range", r)], "form": rnd.choice(["list", "gen"])})
    return cases


# inputs the pre-repair rule got wrong; they must pass from now on (fixed: F17-13..F17-18)
SM_WITNESSES = [
    ("F17-13", "y = sum(range(0, 10, 2))\n"), ("F17-14", "y = sum([i for i in range(0, 9, 3)])\n"),
    ("F17-14", "y = sum([i + 1 for i in range(10, 0, -1)])\n"), ("F17-14", "n = 7\ny = sum([i for i in range(0, n, 2)])\n"),
    ("F17-15", "n = 4\ny = sum([i * j for i in range(n) for j in range(i)])\n"),
    ("F17-15", "y = sum([i for i in range(3) for i in range(2)])\n"),
    ("F17-16", "I = 3\ny = sum([I * I * i for i in range(3)])\n"), ("F17-16", "S = 2\ny = sum([S * i for i in range(3)])\n"),
    ("F17-16", "y = sum([i ^ 1 for i in range(3)])\n"), ("F17-16", "n = 5\ny = sum([i // 2 for i in range(n)])\n"),
    ("F17-16", "a = 7\ny = sum(range(a % 5))\n"), ("F17-17", "y = sum([1 << 2, 3])\n"),
    ("F17-18", "y = sum(range(5, 3))\n"), ("F17-18", "y = sum([i ** 3 for i in range(5, 2)])\n"),
    ("seed C02-c", "y = sum([a for a in range(11, 0, -3)])\n"), ("seed C02-c", "y = sum([i + 1 for i in range(3, -4, -1)])\n"),
    ("seed C02-c", "y = sum([1 for i in range(7, 7, -4)])\n"), ("seed C02-c", "y = sum([a * a for a in range(9, 0, -3)])\n"),
]

BOOL_WITNESSES = [
    ("F17-10", "simplify_boolean_expressions", "y = p0 and True\n"),
    ("F17-10", "simplify_boolean_expressions", "y = p0 and False and p1\n"),
    ("F17-10", "simplify_boolean_expressions", "y = x > 3 and p0 and x > 2\n"),
    ("F17-10", "simplify_boolean_expressions", "y = p0 or not p0\n"),
    ("F17-10", "simplify_boolean_expressions", "y = 0 or p1 or True\n"),
    ("F17-11", "simplify_boolean_expressions_symmath", "y = (p0 and p1) or (p0 and not p1)\n"),
    ("F17-11", "simplify_boolean_expressions_symmath", "y = not (p0 or (not p2 and not p0))\n"),
    ("F17-11", "simplify_boolean_expressions_symmath", "y = (x > 1 and p1) or (x > 1 and not p1)\n"),
]

# structural predicates of the known findings of this property (keyed by sig=)
C17_SIGS = {"sum_reversed_range": lambda item: bool(item.get("reversed_range"))}

_SM_MODS = None


def _sm_eval(jobs):
    """worker: the real rule (text result) on each case + the CPython oracle"""
    rule = _SM_MODS["symbolic_math"].simplify_math_iterators
    out = []
    for case in jobs:
        source = sm_source(case)
        try:
            with common.quiet():
                new = rule(source)
        except Exception as e:  # noqa
            out.append((case, source, None, f"crash {type(e).__name__}: {e}", None, False))
            continue
        if new == source:
            out.append((case, source, new, None, None, False))
            continue
        names = sorted({n.id for n in ast.walk(ast.parse(source)) if isinstance(n, ast.Name)}
                       - {"sum", "range", "y"} - {g[0] for g in case["gens"]})
        try:
            pr, env, rev = sm_oracle(case, source, new, names)
        except Exception as e:  # noqa
            pr, env, rev = f"oracle crashed: {type(e).__name__}: {e}", None, False
        out.append((case, source, new, pr, env, rev))
    return out


def check_sums(run, mods, rnd, wd, hist, distinct):
    """every closed form the real rule emits for a sum over ranges / displays is validated in Coq against the
    reference semantics comp_sum on a box, proved for all lo <= hi where the telescoping theorem applies, and
    compared with CPython"""
    global _SM_MODS
    _SM_MODS = mods
    cases = sm_cases(run.tier, rnd)
    nw = 4 if run.tier == "quick" else 8
    import multiprocessing
    size = max(20, len(cases) // (nw * 4))
    with multiprocessing.get_context("fork").Pool(nw) as pool:
        parts = pool.map(_sm_eval, [cases[k:k + size] for k in range(0, len(cases), size)])
    results = [r for part in parts for r in part]
    failures, known, coq_cases, proofs, semc = [], [], [], [], []
    for case, source, new, pr, env, rev in results:
        fired = new is not None and new != source
        hist["sums:" + ("crash" if new is None else "fired" if fired else "none")] += 1
        if new is None:
            failures.append(("simplify_math_iterators", {"source": source, "output": None, "problem": pr}))
            continue
        try:
            gens, elt, vm, fv = sm_terms(case)
        except ValueError:
            gens = None
        if gens is not None and not fv:
            # reference semantics vs CPython (closed cases): Python's own sum
            try:
                v = eval(source[len("y = "):], {"sum": sum, "range": range})
                if isinstance(v, int):
                    semc.append((gens, elt, [], (v, 1), source))
            except Exception:  # noqa
                pass
        if not fired:
            continue
        distinct.add(source)
        if pr:
            item = {"source": source, "output": new, "problem": pr, "valuation": env, "reversed_range": rev}
            (known if rev else failures).append(("simplify_math_iterators", item))
        if gens is None:
            hist["sums:outside-model"] += 1
            continue
        try:
            vm2 = dict(vm)
            out = ax_text(new[len("y = "):].strip(), vm2)
            if len(vm2) != len(vm):
                raise ValueError("the output mentions a new name")
        except (ValueError, SyntaxError):
            hist["sums:output-outside-model"] += 1
            continue
        box = SM_BOX if len(fv) <= 2 else (-2, 3)
        coq_cases.append((gens, elt, out, fv, box, source, new, pr, rev))
        # the telescoping proof: one range with step 1 whose upper bound is a free variable that occurs
        # nowhere else
        if len(gens) == 1 and gens[0][0] == "range" and gens[0][4] == ("num", 1) and gens[0][3][0] == "var":
            nv = gens[0][3][1]
            if nv in fv and nv not in ax_vars(gens[0][2]) and nv not in ax_vars(elt):
                # the repaired rule writes N // d for the exact quotient: the instance proves sum == N / d over Q for
                # all lo <= hi; SumPolyProofs.floor_exact turns that into N // d because the sum is an integer
                exact = ("div", out[1], out[2]) if out[0] == "fdiv" and out[2][0] == "num" else out
                proofs.append((gens[0], elt, exact, nv, source, new))
    files, shards = [], []
    body = ";\n ".join(f"({glist(g, sm_gen_coq)}, {ax_coq(e)}, {ax_coq(o)}, {glist(fv, lambda i: str(i) + '%nat')}, "
                       f"({gz(box[0])}, {gz(box[1])}))" for (g, e, o, fv, box, *_r) in coq_cases)
    pcode = wd / "sumcodes.v"
    pcode.write_text("From Coq Require Import List ZArith QArith.\nImport ListNotations.\nOpen Scope Z_scope.\n"
                     "Require Import Pyrefact.Base Pyrefact.SumPolyModel.\n"
                     f"Definition cases : list sum_case := [\n {body}\n].\n"
                     "Eval vm_compute in (map sum_case_code cases).\n")
    for k in range(0, len(semc), 400):
        shard = semc[k:k + 400]
        body = ";\n ".join(f"({glist(g, sm_gen_coq)}, {ax_coq(e)}, [], ({gz(v[0])}, {v[1]}%positive))" for (g, e, _a, v, _s) in shard)
        p = wd / f"sumsem_{k // 400}.v"
        p.write_text("From Coq Require Import List ZArith QArith.\nImport ListNotations.\nOpen Scope Z_scope.\n"
                     "Require Import Pyrefact.Base Pyrefact.SumPolyModel.\n"
                     f"Definition cases : list (list gen * aexp * list (nat * Z) * (Z * positive)) := [\n {body}\n].\n"
                     "Eval vm_compute in (bad_idx comp_sum_case_ok cases).\n")
        files.append(p); shards.append([("comp_sum", s[4], s[3]) for s in shard])
    pfiles = []
    PSH = 12
    for k in range(0, len(proofs), PSH):
        goals = []
        for j, (g, e, o, nv, _s, _n) in enumerate(proofs[k:k + PSH], start=k):
            x, lo = g[1], ax_coq(g[2])
            goals.append(
                f"Goal True.\n  tryif (assert (forall (rho : nat -> Z) (a : Z), zeval rho {lo} = Some a -> (a <= rho {nv}%nat)%Z ->\n"
                f"    exists v, comp_sum [GRange {x} {lo} (AVar {nv}) (ANum 1)] rho {ax_coq(e)} = Some v /\\ (v == aeval rho {ax_coq(o)})%Q) by\n"
                f"   (intros rho a Ha H; cbn [zeval option_map] in Ha; injection Ha as <-;\n"
                f"    eapply (closed_form_valid {x} {lo} (AVar {nv}) _ _ rho _ (rho {nv}%nat) (fun k => aeval (upd rho {nv} k) {ax_coq(o)}));\n"
                f"    [ reflexivity | reflexivity | exact H\n"
                f"    | intros k; cbn [aeval qpow upd Nat.eqb]; rewrite ?inject_Z_plus, ?inject_Z_mult, ?inject_Z_opp; field\n"
                f"    | cbn [aeval qpow upd Nat.eqb]; rewrite ?inject_Z_plus, ?inject_Z_mult, ?inject_Z_opp; field\n"
                f"    | cbv beta; rewrite (upd_same rho {nv}); reflexivity ]))\n"
                f"  then idtac \"SUMPROOF {j} ACCEPT\" else idtac \"SUMPROOF {j} REJECT\".\n  exact I.\nQed.\n")
        p = wd / f"sumproof_{k // PSH}.v"
        p.write_text("From Coq Require Import List ZArith QArith Field.\nImport ListNotations.\nOpen Scope Z_scope.\n"
                     "Require Import Pyrefact.Base Pyrefact.SumPolyModel Pyrefact.SumPolyProofs.\n" + "\n".join(goals))
        pfiles.append(p)
    stats = {"cases": len(cases), "fired": sum(1 for r in results if r[2] is not None and r[2] != r[1]),
             "closed_forms_checked_in_coq": len(coq_cases), "comp_sum_vs_cpython": len(semc),
             "telescoping_instances": len(proofs),
             "samples": [sm_source(cases[5]), sm_source(cases[-70])]}
    return files, shards, failures, known, stats, (pcode, coq_cases, pfiles, proofs)


def program_property_fails(prog: str, new: str) -> str | None:
    """f(n, m, p, y) before/after format_code: same value (same order) for every n in the box"""
    if new == prog:
        return None
    try:
        envs = []
        for text in (prog, new):
            env = {}
            exec(compile(text, "<prog>", "exec"), env)
            envs.append(env)
    except Exception as e:  # noqa
        return f"output does not run: {type(e).__name__}: {e}"
    if "f" not in envs[1]:
        return "f disappeared"
    for n in range(-3, 9):
        outs = []
        for env in envs:
            try:
                v = env["f"](n, 2, _pfun, 3)
                outs.append(("set", sorted(v)) if isinstance(v, (set, frozenset)) else ("list", list(v)))
            except Exception as e:  # noqa
                outs.append(("exc", type(e).__name__))
        if outs[0] != outs[1]:
            return f"n={n}: before {outs[0]}, after {outs[1]}"
    return None


# ---------------------------------------------------------------------------------------------


def check(run: common.Run):
    wd = common.workdir(PID)
    ps = common.proof_step(run, PID, wd)
    mods = common.import_impl()
    rnd = random.Random(run.seed)
    hist = Counter()

    # ---- bound table / BoolOp branch
    cases, n_pairs = bound_cases(run.tier, rnd)
    items, distinct = [], set()
    for j, (isand, vs) in enumerate(cases):
        # formulas with a bare name among the operands: both contexts (the value-context guard decides);
        # comparison-only formulas are boolean valued, the context cannot matter: alternate
        for ctx in ((False, True) if any(o_has_var(v) for v in vs) else (j % 2 == 1,)):
            try:
                source, res = impl_bound(mods, isand, vs, ctx)
            except Exception as e:  # noqa
                res, source = ("crash", type(e).__name__), bound_source(isand, vs, ctx)
            items.append((isand, vs, res, source, ctx))
            hist["bound:" + res[0] + (":truth-ctx" if ctx else ":value-ctx")] += 1
            if any(o_has_chain(v) for v in vs):
                hist["bound:with-chain:" + res[0]] += 1
            if res[0] != "none":
                distinct.add(source)
    files, shards = [], []
    SH = 500
    for k in range(0, len(items), SH):
        shard = items[k:k + SH]
        body = ";\n ".join(f"(mkBCase {gbool(c)} {gbool(i)} {glist(vs, o_coq)} {r_coq(r)})" for (i, vs, r, _, c) in shard)
        p = wd / f"bound_{k // SH}.v"
        p.write_text("From Coq Require Import List ZArith.\nImport ListNotations.\nOpen Scope Z_scope.\n"
                     "Require Import Pyrefact.Base Pyrefact.BoundModel.\n"
                     f"Definition cases : list bound_case := [\n {body}\n].\n"
                     "Eval vm_compute in (bad_idx bound_case_ok cases).\n")
        files.append(p); shards.append(shard)

    # ---- reference semantics: BoundModel.opval (the VALUE of and/or/not/comparisons) vs CPython
    ov = []
    for (isand, vs, res, source, ctx) in items[3::7][:700] + [it for it in items if any(o_has_var(v) for v in it[1])][:300]:
        code = compile(o_text(("bool", isand, vs), top=True), "<o>", "eval")
        for xs, pv in (((1, 0, 0), (0, 3, 0)), ((2, 3, 0), (3, 0, 3)), ((0, -1, 0), (True, 3, 0))):
            v = eval(code, {"__builtins__": {}}, {"x": xs[0], "y": xs[1], "z": xs[2], "p0": pv[0], "p1": pv[1], "p2": pv[2]})
            ov.append((("bool", isand, vs), xs, pv, v))
    for k in range(0, len(ov), 1000):
        shard = ov[k:k + 1000]
        body = ";\n ".join(f"({o_coq(o)}, {glist(xs, gz)}, {glist(pv, gval)}, {gval(v)})" for (o, xs, pv, v) in shard)
        p = wd / f"opval_{k // 1000}.v"
        p.write_text("From Coq Require Import List ZArith.\nImport ListNotations.\nOpen Scope Z_scope.\n"
                     "Require Import Pyrefact.Base Pyrefact.BoundModel.\n"
                     f"Definition cases : list (operand * list Z * list val * val) := [\n {body}\n].\n"
                     "Eval vm_compute in (bad_idx opval_case_ok cases).\n")
        files.append(p); shards.append([("opval", o_text(o, top=True), xs, pv, repr(v)) for (o, xs, pv, v) in shard])

    # ---- negate
    ncases = negate_cases(run.tier, rnd)
    nitems = []
    for c in ncases:
        nc, nc_text = impl_negate(mods, c)
        nitems.append((c, nc, nc_text))
        hist["negate:" + c[0]] += 1
        distinct.add("neg:" + c_text(c))
    for k in range(0, len(nitems), 800):
        shard = nitems[k:k + 800]
        body = ";\n ".join(f"({c_coq(c)}, {c_coq(nc)})" for c, nc, _ in shard)
        p = wd / f"negate_{k // 800}.v"
        p.write_text("From Coq Require Import List ZArith.\nImport ListNotations.\n"
                     "Require Import Pyrefact.Base Pyrefact.Ops Pyrefact.BoundModel Pyrefact.BoolRwModel.\n"
                     f"Definition cases : list (cond * cond) := [\n {body}\n].\n"
                     "Eval vm_compute in (bad_idx negate_case_ok cases).\n")
        files.append(p); shards.append([("negate", c_text(c), t) for c, nc, t in shard])

    # ---- redundant masks: exhaustive for all masks up to length 5 (quick) / 7 (thorough)
    ritems = []
    maxlen = 5 if run.tier == "quick" else 7
    for n in range(2, maxlen + 1):
        for mask in itertools.product(["Truthy", "Falsy", "Unknown"], repeat=n):
            for isand in (True, False):
                src, red = impl_redundant(mods, isand, mask)
                ritems.append((isand, mask, red, src))
                if any(red):
                    distinct.add(src)
    for k in range(0, len(ritems), 800):
        shard = ritems[k:k + 800]
        body = ";\n ".join(f"({gbool(i)}, {glist(m)}, {glist(r, gbool)})" for (i, m, r, _) in shard)
        p = wd / f"redundant_{k // 800}.v"
        p.write_text("From Coq Require Import List ZArith.\nImport ListNotations.\n"
                     "Require Import Pyrefact.Base Pyrefact.Ops Pyrefact.BoundModel Pyrefact.BoolRwModel.\n"
                     f"Definition cases : list (bool * list tri * list bool) := [\n {body}\n].\n"
                     "Eval vm_compute in (bad_idx redundant_case_ok cases).\n")
        files.append(p); shards.append([("redundant",) + it for it in shard])

    # ---- sum(range) closed forms
    sums = sum_cases(mods)
    body = ";\n ".join(f"({gbool(s['form'] in ('two', 'one'))}, {gz(s['a'])}, {gz(s['b'])}, {gz(int(2 * s['value']))})"
                       for s in sums if isinstance(s["value"], (int, float)) and float(2 * s["value"]).is_integer())
    p = wd / "sums.v"
    p.write_text("From Coq Require Import List ZArith.\nImport ListNotations.\nOpen Scope Z_scope.\n"
                 "Require Import Pyrefact.Base Pyrefact.Ops Pyrefact.BoundModel Pyrefact.BoolRwModel.\n"
                 f"Definition cases : list (bool * Z * Z * Z) := [\n {body}\n].\n"
                 "Eval vm_compute in (bad_idx (fun c => let '(lit, a, b, v) := c in sum_range_out2 lit a b =? v) cases).\n")
    files.append(p)
    shards.append([("sum", s) for s in sums if isinstance(s["value"], (int, float)) and float(2 * s["value"]).is_integer()])
    sum_unrepresentable = [s for s in sums if not (isinstance(s["value"], (int, float)) and float(2 * s["value"]).is_integer())]

    # ---- simplify_constrained_range
    t_range = time.time()
    rfiles, rshards, rfailures, rstats = check_range(run, mods, rnd, wd, hist, distinct)
    rstats["python_wall_s"] = round(time.time() - t_range, 1)
    files += rfiles; shards += rshards

    # ---- simplify_boolean_expressions_symmath (sympy): translation validation
    t_sym = time.time()
    sfiles, sshards, sfailures, sstats = check_symmath(run, mods, rnd, wd, hist, distinct)
    sstats["python_wall_s"] = round(time.time() - t_sym, 1)
    files += sfiles; shards += sshards

    # ---- round 4 (hunt reports): program-level families -- sums in contexts / with non-arithmetic, float and
    # failing summands, guard idioms, effectful / walrus / conditional-expression operands, fix_if_return/assign,
    # ignore comments on one of two coupled edits
    t_h = time.time()
    hresults, hfailures = c17_hunt.sweep(mods, run.tier, rnd)
    for fam, _m, _r, src_, new_, problem, _at in hresults:
        hist[f"hunt:{fam}:" + ("failed" if problem else "rewritten" if new_ != src_ else "unchanged")] += 1
        if new_ is not None and new_ != src_:
            distinct.add("hunt:" + src_)
    hstats = {"cases": len(hresults), "rewritten": sum(1 for r_ in hresults if r_[4] is not None and r_[4] != r_[3]),
              "python_wall_s": round(time.time() - t_h, 1)}

    # ---- simplify_math_iterators: sums over ranges / displays computed by sympy
    t_sm = time.time()
    mfiles, mshards, mfailures, mknown, mstats, (pcode, coq_cases, pfiles, proofs) = check_sums(run, mods, rnd, wd, hist, distinct)
    mstats["python_wall_s"] = round(time.time() - t_sm, 1)
    files += mfiles; shards += mshards

    results = common.run_case_files(files + [pcode] + pfiles)
    disagreements = []
    # verdict codes of the emitted closed forms (0 equal on the box, 1 differs only where a range is reversed,
    # 2 differs elsewhere, 3 outside the model)
    rc, out = results[pcode]
    codes = common.parse_nat_list(out) if rc == 0 else None
    if codes is None or len(codes) != len(coq_cases):
        disagreements.append(("eval-failed", pcode.name, out[-1500:]))
    else:
        for code, (g, e, o, fv, box, source, new, pr, rev) in zip(codes, coq_cases):
            hist[f"sums:coq-code-{code}"] += 1
            if (code == 2 and not (pr and not rev)) or (code == 1 and not pr) or (code == 0 and pr):
                disagreements.append(("sum-case", f"Coq verdict {code}", {"source": source, "output": new,
                                                                         "cpython": pr, "reversed": rev}))
    accepted, rejected = 0, []
    for p in pfiles:
        rc, out = results[p]
        if rc != 0:
            disagreements.append(("eval-failed", p.name, out[-1500:]))
            continue
        for j, verdict in re.findall(r"SUMPROOF (\d+) (ACCEPT|REJECT)", out):
            if verdict == "ACCEPT":
                accepted += 1
            else:
                rejected.append(proofs[int(j)][4].strip() + " -> " + proofs[int(j)][5].strip())
    mstats["telescoping_proved_for_all_lo_le_hi"] = accepted
    mstats["telescoping_not_proved"] = rejected[:10]
    for p, shard in zip(files, shards):
        rc, out = results[p]
        idx = common.parse_nat_list(out) if rc == 0 else None
        if idx is None:
            disagreements.append(("eval-failed", p.name, out[-1500:]))
            continue
        for i in idx:
            disagreements.append(("case", p.name, shard[i]))

    # ---- property oracle on the real rules: deterministic sweep over the exhaustive parts
    rule = mods["symbolic_math"].simplify_boolean_expressions
    failures = []
    seen_src = set()
    for (isand, vs, res, source, _ctx) in items:
        # formulas with a chained comparison always go through the oracle: a rewrite of a NESTED and/or (under `not`,
        # in an operand of the other operator) is not a yield for the top node
        if source in seen_src or (res[0] == "none" and not any(o_has_chain(v) for v in vs)):
            continue
        seen_src.add(source)
        pf = property_fails(mods, source, rule)
        if pf:
            failures.append(("simplify_boolean_expressions", pf))
    for c, nc, nc_text in nitems[:2000]:
        pr = negate_property_fails(c, nc_text)
        if pr:
            failures.append(("_negate_condition", {"source": c_text(c), "output": nc_text, "problem": pr}))
    for (isand, mask, red, src) in ritems:
        if any(red):
            pr = redundant_property_fails(mods, src)
            if pr:
                failures.append(("remove_redundant_boolop_values", {"source": src, "problem": pr}))
    # witnesses of the repaired defects (fixed: F17-10, F17-11, F17-13..19): they must pass from now on
    for fid, rname, w in BOOL_WITNESSES:
        pf = property_fails(mods, w, getattr(mods["symbolic_math"], rname))
        if pf:
            pf["problem"] = f"[{fid} witness] " + pf["problem"]
            failures.append((rname, pf))
    for fid, w in SM_WITNESSES:
        pr = None
        try:
            with common.quiet():
                new = mods["symbolic_math"].simplify_math_iterators(w)
            e1, e2 = {}, {}
            exec(w, e1); exec(new, e2)
            if e1["y"] != e2["y"]:
                pr = f"y = {e1['y']!r} became {e2['y']!r}"
        except Exception as e:  # noqa
            pr, new = f"{type(e).__name__}: {e}", None
        if pr:
            failures.append(("simplify_math_iterators", {"source": w, "output": new, "problem": f"[{fid} witness] {pr}"}))
    sum_viol = [s for s in sums if s["value"] != s["python"]]
    failures += rfailures + sfailures + mfailures

    # ---- known findings
    from . import findings
    kf = common.load_findings(PID)
    unmatched_sum = []
    for s in sum_viol:
        f = findings.match(kf, "symbolic_math._sum_range", s)
        if f is None:
            unmatched_sum.append(s)
    for f in kf:
        if f.kind == "finding" and f.fields.get("site") == "symbolic_math._sum_range":
            hits = [s for s in sum_viol if findings.match([f], "symbolic_math._sum_range", s)]
            if hits:
                run.known_finding(f.id, f"{f.text} [{len(hits)} instances, e.g. {hits[0]['source'].strip()} -> "
                                        f"{hits[0]['output'].strip()} = {hits[0]['value']!r}, python {hits[0]['python']}]")
            else:
                common.log(f"note: known finding {f.id} no longer reproduces")

    # sums computed by sympy: a failing valuation is suppressed only when a range is reversed there (sig)
    for f in kf:
        if f.kind == "finding" and f.fields.get("site") == "symbolic_math._integrate_over":
            pred = C17_SIGS.get(f.fields.get("sig", ""))
            hits = [it for _, it in mknown if pred and pred(it)]
            mknown = [(s_, it) for s_, it in mknown if not (pred and pred(it))]
            if hits:
                run.known_finding(f.id, f"{f.text} [{len(hits)} instances, e.g. {hits[0]['source'].strip()} -> "
                                        f"{hits[0]['output'].strip()}: {hits[0]['problem']} at {hits[0]['valuation']}]")
            else:
                common.log(f"note: known finding {f.id} no longer reproduces")
    failures += mknown          # not covered by a listed finding
    # program-level families: a failure is suppressed only by a finding with the same site whose predicate holds
    hunt_known = {}
    for site, it in hfailures:
        hit = None
        for f in kf:
            pred = c17_hunt.SIGS.get(f.fields.get("sig", ""))
            if f.kind == "finding" and f.fields.get("site") == site and pred:
                try:
                    ok = pred(it)
                except Exception:  # noqa
                    ok = False
                if ok:
                    hunt_known.setdefault(f.id, (f, []))[1].append(it)
                    hit = f
        if hit is None:
            failures.append((site, it))
    for fid, (f, hits) in hunt_known.items():
        run.known_finding(fid, f"{f.text} [{len(hits)} instances, e.g. {hits[0]['source'].strip()!r} -> "
                               f"{(hits[0]['output'] or '').strip()!r}: {hits[0]['problem']} at {hits[0]['valuation']}]")
    for f in kf:
        if f.kind == "finding" and f.fields.get("sig") in c17_hunt.SIGS and f.id not in hunt_known:
            common.log(f"note: known finding {f.id} no longer reproduces")

    # ---- verdicts
    for site, pf in failures[:5]:
        run.violation({"kind": "property-oracle", "site": site, **pf,
                       "explanation": "the rewritten expression differs in value from the original"}, True)
    for s in unmatched_sum[:3]:
        run.violation({"kind": "property-oracle", "site": "symbolic_math._sum_range", **s,
                       "explanation": "sum(range()) closed form differs from Python and is not a listed finding"}, True)
    if not failures:
        for d in disagreements[:5]:
            run.violation({"kind": "correspondence", "kernel": "K6", "detail": d,
                           "explanation": "model and implementation disagree; the property oracle found no "
                                          "differing valuation on the explored formulas"}, False)
    if ps.get("props") and not ps["props"]["ok"]:
        pr = ps["props"]
        # a broken proof obligation (e.g. regenerated REVERSE_OPERATOR_MAPPING no longer a negation)
        run.violation({"kind": "proof", "file": pr["file"], "broken": pr.get("broken"), "log": pr["log"],
                       "explanation": "a property theorem no longer checks against the regenerated tables"},
                      bool(failures))

    run.coverage.update(
        evaluations=len(items) + len(nitems) + len(ritems) + len(sums) + rstats["cases"] + rstats["zrange_cases"]
        + rstats["sem_cases"] + len(ov) + sstats["cases"] + sstats["veval_cases"] + mstats["cases"] + mstats["comp_sum_vs_cpython"],
        distinct_nontrivial=len(distinct),
        rule=("bound table: ALL ordered pairs of comparisons of x with constants {0,1,2}, 6 operators, both "
              "literal sides, x and/or (exhaustive); triples (sampled in quick, exhaustive in thorough); nested "
              "same-operator forms; seeded random mixed formulas. negate: all single/pair conditions over 10 "
              "operators + random trees. redundant: ALL truthy/falsy/unknown masks up to length "
              f"{maxlen} x and/or (exhaustive). sums: all sum(range(a,b)), a,b in [-4,6]. constrained range: "
              "range forms = 1/2/3 literal arguments with start, stop in [-2,6], step in {1,2,3,-1}, + symbolic "
              "bounds n/m, symbolic/zero step, 0 and 4 arguments; x every single filter `x op c` / `c op x`, "
              "op in > < >= <= == (and != / opaque / non-int-constant filters), c in [-2,7] (exhaustive in "
              "thorough; in quick the 3-literal-argument forms are strided 1-in-3); pairs of filters under "
              "`and` / two `if`s in list/set/generator form (strided shard; thorough: all pairs for the "
              "2-argument forms); seeded random 1-3 `if`s of nested and-trees. Non-trivial = the rule "
              "yields a rewrite; distinct by source text. symmath (sympy): ALL binary and/or trees with <= 3 leaves "
              "(not on leaves) over three pools of 3 atoms (names / comparisons of x / mixed with an opaque call), 4 leaves "
              "strided (quick) or all (thorough), seeded random n-ary formulas over <= 5 atoms in 13 embeddings; every "
              "(node, replacement) the rule yields is one validated pair (distinct by text + context). sums (sympy): 11 "
              "polynomial element expressions x literal ranges with bounds in [-2,5] (1-3 arguments, steps 2,3,-1,-2), 11 "
              "symbolic range forms, nested / dependent generators, tuple/list/set displays, seeded random polynomials; "
              "free variables range over [-3,6]."),
        samples=[items[0][3], items[n_pairs + 3][3], items[-1][3], c_text(nitems[-1][0]), ritems[-1][3],
                 sums[5]["source"]] + rstats.pop("samples") + sstats.pop("samples") + mstats.pop("samples"),
        exhaustive=False, exhaustive_pairs=n_pairs, histogram=dict(hist),
        correspondence_disagreements=len(disagreements), property_oracle_failures=len(failures),
        sum_cases_outside_model=len(sum_unrepresentable), constrained_range=rstats, symmath=sstats, sums=mstats, hunt_families=hstats,
        unmodelled=["sympy itself (simplify_boolean_expressions_symmath, _integrate_over, _sum_range, _sum_constants): not "
                    "modelled -- every output the real rules produce on the generated inputs is validated per instance by "
                    "the verified checkers (BoolEquivModel.equiv_dec_arith / vequiv_dec; SumPolyModel.sum_case_code on a box "
                    "+ a `field` proof through T17.13 for single step-1 ranges with a fresh upper bound); nested / stepped / "
                    "display generators and bounds that are not a fresh variable are validated ON THE BOX ONLY",
                    "symbolic_math._truth_tested_nodes: re-implemented independently by the harness (truth_tested) which "
                    "decides the verdict level (value where the value is observable, truth elsewhere)",
                    "truth-context deletion of operands with side effects (if f() and 0: -> if False:) is by design of the tool",
                    "simplify_constrained_range: the template walk that selects comprehensions (single generator, "
                    "Name target, range call without keywords) and the rewrite machinery that applies the yields "
                    "(C10) are exercised by the correspondence / text oracle, not modelled"],
        trusted_base=common.TRUSTED_BASE_COMMON + [
            "operand/cond term <-> Python text printers and AST readers in harness/c17.py",
            "structural equality of operand terms stands for equality of ast.unparse text",
            "integer semantics cmp_sem / cmpop_sem are definitions (validated by the before/after evaluation sweep)",
            "RangeModel.zrange / comp_sem (meaning of list(range(..)) and of a filtered comprehension) are "
            "definitions, validated against CPython on every run (zrange_case_ok, sem_case_ok)",
            "range case <-> source text printer (rc_source) and the reader of the rule's yields (impl_range)",
            "BoundModel.opval, BoolEquivModel.veval (the VALUE of and/or/not/comparisons over Z + bool) and "
            "SumPolyModel.comp_sum (sum of a comprehension over ranges / displays, exact over Q) are definitions, "
            "validated against CPython on every run (opval_case_ok, veval_case_ok, comp_sum_case_ok)",
            "formula / arithmetic term <-> Python text printers and AST readers (sf_text, sf_of_ast, ax_of_ast, sm_source)",
            "generated instance files: the kernel-checked proof terms produced by the `field` tactic over Q"],
    )
    run.assumptions += ["float constants and non-integer variables are outside every theorem; the closed forms emitted for "
                        "sums use `/`: they are compared exactly (Q / Fraction), Python evaluates them in floating point "
                        "(int -> float type change, rounding)",
                        "verdict levels: the property demands the same VALUE; the truth value suffices only where the "
                        "value of the expression cannot be observed (tests, operands of not, unused statements) -- the "
                        "repaired rules fire in a value context only on boolean valued expressions",
                        "sympy-based rules are not modelled (listed under unmodelled); operands are pure and total "
                        "(sympy reorders and merges operands)",
                        "constrained range: `range` is the builtin, non-literal bounds evaluate to ints without side "
                        "effects, the remaining filters are total and side-effect free (folding changes how often "
                        "they run -- the repository's own examples do that), conditions of several `if`s / `and` "
                        "mean their conjunction"]


def replay(path: str) -> int:
    data = json.loads(Path(path).read_text())
    mods = common.import_impl()
    print(json.dumps({k: data[k] for k in data if k in ("kind", "explanation", "site", "source", "output", "problem")},
                     indent=1))
    if data.get("kind") == "property-oracle" and data.get("site") == "simplify_boolean_expressions":
        print("now:", property_fails(mods, data["source"], mods["symbolic_math"].simplify_boolean_expressions))
    if data.get("kind") == "property-oracle" and data.get("site") == "simplify_constrained_range":
        with common.quiet():
            try:
                new = mods["symbolic_math"].simplify_constrained_range(data["source"])
            except Exception as e:  # noqa
                new = f"<crash {type(e).__name__}: {e}>"
        print("now:", repr(new), "->", range_property_fails(data["source"], new) or "same elements in the same order")
        try:
            print("yields:", impl_range(mods, data["source"]))
        except Exception as e:  # noqa
            print("yields: crash", type(e).__name__, e)
    if data.get("kind") == "property-oracle" and data.get("site") in ("simplify_boolean_expressions_symmath",
                                                                       "simplify_math_iterators") and data.get("source"):
        rule = getattr(mods["symbolic_math"], data["site"])
        with common.quiet():
            try:
                new = rule(data["source"])
            except Exception as e:  # noqa
                new = f"<crash {type(e).__name__}: {e}>"
        print("now:", repr(new))
        if data["site"] == "simplify_boolean_expressions_symmath" and data.get("input"):
            root = mods["core"].parse(data["source"])
            tt = truth_tested(root)
            with common.quiet():
                ys = [(it[0], it[1]) for it in rule._fix_func(data["source"])]
            for node, repl in ys:
                try:
                    fi, fo = sf_of_ast(node), sf_of_ast(repl)
                    print("yield:", sf_text(fi), "=>", sf_text(fo), "| truth context:", id(node) in tt, "|",
                          sym_pair_fails(fi, fo, id(node) in tt) or "same value / truth value on the box")
                except ValueError as e:
                    print("yield outside the formula language:", e)
        if data["site"] == "simplify_math_iterators" and new.startswith("y = ") and data["source"].startswith("y = "):
            names = sorted({n.id for n in ast.walk(ast.parse(data["source"])) if isinstance(n, ast.Name)} - {"sum", "range", "y"})
            for vals in itertools.product(range(-3, 7), repeat=min(len(names), 2)):
                env = dict(zip(names, vals))
                try:
                    b = eval(data["source"][4:], {"sum": sum, "range": range}, dict(env))
                    a = sm_exact(new[4:].strip(), env)
                except Exception as e:  # noqa
                    continue
                if a != b:
                    print("differs at", env, ":", b, "vs", a)
                    break
            else:
                print("same value on the box")
    if data.get("kind") == "property-oracle" and data.get("site") == "main.format_code":
        with common.quiet():
            new = mods["main"].format_code(data["source"], preserve=frozenset({"f"}))
        print("now:", repr(new), "->", program_property_fails(data["source"], new) or "same values")
    return 0
