"""C03 -- Valid Python in, valid Python out; never write a broken file (kernels K1 + K7).

Theorems: coq/props/C03.v over DriverModel.v / SchedModel.v.  Correspondence: fault injection
into processing.fix / chain (guarded_pass, fix_model), format_file on temp files (all rows of the
decision table, bytes + mtime), format_code over scripted stages (pipeline structure), stage
introspection (which stages carry the _apply_rewrites rollback).  Oracle: ast.parse of what the
real code returns / writes.  Sweep (not proof): format_code and every stage function on the
deterministic corpus of harness/drv_sweep.py."""
from __future__ import annotations

import ast
import json
import os
import tempfile
import time
from collections import Counter
from pathlib import Path

from . import common, drv, drv_findings as dfind, drv_hunt as dh, drv_sweep as sw, rn, tables

PID = "C03"

# real-text cases for sub/subn/pyreplace (T03.1 on the real entry points): the replacement is fine
# at most sites and illegal at one
SUB_CASES = [
    ("annotate, one tuple target", "{{name}} = {{value}}", "{{name}}: int = {{value}}",
     "total = 0\nwidth, height = 640, 480\n"),
    ("method call on int literal", "bit_length({{x}})", "{{x}}.bit_length()",
     "a = bit_length(n)\nb = bit_length(1)\n"),
    ("multi-line replacement in tab-indented block", "x = 1", "x = 2\ny = 3",
     "def f(a):\n\tif a:\n\t\tx = 1\n\t\treturn x\n\treturn 0\n"),
    ("keyword as target", "{{a}} = 1", "{{a}} = None = 1", "x = 1\ny = 2\n"),
    ("plain rename", "foo({{x}})", "bar({{x}})", "z = foo(1) + foo(y)\n"),
    ("walrus into statement", "print({{x}})", "({{x}} := 1)", "print(a)\nprint(a.b)\n"),
    ("del of call", "use({{x}})", "del {{x}}", "use(a)\nuse(f())\n"),
]


EXOTIC_SOURCES = [h + b for h in ('s = "a\x0cb"\n', "# see\x0cfoo bar\n", 's = "a\u2028b"\n', 's = "a\x1cb"\n', 's = "a\x85b"\n', "\x0c\n")
                  for b in ("x = np.zeros(3)\nprint(s if 's' in dir() else x)\n",
                            "x = foo(1,\n        2)\nfor i in range(10):\n    y = 1\n    print(i, y, x)\n")]
DUPLICATE_SOURCES = [
    "def ffff(x):\n    return [ffff(x - 1)] if x else 1\n\n\ndef g(x):\n    return [g(x - 1)] if x else 1\n\n\nprint(ffff(2), g(3))\n",
    "def ffff(): return [ffff]\ndef g(): return [g]\nprint(ffff, g)\n",
    "def a(x):\n    return x + 1\n\n\ndef b(x):\n    return x + 1\n\n\nprint(a(1), b(2))\n",
    "class K:\n    def m(self):\n        return self.m\n\n    def n(self):\n        return self.n\n\n\nprint(K)\n",
]
TAB_SOURCES = ["def f():\n\tfor i in range(10):\n\t\ty = 1\n\t\tprint(i, y)\n", "for i in r:\n\tif a:\n\t\tf()\n\telse:\n\t\tg()\n\t\th()\n\t\tk()\n",
               "if x:\n\timport a, b\n"]


def is_valid(text: str) -> bool:
    """the oracle of C03 is the interpreter's compile(), not ast.parse: text such as `[(yield x) for x in y]` or an
    assignment hoisted above its `global` statement parses but is rejected when the module is compiled"""
    return dh.compiles(text)


# ---- known-finding predicates (keyed by sig=) ----------------------------------------------------

def _sig_expandtabs(case) -> bool:
    src = case["source"]
    return is_valid(src) and not is_valid(src.expandtabs(4))


SIGS = {"expandtabs_breaks_indent": _sig_expandtabs}
WITNESS = {"F03-1": "if a:\n    \tif b:\n   \t  y = 2\n"}


def file_finding(findings, b) -> object | None:
    """real-file failures: matched by site main.format_file + a predicate on the bytes"""
    for f in findings:
        if f.kind != "finding" or f.fields.get("site") != "main.format_file":
            continue
        sig = f.fields.get("sig")
        data = eval(b["bytes_before"])  # noqa: S307  (repr of bytes produced by this module)
        if sig == "bom_and_tab_prepass" and data.startswith(b"\xef\xbb\xbf") and b"\t" in data:
            return f
        if sig == "tab_prepass_on_file" and b"\t" in data and not data.startswith(b"\xef\xbb\xbf"):
            return f
    return None


def match_finding(findings, site: str, case) -> object | None:
    for f in findings:
        if f.kind != "finding" or f.fields.get("site") != site:
            continue
        pred = SIGS.get(f.fields.get("sig", ""))
        try:
            if pred and pred(case):
                return f
        except Exception:  # noqa
            continue
    return None


# ---- real sub / subn / pyreplace ------------------------------------------------------------------

def sub_oracle(mods, wd: Path) -> list[dict]:
    pm = __import__("pyrefact.pattern_matching", fromlist=["x"])
    bad = []
    for name, pat, repl, src in SUB_CASES:
        assert is_valid(src), name
        outs = {}
        try:
            with common.quiet():
                outs["sub"] = pm.sub(pat, repl, src)
                outs["subn"] = pm.subn(pat, repl, src)[0]
                d = Path(tempfile.mkdtemp(dir=wd))
                f = d / "module.py"
                f.write_text(src)
                pm.main(["replace", pat, repl, str(f)])
                outs["pyreplace"] = f.read_text()
        except Exception as e:  # noqa  (crashes are C04's business; an invalid result is ours)
            outs["raised"] = f"{type(e).__name__}: {e}"
        for ep, out in outs.items():
            if ep != "raised" and not is_valid(out):
                bad.append({"entry_point": ep, "case": name, "pattern": pat, "replacement": repl,
                            "source": src, "output": out})
    return bad


# ---- real files through the real format_file (bytes on disk, line endings, BOM) -----------------------

def real_file_cases(mods, wd: Path) -> tuple[int, list[dict]]:
    """every file variant of drv_hunt.file_variants() through main.format_file with the real format_code.
    Oracle = the property on BYTES: a file the interpreter compiles is still compilable afterwards; a call that
    reports no change leaves bytes and mtime alone; unchanged bytes mean the file was not rewritten."""
    main = mods["main"]
    bad, n = [], 0
    d = Path(tempfile.mkdtemp(dir=wd))
    for tag, data in dh.file_variants():
        n += 1
        f = d / "module.py"
        f.write_bytes(data)
        os.utime(f, ns=(10 ** 18, 10 ** 18))
        before_mtime = f.stat().st_mtime_ns
        ok_before = dh.compiles(data)
        mods["core"].parse.cache_clear()
        try:
            with common.quiet():
                ret = main.format_file(f)
            err = None
        except Exception as e:  # noqa
            ret, err = None, f"{type(e).__name__}: {e}"
        after = f.read_bytes()
        touched = f.stat().st_mtime_ns != before_mtime
        probs = []
        if ok_before and not dh.compiles(after):
            probs.append("PROPERTY: a file the interpreter accepts was replaced by one it rejects")
        if err is None and not ret and (after != data or touched):
            probs.append("format_file reported no change but the file was written")
        if err is None and after == data and touched:
            probs.append("PROPERTY: the file was rewritten although its bytes did not change")
        if probs:
            bad.append({"variant": tag, "bytes_before": repr(data), "bytes_after": repr(after), "returned": repr(ret),
                        "error": err, "problems": probs})
    return n, bad


# ---- check -----------------------------------------------------------------------------------------

def check(run: common.Run):
    wd = common.workdir(PID)
    t_start = time.time()
    ps = common.proof_step(run, PID, wd)
    mods = common.import_impl()
    findings = common.load_findings(PID)
    hist = Counter()
    disagreements: list[dict] = []
    failing_inputs: list[dict] = []

    # (a) fault injection into fix / chain
    gitems = drv.guard_cases(mods, run.tier)
    bad, errs = drv.run_simple_cases(wd, "guard", "guard_case", "guard_case_ok",
                                     [drv.guard_case_to_coq(it) for it in gitems])
    disagreements += errs
    for i in bad:
        disagreements.append({"kind": "correspondence", "kernel": "K1/K7 guarded_pass + fix_model (processing.fix/chain)",
                              "case": gitems[i]})
    n_guard_nontrivial = 0
    for it in gitems:
        hist[f"guard:{it['which']}"] += 1
        rolled = not it["valid"][it["cand"][it["start"]]] and it["cand"][it["start"]] != it["start"]
        n_guard_nontrivial += rolled
        # the property's own oracle on the scripted validity
        if it["valid"][it["start"]] and (it["got"] > 2 or not it["valid"][it["got"]]):
            failing_inputs.append({"kind": "property-oracle", "what": "processing." + it["which"] +
                                   " returned a text the validity predicate rejects (or raised) for a valid input",
                                   "case": it})

    # (b) format_file decision table on temp files
    rows, coq_rows = drv.format_file_rows(mods, wd)
    bad, errs = drv.run_simple_cases(wd, "ffile", "file_case", "file_case_ok", coq_rows)
    disagreements += errs
    for i in bad:
        disagreements.append({"kind": "correspondence", "kernel": "K7 format_file_model (write guard)", "case": rows[i]})
    for r in drv.format_file_row_problems(rows):
        if any(p.startswith("PROPERTY") for p in r["problems"]):
            failing_inputs.append({"kind": "property-oracle", "what": "format_file", "case": r})
        else:
            disagreements.append({"kind": "correspondence", "kernel": "K7 format_file (observed file state)", "case": r})
    hist["format_file rows"] = len(rows)

    # (c) format_code over scripted stages
    fc = drv.format_code_correspondence(mods, wd, run.tier, run.seed,
                                        part="light" if run.tier == "quick" else "all")
    env = fc.pop("env", None)
    if fc["shape_error"]:
        disagreements.append({"kind": "correspondence", "kernel": "K7 shape of _multi_run_fixes", "detail": fc["shape_error"]})
    for d in fc["disagreements"][:5]:
        if "script" in d and env is not None:
            d = dict(d, model=drv.model_view(wd, env, d["script"], d["impl"], tables.get()["MAX_FILE_PASSES"]))
        disagreements.append(d)
    n_more = max(0, len(fc["disagreements"]) - 5)

    # (d) which stages carry the rollback (T03.1) and which are hypotheses of the corollary
    kinds, other = {}, set()
    if env is not None:
        names = sorted(set(env.multi_names) | {n for n in env.fc_attrs if n not in drv.NOT_STAGES}
                       | {"abstractions.overused_constant"})
        kinds = drv.rule_kinds(mods, names)
        other = {n for n, k in kinds.items() if k != "fix"} | {"str.expandtabs"}
        if other != drv.DIRECT_EDIT_STAGES:
            disagreements.append({
                "kind": "correspondence", "kernel": "K7 set of stages without the _apply_rewrites rollback",
                "detail": {"no_longer_fix_wrapped": sorted(other - drv.DIRECT_EDIT_STAGES),
                           "now_fix_wrapped_or_gone": sorted(drv.DIRECT_EDIT_STAGES - other)},
                "explanation": "the hypothesis list of T03_3_format_code_valid_partial changed"})

    # (f) processing.remove_nodes: character loop vs RemoveNodesModel (T03.4) + ast.parse oracle
    rcases = [c for c in rn.cases() if rn.valid(c[1])]
    if run.tier == "quick":
        rcases = rcases[run.seed % 3::3]
    ritems = []
    for (name, src, stmts, rem) in rcases:
        o = rn.observe(mods, src, stmts, rem)
        if o is None:
            continue
        ritems.append((name, src, stmts, rem, o))
        hist[f"remove_nodes:{name}"] += 1
        if o["error"]:
            failing_inputs.append({"kind": "property-oracle", "what": "processing.remove_nodes raised " + o["error"],
                                   "case": {"source": src, "removed": [stmts[i] for i in rem]}})
        elif not rn.valid(o["out"]):
            failing_inputs.append({"kind": "property-oracle", "what": "processing.remove_nodes: valid input became invalid output",
                                   "case": {"source": src, "removed": [stmts[i] for i in rem], "output": o["out"]}})
    rn_coq = [rn.to_coq(src, o) for (_, src, _, _, o) in ritems]
    bad, errs = drv.run_simple_cases(wd, "rn", "rn_case", "(fun c => rn_case_ok c && rn_guards_ok c)", rn_coq, shard=250,
                                     extra_import="Require Import Pyrefact.RemoveNodesModel.\n")
    disagreements += errs
    for i in bad:
        name, src, stmts, rem, o = ritems[i]
        disagreements.append({"kind": "correspondence", "kernel": "K1 RemoveNodesModel (char loop of remove_nodes / structural guards)",
                              "case": {"template": name, "source": src, "removed": [stmts[j] for j in rem],
                                       "passes": o["passes"], "impl_output": o["out"]}})

    # (g) real files: line endings, BOM, final line break -- bytes on disk before / after the real format_file
    n_files, fbad = real_file_cases(mods, wd)
    for b in fbad:
        f = file_finding(findings, b)
        if f is None:
            failing_inputs.append({"kind": "property-oracle", "what": "format_file on a real file: " + "; ".join(b["problems"]),
                                   "site": "main.format_file", "case": b})
        else:
            hist[f"real files matched {f.id}"] += 1
    hist["real file variants"] = n_files

    # (e) the real pattern-substitution entry points
    for b in sub_oracle(mods, wd):
        failing_inputs.append({"kind": "property-oracle", "what": "valid input became invalid output", "case": b})
    hist["sub/subn/pyreplace cases"] = len(SUB_CASES)

    # ---- sweep (not proof): format_code + every stage function on the deterministic corpus
    fam = sw.build_corpus(run.tier)
    budget = 75 if run.tier == "quick" else 900
    deadline = time.time() + budget
    jobs, meta = [], {}
    valid_srcs = {k: [s for s in v if is_valid(s)] for k, v in fam.items()}
    step = {"quick": {"repo": 6, "functions": 2, "constructs": 1, "eof": 1, "tabs": 1, "constants": 7},
            "thorough": {}}[run.tier]
    # blank-line runs first (seed C03-b): through format_code and through every text / direct-edit stage alone
    text_stages = sorted(n for n in drv.DIRECT_EDIT_STAGES
                         if n.split(".")[0] in ("fixes", "rmspace") or n == "abstractions.simplify_if_control_flow")
    for i, s in enumerate(valid_srcs["blank_runs"]):
        for o in ([sw.OPTION_COMBOS[0], sw.OPTION_COMBOS[7]] if run.tier == "quick" else sw.OPTION_COMBOS):
            jid = len(jobs)
            jobs.append((jid, s, o, 1))
            meta[jid] = ("format_code", "blank_runs")
        for n in text_stages:
            jid = len(jobs)
            jobs.append((jid, s, n, 1))
            meta[jid] = ("rule", n)
    # round-4 families: multi-line first statements x undefined names, decorated scope heads x overused constants,
    # one-line compound statements x inserting rules, compile()-only errors, exotic line breaks, duplicates
    hunt_stages = {
        "first_statement": ["fixes.add_missing_imports", "fixes.sort_imports", "fixes.remove_unused_imports",
                            "fixes.move_imports_to_toplevel", "abstractions.overused_constant"],
        "decorated_constant": ["abstractions.overused_constant"],
        "oneline_compound": ["fixes.fix_duplicate_imports", "fixes.early_continue", "fixes.missing_context_manager",
                             "fixes.move_before_loop", "abstractions.simplify_if_control_flow"],
        "compile_only": None, "exotic_breaks": None, "duplicate_functions": ["fixes.remove_duplicate_functions"],
    }
    valid_srcs["exotic_breaks"] = [s_ for s_ in EXOTIC_SOURCES if is_valid(s_)]
    valid_srcs["duplicate_functions"] = [s_ for s_ in DUPLICATE_SOURCES if is_valid(s_)]
    for name, stages in hunt_stages.items():
        for i, s_ in enumerate(valid_srcs[name]):
            for o in ([sw.OPTION_COMBOS[0], sw.OPTION_COMBOS[7]] if run.tier == "quick" else sw.OPTION_COMBOS):
                jid = len(jobs)
                jobs.append((jid, s_, o, 1))
                meta[jid] = ("format_code", name)
            for n in (stages if stages is not None and run.tier == "quick" else
                      sorted(n_ for n_ in kinds if n_.split(".")[0] not in ("str", "textwrap", "rmspace", "processing"))):
                jid = len(jobs)
                jobs.append((jid, s_, n, 1))
                meta[jid] = ("rule", n)
    # round-5 families: backslash continuations onto blank / comment lines x rules that insert, delete or move whole
    # lines; comparison pairs with heterogeneous constants x the symbolic_math rules; type confusion x constant consumers.
    # Rule calls go to the workers in batches (oracle = compile() of the result, evaluated in the worker).
    quick = run.tier == "quick"
    hb = [s_ for s_ in valid_srcs["hetero_bounds"] if not quick or s_ in dh.HETERO_CORE]
    r5 = (("continuations", valid_srcs["continuations"], dh.LINE_RULES, (0, 6) if quick else (0, 2, 4, 6)),
          ("hetero_bounds", hb[::4] if quick else hb, dh.SYMBOLIC_MATH_RULES, (0,) if quick else (0, 6)),
          ("type_confusion", valid_srcs["type_confusion"][::3] if quick else valid_srcs["type_confusion"],
           dh.TYPE_CONFUSION_RULES, (6,) if quick else (0, 6)))
    for name, srcs, rules, cids in r5:
        for i, s_ in enumerate(srcs):
            for c in (cids if name == "continuations" else (cids[i % len(cids)],)):
                jid = len(jobs)
                jobs.append((jid, s_, sw.OPTION_COMBOS[c], 1))
                meta[jid] = ("format_code", name)
        for n in (rules if quick else sorted(set(rules) | {n_ for n_ in kinds if n_.split(".")[0] in ("fixes", "abstractions", "symbolic_math")})):
            # text stages see what format_code hands them: a text that ends in a line break
            batch_srcs = [s_ if n.split(".")[0] != "rmspace" or s_[-1:] in ("\n", "\r") else s_ + "\n" for s_ in srcs]
            for k in range(0, len(batch_srcs), 80):
                jid = len(jobs)
                jobs.append((jid, batch_srcs[k:k + 80], n, 2))
                meta[jid] = ("rule-batch", n)
    for s_ in TAB_SOURCES:      # tab-indented source handed to the rules directly (format_code expands tabs first)
        for n in ("fixes.move_before_loop", "fixes.early_continue", "fixes.fix_duplicate_imports",
                  "abstractions.overused_constant", "abstractions.simplify_if_control_flow"):
            jid = len(jobs)
            jobs.append((jid, s_, n, 1))
            meta[jid] = ("rule", n)
    for name in ("tabs", "constructs", "eof", "functions", "repo", "constants"):
        srcs = valid_srcs[name][::step.get(name, 1)]
        for i, s in enumerate(srcs):
            combos = sw.OPTION_COMBOS if (name in ("tabs",) or run.tier == "thorough") else \
                [sw.OPTION_COMBOS[(i % 4) * 2]]
            for o in combos:
                jid = len(jobs)
                jobs.append((jid, s, o, 1))
                meta[jid] = ("format_code", name)
    stage_names = sorted(n for n in kinds if n.split(".")[0] not in ("str", "textwrap", "rmspace", "processing"))
    rule_srcs = valid_srcs["repo"][:: (24 if run.tier == "quick" else 2)] + valid_srcs["constructs"][:: (12 if run.tier == "quick" else 1)]
    for n in stage_names:
        for s in rule_srcs:
            jid = len(jobs)
            jobs.append((jid, s, n, 1))
            meta[jid] = ("rule", n)
    workers = sw.Workers(min(8, common.NCPU))
    try:
        results = workers.run(jobs, soft=30, hard=60, deadline=deadline)
    finally:
        workers.close()
    sweep = Counter()
    invalid_outs = []
    syntax_seen = set()
    matched_ids = set()
    # a batch of rule calls becomes one entry per source that raised / gave a text compile() rejects
    for jid in [j for j, (k_, _) in meta.items() if k_ == "rule-batch"]:
        r, (_, rule), srcs_ = results.pop(jid), meta[jid], jobs[jid][1]
        if r.get("skipped"):
            sweep["skipped (time budget)"] += 1
            continue
        batch = r.get("batch") or []
        sweep["rule runs"] += len(batch)
        items = [(srcs_[k], b) for k, b in enumerate(batch) if b]
        if (r.get("timeout") or r["error"]) and len(batch) < len(srcs_):
            sweep["raised (not a SyntaxError) or timed out: C04's business"] += 1
        for one, b in items:
            nid = len(jobs)
            jobs.append((nid, one, rule, 1))
            meta[nid] = ("rule", rule)
            results[nid] = ({"outs": [b["invalid_out"]], "error": None, "timeout": False} if "invalid_out" in b
                            else {"outs": [], "error": b, "timeout": False})
            sweep["rule runs"] -= 1
    for jid, r in sorted(results.items()):
        kind, name = meta[jid]
        if r.get("skipped"):
            sweep["skipped (time budget)"] += 1
            continue
        sweep[f"{kind} runs"] += 1
        if r.get("timeout") or r["error"]:
            e = r["error"]
            if e and e["type"] in dfind.SYNTAX_ERRORS:
                # some stage built a text that does not parse and the next parse raised: no valid text came back
                src_, opts_ = jobs[jid][1], jobs[jid][2]
                sites = {e["stage"], e["inner"], name if kind == "rule" else "main.format_code"}
                if kind == "format_code":       # the stage that raised is the victim; bisect for the stage that broke the text
                    culprit = sw.first_bad_stage(mods, src_, opts_, is_valid)
                    if culprit:
                        sites = {culprit}
                        e = dict(e, stage=culprit)
                f = dfind.match(findings, sites, src_)
                if f is None:
                    key = (e["type"], e["stage"], kind)
                    if key not in syntax_seen:
                        syntax_seen.add(key)
                        failing_inputs.append({"kind": "sweep", "what": f"{kind}: {e['type']} raised for a valid input (an intermediate "
                                               f"text did not parse): {e['msg']}", "site": e["stage"], "source": src_,
                                               "options": opts_ if isinstance(opts_, dict) else {"rule": opts_}})
                    sweep["SyntaxError raised, not a known finding"] += 1
                else:
                    sweep[f"matched {f.id}"] += 1
                    matched_ids.add(f.id)
            else:
                sweep["raised (not a SyntaxError) or timed out: C04's business"] += 1
            continue
        out = r["outs"][0]
        if not is_valid(out):
            invalid_outs.append((jid, kind, name, jobs[jid][1], jobs[jid][2], out))
        elif out != jobs[jid][1]:
            sweep[f"{kind} changed the text, still valid"] += 1
    for (jid, kind, name, src, opts, out) in invalid_outs:
        if kind == "format_code":
            site = sw.first_bad_stage(mods, src, opts, is_valid) or "main.format_code"
        else:
            site = name
        f = match_finding(findings, site, {"source": src}) or dfind.match(findings, {site}, src)
        if f is None:
            failing_inputs.append({"kind": "sweep", "what": f"{kind}: valid input became invalid output"
                                   + ("" if rn.valid(out) else " (does not even parse)")
                                   + (" (parses, compile() rejects it)" if rn.valid(out) else ""),
                                   "site": site, "source": src, "options": opts if isinstance(opts, dict) else None,
                                   "output": out})
        else:
            sweep[f"matched {f.id}"] += 1
            matched_ids.add(f.id)

    # ---- known findings: replay the witnesses
    for f in findings:
        if f.kind != "finding":
            continue
        w = WITNESS.get(f.id)
        if w is None:
            if f.id in matched_ids:     # reproduced by the sweep (site + predicate), no separate witness
                run.known_finding(f.id, f"site={f.fields.get('site')[:60]} :: {f.text[:150]}")
            continue
        try:
            with common.quiet():
                out = mods["main"].format_code(w)
        except Exception as e:  # noqa
            out = None
            failing_inputs.append({"kind": "known-finding-witness", "what": f"format_code raised {type(e).__name__} on the "
                                   f"witness of {f.id} (listed as: valid in, invalid out)", "source": w})
        if out is not None and is_valid(w) and not is_valid(out):
            run.known_finding(f.id, f"site={f.fields.get('site')} :: {f.text[:150]}")
        elif out is not None:
            common.log(f"note: finding {f.id} no longer reproduces")

    # ---- verdicts
    reported_groups = set()
    for fi in failing_inputs:
        gkey = (fi.get("kind"), str(fi.get("what"))[:60], fi.get("site"))
        if gkey in reported_groups or len(reported_groups) >= 24:
            continue
        reported_groups.add(gkey)
        run.violation(dict(fi, explanation="the real code violates C03 on this input"), True)
    have_input = bool(failing_inputs)
    for d in disagreements[:6]:
        run.violation(dict(d, explanation=d.get("explanation", "model and implementation disagree; see failing inputs "
                                                               "reported alongside, if any"),
                           more_disagreements=n_more), have_input)
    if ps.get("props") and not ps["props"]["ok"]:
        pr = ps["props"]
        run.violation({"kind": "proof", "file": pr["file"], "broken": pr.get("broken"), "log": pr["log"],
                       "explanation": "a property theorem no longer checks"}, have_input)

    run.coverage.update(
        evaluations=len(gitems) + len(rows) + fc["evaluations"] + len(SUB_CASES) * 3 + len(ritems),
        distinct_nontrivial=n_guard_nontrivial + fc["distinct"]
        + len({(r["changed"], r["valid_new"], r["valid_old"]) for r in rows})
        + len({(src, rem) for (_, src, _, rem, o) in ritems if o["passes"]}),
        rule=("correspondence cases: (a) processing.fix(max_iter=1 | default) and chain driven by a scripted "
              "whole-text rule over 3 texts: ALL candidate tables 3->3 x ALL validity masks x 4 restoration "
              "behaviours x 3 starts (exhaustive); (b) format_file on temp files: all 8 rows of the decision table "
              "x {m.py, __init__.py}, bytes + mtime_ns observed; (c) format_code with every stage replaced by a "
              "table lookup over a 4-text universe: all f:4->4 on one _multi_run_fixes stage x start x safe x "
              "keep_imports x {module, indented fragment} (quick: 1/4 shard rotating with the seed), budget chains, "
              "seeded random scripts up to 58 texts; (f) processing.remove_nodes on 8 statement templates x statements of 1..5 "
              "characters x every non-empty subset of removed statements (quick: 1/3 shard rotating with the seed): output "
              "text = RemoveNodesModel, structural guards of T03.4 hold, output parses. Non-trivial = a rollback really happened (a) / >= 2 passes of "
              "the multi-run phase with a distinct (trace, result) (c) / every row of (b) / a body was emptied (f)."),
        samples=[gitems[5], gitems[len(gitems) // 2], rows[3]] + fc["samples"][:2],
        exhaustive=run.tier != "quick",
        exhaustive_parts={"guard_cases": True, "format_file_rows": True, "format_code_f4x4": run.tier != "quick"},
        histogram=dict(hist) | {"format_code scripted: " + k: v for k, v in fc["histogram"].items()},
        correspondence_disagreements=len(disagreements) + n_more,
        sweep=dict(sweep) | {"corpus": {k: len(v) for k, v in valid_srcs.items()}, "jobs": len(jobs),
                             "invalid_outputs": len(invalid_outs),
                             "note": "deterministic, seed independent; NOT a proof obligation"},
        stages_covered_by_T03_1=sorted(n for n, k in kinds.items() if k == "fix"),
        unmodelled=["stages WITHOUT rollback, validity preservation is an explicit hypothesis of "
                    "T03_3_format_code_valid_partial (modelled, not verified): " + ", ".join(sorted(other)),
                    "processing._insert_nodes / alter_code text edits; the first half of remove_nodes (which characters "
                    "are removed, which bodies are emptied) is recomputed by the harness, only the character loop is modelled",
                    "_do_rewrite's pass/indent candidates (any candidate function is covered by T03.1)"],
        trusted_base=common.TRUSTED_BASE_COMMON + [
            "scripted stage fakes + TStr (str subclass scripting expandtabs/strip) of harness/drv.py",
            "tempfile / os.stat for the file observations"],
    )
    run.assumptions += [
        "the theorems are about DriverModel.v; the tie to main.py / processing.py is the correspondence above",
        "validity = ast.parse of CPython 3.12 (core.is_valid_python is the same call)",
        "the end-to-end sweep covers only the listed corpus; it can find violations, never discharge one"]
    run.notes.append(f"wall before finish: {round(time.time() - t_start, 1)} s; format_code correspondence {fc.get('wall_s')} s")


def replay(path: str) -> int:
    data = json.loads(Path(path).read_text())
    mods = common.import_impl()
    wd = common.workdir(PID + "-replay")
    print(json.dumps({k: data[k] for k in data if k in ("kind", "explanation", "kernel", "what", "site")}, indent=1))
    kind = data.get("kind")
    if kind == "sweep" or (kind == "property-oracle" and "source" in data.get("case", {}) and "pattern" not in data["case"]
                           and "removed" not in data["case"] and "cand" not in data["case"]):
        src = data.get("source") or data["case"]["source"]
        opts = data.get("options") or sw.OPTION_COMBOS[0]
        with common.quiet():
            out = mods["main"].format_code(src, safe=opts["safe"], keep_imports=opts["keep_imports"],
                                           preserve=frozenset(opts["preserve"]))
        print("input valid :", is_valid(src))
        print("output      :", repr(out))
        print("output valid:", is_valid(out))
        print("first bad stage:", sw.first_bad_stage(mods, src, opts, is_valid))
    elif "removed" in data.get("case", {}):
        c = data["case"]
        core, processing = mods["core"], mods["processing"]
        root = core.parse(c["source"])
        todo = list(c["removed"])
        nodes = []
        for n in sorted((n for n in ast.walk(root) if isinstance(n, ast.stmt) and not hasattr(n, "body")),
                        key=lambda n: (n.lineno, n.col_offset)):
            if todo and ast.get_source_segment(c["source"], n) == todo[0]:
                nodes.append(n)
                todo.pop(0)
        with common.quiet():
            out = processing.remove_nodes(c["source"], nodes, root)
        print("remove_nodes output:", repr(out), "valid:", is_valid(out))
    elif kind == "property-oracle" and "pattern" in data.get("case", {}):
        c = data["case"]
        pm = __import__("pyrefact.pattern_matching", fromlist=["x"])
        with common.quiet():
            out = pm.sub(c["pattern"], c["replacement"], c["source"])
        print("sub output  :", repr(out), "valid:", is_valid(out))
    elif kind == "correspondence" and "script" in data:
        env = drv.Env(mods)
        env.install()
        try:
            obs = env.run(data["script"])
        finally:
            env.uninstall()
        print("impl :", obs)
        print("model:", drv.model_view(wd, env, data["script"], obs, tables.get()["MAX_FILE_PASSES"]))
    elif kind == "correspondence" and "case" in data and "cand" in data["case"]:
        its = [i for i in drv.guard_cases(mods, "quick") if all(i[k] == data["case"][k] for k in
                                                                 ("cand", "valid", "rname", "which", "start"))]
        print("impl now:", its)
    elif kind == "proof":
        print(common.check_props(PID, wd))
    else:
        print(json.dumps(data, indent=1)[:4000])
    return 0
