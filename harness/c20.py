"""C20 -- Opt-out comments are honoured (IgnoreModel.v / IgnoreProofs.v + SchedModel).

Correspondence: character classes (\\s, str.splitlines boundaries) over ALL code points; str.splitlines,
core.has_ignore_comment and the skip_file early return of format_code against the model on enumerated and
seeded sources.  Sweep (not proof): every physical line of a fixed family of trigger programs annotated with an
ignore comment must come out of format_code verbatim; failures are bisected to the first offending stage and
matched against KNOWN_FINDINGS.txt by (site, structural predicate)."""
from __future__ import annotations

import ast
import io
import itertools
import json
import os
import random
import re
import subprocess
import sys
import tokenize
from collections import Counter
from pathlib import Path

from . import common, pipeline
from .common import gz, glist, gbool

PID = "C20"

# a tail that format_code always changes when it does not take the skip_file exit (trailing blanks, tab)
TAIL = "\nx  =  1 ;y=2   \n\tz = 3\n"


def gtextN(s: str) -> str:
    return "[" + "; ".join(str(ord(c)) for c in s) + "]%N" if s else "[]"


# ------------------------------------------------------------------------------------------------
# character classes over all code points


def impl_split_lines(core):
    """the line decomposition has_ignore_comment iterates over: core.split_lines; a tree without that helper (before
    repair a37c022, or a regression that drops it) iterates source.splitlines(keepends=True) -- the check then runs
    against that and reports the difference with a failing input instead of crashing"""
    f = getattr(core, "split_lines", None)
    return f if callable(f) else (lambda src: src.splitlines(keepends=True))


def char_classes(core=None):
    import re
    sp = re.compile(r"\s")
    spaces = [c for c in range(0x110000) if sp.fullmatch(chr(c))]
    breaks = [c for c in range(0x110000) if len(("a" + chr(c) + "b").splitlines()) == 2]
    if core is None:
        return spaces, breaks
    # the characters at which the REAL core.split_lines breaks a line, over all code points; and CPython's own
    # universal-newline reader (what the tokenizer is fed) as the reference
    split = impl_split_lines(core)
    eols = [c for c in range(0x110000) if len(split("a" + chr(c) + "b")) == 2]
    ref = [c for c in range(0x110000)
           if len(list(iter(io.StringIO("a" + chr(c) + "b", newline="").readline, ""))) == 2]
    return spaces, breaks, eols, ref


def write_class_file(p: Path, spaces, breaks, eols=(10, 13), ref=(10, 13)):
    probes_s = sorted(set(spaces) | {c + d for c in spaces for d in (-1, 1) if 0 <= c + d < 0x110000}
                      | {0, 35, 58, 65, 127, 128, 0x3000, 0x10FFFF})
    probes_b = sorted(set(breaks) | {c + d for c in breaks for d in (-1, 1) if 0 <= c + d < 0x110000} | {0, 31, 32})
    ss, bs = set(spaces), set(breaks)
    p.write_text(
        "From Coq Require Import List NArith Bool.\nImport ListNotations.\n"
        "Require Import Pyrefact.Base Pyrefact.IgnoreModel.\nOpen Scope N_scope.\n"
        f"Definition impl_spaces : list N := {glist(spaces)}.\n"
        f"Definition impl_breaks : list N := {glist(breaks)}.\n"
        f"Definition sp : list (N * bool) := {glist([f'({c}, {gbool(c in ss)})' for c in probes_s])}.\n"
        f"Definition bp : list (N * bool) := {glist([f'({c}, {gbool(c in bs)})' for c in probes_b])}.\n"
        f"Definition impl_eols : list N := {glist(eols)}.\n"
        f"Definition ref_eols : list N := {glist(ref)}.\n"
        "Definition sub (a b : list N) := forallb (fun c => existsb (N.eqb c) b) a.\n"
        "Eval vm_compute in (bad_idx (fun p => Bool.eqb (is_space (fst p)) (snd p)) sp ++ "
        "bad_idx (fun p => Bool.eqb (is_break (fst p)) (snd p)) bp ++ "
        "(if sub space_points impl_spaces && sub impl_spaces space_points && sub break_points impl_breaks "
        "&& sub impl_breaks break_points && forallb is_eol impl_eols && forallb is_eol ref_eols "
        "&& sub [10; 13] impl_eols && sub [10; 13] ref_eols && Nat.eqb (length impl_eols) 2 && Nat.eqb (length ref_eols) 2 "
        "then [] else [999999%nat])).\n")


# ------------------------------------------------------------------------------------------------
# recogniser cases

WS = ["", " ", "  ", "\t", "\xa0", "\n", "\x0c", "\u2003", "\x1f"]
PY = ["pyrefact", "pyrefac", "Pyrefact", "pyrefactt", "pyre fact"]
COL = [":", "", ";", "::", " :"]
KW = ["ignore", "skip_file", "ignor", "skip file", "skip_fileX", "IGNORE", "skipfile", "ignoreskip_file"]
PRE = ["", "x = 1  ", "# ", "s = '#'  ", "##"]
POST = ["", "\n", " tail\ny = 2\n", "\r\nz = 1", "\x0cw = 0\n"]
TERMS = ["\n", "\r\n", "\r", "\x0c", "\x0b", "\x1c", "\x1d", "\x1e", "\x85", "\u2028", "\u2029", "\x1f", ""]


def head(pre, w1, py, w2, col, w3, kw, post):
    return f"{pre}#{w1}{py}{w2}{col}{w3}{kw}{post}"


def exhaustive_heads():
    """the full product over a small core of every slot (seed-independent)"""
    for pre in ["", "x = 1  "]:
        for w1, w2, w3 in itertools.product(["", " ", "\t\xa0"], repeat=3):
            for py in ["pyrefact", "pyrefac"]:
                for col in [":", ""]:
                    for kw in ["ignore", "skip_file", "ignor", "skip_fil"]:
                        for post in ["", "\n"]:
                            yield head(pre, w1, py, w2, col, w3, kw, post)
    # one varied slot at a time around the canonical comment
    base = dict(pre="", w1=" ", py="pyrefact", w2="", col=":", w3=" ", kw="ignore", post="\n")
    for slot, vals in (("pre", PRE), ("w1", WS), ("w2", WS), ("w3", WS), ("py", PY), ("col", COL), ("kw", KW),
                       ("post", POST)):
        for v in vals:
            for kw in ("ignore", "skip_file"):
                d = dict(base, kw=kw)
                d[slot] = v
                yield head(**d)


def random_head(rnd):
    return head(rnd.choice(PRE), rnd.choice(WS), rnd.choice(PY + ["pyrefact"] * 6), rnd.choice(WS),
                rnd.choice(COL + [":"] * 6), rnd.choice(WS), rnd.choice(KW + ["ignore", "skip_file"] * 3),
                rnd.choice(POST))


# markers inside string literals, separators inside the annotated line, untokenizable text (hunt C10-2/4, C14-10)
EXTRA_SOURCES = [
    "s = '# pyrefact: ignore'; x = 1\nprint(x)\n",
    's = """\n# pyrefact: ignore"""; f()\n',
    "x = 1 \x0c # pyrefact: ignore\n",
    "x = 1\x0c# pyrefact: ignore\nprint(x)\n",
    "x = 1; s = '\u2028'  # pyrefact: ignore\n",
    'x = """a\n# pyrefact: ignore\n"""  # pyrefact: ignore\ny = 2\n',
    "x = (\n# pyrefact: ignore\n",
    "x = 1  # pyrefact: ignore",
    "x = 1  # pyrefact: ignore\r\ny = 2\r\n",
    "x = 1\ry = 2  # pyrefact: ignore\rz = 3",
    "s = '#pyrefact:ignore'  #pyrefact:ignore\n",
    '"""# pyrefact: skip_file"""\n',
]


def multi_line(rnd):
    n = rnd.randint(1, 5)
    out = []
    for i in range(n):
        body = rnd.choice(["a = 1", "b", "", "  c()", "d  # pyrefact: ignore", "e #pyrefact:skip_file",
                           "f # pyrefact : ignore", "# pyrefact: ignor", "g # pyrefact: IGNORE", "#",
                           "h  #\tpyrefact\xa0:\u2003ignore  ", "s = '# pyrefact: ignore'",
                           "t = 'a\u2028b'  # pyrefact: ignore", 'u = """', "# x\x0c# pyrefact: ignore"])
        out.append(body + rnd.choice(TERMS if i < n - 1 else TERMS + [""] * 4))
    return "".join(out)


def ranges_for(src: str, rnd, exhaustive: bool):
    n = len(src)
    if exhaustive and n <= 14:
        return [(s, e) for s in range(n + 1) for e in range(s, n + 1)]
    pts = {0, n}
    pos = 0
    for ln in src.splitlines(keepends=True):
        for d in (-1, 0, 1):
            pts.add(max(0, min(n, pos + d)))
        pos += len(ln)
        pts.add(pos)
    pts = sorted(pts)
    rs = [(s, e) for s in pts for e in pts if s <= e]
    if len(rs) > 40:
        rs = rnd.sample(rs, 40)
    return rs


def impl_case(mods, src: str, ranges, with_skip: bool):
    core = mods["core"]
    lines = impl_split_lines(core)(src)
    verdicts, pos = [], 0
    for ln in lines:
        verdicts.append(bool(core.has_ignore_comment(src, core.Range(pos, pos + len(ln)))))
        pos += len(ln)
    rr = [((s, e), bool(core.has_ignore_comment(src, core.Range(s, e)))) for (s, e) in ranges]
    skip = None
    if with_skip:
        with common.quiet():
            try:
                out = mods["main"].format_code(src)
                skip = out == src
            except Exception as e:  # noqa
                skip = ("exc", type(e).__name__)
    return lines, verdicts, skip, rr


def tokenizer_verdict(src: str):
    """the model's `coms` input: zero-based physical line numbers with a COMMENT token matching the documented
    regex, by CPython's tokenizer; None if it raises (computed by the harness, not taken from pyrefact)"""
    try:
        return sorted({ln for ln, text in comment_tokens(src) if IGNORE_DOC_RE.search(text)})
    except (tokenize.TokenError, SyntaxError, ValueError):
        return None


def reference_lines(src: str):
    """physical lines as CPython's universal-newline reader hands them to the tokenizer"""
    return list(iter(io.StringIO(src, newline="").readline, ""))


def g_coms(coms) -> str:
    return common.gopt(coms, lambda cs: glist([f"{c}%nat" for c in cs]))


def g_case(src, lines, verdicts, skip, rr) -> str:
    skip_g = "(skip_search src)" if skip is None else gbool(skip)
    return (f"(let src := {gtextN(src)} in mkIgn src {g_coms(tokenizer_verdict(src))} {glist(lines, gtextN)} "
            f"{glist(src.splitlines(keepends=True), gtextN)} {glist(verdicts, gbool)} {skip_g} "
            f"{glist([f'(({gz(s)}, {gz(e)})%Z, {gbool(v)})' for ((s, e), v) in rr])})")


# ------------------------------------------------------------------------------------------------
# sweep: annotated lines must survive format_code verbatim

TRIGGERS = {
    "dead_if": "import sys\nif False:\n    x = 1\n    print(x)\nprint(sys.argv)\n",
    "dead_tail": "def f(a):\n    return a\n    print(a)\n\nprint(f(1))\n",
    "unused_var": "def f():\n    y = 2\n    z = 3\n    return z\n\nprint(f())\n",
    "loop_append": "x = []\nfor i in range(3):\n    x.append(i)\nprint(x)\n",
    "move_before_loop": "for i in range(3):\n    x = 5\n    print(x, i)\n",
    "unused_import": "import os\nimport sys\nprint(sys.argv)\n",
    "sort_imports": "import sys\nimport os\nprint(os.sep, sys.argv)\n",
    "naming": "def f():\n    myVar = 1\n    return myVar\n\nprint(f())\n",
    "singleton_eq": "import sys\nif sys.argv == None:\n    print(1)\n",
    "redundant_else": "def f(x):\n    if x:\n        return 1\n    else:\n        return 2\n\nprint(f(1))\n",
    "swap_if_else": "def f(x):\n    if x:\n        pass\n    else:\n        print(2)\n\nf(1)\n",
    "dup_functions": "def f(a):\n    return a + 1\n\ndef g(a):\n    return a + 1\n\nprint(f(1), g(2))\n",
    "early_continue": "for i in range(5):\n    if i % 2:\n        print(i)\n        print(i + 1)\n        print(i + 2)\n",
    "context_manager": "def f(p):\n    h = open(p)\n    d = h.read()\n    h.close()\n    return d\n",
    "stacked_imports": "import os, sys\nprint(os.sep, sys.argv)\n",
    "common_code": "def f(a):\n    if a:\n        print(1)\n        print(9)\n    else:\n        print(2)\n        print(9)\n\nf(1)\n",
    "long_line": "import sys\nvalues = [sys.argv, sys.argv, sys.argv, sys.argv, sys.argv, sys.argv, sys.argv, sys.argv, sys.argv, sys.argv, sys.argv]\nprint(values)\n",
    "multi_line_stmt": "import sys\nvalues = [\n    sys.argv,\n    sys.argv == None,\n]\nprint(values)\n",
    "bool_simplify": "import sys\nn = len(sys.argv)\nif n > 1 and n >= 1:\n    print(n)\n",
    "blank_lines": "import sys\n\n\n\n\n\nprint(sys.argv)\n",
    "missing_import": "print(os.getcwd())\n",
    "staticmethod": "class A:\n    def m(self, a):\n        return a\n\nprint(A().m(1))\n",
    "if_assign": "import sys\nif sys.argv:\n    v = 1\nelse:\n    v = 2\nprint(v)\n",
    "pointless": "import sys\nsys.argv\n1 + 2\nprint(sys.argv)\n",
    # callers of processing.remove_nodes / alter_code(removals=...) (hunt C20-0)
    "dup_from_imports": "from spam import eggs\nfrom spam import spam\nprint(eggs, spam)\n",
    "dup_imports": "import os\nimport os\nprint(os)\n",
    "dup_import_alias": "import os.path\nimport os.path as osp\nimport os\nprint(os, osp)\n",
    "implicit_else": "def f(x):\n    if x > 10:\n        x += 1\n        x *= 12\n        print(x > 30)\n        return 100 - sum(x, 2, 3)\n\n    return 13\n\nprint(f(3))\n",
    "abstraction": "def f(x):\n    for i in x:\n        if i > 3:\n            if i < 10:\n                print(i)\n                return True\n    return False\n\nprint(f([1, 5]))\n",
    "assign_return": "def f():\n    s = list()\n    return s\n\nprint(f())\n",
    # a pure insertion (empty Range) in the MIDDLE of an annotated line: breakout_common_code_in_ifs moves the common
    # statement behind the if, i.e. between a blocking last statement and its trailing comment (seed C20-c)
    "common_tail_blocking": "def parse(kind, text):\n    if kind == 'int':\n        value = int(text)\n        checked = True\n    elif kind == 'float':\n        value = float(text)\n        checked = True\n    else:\n        raise ValueError(kind)\n    return value, checked\n\nprint(parse('int', '3'))\n",
    "overused": "def f():\n    return ['some long constant string', 'some long constant string', 'some long constant string', 'some long constant string', 'some long constant string']\n\nprint(f())\n",
}
COMMENTS = ["  # pyrefact: ignore", "  #pyrefact:ignore", "\t# pyrefact: ignore  "]


# ---- physical lines as the Python tokenizer (and the language reference, 2.1.2) defines them: a line ends at
#      \n, \r\n or \r and nowhere else.  str.splitlines() also breaks at the SEPS below, the tokenizer does not.
SEPS = ["\x0c", "\x0b", "\x1c", "\x1d", "\x1e", "\x85", "\u2028", "\u2029"]
_PY_LINE = re.compile(r"[^\r\n]*(?:\r\n|\r|\n)|[^\r\n]+")
IGNORE_DOC_RE = re.compile(r"#\s*pyrefact\s*:\s*(skip_file|ignore)")


def py_lines(text: str) -> list:
    """physical lines, terminators kept"""
    return _PY_LINE.findall(text)


def strip_term(line: str) -> str:
    return line[:-2] if line.endswith("\r\n") else line[:-1] if line[-1:] in ("\r", "\n") else line


def comment_tokens(src: str):
    """(0-based physical line number, text) of every COMMENT token (CPython's tokenizer; newline='' keeps \r and
    \r\n as they are and still ends a line there)"""
    return [(t.start[0] - 1, t.string) for t in tokenize.generate_tokens(io.StringIO(src, newline="").readline)
            if t.type == tokenize.COMMENT]


def annotate(src: str, lineno: int, comment: str):
    """Append the comment to physical line `lineno` (0-based) if that leaves the tree unchanged."""
    lines = py_lines(src)
    body = strip_term(lines[lineno])
    term = lines[lineno][len(body):]
    if not body.strip() or body.rstrip().endswith("\\"):
        return None
    lines[lineno] = body + comment + term
    new = "".join(lines)
    try:
        if ast.dump(ast.parse(new)) != ast.dump(ast.parse(src)):
            return None
        # the comment must be a real comment token on that line
        if not any(ln == lineno and IGNORE_DOC_RE.search(text) for ln, text in comment_tokens(new)):
            return None
    except (SyntaxError, ValueError, tokenize.TokenError):
        return None
    return new, body + comment


def indent4(src: str) -> str:
    """indent every non-blank physical line by four blanks (the harness's own code; textwrap.indent uses
    str.splitlines)"""
    return "".join(("    " + l) if l.strip("\r\n \t") else l for l in py_lines(src))


def n_lines(src: str) -> int:
    return len(py_lines(src))


def base_cases(tier):
    """family 'plain': every physical line of every trigger program x comment spelling x final-newline layout"""
    for name, src0 in TRIGGERS.items():
        for layout in ("nl", "no-final-nl"):
            src = src0 if layout == "nl" else src0.rstrip("\n")
            for ln in range(n_lines(src)):
                for ci, com in enumerate(COMMENTS):
                    if tier == "quick" and ci > 0 and ln > 0:
                        continue
                    if ci == 2 and ln > 1:
                        continue
                    if layout != "nl" and ci > 0:
                        continue
                    a = annotate(src, ln, com)
                    if a:
                        yield {"family": "plain", "trigger": name + ":" + layout, "lineno": ln, "comment": com,
                               "source": a[0], "line": a[1], "term": None}


# one-line shapes with a separator inside a string literal / an earlier comment of the annotated line
SEP_SHAPES = {
    "string": 'print(list(), "a{sep}b")  # pyrefact: ignore\nprint(1)\n',
    "string2": 's = "a{sep}b"; x = list()  # pyrefact: ignore\nprint(s, x)\n',
    "comment": 'print(list())  # note{sep} # pyrefact: ignore\nprint(1)\n',
    "code": 'x = list(){sep}# pyrefact: ignore\nprint(x)\n',
    "missing_import": 'print(os.getcwd(), "a{sep}b")  # pyrefact: ignore\n',
    "assign_return": 'def f():\n    s = "a{sep}b"  # pyrefact: ignore\n    return s\n\nprint(ascii(f()))\n',
    "dead_if": 'import sys\nif False:\n    print("a{sep}b")  # pyrefact: ignore\nprint(sys.argv)\n',
    "neighbour": 's = "a{sep}b"\nx = list()  # pyrefact: ignore\nprint(s, x, os)\n',
}


def sep_cases(tier):
    """family 'sep': str.splitlines separators that are NOT line ends for the tokenizer, inside the annotated line"""
    for shape, tpl in SEP_SHAPES.items():
        for sep in SEPS:
            src = tpl.replace("{sep}", sep)
            try:
                ast.parse(src)
                coms = comment_tokens(src)
            except (SyntaxError, ValueError, tokenize.TokenError):
                continue   # e.g. U+2028 outside a string/comment is not valid Python
            lines = py_lines(src)
            for ln, text in coms:
                if IGNORE_DOC_RE.search(text):
                    yield {"family": "sep", "trigger": f"sep:{shape}:U+{ord(sep):04X}", "lineno": ln, "comment": text,
                           "source": src, "line": strip_term(lines[ln]), "term": None}
    # every line of every trigger program, the separator inside an earlier comment of the annotated line
    k = 0
    for name, src0 in TRIGGERS.items():
        for ln in range(n_lines(src0)):
            seps = SEPS if tier != "quick" else [SEPS[k % len(SEPS)]]
            k += 1
            for sep in seps:
                a = annotate(src0, ln, f"  # n{sep}b  # pyrefact: ignore")
                if a:
                    yield {"family": "sep", "trigger": f"{name}:comment:U+{ord(sep):04X}", "lineno": ln,
                           "comment": "", "source": a[0], "line": a[1], "term": None}


def terminator_cases(tier):
    """family 'term': the trigger programs with \r\n and with \r as the line terminator; the annotated line must be
    carried over with its terminator"""
    for name, src0 in TRIGGERS.items():
        for tname, term in (("crlf", "\r\n"), ("cr", "\r")):
            src = src0.replace("\n", term)
            for ln in range(n_lines(src)):
                a = annotate(src, ln, COMMENTS[0])
                if a:
                    yield {"family": "term", "trigger": f"{name}:{tname}", "lineno": ln, "comment": COMMENTS[0],
                           "source": a[0], "line": a[1], "term": term}


def indented_cases(tier):
    """family 'indent': the trigger programs as indented snippets (format_code dedents, formats, re-indents), plain
    and with a str.splitlines separator inside a string literal of another line"""
    k = 0
    for name, src0 in TRIGGERS.items():
        for ln in range(n_lines(src0)):
            a = annotate(src0, ln, COMMENTS[0])
            if not a:
                continue
            k += 1
            variants = [("plain", a[0])]
            for sep in (SEPS if tier != "quick" else [SEPS[k % len(SEPS)]]):
                variants.append((f"U+{ord(sep):04X}", a[0] + f'print("a{sep}b")\n'))
            for vname, text in variants:
                src = indent4(text)
                try:
                    ast.parse(src)
                    continue   # not an indented snippet after all
                except SyntaxError:
                    pass
                yield {"family": "indent", "trigger": f"{name}:indent:{vname}", "lineno": ln, "comment": COMMENTS[0],
                       "source": src, "line": "    " + a[1], "term": None, "dedented": a[1]}


def neutral_twin(src: str) -> str:
    """the same program with ordinary characters: every str.splitlines-only separator -> 'Z', \r\n and \r -> \n"""
    for sep in SEPS:
        src = src.replace(sep, "Z")
    return src.replace("\r\n", "\n").replace("\r", "\n")


SYNTH_SOURCES = [
    "x = 1  # pyrefact: ignore\nprint(x)\n",
    "y = 0\nx = 1  # pyrefact: ignore\nprint(x)\n",
    "print(0)\nx = 1  # pyrefact: ignore",
    "if y:\n    x = 1  # pyrefact: ignore\n",
    "x = 1\x0c# pyrefact: ignore\nprint(x)\n",
    "x = 1  # a\x0c# pyrefact: ignore\nprint(x)\n",
    "x = 1; s = 'a\u2028b'  # pyrefact: ignore\nprint(x)\n",
    "x = 1; s = 'a\x85b'  # pyrefact: ignore\nprint(x)\n",
    "x = 1; s = 'a\x1cb'  #\tpyrefact :ignore\nprint(x)\n",
    "y = 0\r\nx = 1  # pyrefact: ignore\r\nprint(x)\r\n",
    "y = 0\rx = 1  # pyrefact: ignore\rprint(x)\r",
]


def synthetic_rule_cases(mods, tier):
    """For small sources with one annotated line: a synthetic rule that yields ONE rewrite (Range(s, e), text), for
    every range inside the annotated line (terminator included), every insertion point of it, and a few texts, is run
    through processing.fix (scheduler + _apply_rewrites + _do_rewrite).  The annotated line must come out verbatim."""
    core, processing = mods["core"], mods["processing"]
    for src in SYNTH_SOURCES:
        lines = py_lines(src)
        coms = [ln for ln, text in comment_tokens(src) if IGNORE_DOC_RE.search(text)]
        assert len(coms) == 1, src
        ln = coms[0]
        start = sum(len(l) for l in lines[:ln])
        body = strip_term(lines[ln])
        term = lines[ln][len(body):]
        end = start + len(lines[ln])
        points = list(range(start, end + 1))
        if tier == "quick" and len(points) > 14:   # line start/end regions + every 3rd point
            points = sorted(set(points[:5] + points[-5:] + points[::3]))
        for s_ in points:
            for e_ in points:
                if e_ < s_ or (tier == "quick" and e_ - s_ > 2 and e_ not in (end - len(term), end)):
                    continue
                for text in (("q", "q\n") if s_ == e_ else ("q", "")):
                    if s_ == e_ == end and term:
                        continue    # the start of the next line: not this line
                    def rule(source, _r=core.Range(s_, e_), _t=text):
                        yield _r, _t
                    rule.__name__ = "synthetic_rule"
                    core.parse.cache_clear()
                    with common.quiet():
                        try:
                            out = processing.fix(rule, max_iter=1)(src)
                        except Exception as e:  # noqa
                            out = src    # a rewrite that makes the machinery raise changes nothing
                    yield {"family": "synthetic", "trigger": f"synthetic:Range({s_},{e_})->{text!r}", "source": src,
                           "line": body, "term": term or None, "lineno": ln, "range": [s_, e_], "text": text,
                           "output": out, "lost": not line_present(out, body, term or None)}



# ------------------------------------------------------------------------------------------------
# round 5 (seed C20-d): decorated definitions.  A definition occupies the physical lines from its FIRST DECORATOR
# to its end; the rules that delete / move / rewrite whole definitions go through the direct-editing back end
# (processing.remove_nodes / alter_code) or carry their own guard, and ask has_ignore_comment about the node.

DECO_SHAPES = {
    "single": ["@functools.lru_cache(maxsize=None)"],
    "stacked": ["@functools.wraps(len)", "@functools.lru_cache(maxsize=8)"],
    "multiline": ["@functools.lru_cache(", "    maxsize=16,", ")"],
}
# decorators that move_staticmethod_static_scope / remove_unused_self_cls accept
DECO_SHAPES_STATIC = {
    "single": ["@staticmethod"],
    "multiline": ["@(", "    staticmethod", ")"],
}
DECO_SHAPES_CLS = {
    "single": ["@classmethod"],
    "multiline": ["@(", "    classmethod", ")"],
}
DECO_SHAPES_CLASS = {
    "single": ["@functools.total_ordering"],
    "stacked": ["@functools.total_ordering", "@functools.total_ordering"],
    "multiline": ["@(", "    functools.total_ordering", ")"],
}


def _deco(lines, indent=""):
    return "".join(indent + l + "\n" for l in lines)


# name -> (shapes, template with {D} = decorator lines at module level / {DI} = indented by 4, rules run alone:
#          (module, function, kwargs))
DECO_TRIGGERS = {
    "dup_functions": (DECO_SHAPES,
                      "import functools\n\n\n{D}def first(x):\n    return x * 2 + 1\n\n\n{D}def second(x):\n    return x * 2 + 1\n\n\n"
                      "print(first(1), second(2))\n",
                      [("fixes", "remove_duplicate_functions", {"preserve": frozenset()})]),
    "unused_function": (DECO_SHAPES,
                        "import functools\n\n\n{D}def _unused(x):\n    return x * 2 + 1\n\n\nprint(3, functools)\n",
                        [("fixes", "delete_unused_functions_and_classes", {"preserve": frozenset()})]),
    "unused_class": (DECO_SHAPES_CLASS,
                     "import functools\n\n\n{D}class _Unused:\n    x = 1\n\n\nprint(3, functools)\n",
                     [("fixes", "delete_unused_functions_and_classes", {"preserve": frozenset()})]),
    "unreachable": (DECO_SHAPES,
                    "import functools\n\n\ndef f(a):\n    return a\n\n{DI}    def g(b):\n        return b\n\n    return g\n\n\n"
                    "print(f(1), functools)\n",
                    [("fixes", "delete_unreachable_code", {})]),
    "dead_if": (DECO_SHAPES,
                "import functools\nimport sys\n\nif False:\n{DI}    def g(b):\n        return b\n\nprint(sys.argv, functools)\n",
                [("fixes", "remove_dead_ifs", {})]),
    "static_scope": (DECO_SHAPES_STATIC,
                     "class A:\n{DI}    def m(a):\n        return a + 1\n\n\nprint(A.m(1))\n",
                     [("object_oriented", "move_staticmethod_static_scope", {"preserve": frozenset()})]),
    "unused_cls": (DECO_SHAPES_CLS,
                   "class A:\n    y = 1\n\n{DI}    def m(cls, a):\n        return a + 1\n\n\nprint(A.m(1), A.y)\n",
                   [("object_oriented", "remove_unused_self_cls", {})]),
    "unused_self": ({"none": []},
                    "class A:\n    y = 1\n\n{DI}    def m(self, a):\n        return a + 1\n\n\nprint(A().m(1), A.y)\n",
                    [("object_oriented", "remove_unused_self_cls", {})]),
    "unconventional_class": (DECO_SHAPES_CLASS,
                             "import functools\n\n\n{D}class Foo:\n    y = 2\n\n\nFoo.x = 1\nprint(Foo)\n",
                             [("object_oriented", "fix_unconventional_class_definitions", {})]),
    "move_imports": (DECO_SHAPES,
                     "import functools\n\n\n{D}def f(a):\n    import os\n    return os.sep + a\n\n\nprint(f('a'))\n",
                     [("fixes", "move_imports_to_toplevel", {})]),
}


def definition_lines(src: str):
    """0-based physical line numbers of every decorated-or-not definition of `src`: each decorator line, each line of
    a multi-line decorator call, the def/class line, the body lines (computed from CPython's ast)"""
    out = set()
    for node in ast.walk(ast.parse(src)):
        if isinstance(node, (ast.FunctionDef, ast.AsyncFunctionDef, ast.ClassDef)):
            first = min([node.lineno] + [d.lineno for d in node.decorator_list])
            # the "@" may sit on an earlier line than the decorator expression ("@(" + newline)
            lines = py_lines(src)
            while first > 1 and not lines[first - 1].lstrip().startswith("@") and node.decorator_list:
                first -= 1
            out.update(range(first - 1, node.end_lineno))
    return sorted(out)


def decorated_programs():
    for name, (shapes, tpl, rules) in DECO_TRIGGERS.items():
        for shape, dl in shapes.items():
            src = tpl.replace("{DI}", _deco(dl, "    ")).replace("{D}", _deco(dl))
            ast.parse(src)
            yield name, shape, src, rules


def decorated_cases(tier):
    """family 'decorated': every physical line of every definition (decorator lines, lines inside a multi-line
    decorator, def/class line, body lines) of every decorated trigger program x the rules that remove / move /
    rewrite whole definitions.  Each case is run through format_code AND through the rule alone (`rules`)."""
    for name, shape, src, rules in decorated_programs():
        for ln in range(n_lines(src)):
            a = annotate(src, ln, COMMENTS[0])
            if a:
                base = {"family": "decorated", "trigger": f"{name}:{shape}", "lineno": ln, "comment": COMMENTS[0],
                        "source": a[0], "line": a[1], "term": None}
                for m, f, _ in rules:
                    yield dict(base, entry="rule", rule=[m, f])
                yield dict(base, entry="format_code")


def run_rule_alone(mods, case):
    """the second entry point of family 'decorated': the rule function alone on the annotated source"""
    m, f = case["rule"]
    kwargs = next(k for (mm, ff, k) in DECO_TRIGGERS[case["trigger"].split(":")[0]][2] if (mm, ff) == (m, f))
    return getattr(mods[m], f)(case["source"], **kwargs)


def node_first_last(node, src: str):
    """first / last physical line (0-based) of a node: the line of the "@" of its first decorator, else lineno"""
    first = min([node.lineno] + [d.lineno for d in getattr(node, "decorator_list", None) or []])
    if getattr(node, "decorator_list", None):
        lines = py_lines(src)
        while first > 1 and not lines[first - 1].lstrip().startswith("@"):
            first -= 1
    return first - 1, node.end_lineno - 1


def charno(src: str, lineno: int, col: int) -> int:
    """character offset of (1-based line, column) -- ASCII sources only"""
    return sum(len(l) for l in py_lines(src)[:lineno - 1]) + col


class IgnoreSpy:
    """Wraps core.get_charnos and core.has_ignore_comment: for every has_ignore_comment(source, x) where x is a node,
    or the very Range object core.get_charnos returned for a node, records (source, node lines, range handed over,
    verdict, calling function).  Records only while `active`."""

    def __init__(self, mods):
        self.core = mods["core"]
        self.active = False
        self.cases = {}
        self._ranges = []     # (Range object, node, source), kept alive so that ids are not reused

    def __enter__(self):
        core = self.core
        self._orig = (core.get_charnos, core.has_ignore_comment)
        orig_gc, orig_hic = self._orig

        def get_charnos(node, source, *a, **k):
            r = orig_gc(node, source, *a, **k)
            if self.active and len(self._ranges) < 200000:
                self._ranges.append((r, node, source))
            return r

        def has_ignore_comment(source, rng):
            v = orig_hic(source, rng)
            if self.active:
                try:
                    fr = sys._getframe(1)
                    while fr.f_back is not None and fr.f_code.co_name.startswith("<"):
                        fr = fr.f_back
                    self._record(source, rng, v, fr.f_code.co_name)
                except Exception:  # noqa
                    pass
            return v
        core.get_charnos, core.has_ignore_comment = get_charnos, has_ignore_comment
        return self

    def __exit__(self, *exc):
        self.core.get_charnos, self.core.has_ignore_comment = self._orig

    def flush(self):
        self._ranges.clear()

    def _record(self, source, rng, verdict, caller):
        if isinstance(rng, ast.AST):
            node, handed = rng, "node"
        else:
            node = next((n for (r, n, s) in reversed(self._ranges[-4000:]) if r is rng and s == source), None)
            handed = "range"
        if node is None or getattr(node, "end_lineno", None) is None or not source.isascii():
            return
        first, last = node_first_last(node, source)
        if handed == "node":
            # the natural reading of a bare node: its own position, lineno/col_offset .. end_lineno/end_col_offset
            start, end = charno(source, node.lineno, node.col_offset), charno(source, node.end_lineno, node.end_col_offset)
        else:
            start, end = rng.start, rng.end
        if start >= end:
            return
        key = (source, start, end, first, last)
        if key not in self.cases:
            gc = self._orig[0](node, source)
            self.cases[key] = {"source": source, "range": [start, end], "first": first, "last": last,
                               "verdict": bool(verdict), "handed": handed, "caller": caller,
                               "node": type(node).__name__, "decorated": bool(getattr(node, "decorator_list", None)),
                               "get_charnos": [gc.start, gc.end]}


def g_node_case(c) -> str:
    return (f"(mkNode {gtextN(c['source'])} {g_coms(tokenizer_verdict(c['source']))} "
            f"({gz(c['range'][0])}, {gz(c['range'][1])})%Z {c['first']}%nat {c['last']}%nat {gbool(c['verdict'])})")


def sweep_cases(tier):
    yield from decorated_cases(tier)
    yield from base_cases(tier)
    yield from sep_cases(tier)
    yield from terminator_cases(tier)
    yield from indented_cases(tier)


def line_present(text: str, line: str, term=None) -> bool:
    """the annotated line is a physical line of `text`; with `term`: including its terminator (the last line of the
    text may lack one)"""
    lines = py_lines(text)
    for i, l in enumerate(lines):
        if strip_term(l) == line:
            if term is None or l == line + term or (l == line and i == len(lines) - 1):
                return True
    return False


def bisect(mods, src: str, line: str, term=None, ded=None):
    """First stage whose input contains the annotated line and whose output does not.  An indented snippet is
    dedented by format_code before the rules run and re-indented at the end: inside the pipeline the dedented form of
    the line counts as the line."""
    with common.quiet():
        res, log = pipeline.trace_format_code(mods, src)
    if isinstance(res, Exception):
        site = "exception:" + type(res).__name__
        if log:   # the stage after the last completed one raised
            site += "@after:" + log[-1][0]
        return (site, src, None), res
    ded = line if ded is None else ded

    def has(text):
        return line_present(text, line, term) or (ded != line and line_present(text, ded, term))
    # pre-passes before the first traced stage
    if log and not has(log[0][1]):
        return ("main.format_code:prepasses", src, log[0][1]), res
    for name, a, b in log:
        if has(a) and not has(b):
            return (name, a, b), res
    if log and ded != line and line_present(log[-1][2], ded, term):
        return ("main.format_code:reindent", log[-1][2], res), res
    return ("main.format_code:untraced", src, res), res


# structural predicates of known findings (sig= field).  case = dict(site, line, before, after, trigger)
def _sig_direct_edit(case):
    # the stage edits text through processing.alter_code/remove_nodes/_insert_nodes (no ignore test there)
    return case["site"] in DIRECT_EDIT_SITES


def _sig_prepass_ws(case):
    l = case["line"]
    return "\t" in l or l != l.rstrip()


def _sig_naming_occurrence(case):
    # the convention renamer edits every occurrence of a renamed name, including one on an ignored line
    return case["site"] == "fixes.align_variable_names_with_convention"


def _sig_blank_lines(case):
    return case["site"].endswith("fix_too_many_blank_lines")


def _sig_remove_nodes(case):
    """The stage hands processing.remove_nodes (directly or through alter_code(removals=...)) a node that lies on
    the annotated line, and what is left of the line afterwards is its bare comment: remove_nodes has no ignore
    test (hunt C20-0; site owned by c10h).  Established by re-running the stage with a spy on remove_nodes."""
    mods = common.import_impl()
    proc, core = mods["processing"], mods["core"]
    a, b, site, line = case.get("stage_input"), case.get("stage_output"), case["site"], case["line"]
    if not isinstance(a, str) or not isinstance(b, str) or "." not in site:
        return False
    m = IGNORE_DOC_RE.search(line)
    hash_at = line.find("#")
    if not m or hash_at < 0:
        return False
    comment = line[hash_at:].strip()
    if not any(l.strip() == comment for l in py_lines(b)):      # the orphaned comment
        return False
    modname, fname = site.split(".", 1)
    fn = getattr(mods.get(modname), fname, None)
    if fn is None:
        return False
    target = case.get("dedented") or line
    hits = []
    orig = proc.remove_nodes

    def spy(source, nodes, root):
        nodes = list(nodes)
        pos = 0
        for l in py_lines(source):
            if strip_term(l) in (target, line):
                for n in nodes:
                    try:
                        r = core.get_charnos(n, source)
                    except Exception:  # noqa
                        continue
                    if r.start < pos + len(l) and pos < r.end:
                        hits.append((r.start, r.end))
            pos += len(l)
        return orig(source, nodes, root)
    proc.remove_nodes = spy
    try:
        core.parse.cache_clear()
        with common.quiet():
            try:
                fn(a)
            except TypeError:
                fn(a, preserve=frozenset())
    except Exception:  # noqa
        pass
    finally:
        proc.remove_nodes = orig
    return bool(hits)


def _sig_cr_only_else_regex(case):
    """format_code raises IndexError on a file whose only line terminator is \\r and that has an `else:` for
    remove_redundant_else: its textual regexes know \\n only (site owned by c02h)"""
    src = case.get("source", "")
    return (case["site"].startswith("exception:IndexError") and "\r" in src and "\n" not in src
            and re.search(r"\belse:", src) is not None)


SIGS = {"direct_edit": _sig_direct_edit, "prepass_ws": _sig_prepass_ws, "naming_occurrence": _sig_naming_occurrence,
        "remove_nodes_no_ignore_test": _sig_remove_nodes, "cr_only_else_regex": _sig_cr_only_else_regex}
DIRECT_EDIT_SITES: set = set()


def direct_edit_sites(mods) -> set:
    """Rule functions whose own source text calls the direct-edit back end (computed from /repo)."""
    import inspect
    out = set()
    for modname in pipeline.STAGE_MODULES:
        mod = mods[modname]
        for name, fn in vars(mod).items():
            if name.startswith("_") or not callable(fn) or getattr(fn, "__module__", None) != mod.__name__:
                continue
            try:
                text = inspect.getsource(fn)
            except (OSError, TypeError):
                continue
            if any(k in text for k in ("processing.alter_code", "processing.remove_nodes", "processing.insert_nodes",
                                       "processing.replace_nodes", "_fix_variable_names", "_fix_undefined_variables")):
                out.add(f"{modname}.{name}")
    return out


def match_finding(kf, case):
    for f in kf:
        if f.kind != "finding":
            continue
        pred = SIGS.get(f.fields.get("sig", ""))
        site = f.fields.get("site", "")
        if site not in ("*", case["site"]):
            continue
        try:
            if pred and pred(case):
                return f
        except Exception:  # noqa
            continue
    return None


# ------------------------------------------------------------------------------------------------
# stdin / file entry points


def entry_points(tmp: Path):
    """skip_file sources through format_file and --from-stdin: bytes must come back unchanged."""
    res = []
    srcs = ["# pyrefact: skip_file\nx  =  1 ;y=2   \n", "x  =  1\n#pyrefact:skip_file", "import os\n\n\n\n\n# pyrefact : skip_file\n\tz=1\n",
            "#  pyrefact:  skip_file\r\nx  =  1 \r\n"]
    env = dict(os.environ, PYTHONPATH=str(common.REPO), PYTHONHASHSEED="0")
    for i, s in enumerate(srcs):
        p = tmp / f"skip_{i}.py"
        p.write_bytes(s.encode())
        before = p.stat().st_mtime_ns
        r = subprocess.run([sys.executable, "-m", "pyrefact", str(p)], capture_output=True, env=env, cwd=str(tmp), timeout=120)
        res.append({"entry": "file", "source": s, "ok": p.read_bytes() == s.encode() and p.stat().st_mtime_ns == before,
                    "got": p.read_bytes().decode(errors="replace")})
        r = subprocess.run([sys.executable, "-m", "pyrefact", "--from-stdin"], input=s.encode(), capture_output=True,
                           env=env, cwd=str(tmp), timeout=120)
        res.append({"entry": "stdin", "source": s, "ok": r.stdout == s.encode(), "got": r.stdout.decode(errors="replace")})
    return res


# ------------------------------------------------------------------------------------------------


def check(run: common.Run):
    global DIRECT_EDIT_SITES
    wd = common.workdir(PID)
    ps = common.proof_step(run, PID, wd)
    mods = common.import_impl()
    rnd = random.Random(run.seed)
    hist = Counter()
    DIRECT_EDIT_SITES = direct_edit_sites(mods)

    # ---- character classes
    spaces, breaks, eols, ref_eols = char_classes(mods["core"])
    files, shards = [], []
    p = wd / "classes.v"
    write_class_file(p, spaces, breaks, eols, ref_eols)
    files.append(p); shards.append("classes")

    # ---- recogniser cases
    cases = []
    heads = list(dict.fromkeys(exhaustive_heads()))
    n_exh = len(heads)
    nrand = 1500 if run.tier == "quick" else 20000
    heads += [random_head(rnd) for _ in range(nrand)]
    for h in heads:
        src = h + TAIL
        cases.append((src, ranges_for(src, rnd, False)[:12], True))
    for src in EXTRA_SOURCES:
        cases.append((src, ranges_for(src, rnd, True), False))
    nml = 600 if run.tier == "quick" else 6000
    for _ in range(nml):
        src = multi_line(rnd)
        cases.append((src, ranges_for(src, rnd, True), False))
    items = []
    distinct = set()
    for (src, rr, with_skip) in cases:
        try:
            lines, verdicts, skip, rres = impl_case(mods, src, rr, with_skip)
        except Exception as e:  # noqa
            items.append((src, None, None, ("exc", type(e).__name__), None))
            continue
        if skip is None:
            skip_for_model = None
        else:
            skip_for_model = skip
        items.append((src, lines, verdicts, skip_for_model, rres))
        hist["lines=%d" % len(lines)] += 1
        hist["ignored_lines=%d" % sum(verdicts)] += 1
        if any(verdicts):
            distinct.add(src)
    line_structure_fail = [{"source": it[0], "core.split_lines": it[1], "reference": reference_lines(it[0])}
                           for it in items if it[1] is not None and it[1] != reference_lines(it[0])]
    bad_impl = [it for it in items if it[1] is None or isinstance(it[3], tuple)]
    good = [it for it in items if it[1] is not None and not isinstance(it[3], tuple)]
    SH = 300
    for k in range(0, len(good), SH):
        shard = good[k:k + SH]
        p = wd / f"ign_{k // SH}.v"
        lines_v = []
        for (s, l, v, sk, rr) in shard:
            lines_v.append(g_case(s, l, v, sk, rr))
        p.write_text("From Coq Require Import List ZArith NArith Bool.\nImport ListNotations.\n"
                     "Require Import Pyrefact.Base Pyrefact.SchedModel Pyrefact.IgnoreModel.\n"
                     "Definition cases : list ign_case := [\n " + ";\n ".join(lines_v) + "\n].\n"
                     "Eval vm_compute in (bad_idx ign_case_ok cases).\n")
        files.append(p); shards.append(shard)
    results = common.run_case_files(files)
    disagreements = []
    for p, shard in zip(files, shards):
        rc, out = results[p]
        idx = common.parse_nat_list(out) if rc == 0 else None
        if idx is None:
            disagreements.append({"kind": "model-evaluation-failed", "file": p.name, "log": out[-1500:]})
            continue
        for i in idx:
            if shard == "classes":
                disagreements.append({"kind": "character-class", "index": i,
                                      "detail": "regex \\s / str.splitlines boundary set differs from the model's table"})
            else:
                s, l, v, sk, rr = shard[i]
                disagreements.append({"kind": "recogniser", "source": s, "impl_lines": l, "impl_line_verdicts": v,
                                      "impl_skip": sk, "impl_ranges": rr})
    for it in bad_impl:
        disagreements.append({"kind": "impl-raised", "source": it[0], "detail": str(it[3])})

    # ---- direct property oracle for the skip recogniser (independent of the model): a source whose
    #      physical line matches the documented comment syntax must come back byte-identical
    import re
    doc_re = re.compile(r"#\s*pyrefact\s*:\s*skip_file")
    skip_fail = []
    for (s, l, v, sk, rr) in good:
        if sk is None:
            continue
        has = any(doc_re.search(line) for line in s.splitlines())
        if has and sk is not True:
            skip_fail.append({"source": s, "problem": "a line carries a skip_file comment but format_code changed the text"})

    # ---- entry points
    ep = entry_points(wd)
    ep_fail = [e for e in ep if not e["ok"]]

    # ---- sweep
    kf = common.load_findings(PID)
    sweep_fail, sweep_known, n_sweep = [], Counter(), 0
    known_example = {}
    fam_count = Counter()
    spy = IgnoreSpy(mods)
    spy.__enter__()
    for c in sweep_cases(run.tier):
        n_sweep += 1
        src, line, term = c["source"], c["line"], c["term"]
        fam_count[c["family"]] += 1
        mods["core"].parse.cache_clear()
        exc = None
        # the arguments the real callers hand to has_ignore_comment are recorded for the decorated family (and, in the
        # thorough tier, for the plain family)
        spy.active = c["family"] == "decorated" or (run.tier != "quick" and c["family"] == "plain")
        spy.flush()
        with common.quiet():
            try:
                out = run_rule_alone(mods, c) if c.get("entry") == "rule" else mods["main"].format_code(src)
            except Exception as e:  # noqa
                exc = e
        spy.active = False
        if exc is not None and c.get("entry") == "rule":
            hist["sweep:rule-exception"] += 1
            continue     # totality of a single rule is C04's business; format_code on the same source is the next case
        if exc is None and c.get("entry") == "rule":
            if line_present(out, line, term):
                hist["sweep:kept"] += 1
                continue
            case = dict(c, site=".".join(c["rule"]), output=out, stage_input=src, stage_output=out)
        elif exc is not None:
            # totality is C04's business -- unless the exception is caused by the line structure itself: the same
            # program with every str.splitlines-only separator replaced by a letter and \n terminators goes through
            hist["sweep:exception"] += 1
            twin = neutral_twin(src)
            if twin == src:
                continue
            with common.quiet():
                try:
                    mods["main"].format_code(twin)
                except Exception:  # noqa
                    continue
            (site, a_, b_), _ = bisect(mods, src, line, term, c.get("dedented"))
            case = dict(c, site=site, output="%s: %s" % (type(exc).__name__, exc), stage_input=a_, stage_output=b_,
                        problem="format_code raises on this input (and not on the same program with ordinary "
                                "characters / \\n terminators): the annotated line is not carried over")
        else:
            if line_present(out, line, term):
                hist["sweep:kept"] += 1
                continue
            (site, a_, b_), _ = bisect(mods, src, line, term, c.get("dedented"))
            case = dict(c, site=site, output=out, stage_input=a_, stage_output=b_)
            if term is not None and line_present(out, line, None):
                case["problem"] = "the annotated line lost its line terminator %r" % term
        f = match_finding(kf, case)
        if f is None:
            sweep_fail.append(case)
        else:
            sweep_known[f.id] += 1
            known_example.setdefault(f.id, case)
        hist["sweep:lost@" + case["site"]] += 1
    spy.__exit__(None, None, None)

    # ---- nodes (round 5): the range the real callers (remove_nodes, alter_code, the rules' own guards, the scheduler)
    #      handed to has_ignore_comment for a node, against the node's physical lines first decorator..end_lineno
    #      (IgnoreModel.spans / node_lines_ignore, T20_4): decorated nodes first, then the others, <= 2 x 400 cases
    node_cases = sorted(spy.cases.values(), key=lambda c: (not c["decorated"], c["handed"] != "node"))
    node_cases = node_cases[:800 if run.tier == "quick" else 4000]
    node_files = []
    for k in range(0, len(node_cases), 400):
        shard = node_cases[k:k + 400]
        p = wd / f"node_{k // 400}.v"
        p.write_text("From Coq Require Import List ZArith NArith Bool.\nImport ListNotations.\n"
                     "Require Import Pyrefact.Base Pyrefact.SchedModel Pyrefact.IgnoreModel.\n"
                     "Definition cases : list node_case := [\n " + ";\n ".join(g_node_case(c) for c in shard) + "\n].\n"
                     "Eval vm_compute in (bad_idx node_case_ok cases).\n")
        node_files.append((p, shard))
    node_results = common.run_case_files([p for p, _ in node_files]) if node_files else {}
    for p, shard in node_files:
        rc, out = node_results[p]
        idx = common.parse_nat_list(out) if rc == 0 else None
        if idx is None:
            disagreements.append({"kind": "model-evaluation-failed", "file": p.name, "log": out[-1500:]})
            continue
        for i in idx:
            disagreements.append(dict(shard[i], kind="node-range",
                                      detail="the range handed to has_ignore_comment for this node does not span the "
                                             "node's physical lines (first decorator line .. end_lineno), or the verdict "
                                             "differs from 'one of these lines protects' (T20_4)"))
    # independent of the model: a decorated node must be handed over as core.get_charnos(node) (from the first "@")
    for c in node_cases:
        (s0, e0), (s1, e1) = c["range"], c["get_charnos"]
        # (the scheduler asks with keep_first_indent=True: the blanks before the "@" are included)
        same = e0 == e1 and s0 <= s1 and not c["source"][s0:s1].strip(" ")
        if c["decorated"] and (c["handed"] != "range" or not same):
            disagreements.append(dict(c, kind="node-range",
                                      detail="a caller of has_ignore_comment handed over a decorated node / a range that "
                                             "is not core.get_charnos(node)"))
    hist["node-cases"] = len(node_cases)
    hist["node-cases:decorated"] = sum(c["decorated"] for c in node_cases)

    # ---- synthetic rules: ANY rewrite a rule may yield (range x replacement text), through the real scheduler
    #      and _do_rewrite, must leave a line with an ignore comment verbatim
    n_synth, synth_fail = 0, []
    for c in synthetic_rule_cases(mods, run.tier):
        n_synth += 1
        if c.get("lost"):
            c["site"] = "processing.fix/_schedule_rewrites/_do_rewrite + core.has_ignore_comment"
            f = match_finding(kf, c)
            if f is None:
                synth_fail.append(c)
            else:
                sweep_known[f.id] += 1
                known_example.setdefault(f.id, c)
            hist["synthetic:lost"] += 1
    sweep_fail = synth_fail[:3] + sweep_fail

    for f in kf:
        if f.kind == "finding":
            if sweep_known.get(f.id):
                ex = known_example[f.id]
                run.known_finding(f.id, f"{f.text} [{sweep_known[f.id]} annotated lines, e.g. trigger {ex['trigger']!r} "
                                        f"line {ex['line']!r} lost in {ex['site']}]")
            else:
                common.log(f"note: known finding {f.id} no longer reproduces")

    # ---- verdicts
    seen_sites, shown = set(), Counter()
    for c in sweep_fail:   # one report per (family, site), at most 4 per family
        key = (c.get("family"), c["site"], c.get("entry"))
        if key in seen_sites or shown[c.get("family")] >= 4:
            continue
        seen_sites.add(key)
        shown[c.get("family")] += 1
        run.violation({"kind": "property-oracle", **c,
                       "explanation": "a line carrying an ignore comment is not present verbatim in %s and no listed "
                                      "finding covers this site/shape"
                                      % ("the output of the rule run alone (`rule`)" if c.get("entry") == "rule"
                                         else "format_code's output")}, True)
    for c in skip_fail[:3]:
        run.violation({"kind": "property-oracle", "site": "main.format_code", **c,
                       "explanation": "skip_file comment not honoured"}, True)
    for c in line_structure_fail[:3]:
        run.violation({"kind": "property-oracle", "site": "core.split_lines", **c,
                       "explanation": "core.split_lines does not split the source into the physical lines that CPython's "
                                      "universal-newline reader feeds the tokenizer"}, True)
    for e in ep_fail[:3]:
        run.violation({"kind": "property-oracle", "site": "main.main/format_file", **e,
                       "explanation": "a skip_file source is not handed back byte-for-byte by the file/stdin entry point"}, True)
    if not (sweep_fail or skip_fail or ep_fail or line_structure_fail):
        for d in disagreements[:5]:
            run.violation(dict(d, kernel="IgnoreModel (has_ignore_comment / skip_file / splitlines / \\s)",
                               explanation="model and implementation disagree; the property oracles (annotated-line "
                                           "sweep, skip_file identity, entry points) found no failing input"), False)
    if ps.get("props") and not ps["props"]["ok"]:
        pr = ps["props"]
        run.violation({"kind": "proof", "file": pr["file"], "broken": pr.get("broken"), "log": pr["log"],
                       "explanation": "a property theorem no longer checks"}, False)

    run.coverage.update(
        evaluations=len(items) + n_sweep + len(ep) + 0x110000,
        distinct_nontrivial=len(distinct),
        rule=("character classes: regex \\s and str.splitlines boundaries for ALL 0x110000 code points vs the model's "
              "tables (exhaustive). Recogniser: sources '<pre>#<ws>pyrefact<ws>:<ws><kw><post>' + a tail that "
              "format_code always changes: full product over a small core of every slot and one-slot variations "
              "(exhaustive, seed-independent) + seeded random slot combinations + seeded multi-line sources with all "
              "str.splitlines terminators; per case: str.splitlines, per-line has_ignore_comment, has_ignore_comment on "
              "ranges (all ranges for sources <= 14 chars, line-boundary +-1 otherwise), format_code(src) == src. "
              "Sweep: every physical line of %d trigger programs annotated with an ignore comment, format_code, line "
              "present verbatim; failures bisected by stage tracing. Family 'decorated' (round 5): every physical line "
              "of %d decorated-definition programs (single / stacked / multi-line decorators) x the rule that removes, "
              "moves or rewrites the definition run alone AND format_code. Nodes: every (node, range) a real caller "
              "handed to has_ignore_comment during that family vs IgnoreModel.spans / node_lines_ignore (first "
              "decorator line .. end_lineno). Non-trivial = at least one line carries an "
              "ignore comment; distinct by source text." % (len(TRIGGERS), sum(1 for _ in decorated_programs()))),
        samples=[items[0][0], items[n_exh // 2][0], items[-1][0], next(iter(sweep_cases(run.tier)))["source"]],
        exhaustive=False, exhaustive_part=n_exh, random_part=nrand + nml, sweep_cases=n_sweep,
        entry_point_cases=len(ep), histogram=dict(hist),
        correspondence_disagreements=len(disagreements), property_oracle_failures=len(sweep_fail) + len(skip_fail) + len(ep_fail),
        direct_edit_sites=sorted(DIRECT_EDIT_SITES),
        trusted_base=common.TRUSTED_BASE_COMMON + [
            "scheduler model SchedModel.v and its correspondence (C10) for T20.3a",
            "_do_rewrite is abstracted to a splice (second ignore test there is redundant with the scheduler's)",
            "the direct-edit back end (remove_nodes/_insert_nodes/alter_code): only its ignore test is modelled (the "
            "range handed to has_ignore_comment for a node = the node's physical lines, T20_4, correspondence on the "
            "recorded arguments; core.get_charnos itself is not modelled); its text surgery, the raw-text pre-passes, "
            "black and the naming stage are covered only by the sweep"],
    )
    run.assumptions += [
        "T20.3 is about rewrites that go through the scheduler (every @processing.fix rule, chain, sub/subn)",
        "the sweep is a deterministic enumeration, not a proof"]


def replay(path: str) -> int:
    data = json.loads(Path(path).read_text())
    mods = common.import_impl()
    print(json.dumps({k: data[k] for k in data if k in ("kind", "explanation", "site", "line", "trigger")}, indent=1))
    if data.get("kind") == "property-oracle" and "line" in data:
        with common.quiet():
            out = run_rule_alone(mods, data) if data.get("entry") == "rule" else mods["main"].format_code(data["source"])
        print("output now:", repr(out))
        print("line present:", line_present(out, data["line"]))
    elif data.get("kind") == "node-range":
        src, core = data["source"], mods["core"]
        for node in ast.walk(ast.parse(src)):
            if getattr(node, "end_lineno", None) is not None and type(node).__name__ == data["node"] \
                    and list(node_first_last(node, src)) == [data["first"], data["last"]]:
                r = core.get_charnos(node, src)
                print("node lines %d..%d: get_charnos now %s (recorded range %s, handed over as a %s by %s); "
                      "has_ignore_comment now: %s" % (data["first"], data["last"], tuple(r), data["range"], data["handed"],
                                                      data["caller"], core.has_ignore_comment(src, r)))
    elif data.get("kind") == "recogniser":
        s = data["source"]
        print("impl now:", impl_case(mods, s, [tuple(r[0]) for r in data["impl_ranges"]], True))
    return 0
