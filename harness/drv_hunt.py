"""Round-4 corpus families for the C03 / C04 / C09 sweeps (hunt reports, seeds C03-c, C04-c, C09-c).
Deterministic, seed independent; every oracle lives in harness/c03.py, c04.py, c09.py."""
from __future__ import annotations

import ast
import textwrap
import warnings


def valid(src: str) -> bool:
    try:
        with warnings.catch_warnings():
            warnings.simplefilter("ignore")
            ast.parse(src)
        return True
    except (SyntaxError, ValueError, RecursionError):
        return False


def compiles(text_or_bytes) -> bool:
    """the interpreter's own notion of a valid module: stricter than ast.parse (scoping / context errors such
    as 'yield inside list comprehension', 'assigned to before global declaration' are caught); bytes are
    decoded the way a source file is (BOM, universal newlines)"""
    try:
        with warnings.catch_warnings():
            warnings.simplefilter("ignore")
            compile(text_or_bytes, "<candidate>", "exec", dont_inherit=True)
        return True
    except (SyntaxError, ValueError, UnicodeDecodeError, RecursionError):
        return False


FIRST_STATEMENTS = [
    '"""one line docstring"""',
    '"""multi\nline\ndocstring\n"""',
    "'''multi\nline'''",
    '"""doc"""\nfrom __future__ import annotations',
    "from __future__ import (\n    annotations,\n)",
    "from __future__ import annotations, \\\n    division",
    "#!/usr/bin/env python\nfrom __future__ import (\n    annotations,\n)",
    '#!/usr/bin/env python\n# -*- coding: utf-8 -*-\n"""doc\nmore"""',
    '"""doc""" ; first = 1',
    "first = (\n    1\n)",
    '"doc" \\\n  "more"',
    "import os, \\\n    sys",
    "@dec\ndef first():\n    pass",
    "if True:\n    pass",
    "# only a comment",
    "",
    'r"""raw\ndoc"""',
    'b"""bytes\nnot a docstring"""',
    '("""parenthesised\ndoc""")',
    "from __future__ import annotations; import os",
    "from __future__ import annotations\nfrom __future__ import (division,\n    print_function)",
    '\n\n"""doc after blank lines\n"""',
    '"""doc"""\n\n# comment\n\nfrom __future__ import annotations  # trailing comment',
    '"""doc\n\nimport looks_like_code\n"""',
]
UNDEFINED_BODIES = [
    "x = np.zeros(3)\nprint(x)\n",
    "print(os.getcwd(), np.pi, sys.argv)\n",
    'def f():\n    return pd.DataFrame(), Path("p")\n\n\nprint(f())\n',
    "print(1)\n",
]


def first_statement_family():
    """multi-line / unusual FIRST statements (docstrings, parenthesised or backslash-continued __future__ imports,
    shebang + coding lines, decorated defs) x bodies using undefined names (add_missing_imports must pick an
    insertion point)"""
    out = []
    for head in FIRST_STATEMENTS:
        for body in UNDEFINED_BODIES:
            out.append((head + "\n" if head else "") + body)
    return [s for s in dict.fromkeys(out) if valid(s)]


def decorated_constant_family():
    """decorated / unusual first statements of a scope x a string constant repeated often enough for
    abstractions.overused_constant to extract it"""
    c = '"aaaaaaaaaaaaaaaaaaaaaaaa bbbb"'
    rep = ", ".join([c] * 5)
    heads = [
        (f"@dec\ndef f():\n    return [{rep}]\n", "f()"),
        (f"@dec\nclass K:\n    v = [{rep}]\n", "K.v"),
        (f'"""doc\nstring"""\nv = [{rep}]\n', "v"),
        (f"from __future__ import (\n    annotations,\n)\nv = [{rep}]\n", "v"),
        (f"def f():\n    @dec\n    def g():\n        return [{rep}]\n    return g\n", "f()"),
        (f"@dec(\n    1,\n)\n@dec2\ndef f():\n    return [{rep}]\n", "f()"),
        (f"if True: v = [{rep}]\n", "v"),
        (f"class K:\n    @staticmethod\n    def m():\n        return [{rep}]\n", "K.m()"),
        (f"@dec\nasync def f():\n    return [{rep}]\n", "f()"),
    ]
    return [h + f"\n\nprint({use}, {c})\n" for h, use in heads if valid(h)]


def oneline_compound_family():
    """one-line compound statements (body on the header line) x rules that insert / move / split statements"""
    bodies = ["import a, b", "import os; import os", "x = open(p); d = x.read(); x.close()", "y = 1; print(i, y)",
              "f(); g(); h(); k()", "z = 1 if q else 2; print(z)"]
    heads = ["if x: {B}", "for i in r: {B}", "while x: {B}\nelse: pass", "with c: {B}", "def f(p, z, q): {B}", "class K: {B}",
             "if x: pass\nelse: {B}", "try: {B}\nfinally: pass",
             "for i in r:\n    if a: f()\n    else:\n        g()\n        h()\n        {B}"]
    out = []
    for h in heads:
        for b in bodies:
            src = h.replace("{B}", b) + "\n"
            if valid(src):
                out.append(src)
                out.append("import sys\n\n\ndef outer(x, r, c, p, z, q, a):\n" + textwrap.indent(src, "    ")
                           + "    return sys\n\n\nprint(outer)\n")
    out += ["def f(p):\n    if p:\n        x = open(p)\n        d = x.read(); x.close()\n    else:\n        d = 1\n    return d\n\n\nprint(f(1))\n",
            "if a:\n    import os\n    import os; import os\nelse:\n    pass\n"]
    return [s for s in dict.fromkeys(out) if valid(s)]


def compile_only_family():
    """moving code can give text that ast.parse accepts and compile() rejects: yield / walrus moved into a
    comprehension, assignment hoisted over a global statement, lost binding of a nonlocal name, ..."""
    out = [
        "def g(y):\n    result = []\n    for x in y:\n        result.append((yield x))\n    return result\n\n\nprint(list(g([1, 2])))\n",
        "def g(y):\n    result = []\n    for x in y:\n        if (x := x + 1):\n            result.append(x)\n    return result\n\n\nprint(g([1, 2]))\n",
        "def g(y):\n    result = set()\n    for x in y:\n        result.add((yield from x))\n    return result\n\n\nprint(list(g([[1], [2]])))\n",
        "async def g(y):\n    result = []\n    for x in y:\n        result.append(await x)\n    return result\n\n\nprint(g)\n",
        "def f(a):\n    out = {}\n    for k in a:\n        out[k] = (yield k)\n    return out\n\n\nprint(list(f([1])))\n",
        "def f():\n    for i in r:\n        global x\n        x = 1\n        print(i)\n\n\nf()\nprint(x)\n",
        "def f():\n    while c:\n        global y\n        y = 2\n        break\n\n\nf()\nprint(y)\n",
        "def outer():\n    x = 0\n    def inner():\n        nonlocal x\n        x = 1\n    inner()\n\n\nouter()\n",
        "def outer():\n    x = 0\n    def inner():\n        nonlocal x\n        x += 1\n        return x\n    return inner\n\n\nprint(outer()())\n",
        "class K:\n    x = 1\n    y = [x for _ in range(3)]\n\n\nprint(K.y)\n",
        "def f():\n    x = 1\n    del x\n    return 2\n\n\nprint(f())\n",
        "def f(a):\n    total = 0\n    for x in a:\n        total += (y := x * 2)\n    return total, y\n\n\nprint(f([1]))\n",
    ]
    return [s for s in dict.fromkeys(out) if valid(s)]


def unorderable_family():
    """range / comparison bounds of unorderable or ill-typed constants; non-iterable literals as iterables"""
    bounds = ['"a"', "None", "[1]", "1.5", "(1, 2)", "1j", "True", "{}", "b'x'", "...", "-1", "10**3", "5"]
    tpls = ["print(sum(range({a}, 3)))\n", "print(sum(range(3, {a})))\n", "print(sum(range({a})))\n",
            "print([i for i in range({a}, 4) if i > 1])\n", "print(sum(x for x in range({a}, 10, 2)))\n",
            "for x in {a}:\n    print(x)\n", "for x in {a}:\n    pass\nelse:\n    print(1)\n", "print([y for y in {a}])\n",
            "def f():\n    for x in {a}:\n        return x\n    return 0\n\n\nprint(f())\n",
            "print(len({a}), sorted({a}), max({a}))\n", "print(3 in {a}, {a} < 3)\n", "a, b = {a}\nprint(a, b)\n",
            "with {a} as f:\n    print(f)\n", "print(*{a})\n", "x = {a}[0]\nprint(x)\n", "while {a} < 3:\n    print(1)\n    break\n"]
    out = [t.replace("{a}", a) for a in bounds for t in tpls]
    return [s for s in dict.fromkeys(out) if valid(s)]


def alias_chain_family():
    """straight-line alias / accumulation chains and nestings of growing length: each pass may only do
    bounded work, the property still asks for a fixed point within five applications"""
    out = []
    for n in (3, 6, 12, 26, 40):
        out.append("\n".join(["def f(v0):"] + [f"    v{i + 1} = v{i}" for i in range(n)] + [f"    return v{n}", "", "", "print(f(1))"]) + "\n")
        out.append("\n".join(["def f(v0):"] + [f"    v{i + 1} = v{i} + 1" for i in range(n)] + [f"    return v{n}", "", "", "print(f(1))"]) + "\n")
        d = min(n, 15)
        out.append("\n".join(["def f(a):", "    if a:"] + [f"{'    ' * (i + 2)}if a > {i}:" for i in range(d)]
                             + [f"{'    ' * (d + 2)}return a", "    return 0", "", "", "print(f(1))"]) + "\n")
    return [s for s in out if valid(s)]


FILE_TEXTS = [      # valid modules whose line structure matters
    "print(1)\n",
    "x = 'a\\\nb'\nprint(x)\n",
    "print(1) \\\n\n\n",
    "def f(a):\n    if a:\n        return 1\n    else:\n        return 2\n\n\nprint(f(1))\n",
    "if a:\n    \tif b:\n   \t  y = 2\n",
    "s = '''line one\nline two'''\nprint(s)\n",
    "x = (1 +\n     2)\nprint(x)   \n\n\n\n\n",
    "import os\nprint(1)\n",
    "# comment only\n",
    "print('\u00e9')\n",
    "x = 1  # pyrefact: skip_file\n\n\n\n\nprint( x )\n",
    'import sys\n\nif len(sys.argv) < 2:\n    print("usage: prog \\\n[options] file")\n    sys.exit(2)\nprint(sys.argv[1])\n',
    'import os\nimport sys\n\n\ndef usage():\n    return "first line \\\nsecond line" + \\\n        "third"\n\n\nprint(usage(), sys.argv)\n',
    '"""\\\nDocstring that starts on the second line.\n"""\nimport os\nimport sys\n\nprint(sys.argv)\n',
    # round 5: backslash continuation onto a blank last line / after the docstring line
    "import sys\nprint(sys.argv)\nx = 1 \\\n   \n",
    '"""doc"""\\\n\nprint(os)\n',
]


def file_variants():
    """(tag, bytes) for format_file: line endings LF / CRLF / CR / mixed, UTF-8 BOM, no final line break"""
    convs = (("lf", lambda s: s), ("crlf", lambda s: s.replace("\n", "\r\n")), ("cr", lambda s: s.replace("\n", "\r")),
             ("mixed", lambda s: s.replace("\n", "\r\n", 1)), ("nofinal", lambda s: s.rstrip("\n")))
    out = []
    for i, t in enumerate(FILE_TEXTS):
        for tag, conv in convs:
            for bom in (False, True):
                data = conv(t).encode("utf-8")
                if bom:
                    data = b"\xef\xbb\xbf" + data
                out.append((f"text{i}/{tag}{'/bom' if bom else ''}", data))
    return out


def budget_family(big: bool):
    """inputs whose amount of independent work exceeds what one application of the formatter does (bounded passes,
    one rewrite per pass for some rules, stages that run once per application): (tag, source)"""
    import functools
    out = []
    out.append(("alias28", "def f(q):\n    v0 = q + 1\n" + "".join("    v%d = v%d\n" % (i + 1, i) for i in range(27)) + "    return v27\n\n\nprint(f(3))\n"))
    out.append(("import_ifs5", "import m5\nif m5:\n    import m4\n    if m4:\n        import m3\n        if m3:\n            import m2\n"
                "            if m2:\n                import m1\n                if m1:\n                    import m0\n"))
    out.append(("import_ifs3", "import m3\nif m3:\n    import m2\n    if m2:\n        import m1\n        if m1:\n            import m0\n"))
    out.append(("logging12", "import logging\n\na = 1\n" + functools.reduce(lambda s, _: 'logging.info("v{}".format(%s))' % s, range(12), "a") + "\n"))
    if big:
        out.append(("logging52", "import logging\n\na = 1\n" + functools.reduce(lambda s, _: 'logging.info("v{}".format(%s))' % s, range(52), "a") + "\n"))
        out.append(("swap130", "".join("def f%d(x, a):\n    if x:\n        if a:\n            return %d\n        return 2\n    return 3\n\n\nprint(f%d(1, 2))\n"
                                       % (i, i + 10, i) for i in range(130))))
        out.append(("unused131", "def f(q):\n    v0 = q + 1\n" + "".join("    v%d = v%d + 1\n" % (i + 1, i) for i in range(130)) + "    return q\n\n\nprint(f(3))\n"))
    return out


# ---- round 5: type confusion between constants (seed C04-d), backslash continuations onto blank lines -------------

CMP_OPS = ["==", "!=", "<", "<=", ">", ">="]
HETERO_CONSTANTS = {           # one literal per constant type a rule may collect as a "bound"
    "int": "3", "float": "2.5", "bool": "True", "str": "'auto'", "bytes": "b'x'", "none": "None", "tuple": "(1, 2)",
    "complex": "1j",
}
HETERO_CONSTANTS_MORE = {      # thorough tier: evaluated constants (core.literal_value computes them), containers, specials
    "negint": "-1", "strexpr": "'a' * 2", "list": "[1]", "ellipsis": "...", "nan": "float('nan')", "bigint": "10 ** 30",
    "emptystr": "''", "set": "{1}",
}
HETERO_OPERANDS = ["n", "o.size", "d['k']", "f(n)"]
HETERO_CONTEXTS = {
    "if": "def g(n, o, d, f):\n    if {E}:\n        return n\n    return o\n\n\nprint(g)\n",
    "while": "def g(n, o, d, f):\n    while {E}:\n        n = f(n)\n    return n\n\n\nprint(g)\n",
    "return": "def g(n, o, d, f):\n    return {E}\n\n\nprint(g)\n",
    "comp": "def g(o, d, f):\n    return [n for n in range(10) if {E}]\n\n\nprint(g)\n",
}
HETERO_CONTEXTS_MORE = {
    "assert": "def g(n, o, d, f):\n    assert {E}, n\n    return n\n\n\nprint(g)\n",
    "ifexp": "def g(n, o, d, f):\n    return n if {E} else o\n\n\nprint(g)\n",
    "not": "def g(n, o, d, f):\n    if not ({E}):\n        return n\n    return o\n\n\nprint(g)\n",
    "module-if": "import sys\n\nn = len(sys.argv)\nif {E}:\n    print(n)\n",
    "fragment": "    if {E}:\n        return n\n    return o\n",
}


HETERO_CORE: set = set()     # filled by hetero_bound_family: the sources of the core third + the witnesses


def hetero_bound_family(tier: str = "quick"):
    """comparison pairs with heterogeneous constants: ONE operand compared with constants of two (possibly different)
    types in one and/or: operand x {6 comparison operators}^2 x constant types pairwise x {and, or} x {if / while test,
    return value, comprehension condition}.  A rule that collects the constants as bounds of the operand and then orders
    them (symbolic_math.simplify_boolean_expressions, simplify_constrained_range) must not assume they are comparable.
    -> [(tag, source)].  Quick tier: the full operator^2 x type^2 square with and/or, context, operand and the side of
    the constant rotating (every value of every axis occurs with every type pair); thorough tier: the full product
    over and/or x context, plus evaluated / container constants and more contexts on a rotating basis."""
    out = []
    consts = dict(HETERO_CONSTANTS)
    k = 0
    for (t1, c1) in consts.items():
        for (t2, c2) in consts.items():
            for op1 in CMP_OPS:
                for op2 in CMP_OPS:
                    k += 1
                    if tier == "quick":
                        axes = [(("and", "or")[k % 2], list(HETERO_CONTEXTS)[(k // 2) % 4])]
                    else:
                        axes = [(b, c) for b in ("and", "or") for c in HETERO_CONTEXTS]
                    for j, (bop, ctx) in enumerate(axes):
                        operand = "n" if ctx == "comp" else HETERO_OPERANDS[(k // 8 + j) % 4]
                        first = f"{operand} {op1} {c1}"
                        # the constant on the left in every third case (the rules normalise `3 < n` to `n > 3`)
                        second = f"{c2} {op2} {operand}" if (k + j) % 3 == 0 else f"{operand} {op2} {c2}"
                        expr = f"{first} {bop} {second}"
                        out.append((f"{t1}{op1}/{t2}{op2}/{bop}/{ctx}", HETERO_CONTEXTS[ctx].replace("{E}", expr)))
                        # the "core" third of the square: per type pair 12 operator pairs (i, i + r), r rotating with the
                        # type pair, so that every operator occurs on both sides with every type pair
                        ti = list(consts).index(t1) * len(consts) + list(consts).index(t2)
                        if (CMP_OPS.index(op2) - CMP_OPS.index(op1)) % 6 in (ti % 6, (ti + 3) % 6):
                            HETERO_CORE.add(out[-1][1])
    if tier != "quick":
        more = dict(HETERO_CONSTANTS) | HETERO_CONSTANTS_MORE
        ctxs = dict(HETERO_CONTEXTS) | HETERO_CONTEXTS_MORE
        k = 0
        for (t1, c1) in more.items():
            for (t2, c2) in more.items():
                if t1 in HETERO_CONSTANTS and t2 in HETERO_CONSTANTS:
                    continue
                for op1 in CMP_OPS:
                    for op2 in CMP_OPS:
                        k += 1
                        bop, ctx = ("and", "or")[k % 2], list(ctxs)[(k // 2) % len(ctxs)]
                        expr = f"n {op1} {c1} {bop} n {op2} {c2}"
                        out.append((f"{t1}{op1}/{t2}{op2}/{bop}/{ctx}", ctxs[ctx].replace("{E}", expr)))
    # three bounds, nested and/or, chained comparisons, the minimal witnesses of seed C04-d (run first)
    head = [("witness/or", "if n == 'auto' or n > 0:\n    print(n)\n"),
            ("witness/and", "if size != 'line' and size >= 0:\n    print(size)\n"),
            ("witness/while", "while v < b'x' or v < 10:\n    v = step(v)\n"),
            ("three", "if n > 0 and n != 'a' and n < 2.5:\n    print(n)\n"),
            ("nested", "if n > 0 and (n < 'z' and n >= None):\n    print(n)\n"),
            ("chain", "if 0 < n < 'z' or n == b'q':\n    print(n)\n"),
            ("extra-context/assert", HETERO_CONTEXTS_MORE["assert"].replace("{E}", "n == 'auto' or n > 0")),
            ("extra-context/ifexp", HETERO_CONTEXTS_MORE["ifexp"].replace("{E}", "n >= b'x' and n <= 3")),
            ("extra-context/not", HETERO_CONTEXTS_MORE["not"].replace("{E}", "n != None or n < 'a'")),
            ("extra-context/module-if", HETERO_CONTEXTS_MORE["module-if"].replace("{E}", "n == 'auto' or n > 0")),
            ("extra-context/fragment", HETERO_CONTEXTS_MORE["fragment"].replace("{E}", "n < (1, 2) or n < 2.5"))]
    HETERO_CORE.update(s for _, s in head)
    out = head + out
    seen, res = set(), []
    for tag, s in out:
        if s not in seen and valid(s):
            seen.add(s)
            res.append((tag, s))
    return res


SYMBOLIC_MATH_RULES = ["symbolic_math.simplify_boolean_expressions", "symbolic_math.simplify_boolean_expressions_symmath",
                       "symbolic_math.simplify_constrained_range", "symbolic_math.simplify_math_iterators"]


def type_confusion_family():
    """constants of DIFFERENT types where a rule evaluates, hashes, sorts or compares constants: core.literal_value
    consumers (comparison folding, `in` tests, dead branches), set / dict display de-duplication, overused_constant
    (1 == 1.0 == True hash alike), membership chains merged into one collection, aggregate / range bounds of
    simplify_math_iterators and simplify_constrained_range, keys of sort_imports (relative / absolute / aliased)."""
    vals = ["1", "1.0", "True", "'1'", "b'1'", "None", "(1,)", "1j"]
    out = []
    for a in vals:
        for b in vals:
            if a == b:
                continue
            out += [
                f"import sys\n\nx = sys.argv\nprint({{{a}, {b}, {a}}}, {{{a}: 1, {b}: 2, {a}: 3}})\n",
                f"import sys\n\nx = sys.argv\nif x == {a} or x == {b} or x == {a}:\n    print(x)\n",
                f"import sys\n\nx = sys.argv\nprint(x in ({a}, {b}), x in [{b}, {a}, {b}], {a} in ({b},), {a} < {b})\n",
                f"import sys\n\nx = sys.argv\nprint(sorted([{a}, {b}]), max({a}, {b}), min([{b}, {a}]), sum([{a}, {b}]))\n",
                f"print(sum(z for z in range({a}, {b})), [z for z in range(10) if z > {a} and z < {b}])\n",
                f"print(sum({a} for _ in range(3)) + sum([{b} for _ in range(2)]), sum(z * {a} for z in range({b})))\n",
                f"import sys\n\nx = sys.argv\nprint({a} < x <= {b}, {a} if {b} else x, {a} and {b}, not {a} or {b})\n",
                f"import sys\n\nx = sys.argv\nif isinstance(x, int) or isinstance(x, str) or x is {a} or x is {b}:\n    print(x)\n",
            ]
    # the same value under three types, each repeated often enough for abstractions.overused_constant
    for trio in (("1", "1.0", "True"), ("0", "0.0", "False"), ("'abcdefghijklmnopqrstuvwx'", "b'abcdefghijklmnopqrstuvwx'", "None"),
                 ("100000000000000000000", "1e20", "100000000000000000000.0"), ("(1, 'a')", "(1.0, 'a')", "(True, 'a')")):
        rep = ", ".join(", ".join(trio) for _ in range(6))
        out.append(f"def f():\n    return [{rep}]\n\n\ndef g():\n    return ({rep})\n\n\nprint(f(), g())\n")
        out.append(f"v = [{rep}]\nw = {{{rep}}}\nprint(v, w)\n")
    imports = ["import b", "import a.c as b", "from . import b", "from .. import b", "from .b import b", "from b import b",
               "from b import b as B", "import B", "import _b", "from __future__ import annotations", "from b import *",
               "import b, a"]
    for i in imports:
        for j in imports:
            if i != j and not ("__future__" in j):
                out.append(f"{i}\n{j}\n\nprint(b)\n")
    return [s for s in dict.fromkeys(out) if valid(s)]


TYPE_CONFUSION_RULES = ["fixes.remove_duplicate_set_elts", "fixes.remove_duplicate_dict_keys", "fixes.sort_imports",
                        "fixes.fix_duplicate_imports", "abstractions.overused_constant",
                        "fixes.replace_collection_add_update_with_collection_literal"] + SYMBOLIC_MATH_RULES

CONT_HEADS = [           # (tag, physical first line WITHOUT the backslash, is it a scope-opening head?)
    ("docstring", '"""doc"""'), ("future", "from __future__ import annotations"), ("import", "import os"),
    ("import-unused", "import unused_module"), ("assign", "x = 1"), ("call", "print(1)"), ("from-import", "from os import path"),
    ("semicolon", "x = 1;"), ("two-imports", "import os, sys"),
]
CONT_GAPS = [            # what follows the backslash + line break: blank line(s), whitespace-only line, comment, second continuation
    ("blank", "\n"), ("blanks3", "\n\n\n"), ("spaces", "   \n"), ("comment", "# comment\n"), ("indented-comment", "    # comment\n"),
    ("double", "   \\\n\n"), ("formfeed", "\x0c\n"),
]
CONT_TAILS = [           # the rest of the module: what makes rules insert / delete / move whole lines
    ("undefined", "print(os, np.pi)\n"), ("nothing", ""), ("unused", "import sys\ny = 2\n"), ("plain", "print(1)\n"),
    ("duplicate-import", "import os\nimport os\nprint(os)\n"), ("def", "def f():\n    import os\n    return os, sys\n\n\nprint(f())\n"),
    ("comment", "# trailing comment\n"),
]


def continuation_family():
    """backslash continuation onto a blank / whitespace-only / comment line (the logical line ends one or more PHYSICAL
    lines after the statement's end_lineno) x {after a docstring, after a __future__ import, after an import or a
    plain statement, as last statement of a block, at the end of the file with and without a final line break}
    x tails that make rules insert (add_missing_imports), delete (unused imports / names) or move whole lines.
    -> [(tag, source)]"""
    out = [("witness/eof", "x = 1 \\\n   "), ("witness/docstring", '"""doc"""\\\n\nprint(os)\n')]
    for ht, head in CONT_HEADS:
        for gt, gap in CONT_GAPS:
            for tt, tail in CONT_TAILS:
                for sp in (" ", ""):
                    if sp == "" and gt not in ("blank", "spaces"):
                        continue
                    out.append((f"{ht}/{gt}/{tt}{'' if sp else '/tight'}", head + sp + "\\\n" + gap + tail))
            # at the very end of the file: the continuation line is the last line, without a line break
            out.append((f"{ht}/eof-spaces", head + " \\\n   "))
            out.append((f"{ht}/eof-after-code", "import os\nprint(os)\n" + head.replace("import os", "import re") + " \\\n   "))
    # last statement of a block / between decorated definitions / inside a class
    for gt, gap in CONT_GAPS:
        out += [
            (f"block/def/{gt}", "def f(a):\n    y = a \\\n" + gap + "    return y, np.pi\n\n\nprint(f(1))\n"),
            (f"block/def-last/{gt}", "def f(a):\n    return a \\\n" + gap + "\n\nprint(f(1), np.pi)\n"),
            (f"block/if/{gt}", "import sys\n\nif sys.argv:\n    z = 1 \\\n" + gap + "else:\n    z = 2 \\\n" + gap + "print(z)\n"),
            (f"block/class/{gt}", 'class K:\n    """doc""" \\\n' + gap + "    a = 1 \\\n" + gap + "\n\nprint(K.a, os.sep)\n"),
            (f"block/loop/{gt}", "import sys\n\nfor i in sys.argv:\n    import os \\\n" + gap + "    print(os, i)\n"),
            (f"block/fragment/{gt}", "    x = np.zeros(3) \\\n" + gap + "    print(x)\n"),
            (f"after-shebang/{gt}", '#!/usr/bin/env python\n"""doc""" \\\n' + gap + "from __future__ import annotations \\\n" + gap + "print(os)\n"),
        ]
    # the same with \r\n line endings (format_code is handed such text by API callers; files are read with universal newlines)
    crlf = [(tag + "/crlf", s.replace("\n", "\r\n")) for tag, s in out
            if tag.split("/")[0] in ("docstring", "assign", "call", "witness") and (tag.count("/") == 1 or tag.split("/")[1] in ("blank", "spaces", "blanks3"))
            and (tag.count("/") < 2 or tag.split("/")[2] in ("undefined", "nothing", "plain"))]
    out += crlf
    seen, res = set(), []
    for tag, s in out:
        if s not in seen and valid(s):
            seen.add(s)
            res.append((tag, s))
    return res


LINE_RULES = [           # rules / stages that insert, delete or move whole lines
    "fixes.add_missing_imports", "fixes.sort_imports", "fixes.remove_unused_imports", "fixes.move_imports_to_toplevel",
    "fixes.fix_duplicate_imports", "fixes.delete_pointless_statements", "fixes.undefine_unused_variables",
    "fixes.delete_unused_functions_and_classes", "fixes.fix_too_many_blank_lines", "fixes.remove_dead_ifs",
    "abstractions.overused_constant", "rmspace.format_str", "fixes.align_variable_names_with_convention",
    "fixes.breakout_common_code_in_ifs", "fixes.remove_redundant_else",
]
