"""Round-4 corpus families for the C03 / C04 / C09 sweeps (hunt reports, seeds C03-c, C04-c, C09-c).
Deterministic, seed independent; every oracle lives in harness/c03.py, c04.py, c09.py."""
from __future__ import annotations

import ast
import textwrap
import warnings


def valid(src: str) -> bool:
    try:
        with warnings.catch_warnings():
            warnings.simplefilter("ignore")
            ast.parse(src)
        return True
    except (SyntaxError, ValueError, RecursionError):
        return False


def compiles(text_or_bytes) -> bool:
    """the interpreter's own notion of a valid module: stricter than ast.parse (scoping / context errors such
    as 'yield inside list comprehension', 'assigned to before global declaration' are caught); bytes are
    decoded the way a source file is (BOM, universal newlines)"""
    try:
        with warnings.catch_warnings():
            warnings.simplefilter("ignore")
            compile(text_or_bytes, "<candidate>", "exec", dont_inherit=True)
        return True
    except (SyntaxError, ValueError, UnicodeDecodeError, RecursionError):
        return False


FIRST_STATEMENTS = [
    '"""one line docstring"""',
    '"""multi\nline\ndocstring\n"""',
    "'''multi\nline'''",
    '"""doc"""\nfrom __future__ import annotations',
    "from __future__ import (\n    annotations,\n)",
    "from __future__ import annotations, \\\n    division",
    "#!/usr/bin/env python\nfrom __future__ import (\n    annotations,\n)",
    '#!/usr/bin/env python\n# -*- coding: utf-8 -*-\n"""doc\nmore"""',
    '"""doc""" ; first = 1',
    "first = (\n    1\n)",
    '"doc" \\\n  "more"',
    "import os, \\\n    sys",
    "@dec\ndef first():\n    pass",
    "if True:\n    pass",
    "# only a comment",
    "",
    'r"""raw\ndoc"""',
    'b"""bytes\nnot a docstring"""',
    '("""parenthesised\ndoc""")',
    "from __future__ import annotations; import os",
    "from __future__ import annotations\nfrom __future__ import (division,\n    print_function)",
    '\n\n"""doc after blank lines\n"""',
    '"""doc"""\n\n# comment\n\nfrom __future__ import annotations  # trailing comment',
    '"""doc\n\nimport looks_like_code\n"""',
]
UNDEFINED_BODIES = [
    "x = np.zeros(3)\nprint(x)\n",
    "print(os.getcwd(), np.pi, sys.argv)\n",
    'def f():\n    return pd.DataFrame(), Path("p")\n\n\nprint(f())\n',
    "print(1)\n",
]


def first_statement_family():
    """multi-line / unusual FIRST statements (docstrings, parenthesised or backslash-continued __future__ imports,
    shebang + coding lines, decorated defs) x bodies using undefined names (add_missing_imports must pick an
    insertion point)"""
    out = []
    for head in FIRST_STATEMENTS:
        for body in UNDEFINED_BODIES:
            out.append((head + "\n" if head else "") + body)
    return [s for s in dict.fromkeys(out) if valid(s)]


def decorated_constant_family():
    """decorated / unusual first statements of a scope x a string constant repeated often enough for
    abstractions.overused_constant to extract it"""
    c = '"aaaaaaaaaaaaaaaaaaaaaaaa bbbb"'
    rep = ", ".join([c] * 5)
    heads = [
        (f"@dec\ndef f():\n    return [{rep}]\n", "f()"),
        (f"@dec\nclass K:\n    v = [{rep}]\n", "K.v"),
        (f'"""doc\nstring"""\nv = [{rep}]\n', "v"),
        (f"from __future__ import (\n    annotations,\n)\nv = [{rep}]\n", "v"),
        (f"def f():\n    @dec\n    def g():\n        return [{rep}]\n    return g\n", "f()"),
        (f"@dec(\n    1,\n)\n@dec2\ndef f():\n    return [{rep}]\n", "f()"),
        (f"if True: v = [{rep}]\n", "v"),
        (f"class K:\n    @staticmethod\n    def m():\n        return [{rep}]\n", "K.m()"),
        (f"@dec\nasync def f():\n    return [{rep}]\n", "f()"),
    ]
    return [h + f"\n\nprint({use}, {c})\n" for h, use in heads if valid(h)]


def oneline_compound_family():
    """one-line compound statements (body on the header line) x rules that insert / move / split statements"""
    bodies = ["import a, b", "import os; import os", "x = open(p); d = x.read(); x.close()", "y = 1; print(i, y)",
              "f(); g(); h(); k()", "z = 1 if q else 2; print(z)"]
    heads = ["if x: {B}", "for i in r: {B}", "while x: {B}\nelse: pass", "with c: {B}", "def f(p, z, q): {B}", "class K: {B}",
             "if x: pass\nelse: {B}", "try: {B}\nfinally: pass",
             "for i in r:\n    if a: f()\n    else:\n        g()\n        h()\n        {B}"]
    out = []
    for h in heads:
        for b in bodies:
            src = h.replace("{B}", b) + "\n"
            if valid(src):
                out.append(src)
                out.append("import sys\n\n\ndef outer(x, r, c, p, z, q, a):\n" + textwrap.indent(src, "    ")
                           + "    return sys\n\n\nprint(outer)\n")
    out += ["def f(p):\n    if p:\n        x = open(p)\n        d = x.read(); x.close()\n    else:\n        d = 1\n    return d\n\n\nprint(f(1))\n",
            "if a:\n    import os\n    import os; import os\nelse:\n    pass\n"]
    return [s for s in dict.fromkeys(out) if valid(s)]


def compile_only_family():
    """moving code can give text that ast.parse accepts and compile() rejects: yield / walrus moved into a
    comprehension, assignment hoisted over a global statement, lost binding of a nonlocal name, ..."""
    out = [
        "def g(y):\n    result = []\n    for x in y:\n        result.append((yield x))\n    return result\n\n\nprint(list(g([1, 2])))\n",
        "def g(y):\n    result = []\n    for x in y:\n        if (x := x + 1):\n            result.append(x)\n    return result\n\n\nprint(g([1, 2]))\n",
        "def g(y):\n    result = set()\n    for x in y:\n        result.add((yield from x))\n    return result\n\n\nprint(list(g([[1], [2]])))\n",
        "async def g(y):\n    result = []\n    for x in y:\n        result.append(await x)\n    return result\n\n\nprint(g)\n",
        "def f(a):\n    out = {}\n    for k in a:\n        out[k] = (yield k)\n    return out\n\n\nprint(list(f([1])))\n",
        "def f():\n    for i in r:\n        global x\n        x = 1\n        print(i)\n\n\nf()\nprint(x)\n",
        "def f():\n    while c:\n        global y\n        y = 2\n        break\n\n\nf()\nprint(y)\n",
        "def outer():\n    x = 0\n    def inner():\n        nonlocal x\n        x = 1\n    inner()\n\n\nouter()\n",
        "def outer():\n    x = 0\n    def inner():\n        nonlocal x\n        x += 1\n        return x\n    return inner\n\n\nprint(outer()())\n",
        "class K:\n    x = 1\n    y = [x for _ in range(3)]\n\n\nprint(K.y)\n",
        "def f():\n    x = 1\n    del x\n    return 2\n\n\nprint(f())\n",
        "def f(a):\n    total = 0\n    for x in a:\n        total += (y := x * 2)\n    return total, y\n\n\nprint(f([1]))\n",
    ]
    return [s for s in dict.fromkeys(out) if valid(s)]


def unorderable_family():
    """range / comparison bounds of unorderable or ill-typed constants; non-iterable literals as iterables"""
    bounds = ['"a"', "None", "[1]", "1.5", "(1, 2)", "1j", "True", "{}", "b'x'", "...", "-1", "10**3", "5"]
    tpls = ["print(sum(range({a}, 3)))\n", "print(sum(range(3, {a})))\n", "print(sum(range({a})))\n",
            "print([i for i in range({a}, 4) if i > 1])\n", "print(sum(x for x in range({a}, 10, 2)))\n",
            "for x in {a}:\n    print(x)\n", "for x in {a}:\n    pass\nelse:\n    print(1)\n", "print([y for y in {a}])\n",
            "def f():\n    for x in {a}:\n        return x\n    return 0\n\n\nprint(f())\n",
            "print(len({a}), sorted({a}), max({a}))\n", "print(3 in {a}, {a} < 3)\n", "a, b = {a}\nprint(a, b)\n",
            "with {a} as f:\n    print(f)\n", "print(*{a})\n", "x = {a}[0]\nprint(x)\n", "while {a} < 3:\n    print(1)\n    break\n"]
    out = [t.replace("{a}", a) for a in bounds for t in tpls]
    return [s for s in dict.fromkeys(out) if valid(s)]


def alias_chain_family():
    """straight-line alias / accumulation chains and nestings of growing length: each pass may only do
    bounded work, the property still asks for a fixed point within five applications"""
    out = []
    for n in (3, 6, 12, 26, 40):
        out.append("\n".join(["def f(v0):"] + [f"    v{i + 1} = v{i}" for i in range(n)] + [f"    return v{n}", "", "", "print(f(1))"]) + "\n")
        out.append("\n".join(["def f(v0):"] + [f"    v{i + 1} = v{i} + 1" for i in range(n)] + [f"    return v{n}", "", "", "print(f(1))"]) + "\n")
        d = min(n, 15)
        out.append("\n".join(["def f(a):", "    if a:"] + [f"{'    ' * (i + 2)}if a > {i}:" for i in range(d)]
                             + [f"{'    ' * (d + 2)}return a", "    return 0", "", "", "print(f(1))"]) + "\n")
    return [s for s in out if valid(s)]


FILE_TEXTS = [      # valid modules whose line structure matters
    "print(1)\n",
    "x = 'a\\\nb'\nprint(x)\n",
    "print(1) \\\n\n\n",
    "def f(a):\n    if a:\n        return 1\n    else:\n        return 2\n\n\nprint(f(1))\n",
    "if a:\n    \tif b:\n   \t  y = 2\n",
    "s = '''line one\nline two'''\nprint(s)\n",
    "x = (1 +\n     2)\nprint(x)   \n\n\n\n\n",
    "import os\nprint(1)\n",
    "# comment only\n",
    "print('\u00e9')\n",
    "x = 1  # pyrefact: skip_file\n\n\n\n\nprint( x )\n",
    'import sys\n\nif len(sys.argv) < 2:\n    print("usage: prog \\\n[options] file")\n    sys.exit(2)\nprint(sys.argv[1])\n',
    'import os\nimport sys\n\n\ndef usage():\n    return "first line \\\nsecond line" + \\\n        "third"\n\n\nprint(usage(), sys.argv)\n',
    '"""\\\nDocstring that starts on the second line.\n"""\nimport os\nimport sys\n\nprint(sys.argv)\n',
]


def file_variants():
    """(tag, bytes) for format_file: line endings LF / CRLF / CR / mixed, UTF-8 BOM, no final line break"""
    convs = (("lf", lambda s: s), ("crlf", lambda s: s.replace("\n", "\r\n")), ("cr", lambda s: s.replace("\n", "\r")),
             ("mixed", lambda s: s.replace("\n", "\r\n", 1)), ("nofinal", lambda s: s.rstrip("\n")))
    out = []
    for i, t in enumerate(FILE_TEXTS):
        for tag, conv in convs:
            for bom in (False, True):
                data = conv(t).encode("utf-8")
                if bom:
                    data = b"\xef\xbb\xbf" + data
                out.append((f"text{i}/{tag}{'/bom' if bom else ''}", data))
    return out


def budget_family(big: bool):
    """inputs whose amount of independent work exceeds what one application of the formatter does (bounded passes,
    one rewrite per pass for some rules, stages that run once per application): (tag, source)"""
    import functools
    out = []
    out.append(("alias28", "def f(q):\n    v0 = q + 1\n" + "".join("    v%d = v%d\n" % (i + 1, i) for i in range(27)) + "    return v27\n\n\nprint(f(3))\n"))
    out.append(("import_ifs5", "import m5\nif m5:\n    import m4\n    if m4:\n        import m3\n        if m3:\n            import m2\n"
                "            if m2:\n                import m1\n                if m1:\n                    import m0\n"))
    out.append(("import_ifs3", "import m3\nif m3:\n    import m2\n    if m2:\n        import m1\n        if m1:\n            import m0\n"))
    out.append(("logging12", "import logging\n\na = 1\n" + functools.reduce(lambda s, _: 'logging.info("v{}".format(%s))' % s, range(12), "a") + "\n"))
    if big:
        out.append(("logging52", "import logging\n\na = 1\n" + functools.reduce(lambda s, _: 'logging.info("v{}".format(%s))' % s, range(52), "a") + "\n"))
        out.append(("swap130", "".join("def f%d(x, a):\n    if x:\n        if a:\n            return %d\n        return 2\n    return 3\n\n\nprint(f%d(1, 2))\n"
                                       % (i, i + 10, i) for i in range(130))))
        out.append(("unused131", "def f(q):\n    v0 = q + 1\n" + "".join("    v%d = v%d + 1\n" % (i + 1, i) for i in range(130)) + "    return q\n\n\nprint(f(3))\n"))
    return out
