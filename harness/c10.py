"""C10 -- Rewrites are scheduled transactionally and never overlap (kernel K1, SchedModel.v)."""
from __future__ import annotations

import ast
import io
import itertools
import json
import random
import re
import tokenize
import traceback
from collections import Counter
from pathlib import Path

from . import common
from .common import gz, glist, gtext, gopt

PID = "C10"
IGNORE_RE = re.compile(r"#\s*pyrefact\s*:\s*(skip_file|ignore)")
BAD = "(\n"  # replacement text that can never parse on its own line


# ------------------------------------------------------------------------------------------------
# cases


def make_source(nlines: int, ignored: tuple[int, ...], strmark: tuple[int, ...] = ()
                ) -> tuple[str, list[int], list[tuple[int, int]]]:
    """Distinct one-token lines; returns (source, line-start positions incl. EOF, ignored line ranges).
    Lines in `strmark` carry the marker inside a string literal (no comment token at all)."""
    lines = []
    for i in range(nlines):
        if i in strmark:
            lines.append(f"v{i} = '# pyrefact: ignore'\n")
        else:
            lines.append(f"v{i}  # pyrefact: ignore\n" if i in ignored else f"v{i}\n")
    pos, p = [], 0
    for ln in lines:
        pos.append(p)
        p += len(ln)
    pos.append(p)
    src = "".join(lines)
    il = [(pos[i], pos[i + 1]) for i in range(nlines) if IGNORE_RE.search(lines[i])]
    return src, pos, il


def build_case(nlines, ignored, groups):
    """groups: list of groups; a group is a list of (i, j, text, trans) with line-position indices."""
    src, pos, il = make_source(nlines, ignored)
    g2 = [[(pos[i], pos[j], text, tr) for (i, j, text, tr) in g] for g in groups]
    return {"source": src, "ilines": il, "groups": g2, "nlines": nlines, "ignored": list(ignored)}


def comment_ignored_lines(source: str) -> list[tuple[int, int]]:
    """The property's reading of "an ignored line": the character ranges of the physical lines on which a COMMENT
    *token* carries the marker (independent of core.has_ignore_comment, which searches the raw line text)."""
    starts, p = [], 0
    for ln in source.split("\n"):
        starts.append(p)
        p += len(ln) + 1
    res = []
    try:
        for tok in tokenize.generate_tokens(io.StringIO(source).readline):
            if tok.type == tokenize.COMMENT and IGNORE_RE.search(tok.string):
                a = starts[tok.start[0] - 1]
                b = starts[tok.start[0]] if tok.start[0] < len(starts) else len(source)
                res.append((a, min(b, len(source))))
    except (tokenize.TokenError, SyntaxError, IndentationError):
        return []
    return res


# ---- the application step: members that are whitespace-only changes, rewrites that join lines, insertions ----
MEMBER_KINDS = ("tok", "line", "del", "ins", "trail", "wsline", "blank", "joinws", "joinsc")
WS_KINDS = ("trail", "wsline", "blank", "joinws")


def member(src: str, pos: list[int], i: int, kind: str, k: int):
    """(start, end, new text) of a rewrite of kind `kind` on line i; k numbers the marker text."""
    tok_end = pos[i] + len(f"v{i}")
    line_end = pos[i + 1]
    if kind == "tok":
        return (pos[i], tok_end, f"m{k}")
    if kind == "line":
        return (pos[i], line_end, f"m{k}\n")
    if kind == "del":
        return (pos[i], line_end, "")
    if kind == "ins":
        return (pos[i], pos[i], f"m{k}\n")
    if kind == "trail":                      # blanks appended to the token: whitespace-only
        return (tok_end, tok_end, "  ")
    if kind == "wsline":                     # the line again, with blanks before the line break: whitespace-only
        return (pos[i], line_end, src[pos[i]:line_end - 1] + "   \n")
    if kind == "blank":                      # an added blank line: whitespace-only
        return (pos[i], pos[i], "\n")
    if kind == "joinws":                     # the line break removed: joins two lines, "whitespace-only"
        return (line_end - 1, line_end, "")
    if kind == "joinsc":                     # the line break replaced by '; ': joins two lines
        return (line_end - 1, line_end, "; ")
    raise ValueError(kind)


def veto_family(nlines: int, ignored_opts, strmark_opts=((),)):
    """Every transaction of one or two members (every member kind x every line) on an nlines-line source,
    x ignored line; plus the same with an independent one-member transaction of a second rule."""
    for ig in ignored_opts:
        for sm in strmark_opts:
            src, pos, il = make_source(nlines, ig, sm)
            menu = [(i, kd) for i in range(nlines) for kd in MEMBER_KINDS]
            txs = [[m] for m in menu] + [list(p) for p in itertools.combinations(menu, 2)]
            for tx in txs:
                g = [member(src, pos, i, kd, k + 1) + (0,) for k, (i, kd) in enumerate(tx)]
                c = {"source": src, "ilines": il, "groups": [g], "nlines": nlines, "ignored": list(ig),
                     "family": "veto", "kinds": [f"{kd}@{i}" for (i, kd) in tx]}
                if sm:
                    c["strmark"] = list(sm)
                yield c


def random_veto_case(rnd: random.Random, max_lines=5):
    nlines = rnd.randint(2, max_lines)
    ig = tuple(sorted(rnd.sample(range(nlines), rnd.choice([0, 0, 1, 1, 2]) if nlines > 2 else 0)))
    sm = tuple(i for i in range(nlines) if i not in ig and rnd.random() < 0.1)
    src, pos, il = make_source(nlines, ig, sm)
    ngroups = rnd.randint(1, 2)
    groups, k, kinds = [], 0, []
    for gi in range(ngroups):
        g = []
        for tr in range(rnd.randint(1, 3)):
            for _ in range(rnd.choice([1, 2, 2, 3])):
                i, kd = rnd.randrange(nlines), rnd.choice(MEMBER_KINDS)
                k += 1
                g.append(member(src, pos, i, kd, k) + (rnd.choice([tr, tr, None]),))
                kinds.append(f"{kd}@{i}")
        rnd.shuffle(g)
        groups.append(g)
    c = {"source": src, "ilines": il, "groups": groups, "nlines": nlines, "ignored": list(ig),
         "family": "veto-random", "kinds": kinds}
    if sm:
        c["strmark"] = list(sm)
    return c


# replacement texts on which ast.parse raises something else than SyntaxError
CRASH_TEXTS = {"deep-unary": "-" * 3000 + "1", "lone-surrogate": "'\ud800'"}


def crash_family():
    for name, text in CRASH_TEXTS.items():
        for extra in (False, True):
            src, pos, il = make_source(2, ())
            g = [(pos[1], pos[1] + 2, text, None)]
            if extra:
                g.append((pos[0], pos[0] + 2, "m1", None))
            yield {"source": src, "ilines": il, "groups": [g], "nlines": 2, "ignored": [], "family": "crash",
                   "kinds": [name]}


def exhaustive_pairs(nlines: int, ignored_opts):
    """All cases with two rewrites: every pair of line-aligned ranges x same/different text x
    transaction numbering x group split (in yield order) x ignored line."""
    rngs = [(i, j) for i in range(nlines + 1) for j in range(i, nlines + 1)]
    trans_opts = [(None, None), (0, 0), (0, 1), (1, 0), (None, 0), (0, None)]
    splits = ["same", "two", "two-rev"]
    for (r1, r2) in itertools.product(rngs, rngs):
        for t2 in ("m1\n", "m2\n"):
            for tr in trans_opts:
                for sp in splits:
                    for ig in ignored_opts:
                        a = (r1[0], r1[1], "m1\n", tr[0])
                        b = (r2[0], r2[1], t2, tr[1])
                        if sp == "same":
                            groups = [[a, b]]
                        elif sp == "two":
                            groups = [[a], [b]]
                        else:
                            groups = [[b], [a]]
                        yield build_case(nlines, ig, groups)


def random_case(rnd: random.Random, max_rw=8, max_lines=8, max_groups=3, bad_p=0.08):
    nlines = rnd.randint(2, max_lines)
    ignored = tuple(sorted(rnd.sample(range(nlines), rnd.choice([0, 0, 1, 1, 2]) if nlines > 2 else 0)))
    ngroups = rnd.randint(1, max_groups)
    nrw = rnd.randint(1, max_rw)
    groups = [[] for _ in range(ngroups)]
    for _ in range(nrw):
        i = rnd.randint(0, nlines)
        j = rnd.choice([i, i, min(nlines, i + 1), min(nlines, i + 1), rnd.randint(i, nlines)])
        text = rnd.choice(["m1\n", "m2\n", "m3\n", "m4\n", "", "m1\nm5\n"])
        if rnd.random() < bad_p:
            text = BAD
        tr = rnd.choice([None, None, 0, 1, 2])
        groups[rnd.randrange(ngroups)].append((i, j, text, tr))
    # some rewrites are handed to the scheduler as AST-node targets (converted by core.get_charnos inside
    # fill_transaction): a node target covers the expression on line i without its line break
    node_targets = []
    src0, pos0, _ = make_source(nlines, ignored)
    for gi, g in enumerate(groups):
        for k, (i, j, text, tr) in enumerate(g):
            if j == i + 1 and text and not text.startswith("(") and rnd.random() < 0.25:
                node_targets.append((gi, k, i))
    # occasionally duplicate a whole transaction in a later group / same group
    if rnd.random() < 0.3:
        g = rnd.choice(groups)
        if g:
            it = rnd.choice(g)
            rnd.choice(groups).append(it)
    c = build_case(nlines, ignored, groups)
    # rewrite the chosen entries: range = the expression statement `v<i>` itself; text without the line break
    for (gi, k, i) in node_targets:
        if k < len(c["groups"][gi]):
            s0, e0, text, tr = c["groups"][gi][k]
            if (s0, e0) == (pos0[i], pos0[i + 1]):
                c["groups"][gi][k] = (pos0[i], pos0[i] + len(f"v{i}"), text.rstrip("\n").split("\n")[0] or "m9", tr)
                c.setdefault("node_targets", []).append([gi, k, i])
    return c


# ------------------------------------------------------------------------------------------------
# implementation side


def run_impl(mods, case):
    core, processing = mods["core"], mods["processing"]
    source = case["source"]
    funcs = []
    nt = {(a, b): i for (a, b, i) in case.get("node_targets", [])}
    tree = ast.parse(source) if nt else None
    for gi, g in enumerate(case["groups"]):
        def rule(src, _g=g, _gi=gi):
            for k, (s, e, text, tr) in enumerate(_g):
                target = core.Range(s, e)
                if (_gi, k) in nt:
                    target = tree.body[nt[(_gi, k)]].value      # the Name node `v<i>`
                if tr is None:
                    yield (target, text)
                else:
                    yield (target, text, tr)
        rule.__name__ = f"rule{gi}"
        funcs.append((rule, [source], {}))
    trace: dict = {}
    last = [source]
    real_do = processing._do_rewrite

    def spy(src, rewrite, **kw):
        res = real_do(src, rewrite, **kw)
        rng = processing._get_charnos(rewrite, src)
        code = src[rng.start:rng.end]
        trace[id(rewrite)] = "applied" if res != src else ("noop" if rewrite.new == code else "veto")
        last[0] = res
        return res

    with common.quiet():
        sched = processing._schedule_rewrites(source, funcs)
        flat = [(t.group_number, t.transaction_number, rng.start, rng.end, rw.new) for t, (rng, rw) in sched]
        mode = case.get("restore")
        saved = processing._substitute_original_fstrings
        processing._do_rewrite = spy
        try:
            if mode is not None:
                # fault injection into the string-restoration step that runs between the two validity tests
                # (T10.5 is stated for every `restore` function): "tag" appends a marker line, "break" makes the
                # text unparsable -> the pass must hand back the source
                processing._substitute_original_fstrings = (
                    (lambda o, n: n + "restored\n") if mode == "tag" else (lambda o, n: n + "(\n"))
            out = processing._apply_rewrites(source, sched)
        finally:
            processing._do_rewrite = real_do
            processing._substitute_original_fstrings = saved
    # per scheduled rewrite: applied / noop (new text == old text) / veto (_do_rewrite handed the text back) /
    # refused (the application step never offered it to _do_rewrite)
    status = [trace.get(id(rw)) or ("noop" if rw.new == source[rng.start:rng.end] else "refused")
              for _, (rng, rw) in sched]
    return flat, out, status, last[0]


def impl_line_verdicts(mods, source: str) -> list[tuple[int, int]]:
    """has_ignore_comment's own verdict for every physical line (only used as the model's `ilines` input in the
    marker-inside-a-string family, where the regex reading and the comment-token reading differ)."""
    core = mods["core"]
    res, p = [], 0
    for ln in source.splitlines(keepends=True):
        r = (p, p + len(ln))
        p += len(ln)
        if core.has_ignore_comment(source, core.Range(*r)):
            res.append(r)
    return res


def py_splice(source, flat):
    s = source
    for (_, _, a, b, new) in flat:
        s = s[:a] + new + s[b:]
    return s


def py_valid(text):
    try:
        ast.parse(text)
        return True
    except SyntaxError:
        return False


# ------------------------------------------------------------------------------------------------
# the property's own oracle, evaluated on what the implementation did (used by the failing-input
# search; independent of the Coq model and of the scheduler's algorithm)


def overlaps(a, b):
    return a[0] < b[1] and b[0] < a[1]


def touches(r, l, source):
    """Does the rewrite range r touch the physical line l?  A replacement or deletion: the ranges overlap.  An
    insertion: anywhere from the first column of the line up to its terminator (text inserted there becomes part
    of the line; at the end of an unterminated last line too)."""
    if r[0] != r[1]:
        return overlaps(r, l)
    unterminated = l[1] == len(source) and not source.endswith(("\n", "\r"))
    return l[0] <= r[0] < l[1] or (r[0] == l[1] and unterminated)


_TOK_CACHE: dict = {}


def tok_ilines(source: str):
    if source not in _TOK_CACHE:
        if len(_TOK_CACHE) > 20000:
            _TOK_CACHE.clear()
        _TOK_CACHE[source] = comment_ignored_lines(source)
    return _TOK_CACHE[source]


def ws_only_change(code: str, new: str) -> bool:
    """The tool's notion of a whitespace-only change (used by the sig predicate of F10-3 only)."""
    return new != code and ([l.rstrip() for l in new.splitlines() if l.strip()]
                            == [l.rstrip() for l in code.splitlines() if l.strip()])


def property_oracle(case, flat, out, status=None) -> list[dict]:
    """Independent of the model AND of how default transaction numbers are chosen: transactions are
    identified by the yield structure (explicit number -> one transaction per (group, number); no number -> a
    transaction of its own), applied rewrites are matched to them by (group, range, text).
    `status` = what the application step did with every scheduled rewrite (see run_impl)."""
    problems: list[dict] = []

    def problem(kind, text, **kw):
        problems.append(dict(kind=kind, text=text, **kw))

    if status is None:
        status = ["applied"] * len(flat)
    tx: dict = {}
    order = []
    for gi, g in enumerate(case["groups"]):
        for idx, (s, e, text, tr) in enumerate(g):
            key = ("e", gi, tr) if tr is not None else ("d", gi, idx)
            if key not in tx:
                order.append(key)
            tx.setdefault(key, []).append(((s, e), text))
    applied_by_group: dict = {}
    for (g, t, s, e, new) in flat:
        applied_by_group.setdefault(g, []).append(((s, e), new))
    # (b) disjointness
    for i in range(len(flat)):
        for j in range(i + 1, len(flat)):
            if overlaps(flat[i][2:4], flat[j][2:4]):
                problem("overlap", f"overlapping applied rewrites {flat[i]} {flat[j]}")
    # every applied rewrite was yielded by its group
    for g, items in applied_by_group.items():
        yielded = [it for k in tx if k[1] == g for it in tx[k]]
        for it in items:
            if it not in yielded:
                problem("not-yielded", f"applied rewrite {it} of group {g} was never yielded")
    # (a) atomicity + (c) justified drops -- scheduling
    ilines = tok_ilines(case["source"])
    st = {}
    for key in order:
        items = sorted(set(tx[key]))
        app = applied_by_group.get(key[1], [])
        present = [it for it in items if it in app]
        st[key] = "all" if len(present) == len(items) else ("none" if not present else "partial")
    for key in order:
        items = sorted(set(tx[key]))
        if st[key] == "partial":
            # a rewrite may also be present because an identical rewrite of ANOTHER transaction of the same group
            # was applied; only report when no such explanation exists
            others = [it for k in order if k != key and k[1] == key[1] and st[k] == "all" for it in tx[k]]
            missing = [it for it in items if it not in applied_by_group.get(key[1], [])]
            extra = [it for it in items if it in applied_by_group.get(key[1], []) and it not in others]
            if missing and extra:
                problem("partial", f"transaction {key} scheduled partially: scheduled {extra}, missing {missing}")
            continue
        if st[key] == "all":
            continue
        rs = [r for r, _ in items]
        self_ov = any(overlaps(rs[i], rs[j]) for i in range(len(rs)) for j in range(i + 1, len(rs)))
        dup = any(k2 != key and k2[1] <= key[1] and sorted(set(tx[k2])) == items for k2 in order)
        sched_ov = any(overlaps(r, (f[2], f[3])) for r in rs for f in flat if f[0] <= key[1])
        ign = any(touches(r, l, case["source"]) for r in rs for l in ilines)
        if not (self_ov or dup or sched_ov or ign):
            problem("dropped", f"transaction {key} dropped without a stated reason: {tx[key]}",
                    ranges=[list(r) for r in rs])
    # (a) atomicity -- application step: the members of a scheduled transaction are spliced all together or not
    # at all (a member whose new text equals the old text is neutral)
    by_tx: dict = {}
    for f, stt in zip(flat, status):
        by_tx.setdefault((f[0], f[1]), []).append((f, stt))
    for key, ms in by_tx.items():
        done = [f for f, stt in ms if stt == "applied"]
        lost = [(f, stt) for f, stt in ms if stt in ("veto", "refused")]
        if done and lost:
            problem("torn", f"scheduled transaction {key} applied in part: spliced {done}, not spliced {lost}",
                    key=list(key))
        elif lost:
            problem("refused", f"scheduled transaction {key} not applied although it was scheduled: {lost}",
                    key=list(key), members=[list(f) for f, _ in lost])
    # a transaction that touches an ignored line is dropped (T10.3 is an equivalence): no spliced rewrite overlaps a
    # line whose COMMENT token carries the marker
    for f, stt in zip(flat, status):
        if stt == "applied" and any(overlaps((f[2], f[3]), l) for l in ilines):
            problem("ignored-touched", f"rewrite {f} was applied although it touches an ignored line")
    # (d)+(e) text: splice of the applied rewrites, or untouched source when that does not parse
    cand = py_splice(case["source"], [f for f, stt in zip(flat, status) if stt in ("applied", "noop")])
    want = cand if py_valid(cand) else case["source"]
    if py_valid(cand) and case.get("restore") == "tag":
        want = cand + "restored\n"
    elif case.get("restore") == "break":
        want = case["source"]
    if out != want:
        problem("text", f"pass output differs from the spliced/rolled-back text: {out!r} vs {want!r}")
    return problems


# ------------------------------------------------------------------------------------------------
# known findings: a failing case is suppressed only when EVERY problem of the case is explained by the
# structural predicate of a listed finding whose `site` is the site the problem is attributed to

PROBLEM_SITE = {"torn": "processing._apply_rewrites", "refused": "processing._apply_rewrites",
                "dropped": "core.has_ignore_comment", "ignored-touched": "processing._schedule_rewrites"}
PARSE_RAISES = ("RecursionError", "UnicodeEncodeError", "UnicodeDecodeError", "MemoryError", "ValueError")


def _sig_ws_only_transaction(case, flat, status, prob) -> bool:
    """F10-3: a scheduled transaction with a member that is a whitespace-only change is refused as a whole."""
    if prob["kind"] != "refused":
        return False
    src = case["source"]
    return any(ws_only_change(src[s:e], new) for (_, _, s, e, new) in prob["members"])


def _sig_marker_in_string(case, flat, status, prob) -> bool:
    """F10-4: the dropped transaction touches a line whose raw text matches the marker regex although no comment
    token carries it."""
    if prob["kind"] != "dropped":
        return False
    src = case["source"]
    p, raw = 0, []
    for ln in src.splitlines(keepends=True):
        if IGNORE_RE.search(ln):
            raw.append((p, p + len(ln)))
        p += len(ln)
    tok = tok_ilines(src)
    return any(overlaps(tuple(r), l) for r in prob["ranges"] for l in raw if l not in tok)


def _sig_parse_raises(case, flat, status, prob) -> bool:
    """F10-5: ast.parse inside core.is_valid_python raised something else than SyntaxError."""
    return prob["kind"] == "crash" and prob.get("exc") in PARSE_RAISES and prob.get("site") == "core.is_valid_python"


SIGS = {"ws_only_transaction": _sig_ws_only_transaction, "marker_in_string": _sig_marker_in_string,
        "parse_raises_non_syntaxerror": _sig_parse_raises}


def match_findings(findings, case, flat, status, problems):
    """The findings that explain ALL problems of the case, or None."""
    used = []
    for prob in problems:
        site = prob.get("site") or PROBLEM_SITE.get(prob["kind"])
        hit = None
        for f in findings:
            if f.kind != "finding" or f.fields.get("site") != site:
                continue
            pred = SIGS.get(f.fields.get("sig", ""))
            try:
                if pred and pred(case, flat, status, prob):
                    hit = f
                    break
            except Exception:  # a predicate that cannot be evaluated never suppresses
                continue
        if hit is None:
            return None
        used.append(hit)
    return used


def crash_problem(e: BaseException) -> dict:
    """The innermost pyrefact frame of the traceback names the site."""
    site = None
    for fr in traceback.extract_tb(e.__traceback__):
        if "/pyrefact/" in fr.filename:
            site = f"{Path(fr.filename).stem}.{fr.name}"
    return {"kind": "crash", "exc": type(e).__name__, "site": site,
            "text": f"the pass raised {type(e).__name__}: {str(e)[:200]} (innermost pyrefact frame: {site})"}


# ------------------------------------------------------------------------------------------------
# Coq side


def g_range(r):
    return f"({gz(r[0])}, {gz(r[1])})"


def model_ilines(case):
    """The ignored-line ranges as SchedModel.touches_line expects them: an unterminated last line is handed
    over with its end moved one past the text (an insertion at the very end of the text touches it)."""
    src = case["source"]
    unterminated = bool(src) and not src.endswith(("\n", "\r"))
    return [(a, b + 1) if unterminated and b == len(src) else (a, b)
            for (a, b) in case.get("ilines_model", case["ilines"])]


def g_case(case, flat, cand) -> str:
    groups = glist(
        [glist([f"({g_range((s, e))}, {gtext(t)}, {gopt(tr, gz)})" for (s, e, t, tr) in g]) for g in case["groups"]])
    exp = glist([f"({gz(g)}, {gz(t)}, {gz(s)}, {gz(e)}, {gtext(n)})" for (g, t, s, e, n) in flat])
    return (f"(mkCase {glist([g_range(r) for r in model_ilines(case)])} {groups} {exp} "
            f"{gtext(case['source'])} {gtext(cand)})")


# which model of the application step the correspondence uses: "tx" = the repaired code (a transaction with a
# whitespace-only member is refused as a whole, no ignore re-check), "v0" = the code before the repair (per-member
# refusals inside _do_rewrite); C10_APPLY_MODEL=v0 is only for replaying the hunt items on an unrepaired tree
import os
APPLY_MODEL = os.environ.get("C10_APPLY_MODEL", "tx")


def write_case_file(path: Path, items) -> None:
    body = ";\n  ".join(g_case(c, f, cand) for (c, f, cand) in items)
    path.write_text(
        "From Coq Require Import List ZArith.\nImport ListNotations.\nOpen Scope Z_scope.\n"
        "Require Import Pyrefact.SchedModel Pyrefact.SchedApplyModel.\n"
        f"Definition cases : list sched_case := [\n  {body}\n].\n"
        f"Eval vm_compute in (bad_indices case_ok_{APPLY_MODEL} cases).\n")


def model_outputs(wd: Path, case, flat, cand) -> str:
    """Print what the model computes for one case (used in replays)."""
    p = wd / "replay_case.v"
    p.write_text(
        "From Coq Require Import List ZArith.\nImport ListNotations.\nOpen Scope Z_scope.\n"
        "Require Import Pyrefact.SchedModel Pyrefact.SchedApplyModel.\n"
        f"Definition c : sched_case := {g_case(case, flat, cand)}.\n"
        "Eval vm_compute in (model_schedule c).\nEval vm_compute in (model_candidate_tx c).\n"
        "Eval vm_compute in (model_candidate_v0 c).\n"
        "Eval vm_compute in (outcomes_v0 (c_src c) (schedule_text (c_ilines c) (c_groups c))).\n")
    rc, out = common.coqc(p)
    return out[-4000:]


def fix_loop_cases(mods, run):
    """processing.fix / processing.chain history loop vs SchedModel.fix_loop: exhaustive over all
    functions f : 4 -> 4 on a 4-text universe (scripted whole-text replacement rule)."""
    core, processing = mods["core"], mods["processing"]
    texts = ["a0\n", "a1\n", "a2\n", "a3\n"]
    tabs = common.__dict__  # noqa
    from . import tables
    t = tables.get()
    bad, n = [], 0
    for f in itertools.product(range(4), repeat=4):
        for start in range(4):
            def rule(source, _f=f):
                i = texts.index(source)
                j = _f[i]
                if j != i:
                    yield (core.Range(0, len(source)), texts[j])
            for which, max_iter in (("fix", t["FIX_MAX_ITER"]), ("chain", t["CHAIN_MAX_ITER"])):
                with common.quiet():
                    if which == "fix":
                        got = processing.fix(rule)(texts[start])
                    else:
                        got = processing.chain([rule])(texts[start])
                # model (Python transliteration of fix_loop; the Gallina one is run in Coq below)
                cur = start
                for _ in range(max_iter):
                    cur = f[cur]
                    if cur == start:
                        break
                n += 1
                if got != texts[cur]:
                    bad.append({"f": f, "start": start, "which": which, "impl": got, "model": texts[cur]})
    return n, bad


# ------------------------------------------------------------------------------------------------


def nontrivial(case, flat) -> bool:
    nt = sum(len(g) for g in case["groups"])
    return nt >= 2 and len(flat) < nt  # at least two rewrites and at least one drop event


def check(run: common.Run):
    wd = common.workdir(PID)
    ps = common.proof_step(run, PID, wd)
    mods = common.import_impl()
    rnd = random.Random(run.seed)
    findings = common.load_findings(PID)

    cases = []
    if run.tier == "quick":
        cases += list(exhaustive_pairs(3, [(), (1,)]))
        nrand = 2500
    else:
        cases += list(exhaustive_pairs(5, [(), (1,), (0,), (4,)]))
        nrand = 60000
    # the application step: every transaction of <=2 members over the member kinds (token/line replacement,
    # deletion, insertion, four whitespace-only shapes, line joins) x ignored line; marker inside a string
    veto = list(veto_family(3, [(), (0,), (1,), (2,)]))
    veto += list(veto_family(2, [()], [(0,), (1,)]))
    if run.tier != "quick":
        veto += list(veto_family(4, [(), (1,), (3,)]))
    cases += veto
    cases += list(crash_family())
    n_exh = len(cases)
    for _ in range(nrand):
        cases.append(random_case(rnd))
    for _ in range(600 if run.tier == "quick" else 8000):
        cases.append(random_veto_case(rnd))
    for _ in range(150 if run.tier == "quick" else 2000):
        c = random_case(rnd, bad_p=0.0)
        c["restore"] = rnd.choice(["tag", "break"])
        cases.append(c)
    # corpus of minimised past disagreements / hunt witnesses first
    corpus = []
    for p in sorted((common.VERIF / "corpus" / "sched").glob("*.json")):
        corpus.append(json.loads(p.read_text()))
    cases = corpus + cases

    items, oracle_fail, hist = [], [], Counter()
    distinct = set()
    for c in cases:
        c["groups"] = [[tuple(x) for x in g] for g in c["groups"]]
        if c.get("strmark"):
            c["ilines_model"] = impl_line_verdicts(mods, c["source"])
        try:
            flat, out, status, cand = run_impl(mods, c)
        except Exception as e:  # the pass itself crashed
            oracle_fail.append((c, None, None, None, [crash_problem(e)]))
            hist["crashed"] += 1
            continue
        probs = property_oracle(c, flat, out, status)
        if probs:
            oracle_fail.append((c, flat, out, status, probs))
        items.append((c, flat, cand))
        nt = sum(len(g) for g in c["groups"])
        hist[f"rewrites={nt}"] += 1
        hist[f"scheduled={len(flat)}"] += 1
        for stt in status:
            hist[f"member-{stt}"] += 1
        if nontrivial(c, flat):
            distinct.add(json.dumps([c["groups"], c["ilines"]], sort_keys=True))

    # model side, sharded
    files, shards = [], []
    SH = 400
    for k in range(0, len(items), SH):
        p = wd / f"cases_{k // SH}.v"
        write_case_file(p, items[k:k + SH])
        files.append(p)
        shards.append(items[k:k + SH])
    results = common.run_case_files(files)
    disagreements = []
    for p, shard in zip(files, shards):
        rc, out = results[p]
        idx = common.parse_nat_list(out) if rc == 0 else None
        if idx is None:
            disagreements.append(({"kind": "model-evaluation-failed", "file": p.name, "log": out[-1500:]}, None))
            continue
        for i in idx:
            disagreements.append((None, shard[i]))

    n_loop, loop_bad = fix_loop_cases(mods, run)

    # ---- verdicts
    reported = set()
    known: dict = {}
    n_viol = 0
    for (c, flat, out, status, probs) in oracle_fail:
        used = match_findings(findings, c, flat, status, probs)
        if used is not None:
            for f in used:
                known.setdefault(f.id, [f, 0])[1] += 1
            reported.add(json.dumps(c, sort_keys=True, default=str))
            continue
        n_viol += 1
        if n_viol > 6:
            continue
        site = sorted({p.get("site") or PROBLEM_SITE.get(p["kind"], "processing._schedule_rewrites/_apply_rewrites")
                       for p in probs})
        run.violation({"kind": "property-oracle", "case": c, "impl_schedule": flat, "impl_output": out,
                       "member_status": status, "problems": probs, "site": site,
                       "explanation": "the real scheduler / application step violates C10 on this synthetic rule "
                                      "set"}, True)
        reported.add(json.dumps(c, sort_keys=True, default=str))
    for fid, (f, n) in sorted(known.items()):
        run.known_finding(fid, f"site={f.fields.get('site')} sig={f.fields.get('sig')} cases={n}")
    for (err, item) in disagreements[:5]:
        if err is not None:
            run.violation(dict(err, explanation="correspondence K1 could not be evaluated"), False)
            continue
        c, flat, cand = item
        if json.dumps(c, sort_keys=True, default=str) in reported:
            continue
        mo = model_outputs(wd, c, flat, cand)
        run.violation({"kind": "correspondence", "kernel": "K1 SchedModel.schedule / SchedApplyModel.apply_" +
                       APPLY_MODEL, "case": c, "impl_schedule": flat, "impl_candidate": cand, "model": mo,
                       "explanation": "model and implementation disagree on this case (schedule, or the text "
                                      "before the validity test); the property oracle found no violated clause on "
                                      "the explored inputs"}, False)
    for b in loop_bad[:3]:
        run.violation({"kind": "correspondence", "kernel": "K1 SchedModel.fix_loop", "case": b,
                       "explanation": "fix/chain history loop differs from the model"}, False)
    if ps.get("props") and not ps["props"]["ok"]:
        pr = ps["props"]
        run.violation({"kind": "proof", "file": pr["file"], "broken": pr.get("broken"), "log": pr["log"],
                       "explanation": "a property theorem no longer checks"}, False)

    run.coverage.update(
        evaluations=len(items) + n_loop,
        distinct_nontrivial=len(distinct),
        rule=("correspondence cases = synthetic sources of distinct one-token lines + synthetic rule groups "
              "yielding (Range, marker text[, transaction]); exhaustive: all pairs of line-aligned ranges x "
              "same/different text x 6 transaction numberings x 3 group splits x ignored-line options; the "
              "application-step family: every transaction of 1 or 2 members over 9 member kinds (token / line "
              "replacement, deletion, insertion, trailing blanks, line with trailing blanks, blank line, removed "
              "line break, line break -> '; ') x every line x ignored line / marker inside a string literal; "
              "replacement texts on which ast.parse raises RecursionError / UnicodeEncodeError; plus "
              "seeded random cases (<=8 rewrites, <=8 lines, <=3 groups, invalid replacement text with p=0.08) "
              "and seeded random application-step cases (<=2 groups x <=3 transactions x <=3 members); "
              "plus all f:4->4 x 4 starts for the fix/chain loop. The model is compared on the schedule AND on "
              "the text the implementation holds before the validity test. Non-trivial = >=2 rewrites and >=1 "
              "drop event; distinct by (groups, ignored lines)."),
        samples=[{"groups": c["groups"], "ilines": c["ilines"], "impl_schedule": f} for (c, f, _) in
                 (items[:1] + items[n_exh // 2:n_exh // 2 + 1] + items[-2:])],
        exhaustive_part=n_exh, veto_family=len(veto), random_part=nrand, corpus_part=len(corpus),
        loop_cases=n_loop, apply_model=APPLY_MODEL,
        exhaustive=False, histogram=dict(hist),
        correspondence_disagreements=len(disagreements) + len(loop_bad),
        property_oracle_failures=len(oracle_fail), property_oracle_failures_unexplained=n_viol,
        trusted_base=common.TRUSTED_BASE_COMMON + [
            "_do_rewrite's indentation/pass/parenthesis candidates and minimize_whitespace_line_differences are "
            "modelled as a pure splice (validated by comparing the implementation's text before the validity test "
            "with the model's on every case, not proved)",
            "group_name omitted from the transaction key (function of the group number)",
            "the ignored-line ranges handed to the model are computed by the harness with the marker regex over "
            "str.splitlines (has_ignore_comment's own reading; IgnoreModel.v / C20 validate it); the oracle uses "
            "COMMENT tokens"],
    )
    run.assumptions += [
        "the theorems are about SchedModel.v / SchedApplyModel.v; the tie to processing.py is the exact "
        "correspondence above",
        "replacement targets given as AST nodes / None are converted by core.get_charnos (covered by C13)"]


def replay(path: str) -> int:
    data = json.loads(Path(path).read_text())
    mods = common.import_impl()
    wd = common.workdir(PID + "-replay")
    print(json.dumps({k: data[k] for k in data if k in ("kind", "explanation", "kernel", "site")}, indent=1))
    if data.get("kind") in ("property-oracle", "correspondence") and isinstance(data.get("case"), dict) \
            and "groups" in data["case"]:
        c = data["case"]
        c["groups"] = [[tuple(x) for x in g] for g in c["groups"]]
        if c.get("strmark"):
            c["ilines_model"] = impl_line_verdicts(mods, c["source"])
        try:
            flat, out, status, cand = run_impl(mods, c)
        except Exception as e:
            print("the pass raised:", crash_problem(e)["text"])
            return 0
        print("impl schedule:", flat)
        print("member status:", status)
        print("impl candidate:", repr(cand))
        print("impl output  :", repr(out))
        print("oracle       :", [p["text"] for p in property_oracle(c, flat, out, status)] or "all clauses hold")
        print("model        :", model_outputs(wd, c, flat, cand))
    elif data.get("kind") == "proof":
        print(common.check_props(PID, wd))
    return 0
