"""C10 -- Rewrites are scheduled transactionally and never overlap (kernel K1, SchedModel.v)."""
from __future__ import annotations

import ast
import itertools
import json
import random
import re
from collections import Counter
from pathlib import Path

from . import common
from .common import gz, glist, gtext, gopt

PID = "C10"
IGNORE_RE = re.compile(r"#\s*pyrefact\s*:\s*(skip_file|ignore)")
BAD = "(\n"  # replacement text that can never parse on its own line


# ------------------------------------------------------------------------------------------------
# cases


def make_source(nlines: int, ignored: tuple[int, ...]) -> tuple[str, list[int], list[tuple[int, int]]]:
    """Distinct one-token lines; returns (source, line-start positions incl. EOF, ignored line ranges)."""
    lines = []
    for i in range(nlines):
        lines.append(f"v{i}  # pyrefact: ignore\n" if i in ignored else f"v{i}\n")
    pos, p = [], 0
    for ln in lines:
        pos.append(p)
        p += len(ln)
    pos.append(p)
    src = "".join(lines)
    il = [(pos[i], pos[i + 1]) for i in range(nlines) if IGNORE_RE.search(lines[i])]
    return src, pos, il


def build_case(nlines, ignored, groups):
    """groups: list of groups; a group is a list of (i, j, text, trans) with line-position indices."""
    src, pos, il = make_source(nlines, ignored)
    g2 = [[(pos[i], pos[j], text, tr) for (i, j, text, tr) in g] for g in groups]
    return {"source": src, "ilines": il, "groups": g2, "nlines": nlines, "ignored": list(ignored)}


def exhaustive_pairs(nlines: int, ignored_opts):
    """All cases with two rewrites: every pair of line-aligned ranges x same/different text x
    transaction numbering x group split (in yield order) x ignored line."""
    rngs = [(i, j) for i in range(nlines + 1) for j in range(i, nlines + 1)]
    trans_opts = [(None, None), (0, 0), (0, 1), (1, 0), (None, 0), (0, None)]
    splits = ["same", "two", "two-rev"]
    for (r1, r2) in itertools.product(rngs, rngs):
        for t2 in ("m1\n", "m2\n"):
            for tr in trans_opts:
                for sp in splits:
                    for ig in ignored_opts:
                        a = (r1[0], r1[1], "m1\n", tr[0])
                        b = (r2[0], r2[1], t2, tr[1])
                        if sp == "same":
                            groups = [[a, b]]
                        elif sp == "two":
                            groups = [[a], [b]]
                        else:
                            groups = [[b], [a]]
                        yield build_case(nlines, ig, groups)


def random_case(rnd: random.Random, max_rw=8, max_lines=8, max_groups=3, bad_p=0.08):
    nlines = rnd.randint(2, max_lines)
    ignored = tuple(sorted(rnd.sample(range(nlines), rnd.choice([0, 0, 1, 1, 2]) if nlines > 2 else 0)))
    ngroups = rnd.randint(1, max_groups)
    nrw = rnd.randint(1, max_rw)
    groups = [[] for _ in range(ngroups)]
    for _ in range(nrw):
        i = rnd.randint(0, nlines)
        j = rnd.choice([i, i, min(nlines, i + 1), min(nlines, i + 1), rnd.randint(i, nlines)])
        text = rnd.choice(["m1\n", "m2\n", "m3\n", "m4\n", "", "m1\nm5\n"])
        if rnd.random() < bad_p:
            text = BAD
        tr = rnd.choice([None, None, 0, 1, 2])
        groups[rnd.randrange(ngroups)].append((i, j, text, tr))
    # some rewrites are handed to the scheduler as AST-node targets (converted by core.get_charnos inside
    # fill_transaction): a node target covers the expression on line i without its line break
    node_targets = []
    src0, pos0, _ = make_source(nlines, ignored)
    for gi, g in enumerate(groups):
        for k, (i, j, text, tr) in enumerate(g):
            if j == i + 1 and text and not text.startswith("(") and rnd.random() < 0.25:
                node_targets.append((gi, k, i))
    # occasionally duplicate a whole transaction in a later group / same group
    if rnd.random() < 0.3:
        g = rnd.choice(groups)
        if g:
            it = rnd.choice(g)
            rnd.choice(groups).append(it)
    c = build_case(nlines, ignored, groups)
    # rewrite the chosen entries: range = the expression statement `v<i>` itself; text without the line break
    for (gi, k, i) in node_targets:
        if k < len(c["groups"][gi]):
            s0, e0, text, tr = c["groups"][gi][k]
            if (s0, e0) == (pos0[i], pos0[i + 1]):
                c["groups"][gi][k] = (pos0[i], pos0[i] + len(f"v{i}"), text.rstrip("\n").split("\n")[0] or "m9", tr)
                c.setdefault("node_targets", []).append([gi, k, i])
    return c


# ------------------------------------------------------------------------------------------------
# implementation side


def run_impl(mods, case):
    core, processing = mods["core"], mods["processing"]
    source = case["source"]
    funcs = []
    nt = {(a, b): i for (a, b, i) in case.get("node_targets", [])}
    tree = ast.parse(source) if nt else None
    for gi, g in enumerate(case["groups"]):
        def rule(src, _g=g, _gi=gi):
            for k, (s, e, text, tr) in enumerate(_g):
                target = core.Range(s, e)
                if (_gi, k) in nt:
                    target = tree.body[nt[(_gi, k)]].value      # the Name node `v<i>`
                if tr is None:
                    yield (target, text)
                else:
                    yield (target, text, tr)
        rule.__name__ = f"rule{gi}"
        funcs.append((rule, [source], {}))
    with common.quiet():
        sched = processing._schedule_rewrites(source, funcs)
        flat = [(t.group_number, t.transaction_number, rng.start, rng.end, rw.new) for t, (rng, rw) in sched]
        mode = case.get("restore")
        if mode is None:
            out = processing._apply_rewrites(source, sched)
        else:
            # fault injection into the string-restoration step that runs between the two validity tests
            # (T10.5 is stated for every `restore` function): "tag" appends a marker line, "break" makes the
            # text unparsable -> the pass must hand back the source
            saved = processing._substitute_original_fstrings
            processing._substitute_original_fstrings = (
                (lambda o, n: n + "restored\n") if mode == "tag" else (lambda o, n: n + "(\n"))
            try:
                out = processing._apply_rewrites(source, sched)
            finally:
                processing._substitute_original_fstrings = saved
    return flat, out


def py_splice(source, flat):
    s = source
    for (_, _, a, b, new) in flat:
        s = s[:a] + new + s[b:]
    return s


def py_valid(text):
    try:
        ast.parse(text)
        return True
    except SyntaxError:
        return False


# ------------------------------------------------------------------------------------------------
# the property's own oracle, evaluated on what the implementation did (used by the failing-input
# search; independent of the Coq model and of the scheduler's algorithm)


def overlaps(a, b):
    return a[0] < b[1] and b[0] < a[1]


def property_oracle(case, flat, out) -> list[str]:
    """Independent of the model AND of how default transaction numbers are chosen: transactions are
    identified by the yield structure (explicit number -> one transaction per (group, number); no number -> a
    transaction of its own), applied rewrites are matched to them by (group, range, text)."""
    problems = []
    tx: dict = {}
    order = []
    for gi, g in enumerate(case["groups"]):
        for idx, (s, e, text, tr) in enumerate(g):
            key = ("e", gi, tr) if tr is not None else ("d", gi, idx)
            if key not in tx:
                order.append(key)
            tx.setdefault(key, []).append(((s, e), text))
    applied_by_group: dict = {}
    for (g, t, s, e, new) in flat:
        applied_by_group.setdefault(g, []).append(((s, e), new))
    # (b) disjointness
    for i in range(len(flat)):
        for j in range(i + 1, len(flat)):
            if overlaps(flat[i][2:4], flat[j][2:4]):
                problems.append(f"overlapping applied rewrites {flat[i]} {flat[j]}")
    # every applied rewrite was yielded by its group
    for g, items in applied_by_group.items():
        yielded = [it for k in tx if k[1] == g for it in tx[k]]
        for it in items:
            if it not in yielded:
                problems.append(f"applied rewrite {it} of group {g} was never yielded")
    # (a) atomicity + (c) justified drops
    status = {}
    for key in order:
        items = sorted(set(tx[key]))
        app = applied_by_group.get(key[1], [])
        present = [it for it in items if it in app]
        status[key] = "all" if len(present) == len(items) else ("none" if not present else "partial")
    for key in order:
        items = sorted(set(tx[key]))
        if status[key] == "partial":
            # a rewrite may also be present because an identical rewrite of ANOTHER transaction of the same group
            # was applied; only report when no such explanation exists
            others = [it for k in order if k != key and k[1] == key[1] and status[k] == "all" for it in tx[k]]
            missing = [it for it in items if it not in applied_by_group.get(key[1], [])]
            extra = [it for it in items if it in applied_by_group.get(key[1], []) and it not in others]
            if missing and extra:
                problems.append(f"transaction {key} applied partially: applied {extra}, missing {missing}")
            continue
        if status[key] == "all":
            continue
        rs = [r for r, _ in items]
        self_ov = any(overlaps(rs[i], rs[j]) for i in range(len(rs)) for j in range(i + 1, len(rs)))
        dup = any(k2 != key and k2[1] <= key[1] and sorted(set(tx[k2])) == items for k2 in order)
        sched_ov = any(overlaps(r, (f[2], f[3])) for r in rs for f in flat if f[0] <= key[1])
        ign = any(overlaps(r, l) for r in rs for l in map(tuple, case["ilines"]))
        if not (self_ov or dup or sched_ov or ign):
            problems.append(f"transaction {key} dropped without a stated reason: {tx[key]}")
    # (d)+(e) text: splice of the applied rewrites, or untouched source when that does not parse
    cand = py_splice(case["source"], flat)
    want = cand if py_valid(cand) else case["source"]
    if py_valid(cand) and case.get("restore") == "tag":
        want = cand + "restored\n"
    elif case.get("restore") == "break":
        want = case["source"]
    if out != want:
        problems.append(f"pass output differs from the spliced/rolled-back text: {out!r} vs {want!r}")
    return problems


# ------------------------------------------------------------------------------------------------
# Coq side


def g_range(r):
    return f"({gz(r[0])}, {gz(r[1])})"


def g_case(case, flat, cand) -> str:
    groups = glist(
        [glist([f"({g_range((s, e))}, {gtext(t)}, {gopt(tr, gz)})" for (s, e, t, tr) in g]) for g in case["groups"]])
    exp = glist([f"({gz(g)}, {gz(t)}, {gz(s)}, {gz(e)}, {gtext(n)})" for (g, t, s, e, n) in flat])
    return (f"(mkCase {glist([g_range(r) for r in case['ilines']])} {groups} {exp} "
            f"{gtext(case['source'])} {gtext(cand)})")


def write_case_file(path: Path, items) -> None:
    body = ";\n  ".join(g_case(c, f, cand) for (c, f, cand) in items)
    path.write_text(
        "From Coq Require Import List ZArith.\nImport ListNotations.\nOpen Scope Z_scope.\n"
        "Require Import Pyrefact.SchedModel.\n"
        f"Definition cases : list sched_case := [\n  {body}\n].\n"
        "Eval vm_compute in (bad_indices case_ok cases).\n")


def model_outputs(wd: Path, case, flat, cand) -> str:
    """Print what the model computes for one case (used in replays)."""
    p = wd / "replay_case.v"
    p.write_text(
        "From Coq Require Import List ZArith.\nImport ListNotations.\nOpen Scope Z_scope.\n"
        "Require Import Pyrefact.SchedModel.\n"
        f"Definition c : sched_case := {g_case(case, flat, cand)}.\n"
        "Eval vm_compute in (model_schedule c).\nEval vm_compute in (model_candidate c).\n")
    rc, out = common.coqc(p)
    return out[-4000:]


def fix_loop_cases(mods, run):
    """processing.fix / processing.chain history loop vs SchedModel.fix_loop: exhaustive over all
    functions f : 4 -> 4 on a 4-text universe (scripted whole-text replacement rule)."""
    core, processing = mods["core"], mods["processing"]
    texts = ["a0\n", "a1\n", "a2\n", "a3\n"]
    tabs = common.__dict__  # noqa
    from . import tables
    t = tables.get()
    bad, n = [], 0
    for f in itertools.product(range(4), repeat=4):
        for start in range(4):
            def rule(source, _f=f):
                i = texts.index(source)
                j = _f[i]
                if j != i:
                    yield (core.Range(0, len(source)), texts[j])
            for which, max_iter in (("fix", t["FIX_MAX_ITER"]), ("chain", t["CHAIN_MAX_ITER"])):
                with common.quiet():
                    if which == "fix":
                        got = processing.fix(rule)(texts[start])
                    else:
                        got = processing.chain([rule])(texts[start])
                # model (Python transliteration of fix_loop; the Gallina one is run in Coq below)
                cur = start
                for _ in range(max_iter):
                    cur = f[cur]
                    if cur == start:
                        break
                n += 1
                if got != texts[cur]:
                    bad.append({"f": f, "start": start, "which": which, "impl": got, "model": texts[cur]})
    return n, bad


# ------------------------------------------------------------------------------------------------


def nontrivial(case, flat) -> bool:
    nt = sum(len(g) for g in case["groups"])
    return nt >= 2 and len(flat) < nt  # at least two rewrites and at least one drop event


def check(run: common.Run):
    wd = common.workdir(PID)
    ps = common.proof_step(run, PID, wd)
    mods = common.import_impl()
    rnd = random.Random(run.seed)

    cases = []
    if run.tier == "quick":
        cases += list(exhaustive_pairs(3, [(), (1,)]))
        nrand = 2500
    else:
        cases += list(exhaustive_pairs(5, [(), (1,), (0,), (4,)]))
        nrand = 60000
    n_exh = len(cases)
    for _ in range(nrand):
        cases.append(random_case(rnd))
    for _ in range(150 if run.tier == "quick" else 2000):
        c = random_case(rnd, bad_p=0.0)
        c["restore"] = rnd.choice(["tag", "break"])
        cases.append(c)
    # corpus of minimised past disagreements first
    corpus = []
    for p in sorted((common.VERIF / "corpus" / "sched").glob("*.json")):
        corpus.append(json.loads(p.read_text()))
    cases = corpus + cases

    items, oracle_fail, hist = [], [], Counter()
    distinct = set()
    for c in cases:
        try:
            flat, out = run_impl(mods, c)
        except Exception as e:  # the scheduler itself crashed
            oracle_fail.append((c, None, None, [f"scheduler raised {type(e).__name__}: {e}"]))
            continue
        cand = py_splice(c["source"], flat)
        probs = property_oracle(c, flat, out)
        if probs:
            oracle_fail.append((c, flat, out, probs))
        items.append((c, flat, cand))
        nt = sum(len(g) for g in c["groups"])
        hist[f"rewrites={nt}"] += 1
        hist[f"scheduled={len(flat)}"] += 1
        if nontrivial(c, flat):
            distinct.add(json.dumps([c["groups"], c["ilines"]], sort_keys=True))

    # model side, sharded
    files, shards = [], []
    SH = 400
    for k in range(0, len(items), SH):
        p = wd / f"cases_{k // SH}.v"
        write_case_file(p, items[k:k + SH])
        files.append(p)
        shards.append(items[k:k + SH])
    results = common.run_case_files(files)
    disagreements = []
    for p, shard in zip(files, shards):
        rc, out = results[p]
        idx = common.parse_nat_list(out) if rc == 0 else None
        if idx is None:
            disagreements.append(({"kind": "model-evaluation-failed", "file": p.name, "log": out[-1500:]}, None))
            continue
        for i in idx:
            disagreements.append((None, shard[i]))

    n_loop, loop_bad = fix_loop_cases(mods, run)

    # ---- verdicts
    reported = set()
    for (c, flat, out, probs) in oracle_fail[:5]:
        run.violation({"kind": "property-oracle", "case": c, "impl_schedule": flat, "impl_output": out,
                       "problems": probs,
                       "explanation": "the real scheduler's result violates C10 on this synthetic rule set"}, True)
        reported.add(json.dumps(c, sort_keys=True))
    for (err, item) in disagreements[:5]:
        if err is not None:
            run.violation(dict(err, explanation="correspondence K1 could not be evaluated"), False)
            continue
        c, flat, cand = item
        if json.dumps(c, sort_keys=True) in reported:
            continue
        mo = model_outputs(wd, c, flat, cand)
        run.violation({"kind": "correspondence", "kernel": "K1 SchedModel.schedule / apply_all",
                       "case": c, "impl_schedule": flat, "impl_candidate": cand, "model": mo,
                       "explanation": "model and implementation disagree on this case; the property oracle "
                                      "found no violated clause on the explored inputs"}, False)
    for b in loop_bad[:3]:
        run.violation({"kind": "correspondence", "kernel": "K1 SchedModel.fix_loop", "case": b,
                       "explanation": "fix/chain history loop differs from the model"}, False)
    if ps.get("props") and not ps["props"]["ok"]:
        pr = ps["props"]
        run.violation({"kind": "proof", "file": pr["file"], "broken": pr.get("broken"), "log": pr["log"],
                       "explanation": "a property theorem no longer checks"}, False)

    run.coverage.update(
        evaluations=len(items) + n_loop,
        distinct_nontrivial=len(distinct),
        rule=("correspondence cases = synthetic sources of distinct one-token lines + synthetic rule groups "
              "yielding (Range, marker text[, transaction]); exhaustive: all pairs of line-aligned ranges x "
              "same/different text x 6 transaction numberings x 3 group splits x ignored-line options; plus "
              "seeded random cases (<=8 rewrites, <=8 lines, <=3 groups, invalid replacement text with p=0.08); "
              "plus all f:4->4 x 4 starts for the fix/chain loop. Non-trivial = >=2 rewrites and >=1 drop "
              "event; distinct by (groups, ignored lines)."),
        samples=[{"groups": c["groups"], "ilines": c["ilines"], "impl_schedule": f} for (c, f, _) in
                 (items[:1] + items[n_exh // 2:n_exh // 2 + 1] + items[-2:])],
        exhaustive_part=n_exh, random_part=nrand, corpus_part=len(corpus), loop_cases=n_loop,
        exhaustive=False, histogram=dict(hist),
        correspondence_disagreements=len(disagreements) + len(loop_bad),
        property_oracle_failures=len(oracle_fail),
        trusted_base=common.TRUSTED_BASE_COMMON + [
            "_do_rewrite's indentation/pass/parenthesis candidates and minimize_whitespace_line_differences are "
            "modelled as a pure splice (validated by the text comparison on every case, not proved)",
            "group_name omitted from the transaction key (function of the group number)"],
    )
    run.assumptions += [
        "the theorems are about SchedModel.v; the tie to processing.py is the exact correspondence above",
        "replacement targets given as AST nodes / None are converted by core.get_charnos (covered by C13)"]


def replay(path: str) -> int:
    data = json.loads(Path(path).read_text())
    mods = common.import_impl()
    wd = common.workdir(PID + "-replay")
    print(json.dumps({k: data[k] for k in data if k in ("kind", "explanation", "kernel")}, indent=1))
    if data.get("kind") in ("property-oracle", "correspondence") and isinstance(data.get("case"), dict) \
            and "groups" in data["case"]:
        c = data["case"]
        c["groups"] = [[tuple(x) for x in g] for g in c["groups"]]
        flat, out = run_impl(mods, c)
        print("impl schedule:", flat)
        print("impl output  :", repr(out))
        print("oracle       :", property_oracle(c, flat, out) or "all clauses hold")
        print("model        :", model_outputs(wd, c, flat, py_splice(c["source"], flat)))
    elif data.get("kind") == "proof":
        print(common.check_props(PID, wd))
    return 0
