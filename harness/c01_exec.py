"""C01 execution worker: runs closed Python programs in isolation and reports what an observer can see.

Stand-alone script (imports nothing from pyrefact or the harness).  Protocol: one JSON object per line on stdin
{"id": ..., "src": ...}; one JSON object per line on stdout {"id", "status", "exc", "out"}:
  status  "ok" (ran to completion or SystemExit(0/None)), "exit" (SystemExit with another code), "exc" (uncaught
          exception; exc = class name), "timeout", "crash" (killed by a signal), "syntax" (does not compile)
  out     the bytes written to file descriptor 1, latin-1 decoded (byte-for-byte comparison)
Every program runs in a forked child of this (single-threaded, freshly started) interpreter: own address space, stdout
redirected to a temp file, stdin = /dev/null, cwd = an empty scratch directory, CPU/alarm limit, sockets disabled,
PYTHONHASHSEED fixed by the parent's environment."""
from __future__ import annotations

import json
import os
import resource
import signal
import sys
import tempfile

TIMEOUT_S = 5
MAX_OUT = 1 << 20


def _child(src: str, out_path: str, cwd: str):
    try:
        os.chdir(cwd)
        fd = os.open(out_path, os.O_WRONLY | os.O_CREAT | os.O_TRUNC, 0o600)
        os.dup2(fd, 1)
        devnull = os.open(os.devnull, os.O_RDWR)
        os.dup2(devnull, 0)
        os.dup2(devnull, 2)
        resource.setrlimit(resource.RLIMIT_CPU, (TIMEOUT_S, TIMEOUT_S + 1))
        resource.setrlimit(resource.RLIMIT_FSIZE, (MAX_OUT, MAX_OUT))
        signal.signal(signal.SIGALRM, signal.SIG_DFL)
        signal.alarm(TIMEOUT_S + 1)
        import socket

        def _no_net(*a, **k):
            raise OSError("network disabled")
        socket.socket.connect = _no_net  # type: ignore
        socket.socket.connect_ex = _no_net  # type: ignore
        socket.create_connection = _no_net  # type: ignore
        sys.stdout = os.fdopen(1, "w", buffering=1, closefd=False)
        sys.stdin = open(os.devnull)
        sys.argv = ["prog.py"]
        code = 0
        try:
            compiled = compile(src, "prog.py", "exec")
        except (SyntaxError, ValueError):
            os._exit(97)
        g = {"__name__": "__main__", "__builtins__": __builtins__}
        try:
            exec(compiled, g)
        except SystemExit as e:
            c = e.code
            code = 0 if c in (None, 0) else 98
        except BaseException as e:  # noqa
            try:
                sys.stdout.flush()
            except Exception:  # noqa
                pass
            name = type(e).__name__.encode()[:60]
            with open(out_path + ".exc", "wb") as fh:
                fh.write(name)
            os._exit(99)
        try:
            sys.stdout.flush()
        except Exception:  # noqa
            pass
        os._exit(code)
    except BaseException:  # noqa
        os._exit(96)


def run_one(src: str, scratch: str, cwd: str | None = None) -> dict:
    """cwd: the working directory of the program; the same path for every execution of a run so that a program that
    prints os.getcwd() is still deterministic."""
    out_path = os.path.join(scratch, "out.bin")
    cwd = cwd or os.path.join(scratch, "cwd")
    for p in (out_path, out_path + ".exc"):
        if os.path.exists(p):
            os.unlink(p)
    os.makedirs(cwd, exist_ok=True)
    pid = os.fork()
    if pid == 0:
        _child(src, out_path, cwd)
        os._exit(96)
    _, st = os.waitpid(pid, 0)
    try:
        with open(out_path, "rb") as fh:
            out = fh.read(MAX_OUT).decode("latin-1")
    except OSError:
        out = ""
    exc = ""
    if os.WIFSIGNALED(st):
        sig = os.WTERMSIG(st)
        status = "timeout" if sig in (signal.SIGALRM, signal.SIGXCPU, signal.SIGKILL) else "crash"
    else:
        code = os.WEXITSTATUS(st)
        if code == 0:
            status = "ok"
        elif code == 97:
            status = "syntax"
        elif code == 98:
            status = "exit"
        elif code == 99:
            status = "exc"
            try:
                with open(out_path + ".exc", "rb") as fh:
                    exc = fh.read().decode()
            except OSError:
                exc = "?"
        else:
            status = "crash"
    return {"status": status, "exc": exc, "out": out}


def main():
    base = sys.argv[1] if len(sys.argv) > 1 else None
    scratch = tempfile.mkdtemp(prefix="c01exec-", dir=base)
    cwd = os.path.join(base, "cwd") if base else None
    try:
        for line in sys.stdin:
            line = line.strip()
            if not line:
                continue
            job = json.loads(line)
            res = run_one(job["src"], scratch, cwd)
            res["id"] = job["id"]
            sys.stdout.write(json.dumps(res) + "\n")
            sys.stdout.flush()
    finally:
        import shutil
        shutil.rmtree(scratch, ignore_errors=True)


if __name__ == "__main__":
    main()
