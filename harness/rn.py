"""Correspondence for the character loop of processing.remove_nodes (RemoveNodesModel.v, T03.4).

The harness computes the keep mask and the pass positions the way the first half of remove_nodes
does (core.get_charnos + semicolon rule + emptied-body rule); the Gallina model is the second half
(the heap-driven loop).  The real function's output text must equal the model's."""
from __future__ import annotations

import ast
import itertools
import re

from . import common
from .common import glist, gbool

STMTS = ["x", "ab", "abc", "f()", "x = 1", "del q", "pass"]
TEMPLATES = [
    ("if", "if a:\n    {0}\n    {1}\n{2}\n", 3),
    ("if-else", "if a:\n    {0}\nelse:\n    {1}\n{2}\n", 3),
    ("for-else", "for i in r:\n    {0}\nelse:\n    {1}\n", 2),
    ("semicolon", "def f():\n    {0}; {1}\n    {2}\n", 3),
    ("nested", "if a:\n    if b:\n        {0}\n    {1}\n", 2),
    ("try", "try:\n    {0}\nfinally:\n    {1}\n", 2),
    ("while-eof", "while a:\n    {0}", 1),
    ("class", "class K:\n    {0}\n    {1}\n", 2),
]


def cases():
    """(template name, source, indices of the placeholder statements to remove)"""
    out = []
    for name, tpl, k in TEMPLATES:
        pool = STMTS if k < 3 else STMTS[:5]
        for stmts in itertools.product(pool, repeat=k):
            src = tpl.format(*stmts)
            for r in range(1, k + 1):
                for rem in itertools.combinations(range(k), r):
                    out.append((name, src, stmts, rem))
    return out


def placeholder_nodes(tree: ast.Module, src: str, stmts) -> list[ast.AST]:
    """the statement nodes that came from the placeholders, in template order"""
    found = []
    leaf = [n for n in ast.walk(tree) if isinstance(n, ast.stmt) and not hasattr(n, "body")]
    leaf.sort(key=lambda n: (n.lineno, n.col_offset))
    it = iter(leaf)
    for s in stmts:
        for n in it:
            if ast.get_source_segment(src, n) == s:
                found.append(n)
                break
    return found


def observe(mods, src: str, stmts, rem) -> dict | None:
    core, processing = mods["core"], mods["processing"]
    core.parse.cache_clear()
    root = core.parse(src)
    ph = placeholder_nodes(root, src, stmts)
    if len(ph) != len(stmts):
        return None
    nodes = [ph[i] for i in rem]
    # first half of remove_nodes, recomputed (keep mask, pass positions)
    keep = [True] * len(src)
    for node in nodes:
        start, end = core.get_charnos(node, src)
        m = re.findall(r"^[ \t]*;[ \t]*", src[end:])
        if m:
            end += len(m[0])
        keep[start:end] = [False] * (end - start)
    passes = []
    for node in core.walk(root, ast.AST):
        if isinstance(node, ast.Module):
            continue
        for bodytype in ("body", "finalbody", "orelse"):
            body = getattr(node, bodytype, [])
            if body and isinstance(body, list) and all(ch in nodes for ch in body) and node not in nodes:
                passes.append(core.get_charnos(body[0], src)[0])
    try:
        with common.quiet():
            out = processing.remove_nodes(src, nodes, root)
        err = None
    except Exception as e:  # noqa
        out, err = None, f"{type(e).__name__}: {e}"
    return {"keep": keep, "passes": passes, "out": out, "error": err}


def to_coq(src: str, obs: dict) -> str:
    from .drv import gnl
    exp = [ord(c) for c in (obs["out"] if obs["out"] is not None else "\x00")]
    return (f"(mkRn {gnl([ord(c) for c in src])} {glist(obs['keep'], gbool)} {gnl(obs['passes'])} {gnl(exp)})")


def valid(text: str) -> bool:
    try:
        ast.parse(text)
        return True
    except (SyntaxError, ValueError):
        return False
