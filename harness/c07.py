"""C07 -- Safe mode never removes or renames a module's public surface (kernel K10)."""
from __future__ import annotations

import ast
import itertools
import json
import random
import symtable
import types
from collections import Counter
from pathlib import Path

from . import c07_env, common, k10
from .common import glist
from .k10 import gname, gnames, gpairs

PID = "C07"
CORPUS = common.VERIF / "corpus" / "surface"


# ---------------------------------------------------------------------------------------------
# known-finding signatures (site + structural predicate), keyed by `sig=`


def _sig_underscore(case) -> bool:
    """every lost definition is named `_` (or is a member of a class named `_`)"""
    return all(n == "_" for n in case["lost_top"]) and all(c == "_" or f == "_" for c, f in case["lost_members"]) \
        and bool(case["lost_top"] or case["lost_members"])


SIGS = {"underscore_name": _sig_underscore}
UNDERSCORE_SITES = {"fixes.delete_pointless_statements", "fixes.undefine_unused_variables"}


def match_finding(findings, site, case):
    for f in findings:
        if f.kind != "finding":
            continue
        sites = set(f.fields.get("site", "").split(","))
        pred = SIGS.get(f.fields.get("sig", ""))
        if site in sites and pred and pred(case):
            return f
    return None


# ---------------------------------------------------------------------------------------------
# property oracle and bisecting the pipeline


class _Stop(Exception):
    pass


def capture_preserve(mods, source, P0=()):
    """the preserve set format_code(safe=True) hands to the first rule that receives it"""
    main = mods["main"]
    seen = {}
    orig = main._multi_run_fixes

    def spy(src, preserve):
        seen["preserve"] = set(preserve)
        raise _Stop()

    main._multi_run_fixes = spy
    try:
        mods["core"].parse.cache_clear()
        with common.quiet():
            main.format_code(source, safe=True, preserve=frozenset(P0))
    except _Stop:
        pass
    finally:
        main._multi_run_fixes = orig
    return seen.get("preserve")


def first_breaking_stage(mods, source, **kw):
    """bisect the pipeline: wrap every rule function referenced by pyrefact.main and report the first one
    whose output loses a surface name of the ORIGINAL input that its own input still had"""
    main = mods["main"]
    t0, m0 = k10.surface(source)
    found = []
    patched = []
    chained = {"deinterpolate_logging_args", "invalid_escape_sequence"}   # handed to processing.chain, which
    for modname in ("fixes", "object_oriented", "abstractions", "symbolic_math", "performance",   # inspects them
                    "performance_numpy", "performance_pandas"):
        mod = getattr(main, modname, None)
        if mod is None:
            continue
        for attr in dir(mod):
            fn = getattr(mod, attr)
            if attr.startswith("_") or attr in chained or not isinstance(fn, types.FunctionType) \
                    or getattr(fn, "__module__", "") != mod.__name__:
                continue

            def make(fn=fn, name=f"{modname}.{attr}"):
                def wrapped(src, *a, **k):
                    out = fn(src, *a, **k)
                    if not found and isinstance(src, str) and isinstance(out, str):
                        try:
                            tb, mb = k10.bound_after(src)
                            ta, ma = k10.bound_after(out)
                        except SyntaxError:
                            return out
                        if ((t0 & tb) - ta) or ((m0 & mb) - ma):
                            found.append(name)
                    return out
                return wrapped
            patched.append((mod, attr, fn))
            setattr(mod, attr, make())
    try:
        mods["core"].parse.cache_clear()
        with common.quiet():
            main.format_code(source, **kw)
    except Exception as e:  # noqa
        common.log(f"note: bisection run raised {type(e).__name__}: {e}")
    finally:
        for mod, attr, fn in patched:
            setattr(mod, attr, fn)
    return found[0] if found else None


def oracle_case(mods, source, **kw):
    """run format_code and apply the property's oracle; returns None or a failure record"""
    try:
        out = k10.format_code(mods, source, **kw)
    except Exception as e:  # noqa  (C04's business, not a surface loss)
        return None
    try:
        lt, lm = k10.lost(source, out)
    except SyntaxError:
        return None
    if not lt and not lm:
        return None
    return {"source": source, "output": out, "lost_top": lt, "lost_members": [list(p) for p in lm],
            "options": {k: (sorted(v) if isinstance(v, (set, frozenset)) else v) for k, v in kw.items()}}


def triage(mods, findings, fail, **kw):
    site = first_breaking_stage(mods, fail["source"], **kw)
    fail["site"] = site
    return match_finding(findings, site, fail)


# ---------------------------------------------------------------------------------------------
# reference semantics vs CPython


def all_targets():
    atoms = ["a", "b", "hold.attr", "tab['k']"]
    flat = list(atoms)
    seqs = []
    for k in (1, 2):
        for combo in itertools.product(atoms + ["*a", "*b"], repeat=k):
            if sum(c.startswith("*") for c in combo) > 1:
                continue
            inner = ", ".join(combo) + ("," if k == 1 else "")
            seqs += [f"({inner})", f"[{inner}]"]
    nested = [f"({s}, c)" for s in seqs[:40]] + [f"[c, {s}]" for s in seqs[:40]] + [f"(*{s},)" for s in seqs[:10]]
    return flat + seqs + nested


def cpython_bound(text: str):
    """names CPython's symbol table marks as assigned by `text = value`"""
    st = symtable.symtable(f"{text} = value\n", "<t>", "exec")
    return sorted(s.get_name() for s in st.get_symbols() if s.is_assigned())


def exec_surface(source: str):
    """execute the module; names actually bound at top level / in class bodies"""
    env = {"__name__": "surface_probe"}
    with common.quiet():
        exec(compile(source, "<m>", "exec"), env)
    top = {k for k in env if k not in ("__name__", "__builtins__", "__annotations__")}
    mem = set()
    for k, v in env.items():
        if isinstance(v, type) and v.__module__ == "surface_probe" and v.__qualname__ == k:
            mem |= {(k, a) for a in vars(v)
                    if a not in ("__module__", "__dict__", "__weakref__", "__doc__", "__qualname__",
                                 "__firstlineno__", "__static_attributes__", "__annotations__",
                                 "__slotnames__", "__hash__")}
    return top, mem


NOT_SURFACE = {"loop_i", "os"}   # bound by import / for statements


# ---------------------------------------------------------------------------------------------


def write_cases(wd, name, ctype, okfn, bodies, per=400, header=None):
    files, shards = [], []
    for k in range(0, len(bodies), per):
        shard = bodies[k:k + per]
        p = wd / f"{name}_{k // per}.v"
        p.write_text((header or k10.HEADER) + f"Definition cases : list ({ctype}) := [\n " +
                     ";\n ".join(b for b, _ in shard) + f"\n].\nEval vm_compute in (bad_idx {okfn} cases).\n")
        files.append(p)
        shards.append([info for _, info in shard])
    return files, shards


def check(run: common.Run):
    wd = common.workdir(PID)
    ps = common.proof_step(run, PID, wd)
    mods = common.import_impl()
    rnd = random.Random(run.seed)
    findings = common.load_findings(PID)
    hist = Counter()
    distinct = set()
    files, shards = [], []

    pool = k10.single_statements()
    quick = run.tier == "quick"

    # ---- (a) targets: _unpack_ast_target vs unpack, CPython symtable vs bound  (exhaustive, seed-independent)
    tcases = []
    for text in all_targets():
        node = ast.parse(f"{text} = value\n").body[0].targets[0]
        impl = sorted(n.id for n in mods["parsing"]._unpack_ast_target(node))
        py = [n for n in cpython_bound(text)]
        tcases.append((f"({k10.t_target(node)}, {gnames(impl)}, {gnames(py)})", ("target", text, impl, py)))
        hist["target"] += 1
        if len(impl) > 1:
            distinct.add("target:" + text)
    f, s = write_cases(wd, "targets", "target * list name * list name", "target_case_ok", tcases)
    files += f; shards += s

    # ---- (b) modules: exhaustive singles and ordered pairs of a reduced pool, then seeded random ones
    modules = list(pool)
    reduced = pool[::6]
    pairs = [a + b for a, b in itertools.permutations(reduced, 2)]
    modules += pairs[:: (5 if quick else 1)]
    n_exh = len(modules)
    nrand = 80 if quick else 600
    modules += [k10.random_module(rnd, pool) for _ in range(nrand)]
    # a module that defines the same class name twice is outside the correspondence domain: the rules key
    # class members by (class name, member name) -- such modules stay in the end-to-end sweep
    modules = [m for m in dict.fromkeys(modules) if _parses(m) and not _redefines_class(m)]

    # surface reference vs CPython execution; safe_preserve vs the implementation's set
    scases, pcases, capture_errors = [], [], []
    for src in modules:
        try:
            top, mem = exec_surface(src)
            top -= NOT_SURFACE
            scases.append((f"({k10.t_module(src)}, {gnames(top)}, {gpairs(mem)})", ("surface", src, sorted(top), sorted(mem))))
        except Exception as e:  # noqa -- not executable (duplicate/self-referential names): skip the exec check
            hist["surface:not-executable"] += 1
        for P0 in ([], ["extraName"])[: 2 if len(scases) % 5 == 0 else 1]:
            impl = capture_preserve(mods, src, P0)
            if impl is None:
                hist["preserve:not-captured"] += 1
                if src.strip():     # a valid non-empty module always reaches the safe block and the first pass
                    capture_errors.append(("preserve-not-captured", src, P0))
                continue
            pcases.append((f"({gnames(P0)}, {k10.t_module(src)}, {gnames(impl)})", ("preserve", src, P0, sorted(impl))))
            hist["preserve"] += 1
            if len(impl) > 2:
                distinct.add("preserve:" + src)
    f, s = write_cases(wd, "surface", "module * list name * list (name * name)", "surface_case_ok", scases)
    files += f; shards += s
    f, s = write_cases(wd, "preserve", "list name * module * list name", "preserve_case_ok", pcases)
    files += f; shards += s

    # ---- (c) the seven rules: refinement on every module x preserve set, exact on the trigger families
    rcases, rule_errors = [], []
    for idx, src in enumerate(modules):
        exhaustive_part = idx < n_exh
        psets = k10.preserve_sets(src, None if exhaustive_part else rnd, single=idx < len(pool), quick=quick)
        for P in psets:
            for rule in k10.RULES:
                if rule in ("RPointless", "RSelfCls") and P != psets[0]:
                    continue        # no preserve parameter
                try:
                    out = k10.run_rule(mods, rule, src, P)
                except Exception as e:  # noqa
                    hist[f"{rule}:raised:{type(e).__name__}"] += 1
                    if exhaustive_part:      # the model's rules are total: a raise on the fixed domain is a
                        rule_errors.append(("rule-raised", rule, sorted(P), src, f"{type(e).__name__}: {e}"[:200]))
                    continue                 # disagreement (seed-independent, quiet on the unchanged tree)
                if not _parses(out):
                    hist[f"{rule}:invalid-output"] += 1
                    if exhaustive_part:
                        rule_errors.append(("rule-invalid-output", rule, sorted(P), src, out[:300]))
                    continue
                changed = out != src
                hist[f"{rule}:{'changed' if changed else 'same'}"] += 1
                if changed:
                    distinct.add(f"{rule}:{sorted(P)}:{src}")
                rcases.append((k10.rule_case(rule, P, src, out, False), ("rule", rule, sorted(P), src, out, False)))
    for rule, src, P in exact_family():
        exact = not rule.endswith("*")
        rule = rule.rstrip("*")
        try:
            out = k10.run_rule(mods, rule, src, P)
        except Exception as e:  # noqa
            hist[f"{rule}:raised:{type(e).__name__}"] += 1
            rule_errors.append(("rule-raised", rule, sorted(P), src, f"{type(e).__name__}: {e}"[:200]))
            continue
        hist[f"{rule}:exact"] += 1
        if out != src:
            distinct.add(f"{rule}:{sorted(P)}:{src}")
        rcases.append((k10.rule_case(rule, P, src, out, exact), ("rule", rule, sorted(P), src, out, exact)))
    f, s = write_cases(wd, "rules", "rule_case", "rule_case_ok", rcases, per=300)
    files += f; shards += s

    # ---- (c') round 5: re-binding family -- final environment (SurfaceEnvModel) and the execution oracle
    env = env_family_step(mods, findings, wd, quick, hist, distinct)
    files += env["files"]; shards += env["shards"]

    results = common.run_case_files(files)
    disagreements = list(capture_errors[:3]) + list(rule_errors[:3])
    for p, shard in zip(files, shards):
        rc, out = results[p]
        idx = common.parse_nat_list(out) if rc == 0 else None
        if idx is None:
            disagreements.append(("eval-failed", p.name, out[-1500:]))
            continue
        for i in idx:
            disagreements.append(shard[i])

    # ---- (d) deterministic sweep: the property oracle end to end under safe=True (seed-independent)
    sweep = list(pool) + pairs[:: (5 if quick else 1)]
    sweep += UNDERSCORE_FAMILY
    sweep += hunt_family()
    corpus = load_corpus()
    failures, suppressed = list(env["failures"]), Counter(env["suppressed"])
    n_sweep = env["evaluations"]
    for src in dict.fromkeys(sweep):
        if not _parses(src):
            continue
        n_sweep += 1
        fail = oracle_case(mods, src, safe=True)
        if fail:
            fnd = triage(mods, findings, fail, safe=True)
            if fnd:
                suppressed[fnd.id] += 1
            else:
                failures.append(fail)
    for c in corpus:
        if c.get("mode") != "safe":
            continue
        n_sweep += 1
        fail = oracle_case(mods, c["source"], safe=True)
        if not fail and c.get("oracle") == "exec":          # round 5 witnesses: execution oracle, pipeline + rules
            Pc = capture_preserve(mods, c["source"]) or set(k10.keys_of(c["source"]))
            fail = exec_fail(mods, [], "corpus:" + c["id"], c["source"], Pc, ENV_RULES)
        if fail:
            fail["corpus"] = c["id"]
            failures.append(fail)

    # ---- failing-input search: only after a disagreement / broken proof, seeded
    searched = 0
    if (disagreements or (ps.get("props") and not ps["props"]["ok"])) and not failures:
        cands = [d[3] for d in disagreements if d and d[0] == "rule"] + \
                [d[1] for d in disagreements if d and d[0] in ("preserve", "surface", "env")] + \
                [d[3] for d in disagreements if d and d[0] == "env-rule"]
        cands += [k10.random_module(rnd, pool) for _ in range(200 if quick else 2000)]
        for src in dict.fromkeys(cands):
            if not _parses(src):
                continue
            searched += 1
            fail = oracle_case(mods, src, safe=True) or exec_fail(mods, findings, "search", src)
            if fail and fail.get("oracle") == "exec":
                failures.append(fail)
            elif fail and not triage(mods, findings, fail, safe=True):
                failures.append(fail)
                if len(failures) >= 3:
                    break

    # ---- known findings: replay the witnesses
    for fnd in findings:
        if fnd.kind != "finding":
            continue
        hits = []
        for w in UNDERSCORE_FAMILY if fnd.fields.get("sig") == "underscore_name" else []:
            fail = oracle_case(mods, w, safe=True)
            if fail and match_finding([fnd], first_breaking_stage(mods, w, safe=True), fail):
                hits.append(fail)
        if hits:
            run.known_finding(fnd.id, f"{fnd.text} [{len(hits)} witnesses reproduce, e.g. "
                                      f"{hits[0]['source']!r} -> {hits[0]['output']!r}; "
                                      f"{sum(suppressed.values())} sweep cases suppressed by this signature]")
        else:
            common.log(f"note: known finding {fnd.id} no longer reproduces")

    # ---- verdicts
    for fail in failures[:5]:
        run.violation({"kind": "property-oracle",
                       "explanation": "a name of the input's public surface is no longer defined after "
                                      "format_code(safe=True) and no listed finding matches (site + predicate)",
                       **fail}, True)
    if not failures:
        for d in disagreements[:5]:
            run.violation({"kind": "correspondence", "kernel": "K10 SurfaceModel", "detail": d,
                           "explanation": "model and implementation disagree (target unpacking / safe preserve set / "
                                          "a rule touched a definition its modelled guard protects, or left an "
                                          "eligible one in an exact family); the safe-mode oracle found no lost "
                                          f"surface name on {searched} searched inputs"}, False)
    if ps.get("props") and not ps["props"]["ok"]:
        pr = ps["props"]
        run.violation({"kind": "proof", "file": pr["file"], "broken": pr.get("broken"), "log": pr["log"],
                       "explanation": "a property theorem no longer checks"}, bool(failures))

    run.coverage.update(
        evaluations=len(tcases) + len(scases) + len(pcases) + len(rcases) + n_sweep,
        distinct_nontrivial=len(distinct),
        rule=("targets: ALL target shapes over {name, attribute, subscript, starred} up to nesting 2 (exhaustive): "
              "_unpack_ast_target = unpack, CPython symtable = bound. modules: every pool statement (all target "
              "forms, unused/unconventional/duplicate/static definitions, every 1-3 subset of 11 class-member "
              "forms) + ordered pairs of a reduced pool (exhaustive part) + seeded random 2-5 statement modules: "
              "exec()-observed bindings = top_surface/member_surface, captured preserve set = safe_preserve. rules: "
              "each real rule x each module x preserve subsets (all subsets when <= 4 keys): protected "
              "definitions must survive; exact families additionally require every eligible unprotected one to "
              "go. Non-trivial = the rule changed the source / preserve set > 2 names / multi-name target; "
              "distinct by (rule, preserve, source). Round 5: re-binding family (14 statement kinds binding / "
              "re-declaring / unbinding one name: pairs, triples through del / bare annotation / except-as, module "
              "and class scope): SurfaceEnvModel.run = names exec() leaves bound (None = NameError); outputs of "
              "format_code(safe=True) and of 5 rules under the safe preserve set as env_rule_case (output imports, "
              "preserved names bound at the end stay bound) and under the execution oracle (same kind of object)."),
        samples=[tcases[7][1][1], modules[3], modules[len(pool) + 5], modules[-1],
                 {"rule": rcases[11][1][1], "preserve": rcases[11][1][2], "source": rcases[11][1][3]}],
        exhaustive=False, exhaustive_part=n_exh, random_part=nrand, histogram=dict(hist),
        sweep={"cases": n_sweep, "suppressed_by_finding": dict(suppressed), "unexplained": len(failures),
               "corpus": len(corpus), "search_inputs": searched},
        correspondence_disagreements=len(disagreements), property_oracle_failures=len(failures),
        unmodelled=["the usage analyses (_iter_unused_names, name_usages), naming convention (style.*), "
                    "abstractions.hash_node and core.has_side_effect are an arbitrary oracle in the theorems",
                    "rules outside the seven (e.g. fix_unconventional_class_definitions, abstractions.*) only add "
                    "definitions; they are covered by the end-to-end sweep, not by a theorem",
                    "delete_unreachable_code / remove_dead_ifs on top-level statements after a blocking statement"],
        trusted_base=common.TRUSTED_BASE_COMMON + [
            "harness/k10.py: ast -> SurfaceModel term converter and the AST surface oracle",
            "bound/top_surface/member_surface are definitions (validated against symtable and exec() on every run)",
            "SurfaceEnvModel.run (final environment of binding events) is a definition, validated against exec() "
            "on the re-binding family; harness/c07_env.py: statement -> event converter and the execution oracle",
            "ASCII identifiers only"],
    )
    run.assumptions += [
        "the theorems quantify over every oracle (usage analysis, naming, replacement) but only over the seven "
        "modelled rules; other pipeline stages are observed by the deterministic safe-mode sweep only",
        "surface = syntactic reading of the property (direct children of the module / of a top-level class); "
        "round 5: a public name counts while the original still has it bound at the END of its body, and the kind of "
        "object is compared where the last statement binding it is a def / class / assignment",
        "T07.6-T07.9 speak about straight-line binding events; which statements a rule removes is an oracle (keep)"]


ENV_RULES = ["RUndefine", "RPointless", "RDeleteUnused", "RAlign", "RDuplicate"]
EXEC_EXPLANATION = ("execution oracle: the original imports cleanly, but after the safe-mode run the module no "
                    "longer imports, or a public name the original has at the end of its body (last reaching "
                    "binding) is undefined / an object of another kind; no listed finding matches")


RULE_SITES = {"RUndefine": "fixes.undefine_unused_variables", "RPointless": "fixes.delete_pointless_statements",
              "RDeleteUnused": "fixes.delete_unused_functions_and_classes", "RDuplicate": "fixes.remove_duplicate_functions",
              "RAlign": "fixes.align_variable_names_with_convention"}


def exec_fail(mods, findings, tag, src, P=None, rules=(), outs=None):
    """execution oracle on format_code(safe=True) and on single rules under the safe preserve set P;
    None or the first failure (site attached; `suppressed_by` set when a listed finding explains it).
    `outs` = already computed [(how, output)] in the same order."""
    if outs is None:
        outs = []
        for how in ["format_code"] + list(rules):
            try:
                outs.append((how, k10.format_code(mods, src, safe=True) if how == "format_code"
                             else k10.run_rule(mods, how, src, P)))
            except Exception:  # noqa
                pass
    for how, out in outs:
        label = "format_code(safe=True)" if how == "format_code" else how
        fail = c07_env.exec_oracle(mods, tag, src, lambda s, out=out: out, label)
        if not fail:
            continue
        if how == "format_code":
            fail["site"] = c07_env.bisect_exec(mods, src, safe=True)
            fail["options"] = {"safe": True}
        else:
            fail["site"] = RULE_SITES.get(how, how)
            fail["options"] = {"rule": how, "preserve": sorted(P)}
        fail["explanation"] = EXEC_EXPLANATION
        fnd = match_finding(findings, fail["site"], fail)
        if fnd:
            fail["suppressed_by"] = fnd.id
        return fail
    return None


def env_family_step(mods, findings, wd, quick, hist, distinct):
    """round 5: the re-binding family.  (1) reference semantics [run] vs exec(); (2) every rule output and the
    pipeline output as an env_rule_case (preserved names bound at the end of the input are bound at the end of
    the output, and the output imports); (3) the execution oracle itself (failing inputs)."""
    fam = c07_env.WITNESSES + c07_env.rebind_family(quick)
    ecases, rcases, failures, suppressed = {}, {}, [], Counter()
    n_eval = 0
    for tag, src in fam:
        in_class = "Holder" if tag.startswith("class-") else None
        ec = c07_env.env_case(src, in_class)
        if ec:
            ecases.setdefault(ec[0], ec)
            hist["env:" + ("nameerror" if ec[1][3] is None else "imports")] += 1
        else:
            hist["env:unmodelled-or-other-error"] += 1
        if c07_env.exec_env(src)[0] != "ok":
            continue                                     # the original must import cleanly for the case to count
        P = capture_preserve(mods, src)
        if P is None:
            P = set(k10.keys_of(src))
        outs = []
        try:
            outs.append(("format_code", k10.format_code(mods, src, safe=True)))
        except Exception:  # noqa
            hist["env:format_code-raised"] += 1
        for rule in ENV_RULES:
            try:
                outs.append((rule, k10.run_rule(mods, rule, src, P)))
            except Exception as e:  # noqa
                hist[f"env:{rule}:raised"] += 1
        for how, out in outs:
            n_eval += 1
            if out == src or not _parses(out):
                continue
            hist[f"env:{how}:changed"] += 1
            distinct.add(f"env:{how}:{src}")
            rc = c07_env.env_rule_case(P, src, out, how, in_class)
            if rc:
                rcases.setdefault(rc[0], rc)
        fail = exec_fail(mods, findings, tag, src, P, ENV_RULES, outs)
        if fail:
            if fail.get("suppressed_by"):
                suppressed[fail["suppressed_by"]] += 1
            else:
                failures.append(fail)
    f1, s1 = write_cases(wd, "env", "body * option (list name)", "env_case_ok", list(ecases.values()),
                         header=c07_env.HEADER)
    f2, s2 = write_cases(wd, "envrule", "list name * body * body", "env_rule_case_ok", list(rcases.values()),
                         header=c07_env.HEADER)
    hist["env:cases"] = len(ecases)
    hist["env:rule-cases"] = len(rcases)
    return {"files": f1 + f2, "shards": s1 + s2, "failures": failures, "suppressed": suppressed,
            "evaluations": n_eval + len(ecases) + len(rcases)}


def _redefines_class(src: str) -> bool:
    cls = [n.name for n in ast.parse(src).body if isinstance(n, ast.ClassDef)]
    return len(cls) != len(set(cls))


def _parses(src: str) -> bool:
    try:
        ast.parse(src)
        return True
    except SyntaxError:
        return False


UNDERSCORE_FAMILY = [
    "_ = 5\n",
    "def _():\n    return 1\n",
    "class _:\n    pass\n",
    "class B:\n    _ = 5\n    def _(self):\n        return 1\n",
    "_, keep = 1, 2\nprint(keep)\n",
    "x = 3\n_ = x\n",
]


def exact_family():
    """(rule, source, preserve): every definition is eligible for the rule, so what the guards do not
    protect must be gone.  Seed-independent."""
    out = []
    # delete_unused_functions_and_classes: unused functions, classes, methods
    src = ("def unusedFunc():\n    return 1\nasync def unusedAsync():\n    return 1\n"
           "class UnusedClass:\n    def meth(self):\n        return 1\n"
           "class Kept:\n    def meth(self):\n        return 1\n    def other(self):\n        return 2\n"
           "    class Nested:\n        pass\n"
           "class Based(dict):\n    def meth(self):\n        return 1\n")
    keys = ["unusedFunc", "unusedAsync", "UnusedClass", "Kept", "Based", "meth", "other", "Kept.meth", "Nested",
            "Kept.other", "Based.meth"]
    for k in range(0, 4):
        for P in itertools.combinations(keys, k):
            if k == 3 and hash_small(P) % 4:
                continue
            out.append(("RDeleteUnused", src, list(P)))
    # undefine_unused_variables: unused variables in every target form
    for form, k in k10.TARGET_FORMS[:8]:
        names = k10.VAR_NAMES[:k]
        s = form.format(*names)
        for j in range(k + 1):
            for P in itertools.combinations(names, j):
                out.append(("RUndefine", s, list(P)))
    # align_variable_names_with_convention: unconventional names everywhere
    src = ("someVar = 1\naB, *cD = 1, 2, 3\ndef camelFunc():\n    return 1\nclass lower_klass:\n    pass\n"
           "class Konv:\n    myAttr = 3\n    def myMethod(self):\n        return 1\n"
           "class Based(dict):\n    baseAttr = 3\n    def baseMethod(self):\n        return 1\n")
    keys = ["someVar", "aB", "cD", "camelFunc", "lower_klass", "Konv", "myAttr", "myMethod", "Konv.myMethod", "Based"]
    for k in range(0, 3):
        for P in itertools.combinations(keys, k):
            out.append(("RAlign", src, list(P)))
    out.append(("RAlign", src, keys))
    # remove_duplicate_functions: NOT exact -- abstractions.hash_node(node, preserve) hashes preserved names
    # literally, so a preserved function never shares a group with others and the first of each group stays
    src = ("def dupA():\n    return 1 + 2\ndef dupB():\n    return 1 + 2\ndef dupC():\n    return 1 + 2\n"
           "async def dupD():\n    return 1 + 2\n")
    for P in (["dupA"], ["dupB"], ["dupA", "dupC"], ["dupC"], ["dupA", "dupB", "dupC"]):
        out.append(("RDuplicate*", src, P))
    # move_staticmethod_static_scope: every guard key form, also a dotted key of ANOTHER class (its last
    # component protects the method name in every class: attributes_to_preserve)
    src = ("x = 1\nclass Holder:\n    @staticmethod\n    def statFn():\n        return 1\n"
           "    @staticmethod\n    def otherStat():\n        return 2\nprint(Holder.statFn(), Holder.otherStat())\n")
    for P in ([], ["Holder"], ["statFn"], ["Holder.statFn"], ["Elsewhere.statFn"], ["Elsewhere.otherStat", "statFn"],
              ["Holder.otherStat"], ["x"], ["Elsewhere.Holder"]):
        out.append(("RMoveStatic", src, P))
    # delete_unreachable_code: members of a class body after a blocking statement (hunt C07-0)
    for blocker in ("raise ValueError", "assert False", "while True:\n        pass"):
        src = (f"class A:\n    {blocker}\n    afterVar = 2\n    def after_func(self):\n        return self\n"
               "    class AfterClass:\n        pass\n    annAfter: int = 3\n")
        keys = ["afterVar", "after_func", "AfterClass", "annAfter", "A.afterVar", "A.after_func", "A.AfterClass", "A"]
        for k in range(0, 3):
            for P in itertools.combinations(keys, k):
                out.append(("RUnreachable", src, list(P)))
        out.append(("RUnreachable", src, keys))
    # ... and the module body is NOT a scope of delete_unreachable_code (seed C07-c): nothing at top level goes
    for blocker in ("raise ValueError", "assert False", "while True:\n    pass"):
        out.append(("RUnreachable*", f"before = 1\n{blocker}\nafterVar = 2\ndef after_func():\n    return 1\n"
                                     "class AfterClass:\n    pass\n", []))
    # delete_pointless_statements: `_`
    for s in UNDERSCORE_FAMILY[:4]:
        out.append(("RPointless", s, []))
    return out


def hunt_family():
    """seed-independent families from the round-4 hunt: scope x blocking statement x following definitions;
    handle-opening assignments (x same-line statements x following definitions); commented-out code x line ending"""
    out = []
    blockers = ["raise ValueError\n", "assert False\n", "assert 0\n", "while True:\n    pass\n",
                "for i in [1]:\n    raise ValueError\n", "import sys\nsys.exit(1)\n"]
    followers = ["afterVar = 2\n", "def after_func(self=None):\n    return self\n", "class AfterClass:\n    pass\n",
                 "annAfter: int = 3\n"]
    for b in blockers:
        for k in (1, 2, 4):
            body = "before = 1\n" + b + "".join(followers[:k])
            out.append(body)                                                     # module scope
            out.append("class A:\n" + "".join("    " + l + "\n" for l in body.splitlines()))   # class scope
    handles = ["open('f')", "open('f', 'w')"]
    for h in handles:
        for same_line in ("", "; c = 2", "; c = 2; d = 3"):
            for k in (0, 1, 3):
                body = f"s = {h}{same_line}\n" + "".join(followers[:k]) + ("y = None\n" if k == 0 else "")
                out.append(body)
                out.append("class A:\n" + "".join("    " + l + "\n" for l in body.splitlines()))
        out.append(f"s = {h}\ndata = s.read()\ns.close()\nlater = 1\ndef g():\n    return 1\n")
    for eol in ("\n", "\r", "\r\n"):
        for comment in ("# a = 1", "# import os", "# def f(): pass"):
            out.append(f"x = 1{eol}{comment}{eol}z = 3{eol}")
            out.append(f"{comment}{eol}z = 3{eol}def f():{eol}    return 1{eol}")
            out.append(f"class A:{eol}    {comment}{eol}    z = 3{eol}    y = 2{eol}")
            out.append(f"class A:\n    {comment}{eol}    z = 3\n    y = 2\n")
    return out


def hash_small(t) -> int:
    return sum(sum(map(ord, s)) for s in t)


def load_corpus():
    res = []
    if CORPUS.exists():
        for p in sorted(CORPUS.glob("*.json")):
            res.append(json.loads(p.read_text()))
    return res


def replay(path: str) -> int:
    data = json.loads(Path(path).read_text())
    mods = common.import_impl()
    print(json.dumps({k: data[k] for k in data if k in ("kind", "explanation", "site", "lost_top", "lost_members",
                                                        "detail")}, indent=1, default=str))
    if data.get("kind") == "property-oracle" and data.get("oracle") == "exec":
        print("source:\n" + data["source"] + "recorded output:\n" + data["output"])
        P = data.get("options", {}).get("preserve")
        rule = data.get("options", {}).get("rule")
        now = exec_fail(mods, [], data.get("family", "replay"), data["source"], P, [rule] if rule else ())
        print("now:", json.dumps({k: now[k] for k in ("how", "output", "import_fails", "lost_top", "lost_members",
                                                      "changed_kind", "site")}, indent=1) if now else "surface kept")
    elif data.get("kind") == "property-oracle":
        now = oracle_case(mods, data["source"], safe=True)
        print("source:\n" + data["source"])
        print("now:", json.dumps(now, indent=1) if now else "surface kept")
        if now:
            print("first breaking stage:", first_breaking_stage(mods, data["source"], safe=True))
    elif data.get("kind") == "correspondence" and data.get("detail") and data["detail"][0] == "rule":
        _, rule, P, src, out, exact = data["detail"]
        print("source:\n" + src)
        print(f"{rule} preserve={P} ->\n" + k10.run_rule(mods, rule, src, P))
    elif data.get("kind") == "proof":
        print(common.check_props(PID, common.workdir(PID + "-replay")))
    return 0
