"""C15 -- isolated evaluation.  Every evaluation of the real code (core.literal_value executes
builtins; rules run it) and of CPython's eval/exec happens in a forked child with
 * an interval timer per job (a job that does not return in time is recorded as "hang"),
 * a parent-side watchdog that kills a child stuck inside C code,
 * stdout/stderr captured per job (so that an effect at refactoring time is OBSERVED),
 * stdin = /dev/null, cwd = a scratch directory, an address-space limit.
The parent never evaluates anything itself."""
from __future__ import annotations

import json
import os
import select
import signal
import sys
import time

JOB_TIMEOUT = 2.0        # seconds per job inside the child
WATCHDOG = 12.0          # seconds without any output before the parent kills the child


class _Timeout(BaseException):
    """Deliberately not an Exception: `except Exception` in the code under test must not swallow it."""


def _alarm(signum, frame):
    raise _Timeout()


def _child(jobs, fn, wfd, scratch):
    import io
    import resource
    import warnings

    warnings.simplefilter("ignore")
    try:
        resource.setrlimit(resource.RLIMIT_AS, (6 << 30, 6 << 30))
    except (ValueError, OSError):
        pass
    os.makedirs(scratch, exist_ok=True)
    os.chdir(scratch)
    devnull = os.open(os.devnull, os.O_RDWR)
    os.dup2(devnull, 0)
    os.dup2(devnull, 1)
    os.dup2(devnull, 2)
    sys.stdin = open(os.devnull)
    signal.signal(signal.SIGALRM, _alarm)
    w = os.fdopen(wfd, "w", buffering=1)
    for idx, job in jobs:
        w.write(f"S {idx}\n")
        w.flush()
        out = io.StringIO()
        sys.stdout = sys.stderr = out
        try:
            signal.setitimer(signal.ITIMER_REAL, JOB_TIMEOUT)
            try:
                res = fn(job, out)
            finally:
                signal.setitimer(signal.ITIMER_REAL, 0)
        except _Timeout:
            res = {"hang": True}
        except BaseException as e:  # noqa -- the job function itself failed
            res = {"worker_error": f"{type(e).__name__}: {e}"[:300]}
        sys.stdout, sys.stderr = sys.__stdout__, sys.__stderr__
        w.write("R " + json.dumps([idx, res], default=repr) + "\n")
        w.flush()
    w.close()
    os._exit(0)


def run_jobs(jobs: list, fn, nproc: int, scratch: str, watchdog: float = WATCHDOG) -> list:
    """Runs fn(job, stdout_buffer) -> json-able dict for every job in forked children.
    Returns the results in job order; a job whose child died or hung is {"hang": True} /
    {"died": <status>}."""
    n = len(jobs)
    results: list = [None] * n
    indexed = list(enumerate(jobs))
    nproc = max(1, min(nproc, (n + 199) // 200 or 1))
    lanes = [indexed[i::nproc] for i in range(nproc)]
    active = {}          # rfd -> dict(pid, pending(list), buf, current, last)

    def spawn(pending):
        if not pending:
            return
        r, w = os.pipe()
        sys.stdout.flush()
        sys.stderr.flush()
        pid = os.fork()
        if pid == 0:
            os.close(r)
            try:
                _child(pending, fn, w, scratch)
            finally:
                os._exit(1)
        os.close(w)
        active[r] = {"pid": pid, "pending": pending, "buf": b"", "current": None, "last": time.time(), "done": 0}

    for lane in lanes:
        spawn(lane)
    while active:
        ready, _, _ = select.select(list(active), [], [], 1.0)
        now = time.time()
        for r in list(active):
            st = active[r]
            if r in ready:
                data = os.read(r, 1 << 16)
                if data:
                    st["last"] = now
                    st["buf"] += data
                    *lines, st["buf"] = st["buf"].split(b"\n")
                    for ln in lines:
                        if ln.startswith(b"S "):
                            st["current"] = int(ln[2:])
                        elif ln.startswith(b"R "):
                            idx, res = json.loads(ln[2:])
                            results[idx] = res
                            st["current"] = None
                            st["done"] += 1
                    continue
                # EOF: child finished or died
                os.close(r)
                _, status = os.waitpid(st["pid"], 0)
                del active[r]
                rest = [(i, j) for (i, j) in st["pending"] if results[i] is None]
                if rest:
                    cur = st["current"] if st["current"] is not None else rest[0][0]
                    results[cur] = {"died": status}
                    spawn([(i, j) for (i, j) in rest if i != cur])
                continue
            if now - st["last"] > watchdog:
                try:
                    os.kill(st["pid"], signal.SIGKILL)
                except ProcessLookupError:
                    pass
                os.close(r)
                os.waitpid(st["pid"], 0)
                del active[r]
                rest = [(i, j) for (i, j) in st["pending"] if results[i] is None]
                if rest:
                    cur = st["current"] if st["current"] is not None else rest[0][0]
                    results[cur] = {"hang": True, "killed": True}
                    spawn([(i, j) for (i, j) in rest if i != cur])
    return results


def run_jobs_retry(jobs: list, fn, nproc: int, scratch: str, suspect) -> list:
    """run_jobs, then every job whose result looks like a timeout / dead worker (suspect(result)) is run once
    more, alone, with 6x the time limits: a loaded machine must not turn into an alarm."""
    global JOB_TIMEOUT
    results = run_jobs(jobs, fn, nproc, scratch)
    again = [i for i, r in enumerate(results) if r is None or suspect(r)]
    if again and len(again) <= 40:
        old = JOB_TIMEOUT
        JOB_TIMEOUT = 6 * old
        try:
            redo = run_jobs([jobs[i] for i in again], fn, min(4, nproc), scratch, watchdog=6 * WATCHDOG)
        finally:
            JOB_TIMEOUT = old
        for i, r in zip(again, redo):
            results[i] = r
    return results
