"""Deterministic end-to-end corpus + isolated workers for the C03 / C09 / C04 sweeps.

The sweeps are NOT proofs: they run the property's own oracle (ast.parse of the result, the
sequence x, f(x), ..., no exception / no timeout) on the real format_code over a fixed,
seed-independent corpus.  Every failure on the unchanged tree is triaged into KNOWN_FINDINGS.txt."""
from __future__ import annotations

import ast
import itertools
import multiprocessing as mp
import os
import signal
import sys
import textwrap
import time
import traceback
from pathlib import Path

from . import common

# ------------------------------------------------------------------------------------------------
# corpus

CONSTRUCTS_312 = [
    "x = 1\n", "x: int = 1\n", "x += 1\n", "x, *y = 1, 2, 3\n", "del x\n", "pass\n", "assert x, 'm'\n",
    "global_var = [i for i in range(3)]\n", "s = {i for i in range(3)}\n", "d = {i: i for i in range(3)}\n",
    "g = (i for i in range(3))\n", "lam = lambda a, /, b=1, *c, d, **e: (a, b, c, d, e)\n",
    "if (n := len(x)) > 1:\n    print(n)\n", "y = x if x else 2\n", "z = a < b <= c != d\n",
    "w = x[1:2, ::3]\n", "e = ...\n", "b = b'ab' + b'c'\n", "c = 1j + 2.5e3\n", "m = a @ b\n",
    "f1 = f'{x!r:>{w}} {y=}'\n", "f2 = f'{\"nested\" + f\"{x}\"}'\n", "t = 1,\n", "u = (yield)\n",
    "for i in range(3):\n    print(i)\nelse:\n    print('done')\n",
    "while x:\n    x -= 1\nelse:\n    print(x)\n",
    "try:\n    f()\nexcept ValueError as e:\n    raise RuntimeError('x') from e\nelse:\n    g()\nfinally:\n    h()\n",
    "try:\n    f()\nexcept* ValueError:\n    pass\n",
    "with open(p) as fh, open(q) as fg:\n    print(fh, fg)\n",
    "with (open(p) as fh, open(q) as fg):\n    print(fh, fg)\n",
    "match cmd:\n    case [a, b, *rest] if a:\n        print(a)\n    case {'k': v, **kw}:\n        print(v)\n"
    "    case Point(x=0) | None:\n        pass\n    case _:\n        pass\n",
    "def f(a, b=2, *args, c, d=4, **kw) -> int:\n    '''doc'''\n    return a\n",
    "def f[T](x: T) -> T:\n    return x\n", "class A[T]:\n    y: T\n", "type Alias[T] = list[T]\n",
    "async def f():\n    async with a as b:\n        async for i in b:\n            await i\n    return [x async for x in y]\n",
    "@dec\n@dec2(1)\nclass K(Base, metaclass=M):\n    a = 1\n    def m(self):\n        return self.a\n",
    "def gen():\n    yield 1\n    yield from range(3)\n",
    "def outer():\n    x = 1\n    def inner():\n        nonlocal x\n        x += 1\n    return inner\n",
    "def g():\n    global Z\n    Z = 1\n", "import os, sys as system\nfrom a.b import c as d, e\nfrom . import f\n",
    "from os import *\n", "print(*a, **k)\n", "x = [*a, *b]\ny = {**a, **b}\n", "a = b = c = 0\n",
    "x = 1; y = 2; print(x, y)\n", "x = 1 + \\\n    2\n", "x = (1 +\n     2)\n",
    "class E(Exception): pass\n", "if x: pass\nelif y: pass\nelse: pass\n",
    "x = not a and b or c\n", "x = ~a ^ b | c & d << 1 >> 2\n", "x = a ** -b // c % d\n",
    "raise\n", "x = 'a' 'b'\n", "x = '''multi\nline'''\n", "x = r'\\d' + '\\d'\n",
    "x = a if b else c if d else e\n", "x = a.b.c(d)[e].f\n", "x = await_ = 1\n",
    "def f(*, a): return a\n", "def f(a, /): return a\n", "x = lambda: (yield)\n",
    "for a, (b, c) in z: print(a, b, c)\n", "with a: pass\n", "x = {1, 2} | {3}\n",
    "x = [[1, 2], [3, 4]][0][1]\n", "x = -1\ny = +x\n", "x = 10_000 + 0x1f + 0o7 + 0b1\n",
    "x = 'é' + '\\N{BULLET}'\n", "class A:\n    @property\n    def p(self): return 1\n    @staticmethod\n    def s(): return 2\n",
    "if __name__ == '__main__':\n    main()\n", "x: list[int] = []\nx.append(1)\n", "x = print\nx(1)\n",
]

ADVERSARIAL_CONSTANTS = [
    "1/0", "1//0", "1%0", "0**-1", "1 + 'a'", "'a' * 'b'", "{[1]: 2}", "{{1}: 2}", "[1][5]", "{}['k']",
    "-'a'", "not []", "1 < 'a'", "len(1)", "int('x')", "2 ** 2 ** 2", "10 ** 20", "'a' 'b'", "None + 1",
    "1 if 0 else 2", "(1, 2)[3]", "abs('a')", "max()", "sorted([1, 'a'])", "range(0)", "0.1 + 0.2", "1e308 * 10",
    "True + True", "~5", "1 << 70", "'%d' % 'a'", "b'a' + 'a'", "[] + ()", "1 in 2", "x", "sum([1, 2])",
    "float('nan')", "chr(-1)", "divmod(1, 0)", "round(1.5)",
]

CONSTANT_CONTEXTS = [
    "if {c}:\n    print(1)\n", "if {c}:\n    print(1)\nelse:\n    print(2)\n", "while {c}:\n    print(1)\n    break\n",
    "x = {c}\nprint(x)\n", "print(1 if {c} else 2)\n", "print([i for i in range(3) if {c}])\n",
    "def f():\n    return {c}\nprint(f())\n", "assert {c}\n", "x = [{c}, {c}]\nprint(x)\n",
    "for i in range(int({c})):\n    print(i)\n",
]

EOF_STATEMENTS = [
    "if a:\n    x()\n    z()\nelse:\n    y()\n    z()", "if a:\n    x()\nelse:\n    y()",
    "for i in r:\n    if i:\n        continue\n    print(i)", "while a:\n    a -= 1", "x = 1", "print(1)",
    "def f():\n    if a:\n        x()\n        z()\n    else:\n        y()\n        z()",
    "with open(f) as g:\n    pass", "try:\n    x()\nexcept E:\n    pass", "class A:\n    pass",
    "x = [\n    1,\n    2,\n]", "import os", "return_value = f(\n    1)", "if a:\n    pass", "for i in r:\n    pass",
    "def f(x):\n    y = x\n    return y", "x = 1  # comment", "'''docstring'''", "if a:\n    x = 1\nelse:\n    x = 2",
    "for i in r:\n    out.append(i)", "def f():\n    for i in r:\n        if i:\n            return 1\n    return 2",
    "x = open(f)\nprint(x.read())\nx.close()", "lst = []\nfor i in range(10):\n    lst.append(i)",
]

INVALID_INPUTS = [
    "def f(:\n    return 1\n", "x = = 1\n", "print((1, 2)\n", "class = 3\n", "if x\n    y\n", "  x = 1\n y = 2\n",
    "x = 'abc\n", "\tx = 1\n        y = 2\n", "return 1\n    x\n", "}\n", "x = 1 +\n", "f(a b)\n", "\x00", "def\n",
    "if True:\nprint(1)\n", "a = [1, 2\nb = 3\n", "x = 08\n", "lambda: = 1\n", "x = $\n", "\\\n\\",
]

INDENTED_FRAGMENTS = [
    "    x = 1\n    print(x)\n", "        if a:\n            return 1\n        return 2\n",
    "    for i in r:\n        out.append(i)\n", "    def m(self):\n        return self.a\n",
    "  x = 1\n  y = 2\n  print(x + y)\n", "    return x\n", "    lst = []\n    for i in range(3):\n        lst.append(i)\n    print(lst)\n",
    "\tx = 1\n\tprint(x)\n", "    if a:\n        x()\n        z()\n    else:\n        y()\n        z()\n",
    "    import os\n    print(os.getcwd())\n", "    yield 1\n", "    '''doc'''\n    pass\n",
]

MIXED_TABS = [
    "if a:\n    \tif b:\n   \t  y = 2\n", "def f(a, b):\n    \tif b:\n   \t  return 2\n\n\nprint(f(1, 2))\n",
    "if a:\n    \tif b:\n  \t   y = 2\n",
    "if a:\n    \tx = 1\n    \ty = 2\n", "if a:\n\tx = 1\n\tif b:\n\t    y = 2\n", "if a:\n\tif b:\n\t\tx = 1\n        y = 2\n",
    "def f():\n\tif a:\n\t\treturn 1\n        return 2\n", "if a:\n\tx = 1\nelse:\n        y = 2\n",
    "class A:\n\tdef f(self):\n\t\treturn 1\n\n        def g(self):\n\t\treturn 2\n",
    "x = '\t'\ny = \"a\tb\"\nprint(x, y)\n", "x = 1\t# comment\nprint(x)\n", "if a:\n  \tx = 1\n        y = 2\n",
    "s = '''a\n\tb\n'''\nprint(s)\n",
]


def small_function_family():
    """an enumerated family of small functions: two blocks per body over if/else, loops, returns,
    assignments and calls (all used, so little is deleted)"""
    blocks = [
        "x = a + 1", "print(a)", "return a", "if a:\n    return 1\nelse:\n    return 2", "if a:\n    x = 1\nelse:\n    x = 2",
        "for i in range(a):\n    print(i)", "for i in range(a):\n    if i:\n        continue\n    print(i)",
        "while a:\n    a -= 1", "out = []\nfor i in range(a):\n    out.append(i)", "if a:\n    print(1)\n    print(3)\nelse:\n    print(2)\n    print(3)",
        "if not a:\n    pass\nelse:\n    print(a)", "x = []\nx.append(a)", "if a == True:\n    print(a)", "y = [i for i in [j for j in range(a)]]",
        "with open(a) as f:\n    print(f)", "try:\n    print(a)\nexcept Exception:\n    raise ValueError(a)", "raise ValueError(a)",
        "if a > 1 and a > 2:\n    print(a)", "x = 0\nfor i in range(a):\n    x += i", "if a:\n    if b:\n        print(a, b)",
    ]
    tails = ["", "return x", "print(x)"]
    out = []
    for b1, b2 in itertools.product(blocks, repeat=2):
        for tail in tails:
            body = "\n".join(x for x in (b1, b2, tail) if x)
            src = "def f(a, b):\n" + textwrap.indent(body, "    ") + "\n\n\nprint(f(1, 2))\n"
            out.append(src)
    return out


import warnings as _warnings
_warnings.filterwarnings("ignore", category=SyntaxWarning)


def repo_examples(repo: Path) -> list[str]:
    """string constants of the repository's own example scripts that are valid modules (inputs and
    expected outputs of ~90 rule tests + the integration cases); harvested statically at run time"""
    out, seen = [], set()
    files = sorted((repo / "tests" / "unit").glob("test_*.py")) + \
        sorted((repo / "tests" / "integration").glob("*.py"))
    for f in files:
        try:
            tree = ast.parse(f.read_text())
        except SyntaxError:
            continue
        for node in ast.walk(tree):
            if isinstance(node, ast.Constant) and isinstance(node.value, str) and "\n" in node.value \
                    and len(node.value) < 3000:
                src = textwrap.dedent(node.value).strip("\n") + "\n"
                if src in seen or not src.strip():
                    continue
                try:
                    ast.parse(src)
                except (SyntaxError, ValueError):
                    continue
                seen.add(src)
                out.append(src)
    return out


def valid(src: str) -> bool:
    try:
        ast.parse(src)
        return True
    except (SyntaxError, ValueError):
        return False
    except RecursionError:
        return False


def build_corpus(tier: str) -> dict[str, list[str]]:
    fam = {}
    fam["constructs"] = list(CONSTRUCTS_312) + \
        ["def wrap(a, b, c, d, p, q, x, y, z, w):\n" + textwrap.indent(c, "    ") + "    return locals()\n\n\nprint(wrap)\n"
         for c in CONSTRUCTS_312 if valid("def wrap():\n" + textwrap.indent(c, "    "))]
    fam["constants"] = [ctx.format(c=c) for c in ADVERSARIAL_CONSTANTS for ctx in CONSTANT_CONTEXTS]
    fam["eof"] = [s for st in EOF_STATEMENTS for s in (st, st + "\n", "import sys\nprint(sys.argv)\n" + st)]
    fam["invalid"] = list(INVALID_INPUTS)
    fam["indented"] = list(INDENTED_FRAGMENTS)
    fam["tabs"] = list(MIXED_TABS)
    fam["functions"] = small_function_family()
    fam["repo"] = repo_examples(common.REPO)
    if tier == "quick":
        fam["functions"] = fam["functions"][::5]
    return fam


OPTION_COMBOS = [dict(safe=s, keep_imports=k, preserve=p)
                 for s in (False, True) for k in (False, True) for p in ((), ("f", "x", "wrap"))]


# ------------------------------------------------------------------------------------------------
# isolated workers


def _site_of(tb_list) -> tuple[str, str, list[str]]:
    """(stage, innermost pyrefact function, frame names) from a traceback"""
    frames = [(Path(f.filename).name, f.name) for f in tb_list]
    pyre = [(fn, name) for fn, name in frames if "pyrefact" in str(Path(tb_list[frames.index((fn, name))].filename))]
    stage = ""
    for i, (fn, name) in enumerate(frames):
        if name in ("_multi_run_fixes", "format_code") and fn == "main.py":
            for fn2, name2 in frames[i + 1:]:
                if name2 not in ("wrapper", "func_chain", "_schedule_rewrites", "_multi_run_fixes", "fill_transaction", "<genexpr>"):
                    stage = f"{fn2[:-3]}.{name2}"
                    break
    inner = f"{pyre[-1][0][:-3]}.{pyre[-1][1]}" if pyre else ""
    return stage, inner, [n for _, n in frames]


_RULE_DEFAULTS = {"preserve": frozenset(), "root_is_static": True, "max_line_length": 100}


class _Timeout(Exception):
    pass


def _alarm(signum, frame):
    raise _Timeout()


def _worker_main(conn, repo: str):
    sys.stdin = open(os.devnull)
    devnull = open(os.devnull, "w")
    sys.stdout = devnull
    sys.stderr = devnull
    os.nice(5)
    sys.setrecursionlimit(3000)
    import warnings
    warnings.simplefilter("ignore")
    mods = common.import_impl()
    main, core = mods["main"], mods["core"]
    signal.signal(signal.SIGALRM, _alarm)
    while True:
        try:
            job = conn.recv()
        except EOFError:
            return
        if job is None:
            return
        jid, src, opts, iters, tmo = job
        res = {"id": jid, "outs": [], "error": None, "timeout": False}
        cur = src
        t0 = time.time()
        try:
            signal.setitimer(signal.ITIMER_REAL, tmo)
            if isinstance(opts, str):          # a single rule / stage function: opts = "module.function"
                m, a = opts.split(".")
                fn = getattr(mods[m], a)
                core.parse.cache_clear()
                import inspect
                kw = {}
                for pn, pp in inspect.signature(fn).parameters.items():
                    if pp.default is inspect.Parameter.empty and pn in _RULE_DEFAULTS:
                        kw[pn] = _RULE_DEFAULTS[pn]
                nxt = fn(cur, **kw)
                res["outs"].append(nxt if isinstance(nxt, str) else repr(type(nxt)))
            else:
                for _ in range(iters):
                    core.parse.cache_clear()
                    nxt = main.format_code(cur, safe=opts["safe"], keep_imports=opts["keep_imports"],
                                           preserve=frozenset(opts["preserve"]))
                    if not isinstance(nxt, str):
                        raise TypeError(f"format_code returned {type(nxt).__name__}")
                    res["outs"].append(nxt)
                    if nxt == cur and len(res["outs"]) >= 2:
                        break
                    cur = nxt
            signal.setitimer(signal.ITIMER_REAL, 0)
        except _Timeout:
            res["timeout"] = True
        except BaseException as e:  # noqa  (SystemExit from literal_value('exit()') included)
            signal.setitimer(signal.ITIMER_REAL, 0)
            stage, inner, frames = _site_of(traceback.extract_tb(e.__traceback__))
            res["error"] = {"type": type(e).__name__, "msg": str(e)[:200], "stage": stage, "inner": inner,
                            "frames": frames[-8:], "iteration": len(res["outs"]), "input": cur}
        finally:
            signal.setitimer(signal.ITIMER_REAL, 0)
        res["wall"] = round(time.time() - t0, 3)
        conn.send(res)


class Workers:
    """N forked workers; a worker that does not answer within the hard limit is killed and
    replaced (its job is reported as a timeout)."""

    def __init__(self, n: int):
        self.n = n
        self.ctx = mp.get_context("fork")
        self.slots = [self._spawn() for _ in range(n)]

    def _spawn(self):
        a, b = self.ctx.Pipe()
        p = self.ctx.Process(target=_worker_main, args=(b, str(common.REPO)), daemon=True)
        p.start()
        b.close()
        return {"proc": p, "conn": a, "job": None, "t0": 0.0}

    def run(self, jobs: list[tuple], soft: float, hard: float, deadline: float | None = None) -> dict:
        """jobs: (id, src, opts, iters).  returns {id: result}; jobs not started before `deadline`
        are reported as skipped."""
        from multiprocessing.connection import wait
        results = {}
        pending = list(reversed(jobs))
        busy = 0
        while pending or busy:
            for k, sl in enumerate(self.slots):
                if sl["job"] is None and pending:
                    if deadline is not None and time.time() > deadline:
                        for j in pending:
                            results[j[0]] = {"id": j[0], "skipped": True, "outs": [], "error": None, "timeout": False}
                        pending = []
                        break
                    j = pending.pop()
                    sl["conn"].send((j[0], j[1], j[2], j[3], soft))
                    sl["job"], sl["t0"] = j, time.time()
                    busy += 1
            if not busy:
                break
            ready = wait([sl["conn"] for sl in self.slots if sl["job"] is not None], timeout=1.0)
            for k, sl in enumerate(self.slots):
                if sl["job"] is None:
                    continue
                if sl["conn"] in ready:
                    try:
                        r = sl["conn"].recv()
                        results[r["id"]] = r
                    except (EOFError, OSError):
                        results[sl["job"][0]] = {"id": sl["job"][0], "outs": [], "timeout": False,
                                                 "error": {"type": "WorkerDied", "msg": "worker process died",
                                                           "stage": "", "inner": "", "frames": [], "iteration": 0,
                                                           "input": sl["job"][1]}}
                        self._replace(k)
                    sl = self.slots[k]
                    sl["job"] = None
                    busy -= 1
                elif time.time() - sl["t0"] > hard:
                    results[sl["job"][0]] = {"id": sl["job"][0], "outs": [], "error": None, "timeout": True, "hard": True}
                    self._replace(k)
                    busy -= 1
        return results

    def _replace(self, k):
        sl = self.slots[k]
        try:
            sl["proc"].kill()
            sl["conn"].close()
        except Exception:  # noqa
            pass
        self.slots[k] = self._spawn()

    def close(self):
        for sl in self.slots:
            try:
                sl["conn"].send(None)
            except Exception:  # noqa
                pass
        for sl in self.slots:
            sl["proc"].join(timeout=2)
            if sl["proc"].is_alive():
                sl["proc"].kill()


# ------------------------------------------------------------------------------------------------
# pipeline bisection: first stage of format_code whose output violates `pred` while its input did not


def first_bad_stage(mods, source: str, opts: dict, pred) -> str | None:
    """Re-runs the real format_code with every stage attribute wrapped by a pass-through tracer and
    returns 'module.function' of the first stage with pred(input) and not pred(output)."""
    from . import drv
    names = sorted(set(n for n, _ in drv.multi_shape(mods)) |
                   {n for n in drv.format_code_stage_attrs(mods) if n not in drv.NOT_STAGES} |
                   {"abstractions.overused_constant"})
    saved, found = [], []

    def wrap(name, fn):
        def w(src, *a, **k):
            out = fn(src, *a, **k)
            o = out[0] if isinstance(out, tuple) else out
            s_in = a[0] if name == "processing.minimize_whitespace_line_differences" and a else src
            if not found and isinstance(o, str) and pred(s_in) and not pred(o):
                found.append(name)
            return out
        for attr in ("_fix_func",):
            if hasattr(fn, attr):
                setattr(w, attr, getattr(fn, attr))
        w.__name__ = getattr(fn, "__name__", name)
        return w
    main = mods["main"]
    try:
        for n in names:
            m, a = n.split(".")
            if m in ("rmspace", "textwrap"):
                continue
            obj = mods[m]
            saved.append((obj, a, getattr(obj, a)))
            setattr(obj, a, wrap(n, getattr(obj, a)))
        import types
        real_rm, real_tw = main.rmspace, main.textwrap
        saved.append((main, "rmspace", real_rm))
        saved.append((main, "textwrap", real_tw))
        main.rmspace = types.SimpleNamespace(format_str=wrap("rmspace.format_str", real_rm.format_str))
        main.textwrap = types.SimpleNamespace(dedent=wrap("textwrap.dedent", real_tw.dedent),
                                              indent=wrap("textwrap.indent", real_tw.indent))
        if pred(source) and not pred(source.expandtabs(4)):
            found.append("str.expandtabs")
        mods["core"].parse.cache_clear()
        try:
            with common.quiet():
                main.format_code(source, safe=opts["safe"], keep_imports=opts["keep_imports"],
                                 preserve=frozenset(opts["preserve"]))
        except Exception:  # noqa
            pass
    finally:
        for obj, a, old in reversed(saved):
            setattr(obj, a, old)
    return found[0] if found else None
