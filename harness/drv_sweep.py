"""Deterministic end-to-end corpus + isolated workers for the C03 / C09 / C04 sweeps.

The sweeps are NOT proofs: they run the property's own oracle (ast.parse of the result, the
sequence x, f(x), ..., no exception / no timeout) on the real format_code over a fixed,
seed-independent corpus.  Every failure on the unchanged tree is triaged into KNOWN_FINDINGS.txt."""
from __future__ import annotations

import ast
import itertools
import multiprocessing as mp
import os
import signal
import sys
import textwrap
import time
import traceback
from pathlib import Path

from . import common

# ------------------------------------------------------------------------------------------------
# corpus

CONSTRUCTS_312 = [
    "x = 1\n", "x: int = 1\n", "x += 1\n", "x, *y = 1, 2, 3\n", "del x\n", "pass\n", "assert x, 'm'\n",
    "global_var = [i for i in range(3)]\n", "s = {i for i in range(3)}\n", "d = {i: i for i in range(3)}\n",
    "g = (i for i in range(3))\n", "lam = lambda a, /, b=1, *c, d, **e: (a, b, c, d, e)\n",
    "if (n := len(x)) > 1:\n    print(n)\n", "y = x if x else 2\n", "z = a < b <= c != d\n",
    "w = x[1:2, ::3]\n", "e = ...\n", "b = b'ab' + b'c'\n", "c = 1j + 2.5e3\n", "m = a @ b\n",
    "f1 = f'{x!r:>{w}} {y=}'\n", "f2 = f'{\"nested\" + f\"{x}\"}'\n", "t = 1,\n", "u = (yield)\n",
    "for i in range(3):\n    print(i)\nelse:\n    print('done')\n",
    "while x:\n    x -= 1\nelse:\n    print(x)\n",
    "try:\n    f()\nexcept ValueError as e:\n    raise RuntimeError('x') from e\nelse:\n    g()\nfinally:\n    h()\n",
    "try:\n    f()\nexcept* ValueError:\n    pass\n",
    "with open(p) as fh, open(q) as fg:\n    print(fh, fg)\n",
    "with (open(p) as fh, open(q) as fg):\n    print(fh, fg)\n",
    "match cmd:\n    case [a, b, *rest] if a:\n        print(a)\n    case {'k': v, **kw}:\n        print(v)\n"
    "    case Point(x=0) | None:\n        pass\n    case _:\n        pass\n",
    "def f(a, b=2, *args, c, d=4, **kw) -> int:\n    '''doc'''\n    return a\n",
    "def f[T](x: T) -> T:\n    return x\n", "class A[T]:\n    y: T\n", "type Alias[T] = list[T]\n",
    "async def f():\n    async with a as b:\n        async for i in b:\n            await i\n    return [x async for x in y]\n",
    "@dec\n@dec2(1)\nclass K(Base, metaclass=M):\n    a = 1\n    def m(self):\n        return self.a\n",
    "def gen():\n    yield 1\n    yield from range(3)\n",
    "def outer():\n    x = 1\n    def inner():\n        nonlocal x\n        x += 1\n    return inner\n",
    "def g():\n    global Z\n    Z = 1\n", "import os, sys as system\nfrom a.b import c as d, e\nfrom . import f\n",
    "from os import *\n", "print(*a, **k)\n", "x = [*a, *b]\ny = {**a, **b}\n", "a = b = c = 0\n",
    "x = 1; y = 2; print(x, y)\n", "x = 1 + \\\n    2\n", "x = (1 +\n     2)\n",
    "class E(Exception): pass\n", "if x: pass\nelif y: pass\nelse: pass\n",
    "x = not a and b or c\n", "x = ~a ^ b | c & d << 1 >> 2\n", "x = a ** -b // c % d\n",
    "raise\n", "x = 'a' 'b'\n", "x = '''multi\nline'''\n", "x = r'\\d' + '\\d'\n",
    "x = a if b else c if d else e\n", "x = a.b.c(d)[e].f\n", "x = await_ = 1\n",
    "def f(*, a): return a\n", "def f(a, /): return a\n", "x = lambda: (yield)\n",
    "for a, (b, c) in z: print(a, b, c)\n", "with a: pass\n", "x = {1, 2} | {3}\n",
    "x = [[1, 2], [3, 4]][0][1]\n", "x = -1\ny = +x\n", "x = 10_000 + 0x1f + 0o7 + 0b1\n",
    "x = 'é' + '\\N{BULLET}'\n", "class A:\n    @property\n    def p(self): return 1\n    @staticmethod\n    def s(): return 2\n",
    "if __name__ == '__main__':\n    main()\n", "x: list[int] = []\nx.append(1)\n", "x = print\nx(1)\n",
]

ADVERSARIAL_CONSTANTS = [
    "1/0", "1//0", "1%0", "0**-1", "1 + 'a'", "'a' * 'b'", "{[1]: 2}", "{{1}: 2}", "[1][5]", "{}['k']",
    "-'a'", "not []", "1 < 'a'", "len(1)", "int('x')", "2 ** 2 ** 2", "10 ** 20", "'a' 'b'", "None + 1",
    "1 if 0 else 2", "(1, 2)[3]", "abs('a')", "max()", "sorted([1, 'a'])", "range(0)", "0.1 + 0.2", "1e308 * 10",
    "True + True", "~5", "1 << 70", "'%d' % 'a'", "b'a' + 'a'", "[] + ()", "1 in 2", "x", "sum([1, 2])",
    "float('nan')", "chr(-1)", "divmod(1, 0)", "round(1.5)",
]

CONSTANT_CONTEXTS = [
    "if {c}:\n    print(1)\n", "if {c}:\n    print(1)\nelse:\n    print(2)\n", "while {c}:\n    print(1)\n    break\n",
    "x = {c}\nprint(x)\n", "print(1 if {c} else 2)\n", "print([i for i in range(3) if {c}])\n",
    "def f():\n    return {c}\nprint(f())\n", "assert {c}\n", "x = [{c}, {c}]\nprint(x)\n",
    "for i in range(int({c})):\n    print(i)\n",
]

EOF_STATEMENTS = [
    "if a:\n    x()\n    z()\nelse:\n    y()\n    z()", "if a:\n    x()\nelse:\n    y()",
    "for i in r:\n    if i:\n        continue\n    print(i)", "while a:\n    a -= 1", "x = 1", "print(1)",
    "def f():\n    if a:\n        x()\n        z()\n    else:\n        y()\n        z()",
    "with open(f) as g:\n    pass", "try:\n    x()\nexcept E:\n    pass", "class A:\n    pass",
    "x = [\n    1,\n    2,\n]", "import os", "return_value = f(\n    1)", "if a:\n    pass", "for i in r:\n    pass",
    "def f(x):\n    y = x\n    return y", "x = 1  # comment", "'''docstring'''", "if a:\n    x = 1\nelse:\n    x = 2",
    "for i in r:\n    out.append(i)", "def f():\n    for i in r:\n        if i:\n            return 1\n    return 2",
    "x = open(f)\nprint(x.read())\nx.close()", "lst = []\nfor i in range(10):\n    lst.append(i)",
]

INVALID_INPUTS = [
    "def f(:\n    return 1\n", "x = = 1\n", "print((1, 2)\n", "class = 3\n", "if x\n    y\n", "  x = 1\n y = 2\n",
    "x = 'abc\n", "\tx = 1\n        y = 2\n", "return 1\n    x\n", "}\n", "x = 1 +\n", "f(a b)\n", "\x00", "def\n",
    "if True:\nprint(1)\n", "a = [1, 2\nb = 3\n", "x = 08\n", "lambda: = 1\n", "x = $\n", "\\\n\\",
]

INDENTED_FRAGMENTS = [
    "    x = 1\n    print(x)\n", "        if a:\n            return 1\n        return 2\n",
    "    for i in r:\n        out.append(i)\n", "    def m(self):\n        return self.a\n",
    "  x = 1\n  y = 2\n  print(x + y)\n", "    return x\n", "    lst = []\n    for i in range(3):\n        lst.append(i)\n    print(lst)\n",
    "\tx = 1\n\tprint(x)\n", "    if a:\n        x()\n        z()\n    else:\n        y()\n        z()\n",
    "    import os\n    print(os.getcwd())\n", "    yield 1\n", "    '''doc'''\n    pass\n",
]

MIXED_TABS = [
    "if a:\n    \tif b:\n   \t  y = 2\n", "def f(a, b):\n    \tif b:\n   \t  return 2\n\n\nprint(f(1, 2))\n",
    "if a:\n    \tif b:\n  \t   y = 2\n",
    "if a:\n    \tx = 1\n    \ty = 2\n", "if a:\n\tx = 1\n\tif b:\n\t    y = 2\n", "if a:\n\tif b:\n\t\tx = 1\n        y = 2\n",
    "def f():\n\tif a:\n\t\treturn 1\n        return 2\n", "if a:\n\tx = 1\nelse:\n        y = 2\n",
    "class A:\n\tdef f(self):\n\t\treturn 1\n\n        def g(self):\n\t\treturn 2\n",
    "x = '\t'\ny = \"a\tb\"\nprint(x, y)\n", "x = 1\t# comment\nprint(x)\n", "if a:\n  \tx = 1\n        y = 2\n",
    "s = '''a\n\tb\n'''\nprint(s)\n",
]


# ---- families added for the seeded regressions C03-b, C04-a, C04-b, C09-a, C09-b ------------------

BLANK_TEMPLATES = [
    # {B} = a run of blank lines; every template is a valid module for every run
    "def f(a):\n    if a:\n        x = 1\n{B}        y = 2\n        print(x, y)\n    return a\n\n\nprint(f(1))\n",
    "def f(a):\n    if a:\n        x = 1\n{B}        print(x)\n    else:\n        print(a)\n    return a\n\n\nprint(f(1))\n",
    "def f(a):\n    if a:\n        print(1)\n{B}    else:\n        print(a)\n    return a\n\n\nprint(f(1))\n",
    "def f(a):\n    try:\n        x = int(a)\n{B}        print(x)\n    except ValueError:\n        print(a)\n    return a\n\n\nprint(f(1))\n",
    "def f(a):\n    for i in range(a):\n        print(i)\n{B}        print(a)\n    return a\n\n\nprint(f(1))\n",
    "def f(a):\n{B}    print(a)\n    return a\n\n\nprint(f(1))\n",
    "def f(a):\n    def g(b):\n        print(b)\n{B}        return b\n{B}    return g(a)\n\n\nprint(f(1))\n",
    "class K:\n    def m(self):\n        return 1\n{B}    def n(self):\n        return 2\n\n\nprint(K().m(), K().n())\n",
    "class K:\n    a = 1\n{B}    b = 2\n\n\nprint(K.a, K.b)\n",
    "import sys\n{B}print(sys.argv)\n{B}print(1)\n",
    "def f(a):\n    return a\n{B}print(f(1))\n",
    "def f(a):\n    while a:\n        a -= 1\n{B}        if a == 3:\n            break\n    else:\n        print(a)\n    return a\n\n\nprint(f(5))\n",
    "def f(a):\n    with open(a) as fh:\n        x = fh.read()\n{B}        print(x)\n    return a\n\n\nprint(f('p'))\n",
    "print(1)\n{B}",
]


def blank_run_family():
    out = []
    for tpl in BLANK_TEMPLATES:
        for k in range(1, 6):
            for ws in ("", "    ", "\t"):
                if ws and k not in (3, 4):
                    continue
                out.append(tpl.replace("{B}", (ws + "\n") * k))
    return [s for s in dict.fromkeys(out) if valid(s)]


IMPORT_FORMS = [
    "import os", "import os.path", "import os as opsys", "import os, sys", "from os import path", "from os import path as p",
    "from os import (path, sep)", "from os import *", "from os.path import *", "from . import sibling", "from . import *",
    "from .. import *", "from ... import *", "from .pkg import *", "from .pkg import name", "from ..pkg.sub import name as n",
    "from __future__ import annotations", "import numpy as np", "from collections import *\nfrom itertools import *",
    "from . import *\nfrom os import *", "try:\n    import fast as impl\nexcept ImportError:\n    import slow as impl",
    "if True:\n    from . import *", "import os\nimport os", "from os import path\nfrom os import path",
]
IMPORT_BODIES = [
    "", "print(1)\n", "print(undefined_name)\n", "x = path\nprint(x, undefined_name, sep)\n",
    "def f():\n    return helper(os, sys)\n\n\nprint(f())\n", "class K(Base):\n    attr = default_value\n\n\nprint(K)\n",
]


def import_family():
    out = []
    for form in IMPORT_FORMS:
        for body in IMPORT_BODIES:
            out.append(form + "\n" + body)
    out += ["def f():\n    " + form.replace("\n", "\n    ") + "\n    return undefined_name\n\n\nprint(f())\n"
            for form in IMPORT_FORMS if "__future__" not in form and "*" not in form]
    out += ["    " + form.replace("\n", "\n    ") + "\n    print(undefined_name)\n" for form in IMPORT_FORMS[:16]
            if "__future__" not in form]
    return list(dict.fromkeys(out))


RESOURCE_CALLS = ["open(path)", "open(path, 'w')", "sqlite3.connect(path)", "socket.socket()", "tempfile.TemporaryFile()",
                  "tempfile.NamedTemporaryFile()", "io.open(path)", "urllib.request.urlopen(path)"]
RESOURCE_CONTEXTS = [
    "def f(path, flag):\n    h = {R}\n    data = h.read()\n    h.close()\n    return data\n",
    "def f(path, flag):\n    h = {R}\n    print(path)\n    print(flag)\n    return h\n",
    "def f(path, flag):\n    if flag:\n        h = {R}\n        print(path)\n    else:\n        h = None\n    return h\n",
    "def f(path, flag):\n    out = []\n    for p in path:\n        h = {R}\n        print(p)\n        out.append(flag)\n        out.append(h)\n    return out\n",
    "def f(path, flag):\n    h = None\n    if flag:\n        h = {R}\n        flag = 0\n        print(flag)\n    return h\n",
    "def f(path, flag):\n    h = {R}\n    try:\n        print(flag)\n    finally:\n        h.close()\n    return flag\n",
    "def f(path, flag):\n    while flag:\n        h = {R}\n        flag -= 1\n        print(flag)\n    return h\n",
    "def f(path, flag):\n    h = {R}\n    g = {R}\n    print(flag)\n    g.close()\n    return h\n",
    "h = {R}\nprint(1)\nprint(2)\nprint(h)\n",
    "class K:\n    def m(self, path):\n        self.h = {R}\n        h = {R}\n        print(path)\n        return h\n",
]


def resource_family():
    hdr = "import io\nimport socket\nimport sqlite3\nimport tempfile\nimport urllib.request\n\n\n"
    out = []
    for ctx in RESOURCE_CONTEXTS:
        for r in RESOURCE_CALLS:
            src = hdr + ctx.replace("{R}", r)
            if src.startswith(hdr + "def f"):
                src += "\n\nprint(f('p', 1))\n"
            elif "class K" in src:
                src += "\n\nprint(K().m('p'))\n"
            out.append(src)
    return [s for s in out if valid(s)]


LAYOUT_STMTS = {   # statements that black lays out differently from ast.unparse (or only at some width)
    "plain": "a = x * 2",
    "pow": "a = x**2",
    "slice": "a = seq[x + 1 : y - 1]",
    "long": "a = 'a fairly long message that is used to push this very line over the width: {} {} {}'.format(x, y, seq)",
    "long79": "a = 'message that makes the line wider than seventy-nine: {} {}'.format(x, y)",
}
SHORT_BRANCHES = {
    "ret": ["return y"], "stmt-ret": ["print(y)", "return y"], "if-ret": ["if y > 3:", "    return y", "return x"],
    "if-if-ret": ["if y > 3:", "    return y", "if y < 0:", "    return -y", "return x"],
}


def orientation_family():
    """if/else (explicit and implicit) with unequal branch lengths / branch counts / early exits, the
    long branch containing one layout-sensitive statement; inside a function and inside a loop"""
    out = []
    fill = ["b = a + y", "c = b * 2", "d = c - 1", "e = d + a", "g = e * b", "h = g - c", "k = h + d", "m = k * e"]
    for lname, lstmt in LAYOUT_STMTS.items():
        for L in (4, 7, 9):
            used = ["a"] + [t.split(" = ")[0] for t in fill[:L - 2]]      # every name is used: nothing is dead code
            long_branch = [lstmt] + fill[:L - 2] + ["print(" + ", ".join(used) + ")"]
            for sname, short in SHORT_BRANCHES.items():
                for shape in ("implicit", "explicit", "explicit-swapped", "loop"):
                    if shape == "implicit":
                        body = ["if x > 10:"] + ["    " + t for t in long_branch + ["return a"]] + short
                        src = "def _score(x, y, seq):\n" + "\n".join("    " + t for t in body)
                    elif shape == "explicit":
                        body = ["if x > 10:"] + ["    " + t for t in long_branch + ["return a"]] + ["else:"] + \
                               ["    " + t for t in short]
                        src = "def _score(x, y, seq):\n" + "\n".join("    " + t for t in body)
                    elif shape == "explicit-swapped":
                        body = ["if x <= 10:"] + ["    " + t for t in short] + ["else:"] + \
                               ["    " + t for t in long_branch + ["return a"]]
                        src = "def _score(x, y, seq):\n" + "\n".join("    " + t for t in body)
                    else:
                        sh = [t.replace("return y", "continue").replace("return -y", "continue").replace("return x", "continue")
                              for t in short]
                        body = ["for x in seq:", "    if x > 10:"] + ["        " + t for t in long_branch + ["continue"]] + \
                               ["    " + t for t in sh] + ["return y"]
                        src = "def _score(x, y, seq):\n" + "\n".join("    " + t for t in body)
                    src += "\n\n\nprint(_score(1, 2, [3, 40]), _score(20, 3, [1]))\n"
                    if valid(src):
                        out.append((f"{lname}/L{L}/{sname}/{shape}", src))
    return out


def _pad_call(prefix: str, width: int, indent: int, kind: str) -> str:
    """one bracketed statement whose line is exactly `width` columns wide at the given indent"""
    open_, close = {"call": ("print(", ")"), "list": ("print([", "])"), "dict": ("print(dict(", "))"),
                    "binop": ("value = (", ")"), "cond": ("if max(", ") == 3:")}[kind]
    sep = " + " if kind == "binop" else ", "
    items = []
    while True:
        name = ("k%d=value" % len(items)) if kind == "dict" else "value"
        line = " " * indent + open_ + sep.join(items + [name]) + close
        if len(line) > width:
            break
        items.append(name)
    line = " " * indent + open_ + sep.join(items) + close
    pad = width - len(line)
    if pad > 0 and items:
        last = items[-1]
        items[-1] = (last + "_" * pad) if kind != "dict" else last.replace("=value", "=value" + "_" * pad)
        line = " " * indent + open_ + sep.join(items) + close
    return line.strip()


def bracket_width_family():
    """bracketed lines of exactly 55..70 columns at indent 4 / 8 / 12 (one module per kind and indent)"""
    out = []
    for kind in ("call", "list", "dict", "binop", "cond"):
        for indent in (4, 8, 12):
            lines = ["def report(value, flag):"]
            pre = {4: [], 8: ["    if flag:"], 12: ["    for _ in range(2):", "        if flag:"]}[indent]
            lines += pre
            names = set()
            for w in range(55, 71):
                st = _pad_call("", w, indent, kind)
                lines.append(" " * indent + st)
                if kind == "cond":
                    lines.append(" " * (indent + 4) + "print(value)")
                names |= {t for t in __import__("re").findall(r"value_+", st)}
            src = "\n".join(lines) + "\n    return value\n\n\nprint(report(1, True))\n"
            for nm in sorted(names):
                src = src.replace("def report(value, flag):", "def report(value, flag):\n    %s = value" % nm, 1) \
                    if ("=" + nm) not in src and kind != "dict" else src
            if valid(src):
                out.append((f"{kind}/indent{indent}", src))
    return out


def aggregate_family():
    """aggregates over comprehensions with literal / empty / range iterables (the sympy rules), and loops
    over dict views whose receiver is a call (templates compiled from nodes of the tree); found by C01's sweep"""
    out = []
    iters = ["[]", "()", "[1, 2]", "(1, 2, 3)", "{1, 2}", "range(4)", "range(n)", "range(2, n, 3)", "xs", "[[]]", "''"]
    elts = ["3", "z", "z * 2", "z + n", "1 / z"]
    for agg in ("sum", "len", "max", "any", "sorted", "list"):
        for it in iters:
            for e in elts[: (5 if agg == "sum" else 2)]:
                out.append(f"import sys\nn = len(sys.argv)\nxs = sys.argv\nprint({agg}([{e} for z in {it}]))\n")
    out += [f"import sys\nn = len(sys.argv)\nprint(sum({e} for z in {it} for w in {it2}))\n"
            for e in ("3", "z * w") for it in iters[:6] for it2 in ("[]", "range(3)")]
    recv = ["d", "dict(zip(g, g))", "make()", "obj.table", "{**d}"]
    views = [".keys()", ".items()", ".values()", ""]
    bodies = ["pass", "print(k)", "print({R}[k])", "print(k, {R}[k])", "{R}[k] = 1", "out.append({R}[k])"]
    for r in recv:
        for v in views:
            for b in bodies:
                tgt = "k, v" if v == ".items()" else "k"
                src = ("import sys\ng = sys.argv\nd = dict(zip(g, g))\nout = []\n\n\ndef make():\n    return d\n\n\n"
                       f"class O:\n    table = d\n\n\nobj = O()\nfor {tgt} in {r}{v}:\n    {b.replace('{R}', r)}\nprint(out, make, obj)\n")
                out.append(src)
    out.append("def f(x, y):\n    items = []\n    items.append(x + y)\n    return items\n\n\ng_xs = [1, 2]\n"
               "for k in dict(zip(g_xs, g_xs)).keys():\n    pass\nprint(f(1, 2))\n")
    return [s for s in dict.fromkeys(out) if valid(s)]


def tiny_family():
    """every string of length <= 2 over a small alphabet, plus a few 3-character ones: index arithmetic on
    the ends of the source (source[-1], source[:-1], ...) must not assume a minimum length"""
    alpha = ["x", "1", " ", "\n", "\r", "\t", "#", "(", '"', ":", "\\", "é"]
    out = [""] + alpha + [a + b for a in alpha for b in alpha] + ["x\n\n", "\n\nx", "x\r\n", "  x", "x  ", "\n \n"]
    return list(dict.fromkeys(out))


def small_function_family():
    """an enumerated family of small functions: two blocks per body over if/else, loops, returns,
    assignments and calls (all used, so little is deleted)"""
    blocks = [
        "x = a + 1", "print(a)", "return a", "if a:\n    return 1\nelse:\n    return 2", "if a:\n    x = 1\nelse:\n    x = 2",
        "for i in range(a):\n    print(i)", "for i in range(a):\n    if i:\n        continue\n    print(i)",
        "while a:\n    a -= 1", "out = []\nfor i in range(a):\n    out.append(i)", "if a:\n    print(1)\n    print(3)\nelse:\n    print(2)\n    print(3)",
        "if not a:\n    pass\nelse:\n    print(a)", "x = []\nx.append(a)", "if a == True:\n    print(a)", "y = [i for i in [j for j in range(a)]]",
        "with open(a) as f:\n    print(f)", "try:\n    print(a)\nexcept Exception:\n    raise ValueError(a)", "raise ValueError(a)",
        "if a > 1 and a > 2:\n    print(a)", "x = 0\nfor i in range(a):\n    x += i", "if a:\n    if b:\n        print(a, b)",
    ]
    tails = ["", "return x", "print(x)"]
    out = []
    for b1, b2 in itertools.product(blocks, repeat=2):
        for tail in tails:
            body = "\n".join(x for x in (b1, b2, tail) if x)
            src = "def f(a, b):\n" + textwrap.indent(body, "    ") + "\n\n\nprint(f(1, 2))\n"
            out.append(src)
    return out


import warnings as _warnings
_warnings.filterwarnings("ignore", category=SyntaxWarning)


def repo_examples(repo: Path) -> list[str]:
    """string constants of the repository's own example scripts that are valid modules (inputs and
    expected outputs of ~90 rule tests + the integration cases); harvested statically at run time"""
    out, seen = [], set()
    files = sorted((repo / "tests" / "unit").glob("test_*.py")) + \
        sorted((repo / "tests" / "integration").glob("*.py"))
    for f in files:
        try:
            tree = ast.parse(f.read_text())
        except SyntaxError:
            continue
        for node in ast.walk(tree):
            if isinstance(node, ast.Constant) and isinstance(node.value, str) and "\n" in node.value \
                    and len(node.value) < 3000:
                src = textwrap.dedent(node.value).strip("\n") + "\n"
                if src in seen or not src.strip():
                    continue
                try:
                    ast.parse(src)
                except (SyntaxError, ValueError):
                    continue
                seen.add(src)
                out.append(src)
    return out


def valid(src: str) -> bool:
    try:
        ast.parse(src)
        return True
    except (SyntaxError, ValueError):
        return False
    except RecursionError:
        return False


def build_corpus(tier: str) -> dict[str, list[str]]:
    fam = {}
    fam["constructs"] = list(CONSTRUCTS_312) + \
        ["def wrap(a, b, c, d, p, q, x, y, z, w):\n" + textwrap.indent(c, "    ") + "    return locals()\n\n\nprint(wrap)\n"
         for c in CONSTRUCTS_312 if valid("def wrap():\n" + textwrap.indent(c, "    "))]
    fam["constants"] = [ctx.format(c=c) for c in ADVERSARIAL_CONSTANTS for ctx in CONSTANT_CONTEXTS]
    fam["eof"] = [s for st in EOF_STATEMENTS for s in (st, st + "\n", "import sys\nprint(sys.argv)\n" + st)]
    fam["invalid"] = list(INVALID_INPUTS)
    fam["indented"] = list(INDENTED_FRAGMENTS)
    fam["tabs"] = list(MIXED_TABS)
    fam["functions"] = small_function_family()
    fam["repo"] = repo_examples(common.REPO)
    fam["blank_runs"] = blank_run_family()
    fam["imports"] = import_family()
    fam["resources"] = resource_family()
    fam["aggregates"] = aggregate_family()
    fam["tiny"] = tiny_family()
    from . import drv_hunt as dh          # round-4 families (hunt reports, seeds C03-c C04-c C09-c)
    fam["first_statement"] = dh.first_statement_family()
    fam["decorated_constant"] = dh.decorated_constant_family()
    fam["oneline_compound"] = dh.oneline_compound_family()
    fam["compile_only"] = dh.compile_only_family()
    fam["unorderable"] = dh.unorderable_family()
    fam["alias_chains"] = dh.alias_chain_family()
    # round 5: type confusion between constants (seed C04-d), backslash continuations onto blank lines
    fam["hetero_bounds"] = [s for _, s in dh.hetero_bound_family(tier)]
    fam["type_confusion"] = dh.type_confusion_family()
    fam["continuations"] = [s for _, s in dh.continuation_family()]
    if tier == "quick":
        fam["functions"] = fam["functions"][::5]
    return fam


OPTION_COMBOS = [dict(safe=s, keep_imports=k, preserve=p)
                 for s in (False, True) for k in (False, True) for p in ((), ("f", "x", "wrap"))]


# ------------------------------------------------------------------------------------------------
# isolated workers


def _site_of(tb_list) -> tuple[str, str, list[str]]:
    """(stage, innermost pyrefact function, frame names) from a traceback"""
    frames = [(Path(f.filename).name, f.name) for f in tb_list]
    pyre = [(fn, name) for fn, name in frames if "pyrefact" in str(Path(tb_list[frames.index((fn, name))].filename))]
    stage = ""
    for i, (fn, name) in enumerate(frames):
        if name in ("_multi_run_fixes", "format_code") and fn == "main.py":
            for fn2, name2 in frames[i + 1:]:
                if name2 not in ("wrapper", "func_chain", "_schedule_rewrites", "_multi_run_fixes", "_format_code", "fill_transaction", "<genexpr>"):
                    stage = f"{fn2[:-3]}.{name2}"
                    break
    inner = f"{pyre[-1][0][:-3]}.{pyre[-1][1]}" if pyre else ""
    return stage, inner, [n for _, n in frames]


_RULE_DEFAULTS = {"preserve": frozenset(), "root_is_static": True, "max_line_length": 100}


class _Timeout(Exception):
    pass


def _alarm(signum, frame):
    raise _Timeout()


def _worker_main(conn, repo: str):
    sys.stdin = open(os.devnull)
    devnull = open(os.devnull, "w")
    sys.stdout = devnull
    sys.stderr = devnull
    os.nice(5)
    sys.setrecursionlimit(3000)
    import warnings
    warnings.simplefilter("ignore")
    mods = common.import_impl()
    main, core = mods["main"], mods["core"]
    signal.signal(signal.SIGALRM, _alarm)
    while True:
        try:
            job = conn.recv()
        except EOFError:
            return
        if job is None:
            return
        jid, src, opts, iters, tmo = job
        res = {"id": jid, "outs": [], "error": None, "timeout": False}
        cur = src
        t0 = time.time()
        try:
            signal.setitimer(signal.ITIMER_REAL, tmo)
            if isinstance(opts, str) and isinstance(src, (list, tuple)):
                # a batch of sources for one rule (calls of ~1 ms each: one pipe round trip per call would dominate);
                # res["batch"][k] = None (returned a string) | error record | {"invalid_out": text} when `iters` == 2
                # asks for the compile() oracle on the result; a timeout is that of source number len(res["batch"])
                m, a = opts.split(".")
                fn = getattr(__import__("rmspace"), a) if m == "rmspace" else getattr(mods[m], a)
                import inspect
                kw = {pn: _RULE_DEFAULTS[pn] for pn, pp in inspect.signature(fn).parameters.items()
                      if pp.default is inspect.Parameter.empty and pn in _RULE_DEFAULTS}
                res["batch"] = []
                for one in src:
                    cur = one
                    core.parse.cache_clear()
                    try:
                        nxt = fn(one, **kw)
                        bad = None
                        if iters == 2 and isinstance(nxt, str) and nxt != one:
                            from . import drv_hunt as _dh
                            if not _dh.compiles(nxt) and _dh.compiles(one):
                                bad = {"invalid_out": nxt}
                        res["batch"].append(bad)
                    except _Timeout:
                        raise
                    except BaseException as e:  # noqa
                        stage, inner, frames = _site_of(traceback.extract_tb(e.__traceback__))
                        res["batch"].append({"type": type(e).__name__, "msg": str(e)[:200], "stage": stage, "inner": inner,
                                             "frames": frames[-8:], "iteration": 0, "input": one})
            elif isinstance(opts, str):          # a single rule / stage function: opts = "module.function"
                m, a = opts.split(".")
                fn = getattr(__import__("rmspace"), a) if m == "rmspace" else getattr(mods[m], a)
                core.parse.cache_clear()
                import inspect
                kw = {}
                for pn, pp in inspect.signature(fn).parameters.items():
                    if pp.default is inspect.Parameter.empty and pn in _RULE_DEFAULTS:
                        kw[pn] = _RULE_DEFAULTS[pn]
                nxt = fn(cur, **kw)
                res["outs"].append(nxt if isinstance(nxt, str) else repr(type(nxt)))
            else:
                for _ in range(iters):
                    core.parse.cache_clear()
                    kw = {"max_line_length": opts["max_line_length"]} if opts.get("max_line_length") else {}
                    nxt = main.format_code(cur, safe=opts["safe"], keep_imports=opts["keep_imports"],
                                           preserve=frozenset(opts["preserve"]), **kw)
                    if not isinstance(nxt, str):
                        raise TypeError(f"format_code returned {type(nxt).__name__}")
                    res["outs"].append(nxt)
                    if nxt == cur and len(res["outs"]) >= 2:
                        break
                    cur = nxt
            if not isinstance(opts, str) and opts.get("repeat"):
                # call history: the same text again, later in the same process (after the first sequence)
                res["outs2"] = []
                cur = src
                for _ in range(iters):
                    kw = {"max_line_length": opts["max_line_length"]} if opts.get("max_line_length") else {}
                    nxt = main.format_code(cur, safe=opts["safe"], keep_imports=opts["keep_imports"],
                                           preserve=frozenset(opts["preserve"]), **kw)
                    res["outs2"].append(nxt)
                    if nxt == cur and len(res["outs2"]) >= 2:
                        break
                    cur = nxt
            signal.setitimer(signal.ITIMER_REAL, 0)
        except _Timeout:
            res["timeout"] = True
        except BaseException as e:  # noqa  (SystemExit from literal_value('exit()') included)
            signal.setitimer(signal.ITIMER_REAL, 0)
            stage, inner, frames = _site_of(traceback.extract_tb(e.__traceback__))
            res["error"] = {"type": type(e).__name__, "msg": str(e)[:200], "stage": stage, "inner": inner,
                            "frames": frames[-8:], "iteration": len(res["outs"]), "input": cur}
        finally:
            signal.setitimer(signal.ITIMER_REAL, 0)
        res["wall"] = round(time.time() - t0, 3)
        conn.send(res)


class Workers:
    """N forked workers; a worker that does not answer within the hard limit is killed and
    replaced (its job is reported as a timeout)."""

    def __init__(self, n: int):
        self.n = n
        self.ctx = mp.get_context("fork")
        self.slots = [self._spawn() for _ in range(n)]

    def _spawn(self):
        a, b = self.ctx.Pipe()
        p = self.ctx.Process(target=_worker_main, args=(b, str(common.REPO)), daemon=True)
        p.start()
        b.close()
        return {"proc": p, "conn": a, "job": None, "t0": 0.0}

    def run(self, jobs: list[tuple], soft: float, hard: float, deadline: float | None = None) -> dict:
        """jobs: (id, src, opts, iters).  returns {id: result}; jobs not started before `deadline`
        are reported as skipped."""
        from multiprocessing.connection import wait
        results = {}
        pending = list(reversed(jobs))
        busy = 0
        while pending or busy:
            for k, sl in enumerate(self.slots):
                if sl["job"] is None and pending:
                    if deadline is not None and time.time() > deadline:
                        for j in pending:
                            results[j[0]] = {"id": j[0], "skipped": True, "outs": [], "error": None, "timeout": False}
                        pending = []
                        break
                    j = pending.pop()
                    sl["conn"].send((j[0], j[1], j[2], j[3], soft))
                    sl["job"], sl["t0"] = j, time.time()
                    busy += 1
            if not busy:
                break
            ready = wait([sl["conn"] for sl in self.slots if sl["job"] is not None], timeout=1.0)
            for k, sl in enumerate(self.slots):
                if sl["job"] is None:
                    continue
                if sl["conn"] in ready:
                    try:
                        r = sl["conn"].recv()
                        results[r["id"]] = r
                    except (EOFError, OSError):
                        results[sl["job"][0]] = {"id": sl["job"][0], "outs": [], "timeout": False,
                                                 "error": {"type": "WorkerDied", "msg": "worker process died",
                                                           "stage": "", "inner": "", "frames": [], "iteration": 0,
                                                           "input": sl["job"][1]}}
                        self._replace(k)
                    sl = self.slots[k]
                    sl["job"] = None
                    busy -= 1
                elif time.time() - sl["t0"] > hard:
                    results[sl["job"][0]] = {"id": sl["job"][0], "outs": [], "error": None, "timeout": True, "hard": True}
                    self._replace(k)
                    busy -= 1
        return results

    def _replace(self, k):
        sl = self.slots[k]
        try:
            sl["proc"].kill()
            sl["conn"].close()
        except Exception:  # noqa
            pass
        self.slots[k] = self._spawn()

    def close(self):
        for sl in self.slots:
            try:
                sl["conn"].send(None)
            except Exception:  # noqa
                pass
        for sl in self.slots:
            sl["proc"].join(timeout=2)
            if sl["proc"].is_alive():
                sl["proc"].kill()


# ------------------------------------------------------------------------------------------------
# pipeline bisection: first stage of format_code whose output violates `pred` while its input did not


def first_bad_stage(mods, source: str, opts: dict, pred) -> str | None:
    """Re-runs the real format_code with every stage attribute wrapped by a pass-through tracer and
    returns 'module.function' of the first stage with pred(input) and not pred(output)."""
    from . import drv
    names = sorted(set(n for n, _ in drv.multi_shape(mods)) |
                   {n for n in drv.format_code_stage_attrs(mods) if n not in drv.NOT_STAGES} |
                   {"abstractions.overused_constant"})
    saved, found = [], []

    def wrap(name, fn):
        def w(src, *a, **k):
            out = fn(src, *a, **k)
            o = out[0] if isinstance(out, tuple) else out
            s_in = a[0] if name == "processing.minimize_whitespace_line_differences" and a else src
            if not found and isinstance(o, str) and pred(s_in) and not pred(o):
                found.append(name)
            return out
        for attr in ("_fix_func",):
            if hasattr(fn, attr):
                setattr(w, attr, getattr(fn, attr))
        w.__name__ = getattr(fn, "__name__", name)
        return w
    main = mods["main"]
    try:
        for n in names:
            m, a = n.split(".")
            if m in ("rmspace", "textwrap"):
                continue
            obj = mods[m]
            saved.append((obj, a, getattr(obj, a)))
            setattr(obj, a, wrap(n, getattr(obj, a)))
        import types
        real_rm, real_tw = main.rmspace, main.textwrap
        saved.append((main, "rmspace", real_rm))
        saved.append((main, "textwrap", real_tw))
        main.rmspace = types.SimpleNamespace(format_str=wrap("rmspace.format_str", real_rm.format_str))
        main.textwrap = types.SimpleNamespace(dedent=wrap("textwrap.dedent", real_tw.dedent),
                                              indent=wrap("textwrap.indent", real_tw.indent))
        if pred(source) and not pred(source.expandtabs(4)):
            found.append("str.expandtabs")
        mods["core"].parse.cache_clear()
        try:
            with common.quiet():
                main.format_code(source, safe=opts["safe"], keep_imports=opts["keep_imports"],
                                 preserve=frozenset(opts["preserve"]))
        except Exception:  # noqa
            pass
    finally:
        for obj, a, old in reversed(saved):
            setattr(obj, a, old)
    return found[0] if found else None
