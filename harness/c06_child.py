"""Child process of the C06 determinism sweeps.  Run as a script in a FRESH interpreter whose PYTHONHASHSEED
is chosen by the parent (never pinned here):

    python c06_child.py <job.json> <out.json>

job = {"repo": path, "junk": n, "mode": "code"|"files", ...}
  mode "code":  {"format": [source...], "rules": [[qualified rule name, source, args(json), kwargs(json)]...]}
                -> {"format": [result...], "rules": [result...]}   (result = text or "EXC:<type>")
  mode "files": {"root": dir, "files": [relative paths in the order to pass], "n_cores": n, "max_passes": p,
                 "safe": bool, "sequential": bool}
                -> {"ret": return value, "tree": {relative path: text}}
"""
import importlib
import json
import os
import sys


def _dec(o):
    if isinstance(o, list):
        return [_dec(x) for x in o]
    if isinstance(o, dict):
        if "__frozenset__" in o:
            return frozenset(_dec(x) for x in o["__frozenset__"])
        if "__set__" in o:
            return set(_dec(x) for x in o["__set__"])
        if "__tuple__" in o:
            return tuple(_dec(x) for x in o["__tuple__"])
        if "__dict__" in o:
            return {_dec(k): _dec(v) for k, v in o["__dict__"]}
    return o


def main():
    job = json.load(open(sys.argv[1]))
    sys.path.insert(0, job["repo"])
    devnull = os.open(os.devnull, os.O_WRONLY)
    os.dup2(devnull, 1)
    os.dup2(devnull, 2)
    # perturb the heap so that object addresses (hence the iteration order of sets of ast nodes) differ
    import random
    jr = random.Random(int(job.get("junk", 0)))
    junk = [[bytes(size) + b"" for _ in range(jr.randint(0, 40))] for size in range(0, 520, 8)]
    junk2 = [object() for _ in range(jr.randint(0, 2000))] + [{} for _ in range(jr.randint(0, 60))]
    # blocks above the pymalloc threshold, allocated BEFORE `ast` creates its node types: the addresses of the
    # type objects (hence the iteration order of a set of node types) move too
    junk3 = [bytearray(jr.randint(600, 6000)) for _ in range(jr.randint(0, 400))]
    del junk3[::2]
    import pyrefact  # noqa
    from pyrefact import logs
    logs.set_level(100)
    mainmod = importlib.import_module("pyrefact.main")
    assert os.path.realpath(pyrefact.__file__).startswith(os.path.realpath(job["repo"])), pyrefact.__file__
    out = {"hashseed": os.environ.get("PYTHONHASHSEED"), "junk": len(junk) + len(junk2)}
    if job["mode"] == "code":
        res = []
        for src in job.get("format", []):
            try:
                res.append(mainmod.format_code(src))
            except Exception as e:  # noqa
                res.append("EXC:" + type(e).__name__)
        out["format"] = res
        res = []
        for (q, src, a, k) in job.get("rules", []):
            mname, attr = q.split(".", 1)
            fn = getattr(importlib.import_module("pyrefact." + mname), attr)
            try:
                r = fn(src, *_dec(a), **_dec(k))
                res.append(r if isinstance(r, str) else repr(sorted(r) if isinstance(r, (set, frozenset)) else r))
            except Exception as e:  # noqa
                res.append("EXC:" + type(e).__name__)
        out["rules"] = res
    else:
        from pathlib import Path
        root = Path(job["root"])
        files = [root / f for f in job["files"]]
        if job.get("sequential"):
            # reference: one file after the other, in the given order, same pass structure as one pass
            ret = False
            for f in files:
                try:
                    ret = bool(mainmod.format_file(f, frozenset(), job.get("safe", False))) or ret
                except Exception as e:  # noqa
                    ret = "EXC:" + type(e).__name__
                    break
        else:
            try:
                ret = mainmod.format_files(files, n_cores=job["n_cores"], max_passes=job["max_passes"],
                                           safe=job.get("safe", False))
            except Exception as e:  # noqa   (one file that cannot be formatted: what happened to the OTHER files?)
                ret = "EXC:" + type(e).__name__
        out["ret"] = ret if isinstance(ret, str) else bool(ret)
        out["tree"] = {str(p.relative_to(root)): p.read_bytes().decode("latin-1") for p in sorted(root.rglob("*.py"))}
    with open(sys.argv[2], "w") as fh:
        json.dump(out, fh)


if __name__ == "__main__":
    try:
        main()
    except BaseException as e:  # noqa
        import traceback
        with open(sys.argv[2], "w") as fh:
            json.dump({"error": f"{type(e).__name__}: {e}", "traceback": traceback.format_exc()[-2000:]}, fh)
