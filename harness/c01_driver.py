"""C01 driver correspondence: the REAL main.format_code with every stage replaced by a scripted fake over a small abstract
universe of texts, against PipelineModel.format_code_traced evaluated in Coq on the same script.

Compared per case: the returned text, the full sequence of stage applications (as model kinds; the list of callees of
_multi_run_fixes is read from the running code, so reordering rules inside it is not a disagreement) and the context the
stages were called with (preserve set, minimum_indent, max_line_length, original_source)."""
from __future__ import annotations

import itertools
import re
from pathlib import Path

from . import common, c01_trace
from .common import gbool, glist

# universe: every base text once terminated (id i) and once without its final LF (id NB + i).
# bases: 0-3 main texts with a module surface, 4 blank, 5 skip_file, 6.. a long chain of surface-free texts
CORE = ["A=1", "B=1", "def C():0", "D=1", "", "#pyrefact:skip_file"]
NCHAIN = 34
BASES = CORE + [f"N{i}" for i in range(NCHAIN)]
NB = len(BASES)
U = [b + "\n" for b in BASES] + BASES
NU = len(U)
UID = {t: i for i, t in enumerate(U)}
BITS = {"A": 1, "B": 2, "C": 4, "D": 8}
SURFACE = {0: 1, 1: 2, 2: 4, 3: 8, NB: 1, NB + 1: 2, NB + 2: 4, NB + 3: 8}   # independent reading of the safe-mode surface
# the wrapper main.format_code (repair 9438482), read independently on the universe
NEEDS_NL = [i for i, t in enumerate(U) if t and t[-1] not in "\r\n"]
ADD_NL = {i: UID[U[i] + "\n"] for i in NEEDS_NL}
STRIP_NL = {i: UID[t[:-1]] for i, t in enumerate(U) if t.endswith("\n")}
SKIP_RE = re.compile(r"#\s*pyrefact\s*:\s*skip_file")     # main.py:167
IS_SKIP = [i for i, t in enumerate(U) if SKIP_RE.search(t)]
IS_BLANK = [i for i, t in enumerate(U) if not t.strip()]  # main.py:174

FIXED_KINDS = {
    "str.expandtabs": "KExpandTabs", "rmspace.format_str": "KRmspace", "fixes.fix_too_many_blank_lines": "KBlankLines",
    "textwrap.dedent": "KDedent", "fixes.add_missing_imports": "KAddImports",
    "processing.chain[deinterpolate_logging_args,invalid_escape_sequence]": "(KSingleRun true)",
    "processing.chain[deinterpolate_logging_args,invalid_escape_sequence,fix_starred_imports,fix_reimported_names]": "(KSingleRun false)",
    "abstractions.overused_constant": "KOverused", "fixes.simplify_assign_immediate_return": "KSimplifyAssign",
    "fixes.align_variable_names_with_convention": "KAlign", "fixes.remove_unused_imports": "KRemoveUnused",
    "fixes.sort_imports": "KSortImports", "fixes.fix_line_lengths": "KLineLengths", "textwrap.indent": "KIndent",
    "processing.minimize_whitespace_line_differences": "KMinWs",
}
TOP_STAGES = [n for n in FIXED_KINDS if not n.startswith("processing.chain")]


def mask(preserve) -> int:
    m = 0
    for n in preserve:
        m |= BITS.get(n, 16)
    return m


def unmask(m: int) -> frozenset:
    return frozenset(n for n, b in BITS.items() if m & b)


class Case:
    def __init__(self, safe, keep, p0, maxlen, inp, script=None, invalid=(), level=None, fam=""):
        self.safe, self.keep, self.p0, self.maxlen, self.inp = safe, keep, p0, maxlen, inp
        self.script = script or {}          # stage name -> {text id: text id}  or  ("P", {(mask, text id): text id})
        self.invalid = list(invalid)
        self.level = level or {}
        self.fam = fam
        self.result = self.trace = self.ctx = None
        self.problems: list[str] = []
        self.names: list[str] = []

    def key(self):
        return (self.safe, self.keep, self.p0, self.maxlen, self.inp, repr(sorted(self.script.items(), key=str)),
                tuple(self.invalid), tuple(sorted(self.level.items())))


def run_real(mods, case: Case):
    """One real format_code call with scripted stages.  Fills case.result / trace / ctx / names / problems."""
    trace, names = [], {}
    seen_preserve, seen = set(), {}

    def out_text(name, kwargs, tid):
        sc = case.script.get(name)
        if sc is None:
            return tid
        if isinstance(sc, tuple):
            m = mask(kwargs["preserve"]) if "preserve" in kwargs else 0
            return sc[1].get((m, tid), tid)
        return sc.get(tid, tid)

    def handler(tr, name, fn, args, kwargs):
        is_min = name == "processing.minimize_whitespace_line_differences"
        text = args[1] if is_min else args[0]
        tid = UID.get(str(text))
        if tid is None:
            case.problems.append(f"stage {name} received a text outside the universe: {text!r}")
            tid = 0
        if tr.in_multi:
            kind = f"(KMulti {tr.multi_idx})"
            if names.setdefault(tr.multi_idx, name) != name:
                case.problems.append(f"_multi_run_fixes call #{tr.multi_idx} is {name} here but {names[tr.multi_idx]} in another pass")
        else:
            kind = FIXED_KINDS.get(name)
            if kind is None:
                case.problems.append(f"unknown top-level stage {name}")
                kind = "KMinWs"
        trace.append(kind)
        if "preserve" in kwargs:
            seen_preserve.add(mask(kwargs["preserve"]))
        if name == "abstractions.overused_constant":
            seen["static"] = kwargs.get("root_is_static")
        if name == "fixes.fix_line_lengths":
            seen["maxlen"] = kwargs.get("max_line_length")
        if name == "textwrap.indent":
            seen["indent"] = len(args[1]) if len(args) > 1 and set(args[1]) <= {" "} else 999
        if is_min:
            seen["orig"] = UID.get(str(args[0]), 999)
        r = U[out_text(name, kwargs, tid)]
        return (r, 0) if is_min else r

    overrides = {("core", "is_valid_python"): lambda s: UID.get(str(s), -1) not in case.invalid,
                 ("formatting", "indentation_level"): lambda s: case.level.get(UID.get(str(s), -1), 0)}
    tr = c01_trace.Tracer(mods, handler, overrides)
    c01_trace.clear_caches(mods)
    with tr:
        try:
            with common.quiet():
                res = tr.format_code(U[case.inp], preserve=unmask(case.p0), safe=case.safe,
                                     keep_imports=case.keep, max_line_length=case.maxlen)
            case.result = UID.get(str(res), 999)
        except Exception as e:  # noqa
            case.problems.append(f"format_code raised {type(e).__name__}: {e}")
            case.result = 999
    if len(set(tr.multi_counts)) > 1:
        case.problems.append(f"_multi_run_fixes made a varying number of calls: {sorted(set(tr.multi_counts))}")
    case.names = [names[i] for i in sorted(names)]
    case.trace = trace
    if "orig" in seen:
        ind = seen.get("indent", 0)
        if seen.get("static") is not (ind == 0):
            ind = 998
        pm = seen_preserve.pop() if len(seen_preserve) == 1 else 997
        case.ctx = [pm, ind, seen.get("maxlen", 996), seen["orig"]]
    else:
        case.ctx = []
    return case


def g_pairs(d: dict) -> str:
    return glist([f"({k}, {v})" for k, v in sorted(d.items())])


def compress(trace, n):
    full = [f"(KMulti {i})" for i in range(n)]
    out, i = [], 0
    while i < len(trace):
        if n and trace[i:i + n] == full:
            out.append("TPass")
            i += n
        else:
            out.append(f"(TK {trace[i]})")
            i += 1
    return out


def g_case(case: Case, names: list[str], max_passes: int) -> str:
    entries = []
    idx_of = {}
    for i, n in enumerate(names):
        idx_of.setdefault(n, []).append(i)
    for name, sc in case.script.items():
        if isinstance(sc, tuple):
            body = f"(true, {g_pairs({m * NU + t: v for (m, t), v in sc[1].items()})})"
        else:
            body = f"(false, {g_pairs(sc)})"
        kinds = [FIXED_KINDS[name]] if name in FIXED_KINDS else [f"(KMulti {i})" for i in idx_of.get(name, [])]
        if name == "fixes.fix_too_many_blank_lines":          # called in the pre-pass AND inside _multi_run_fixes
            kinds = ["KBlankLines"] + [f"(KMulti {i})" for i in idx_of.get(name, [])]
        for k in kinds:
            entries.append(f"({k}, {body})")
    return (f"(mkPCase {NU} {len(names)} {max_passes} {gbool(case.safe)} {gbool(case.keep)} {case.p0} {case.maxlen} {case.inp} "
            f"{glist(entries)} {glist(IS_SKIP)} {glist(IS_BLANK)} {glist(case.invalid)} {g_pairs(case.level)} {g_pairs(SURFACE)} "
            f"{glist(NEEDS_NL)} {g_pairs(ADD_NL)} {g_pairs(STRIP_NL)} "
            f"{case.result} {glist(compress(case.trace, len(names)))} {glist(case.ctx)})")


def write_case_file(p: Path, cases, names, max_passes):
    p.write_text("From Coq Require Import List Arith Bool.\nImport ListNotations.\n"
                 "Require Import Pyrefact.Base Pyrefact.PipelineModel.\n"
                 "Definition cases : list pcase := [\n " + ";\n ".join(g_case(c, names, max_passes) for c in cases) + "\n].\n"
                 "Eval vm_compute in (bad_idx pcase_ok cases).\n")


# ------------------------------------------------------------------------------------------------
# case families


def probe(mods):
    c = run_real(mods, Case(False, False, 0, 100, 0, fam="probe"))
    return c


def exhaustive_cases(names, stride=1, offset=0):
    """All f : {0..3} -> {0..3} for the multi-run phase x 3 scripted variants of the other stages x the 8 combinations
    safe / keep_imports / indented input."""
    preserve_rules = []  # filled by caller through names_with_preserve; kept simple here
    k = 0
    for safe, keep, indented in itertools.product((False, True), repeat=3):
        for fi, f in enumerate(itertools.product(range(4), repeat=4)):
            for v in range(3):
                k += 1
                if (k + offset) % stride:
                    continue
                script = {}
                fmap = {i: f[i] for i in range(4) if f[i] != i}
                rule = names[(fi * 7 + v * 13) % len(names)]
                if fmap:
                    script[rule] = fmap
                if v == 1:
                    script["abstractions.overused_constant"] = {i: (i + 1) % 4 for i in range(4)}
                    ch = [n for n in FIXED_KINDS if n.startswith("processing.chain")][1 if not keep else 0]
                    script[ch] = {0: 1}
                if v == 2:
                    script["abstractions.overused_constant"] = {1: 0, 2: 0, 3: 0}
                    script["fixes.simplify_assign_immediate_return"] = {2: 3, 3: 2}
                    script["fixes.sort_imports"] = {0: 2}
                invalid, level, inp = [], {}, (fi + v) % 4
                if indented:
                    inp = 0
                    invalid = [0]
                    level = {0: 0 if v == 2 else 4}
                    script["textwrap.dedent"] = {0: 1 + fi % 3}
                    script["textwrap.indent"] = {1: 0, 2: 0, 3: 0}
                if (fi + v) % 3 == 1 and not indented:
                    inp += NB                                   # the same text without its final LF: the wrapper terminates it
                if fi % 5 == 2:
                    script["processing.minimize_whitespace_line_differences"] = {1: NB + 1, 2: NB + 2}   # unterminated result
                yield Case(safe, keep, 1 if v == 1 else 0, 60 if v == 2 else 100, inp, script, invalid, level, "exhaustive")


def special_cases(names):
    out = []
    for safe, keep in itertools.product((False, True), repeat=2):
        mk = lambda *a, **k: out.append(Case(safe, keep, 0, 100, *a, fam="special", **k))
        mk(NB + 5)                                                             # skip_file, unterminated: comes back unterminated
        mk(NB + 5, {"rmspace.format_str": {5: 0}})
        mk(NB + 4)                                                             # the empty text: the wrapper does not terminate it
        mk(NB + 0)                                                             # unterminated input, all stages identity
        mk(NB + 0, {"fixes.sort_imports": {0: NB + 1}})                         # unterminated result: nothing to strip
        mk(NB + 0, {"fixes.sort_imports": {0: 4}})                              # result is a lone LF: stripped to the empty text
        mk(NB + 2, {"str.expandtabs": {2: 4}})                                  # blank early return through the wrapper
        mk(NB + 1, {}, invalid=[1])                                            # invalid early return through the wrapper
        mk(NB + 1, {"textwrap.dedent": {1: NB + 3}}, invalid=[1, NB + 3], level={1: 2})
        mk(4)                                                                  # a lone LF (terminated blank)
        mk(5)                                                                  # skip_file
        mk(5, {"rmspace.format_str": {5: 0}})                                   # ... whatever the stages would do
        mk(4)                                                                  # blank input
        mk(0, {"str.expandtabs": {0: 4}})                                       # blank after expandtabs
        mk(0, {"rmspace.format_str": {0: 4}})
        mk(0, {"fixes.fix_too_many_blank_lines": {0: 4}})
        mk(4, {"rmspace.format_str": {4: 1}})                                   # blank input made non-blank by a pre-pass
        mk(0, {"str.expandtabs": {0: 5}})                                       # a pre-pass produces a skip comment: no skip
        mk(0, {}, invalid=[0])                                                 # invalid, dedent does not help
        mk(0, {"textwrap.dedent": {0: 1}}, invalid=[0, 1], level={0: 2})
        mk(0, {"textwrap.dedent": {0: 1}}, invalid=[0], level={0: 2})
        mk(0, {"textwrap.dedent": {0: 1}}, invalid=[0], level={0: 0})           # invalid with an unindented line
        mk(0, {"textwrap.dedent": {0: 1}, "fixes.add_missing_imports": {1: 2}}, invalid=[0, 2], level={0: 3})
        mk(1, {"fixes.add_missing_imports": {1: 2, 2: 3}})                      # runs twice at top level
        mk(1, {"fixes.remove_unused_imports": {1: 2}, "fixes.align_variable_names_with_convention": {1: 1}})
        mk(1, {"rmspace.format_str": {1: 2, 2: 3}})                             # rmspace runs in the pre-pass and at the end
        mk(2, {"fixes.fix_too_many_blank_lines": {2: 3, 3: 0, 0: 1}})            # pre-pass + last rule of every pass
        mk(3, {"processing.minimize_whitespace_line_differences": {3: 0}})
        mk(3, {"fixes.fix_line_lengths": {3: 1}, "fixes.sort_imports": {3: 3}})
        # preserve-dependent rules (every rule that is handed `preserve`)
        for p0 in (0, 1, 9):
            for rule in ("fixes.undefine_unused_variables", "fixes.delete_unused_functions_and_classes",
                         "object_oriented.move_staticmethod_static_scope", "fixes.remove_duplicate_functions",
                         "fixes.align_variable_names_with_convention"):
                table = {(m, t): (t + 1 + bin(m).count("1")) % 4 for m in range(16) for t in range(4)}
                out.append(Case(safe, keep, p0, 100, 0, {rule: ("P", table)}, fam="special"))
                out.append(Case(safe, keep, p0, 100, 2, {rule: ("P", table), "abstractions.overused_constant": {0: 3, 1: 3}}, fam="special"))
        # long chains: the pass bound is reached; the second loop runs / is skipped
        c0 = len(CORE)
        step = {c0 + i: c0 + i + 1 for i in range(NCHAIN - 1)}
        for rule in (names[0], names[len(names) // 2], names[-1]):
            mk(c0, {rule: dict(step)})
            mk(c0, {rule: dict(step), "abstractions.overused_constant": {c0 + 25: c0 + 3}})      # back into the history
            mk(c0, {rule: dict(step), "abstractions.overused_constant": {c0 + 25: c0 + 26}})     # new text: second loop
            mk(c0 + 20, {rule: {**step, c0 + NCHAIN - 1: c0 + 30}})                        # cycle of length 4 late
            mk(c0 + 5, {rule: dict(step), "fixes.simplify_assign_immediate_return": {c0 + 30: 0}})
    return out


def random_cases(rnd, names, n):
    stages = TOP_STAGES + [x for x in FIXED_KINDS if x.startswith("processing.chain")] + sorted(set(names))
    for _ in range(n):
        script = {}
        size = rnd.choice([4, 4, 6, 6, 8])
        for name in rnd.sample(stages, rnd.randint(1, 7)):
            script[name] = {i: rnd.randrange(size) for i in range(size) if rnd.random() < 0.6}
        invalid = [i for i in range(size) if rnd.random() < 0.25]
        level = {i: rnd.choice([0, 2, 4]) for i in range(size) if rnd.random() < 0.5}
        if rnd.random() < 0.3:                    # stages that hand back unterminated texts
            name = rnd.choice(list(script))
            script[name] = {**script[name], **{i: NB + rnd.randrange(size) for i in range(size) if rnd.random() < 0.3}}
        inp = rnd.randrange(size) + (NB if rnd.random() < 0.35 else 0)
        yield Case(rnd.random() < 0.5, rnd.random() < 0.5, rnd.choice([0, 1, 2, 12]), rnd.choice([60, 88, 100]),
                   inp, script, invalid, level, "random")
