"""C02, iteration tranche (coq/theories/RulesPerfModel.v + RulesPerfProofs.v): performance.remove_redundant_iter,
optimize_contains_types, replace_sorted_heapq.

Plug-in of harness/c02.py:  check(run, mods, wd, rnd) -> dict.  On every run:
  * rule correspondence: fragment modules (exhaustive small families + seeded random ones) are printed, the REAL rule
    is applied to the text, the result is parsed back into the fragment and compared in Coq with the model
    (rule_case_ok); a result outside the fragment is reported as rule-output-outside-fragment;
  * semantics validation: every input and output module runs under CPython (generator functions g<k> that log every
    step, a logging print) and through RulesPerfModel.run: exception class and event trace must agree;
  * property oracle (the failing-input search): before / after executed under CPython; a difference is reported
    unless a listed finding (site + structural predicate, SIGS below) covers it;
  * witness programs of the findings / repairs of this tranche.
Findings of this tranche: F02perf-n (property=C02), reported here."""
from __future__ import annotations

import ast
import itertools
import json
import re
import sys
import time
from collections import Counter

from . import common
from .common import gbool


class Unsupported(Exception):
    pass


BUILTINS = ["list", "tuple", "iter", "sorted", "min", "max", "reversed"]
FN_G = {"list": "FList", "tuple": "FTuple", "iter": "FIter"}
WORLD = [[1, 2], [2, -2, 1]]


def name_txt(n: int) -> str:
    return BUILTINS[n] if n < len(BUILTINS) else f"v{n}"


def name_of(txt: str) -> int:
    if txt in BUILTINS:
        return BUILTINS.index(txt)
    m = re.fullmatch(r"v(\d+)", txt)
    if not m or int(m.group(1)) < 8:
        raise Unsupported("name " + txt)
    return int(m.group(1))


# ------------------------------------------------------------------------------------------------ printer
def p_atom(a) -> str:
    if a[0] == "int":
        return str(a[1])
    if a[0] == "none":
        return "None"
    return name_txt(a[1])


def p_seq(zs, tup=False) -> str:
    if tup:
        return "(" + ", ".join(map(str, zs)) + ("," if len(zs) == 1 else "") + ")"
    return "[" + ", ".join(map(str, zs)) + "]"


def p_key(k) -> str:
    return ", key=abs" if k else ""


def p_expr(e, top=False) -> str:
    k = e[0]
    if k == "atom":
        s = p_atom(e[1])
        return s if top or not s.startswith("-") else f"({s})"
    if k == "disp":
        return p_seq(e[1])
    if k == "tup":
        return p_seq(e[1], True)
    if k == "gen":
        return f"g{e[1]}()"
    if k == "call":
        return f"{e[1]}({p_expr(e[2], True)})" if e[2][0] != "genx" else f"{e[1]}({p_expr(e[2])})"
    if k in ("sorted", "min", "max"):
        return f"{k}({p_expr(e[2])}{p_key(e[1])})"
    if k == "in":
        s = f"{p_atom(e[1])} in {p_expr(e[2])}"
        return s if top else f"({s})"
    if k == "inset":
        s = f"{p_atom(e[1])} in " + ("{" + ", ".join(map(str, e[2])) + "}" if e[2] else "{*()}")
        return s if top else f"({s})"
    if k == "idx0":
        return f"{p_expr(e[1])}[0]"
    if k == "idxl":
        return f"{p_expr(e[1])}[-1]"
    if k == "sto":
        return f"{p_expr(e[1])}[:{p_atom(e[2])}]"
    if k == "sfrom":
        return f"{p_expr(e[1])}[-{p_atom(e[2])}:]"
    if k == "nsm":
        return f"heapq.nsmallest({p_atom(e[1])}, {p_expr(e[3])}{p_key(e[2])})"
    if k == "revnl":
        return f"list(reversed(heapq.nlargest({p_atom(e[1])}, {p_expr(e[3])}{p_key(e[2])})))"
    if k == "comp":
        return f"[c for c in {p_expr(e[1])}]"
    if k == "genx":
        return f"(c for c in {p_expr(e[1])})"
    raise Unsupported(str(e))


def p_simple(s) -> str:
    k = s[0]
    if k == "assign":
        return f"{name_txt(s[1])} = {p_expr(s[2], True)}"
    if k == "print":
        return f"print({p_expr(s[1], True)})" if s[1][0] != "genx" else f"print({p_expr(s[1])})"
    if k == "expr":
        return p_expr(s[1])
    return f"{name_txt(s[1])}.{k}({p_atom(s[2])})"


def p_prog(p) -> str:
    out = []
    for st in p:
        if st[0] == "s":
            out.append(p_simple(st[1]))
        else:
            out.append(f"for {name_txt(st[1])} in {p_expr(st[2])}:")
            out += ["    " + p_simple(s) for s in st[3]] or ["    pass"]
    return "\n".join(out) + "\n"


# ------------------------------------------------------------------------------------------------ reader
def _int(n):
    if isinstance(n, ast.Constant) and type(n.value) is int:
        return n.value
    if isinstance(n, ast.UnaryOp) and isinstance(n.op, ast.USub) and isinstance(n.operand, ast.Constant) \
            and type(n.operand.value) is int:
        return -n.operand.value
    raise Unsupported("int " + ast.dump(n))


def atom_of(n):
    if isinstance(n, ast.Constant) and n.value is None:
        return ("none",)
    if isinstance(n, ast.Name):
        return ("var", name_of(n.id))
    return ("int", _int(n))


def _key(call) -> bool:
    if not call.keywords:
        return False
    if len(call.keywords) == 1 and call.keywords[0].arg == "key" and isinstance(call.keywords[0].value, ast.Name) \
            and call.keywords[0].value.id == "abs":
        return True
    raise Unsupported("keywords")


def _heapq(n, which):
    return (isinstance(n, ast.Call) and isinstance(n.func, ast.Attribute) and n.func.attr == which
            and isinstance(n.func.value, ast.Name) and n.func.value.id == "heapq" and len(n.args) == 2)


def _loopvar(gens, elt):
    if len(gens) != 1 or gens[0].ifs or gens[0].is_async or not isinstance(gens[0].target, ast.Name) \
            or gens[0].target.id != "c" or not isinstance(elt, ast.Name) or elt.id != "c":
        raise Unsupported("comprehension")
    return gens[0].iter


def e_of(n):
    if isinstance(n, (ast.Constant, ast.Name, ast.UnaryOp)):
        return ("atom", atom_of(n))
    if isinstance(n, ast.List):
        return ("disp", [_int(x) for x in n.elts])
    if isinstance(n, ast.Tuple):
        return ("tup", [_int(x) for x in n.elts])
    if isinstance(n, ast.ListComp):
        return ("comp", e_of(_loopvar(n.generators, n.elt)))
    if isinstance(n, ast.GeneratorExp):
        return ("genx", e_of(_loopvar(n.generators, n.elt)))
    if isinstance(n, ast.Compare):
        if len(n.ops) != 1 or not isinstance(n.ops[0], ast.In):
            raise Unsupported("compare")
        c = n.comparators[0]
        if isinstance(c, ast.Set):
            if len(c.elts) == 1 and isinstance(c.elts[0], ast.Starred) and isinstance(c.elts[0].value, ast.Tuple) \
                    and not c.elts[0].value.elts:
                return ("inset", atom_of(n.left), [])
            return ("inset", atom_of(n.left), [_int(x) for x in c.elts])
        return ("in", atom_of(n.left), e_of(c))
    if isinstance(n, ast.Subscript):
        sl = n.slice
        if isinstance(sl, ast.Slice):
            if sl.step is not None:
                raise Unsupported("step")
            if sl.lower is None and sl.upper is not None:
                return ("sto", e_of(n.value), atom_of(sl.upper))
            if sl.upper is None and isinstance(sl.lower, ast.UnaryOp) and isinstance(sl.lower.op, ast.USub):
                return ("sfrom", e_of(n.value), atom_of(sl.lower.operand))
            raise Unsupported("slice")
        i = _int(sl)
        if i == 0:
            return ("idx0", e_of(n.value))
        if i == -1:
            return ("idxl", e_of(n.value))
        raise Unsupported("index")
    if isinstance(n, ast.Call):
        if _heapq(n, "nsmallest"):
            return ("nsm", atom_of(n.args[0]), _key(n), e_of(n.args[1]))
        if isinstance(n.func, ast.Name):
            f = n.func.id
            if re.fullmatch(r"g\d", f) and not n.args and not n.keywords:
                return ("gen", int(f[1:]))
            if f == "list" and len(n.args) == 1 and not n.keywords and isinstance(n.args[0], ast.Call) \
                    and isinstance(n.args[0].func, ast.Name) and n.args[0].func.id == "reversed" \
                    and len(n.args[0].args) == 1 and _heapq(n.args[0].args[0], "nlargest"):
                h = n.args[0].args[0]
                return ("revnl", atom_of(h.args[0]), _key(h), e_of(h.args[1]))
            if f in FN_G and len(n.args) == 1 and not n.keywords:
                return ("call", f, e_of(n.args[0]))
            if f in ("sorted", "min", "max") and len(n.args) == 1:
                return (f, _key(n), e_of(n.args[0]))
    raise Unsupported(ast.dump(n)[:80])


def simple_of(n):
    if isinstance(n, ast.Assign) and len(n.targets) == 1 and isinstance(n.targets[0], ast.Name):
        return ("assign", name_of(n.targets[0].id), e_of(n.value))
    if isinstance(n, ast.Expr):
        v = n.value
        if isinstance(v, ast.Call) and isinstance(v.func, ast.Name) and v.func.id == "print" and len(v.args) == 1 \
                and not v.keywords:
            return ("print", e_of(v.args[0]))
        if isinstance(v, ast.Call) and isinstance(v.func, ast.Attribute) and v.func.attr in ("append", "remove") \
                and isinstance(v.func.value, ast.Name) and len(v.args) == 1:
            return (v.func.attr, name_of(v.func.value.id), atom_of(v.args[0]))
        return ("expr", e_of(v))
    raise Unsupported(type(n).__name__)


def parse_prog(src: str):
    out = []
    for n in ast.parse(src).body:
        if isinstance(n, ast.For):
            if n.orelse or not isinstance(n.target, ast.Name):
                raise Unsupported("for")
            body = [] if (len(n.body) == 1 and isinstance(n.body[0], ast.Pass)) else [simple_of(s) for s in n.body]
            out.append(("for", name_of(n.target.id), e_of(n.iter), body))
        else:
            out.append(("s", simple_of(n)))
    return out


# ------------------------------------------------------------------------------------------------ Gallina
def gz(z):
    return f"({z})" if z < 0 else str(z)


def gzs(zs):
    return "[" + "; ".join(gz(z) for z in zs) + "]"


def g_atom(a):
    if a[0] == "int":
        return f"(AInt {gz(a[1])})"
    if a[0] == "none":
        return "ANone"
    return f"(AVar {a[1]}%nat)"


def g_expr(e) -> str:
    k = e[0]
    if k == "atom":
        return f"(EAtom {g_atom(e[1])})"
    if k == "disp":
        return f"(EDisp {gzs(e[1])})"
    if k == "tup":
        return f"(ETupD {gzs(e[1])})"
    if k == "gen":
        return f"(EGen {e[1]}%nat)"
    if k == "call":
        return f"(ECall {FN_G[e[1]]} {g_expr(e[2])})"
    if k in ("sorted", "min", "max"):
        return f"(E{k.capitalize()} {gbool(e[1])} {g_expr(e[2])})"
    if k == "in":
        return f"(EIn {g_atom(e[1])} {g_expr(e[2])})"
    if k == "inset":
        return f"(EInSet {g_atom(e[1])} {gzs(e[2])})"
    if k == "idx0":
        return f"(EIdx0 {g_expr(e[1])})"
    if k == "idxl":
        return f"(EIdxL {g_expr(e[1])})"
    if k == "sto":
        return f"(ESliceTo {g_expr(e[1])} {g_atom(e[2])})"
    if k == "sfrom":
        return f"(ESliceFrom {g_expr(e[1])} {g_atom(e[2])})"
    if k == "nsm":
        return f"(ENsm {g_atom(e[1])} {gbool(e[2])} {g_expr(e[3])})"
    if k == "revnl":
        return f"(ERevNl {g_atom(e[1])} {gbool(e[2])} {g_expr(e[3])})"
    if k == "comp":
        return f"(EComp {g_expr(e[1])})"
    if k == "genx":
        return f"(EGenx {g_expr(e[1])})"
    raise Unsupported(str(e))


def g_simple(s) -> str:
    k = s[0]
    if k == "assign":
        return f"(SAssign {s[1]}%nat {g_expr(s[2])})"
    if k == "print":
        return f"(SPrint {g_expr(s[1])})"
    if k == "expr":
        return f"(SExpr {g_expr(s[1])})"
    return f"(S{k.capitalize()} {s[1]}%nat {g_atom(s[2])})"


def g_prog(p) -> str:
    out = []
    for st in p:
        if st[0] == "s":
            out.append(f"SS {g_simple(st[1])}")
        else:
            out.append(f"SFor {st[1]}%nat {g_expr(st[2])} [" + "; ".join(g_simple(s) for s in st[3]) + "]")
    return "[" + "; ".join(out) + "]"


def g_event(ev) -> str:
    if ev[0] == "pull":
        return f"EvPull {ev[1]}%nat {ev[2]}%nat"
    if ev[0] == "done":
        return f"EvDone {ev[1]}%nat"
    r = ev[1]
    if r[0] == "int":
        return f"EvPrint (RInt {gz(r[1])})"
    if r[0] == "bool":
        return f"EvPrint (RBool {gbool(r[1])})"
    if r[0] == "none":
        return "EvPrint RNone"
    if r[0] == "iter":
        return "EvPrint RIter"
    if r[0] in ("tup", "list"):
        return f"EvPrint ({'RTup' if r[0] == 'tup' else 'RList'} {gzs(r[1])})"
    raise Unsupported("value " + str(r))


HEADER = ("From Coq Require Import List ZArith Bool.\nFrom Pyrefact Require Import Base RulesPerfModel.\n"
          "Import ListNotations.\nOpen Scope Z_scope.\n")

# ------------------------------------------------------------------------------------------------ CPython
EXC_CODE = {"TypeError": 1, "IndexError": 2, "ValueError": 3, "NameError": 4, "AttributeError": 5}


class _Budget(BaseException):
    pass


def _render(v):
    if type(v) is bool:
        return ("bool", v)
    if type(v) is int:
        return ("int", v)
    if v is None:
        return ("none",)
    if type(v) in (tuple, list) and all(type(x) is int for x in v):
        return ("tup" if type(v) is tuple else "list", list(v))
    if hasattr(v, "__next__"):
        return ("iter",)
    return ("other", repr(v)[:40])


def run_py(src: str, world=WORLD, budget=3000):
    """(exception class name | None | 'diverges', event log) of a module of the fragment under CPython"""
    import heapq
    log = []

    def mk(k, items):
        def g():
            for i, z in enumerate(items):
                log.append(("pull", k, i))
                yield z
            log.append(("done", k))
        return g

    glob = {"heapq": heapq, "print": lambda v: log.append(("print", _render(v))), "__builtins__": __builtins__}
    for k, items in enumerate(world):
        glob[f"g{k}"] = mk(k, items)
    count = [0]

    def tracer(frame, event, arg):
        if event == "line":
            count[0] += 1
            if count[0] > budget:
                raise _Budget()
        return tracer

    import warnings
    with warnings.catch_warnings():
        warnings.simplefilter("ignore")
        code = compile(src, "<perf>", "exec")
    old = sys.gettrace()
    sys.settrace(tracer)
    try:
        exec(code, glob)
        res = None
    except _Budget:
        res = "diverges"
    except Exception as e:  # noqa
        res = type(e).__name__
    finally:
        sys.settrace(old)
    return res, log


def observation(src):
    res, log = run_py(src)
    return (res, [e for e in log])


# ------------------------------------------------------------------------------------------------ generators
def A(z):
    return ("int", z)


def V(n):
    return ("var", n)


def EA(a):
    return ("atom", a)


V8, V9 = V(8), V(9)
D312, D0, T21, TM = ("disp", [3, 1, 2]), ("disp", []), ("tup", [2, 1]), ("tup", [-1, 1])
ARGS = [D312, D0, T21, TM, EA(V9), ("gen", 0), ("call", "list", EA(V9)), ("call", "iter", D312), ("sorted", False, EA(V9)),
        ("comp", EA(V9)), ("genx", T21), ("call", "tuple", ("gen", 1)), ("sorted", True, TM)]
PREFIXES = [
    [],
    [("s", ("assign", 9, ("disp", [1, 2, 3])))],
    [("s", ("assign", 9, ("tup", [1, 2, 3])))],
    [("s", ("assign", 9, ("call", "iter", ("disp", [1, 2, 3]))))],
    [("s", ("assign", 9, ("gen", 0)))],
    [("s", ("assign", 9, ("call", "tuple", ("disp", [2, 1]))))],
    [("s", ("assign", 9, ("disp", [2]))), ("s", ("assign", 9, ("tup", [2, 5])))],
    [("s", ("assign", 9, EA(A(5))))],
    [("s", ("assign", 9, ("sorted", False, ("gen", 1))))],
]
REBIND = [[("s", ("assign", 0, ("tup", [1, 2])))], [("for", 3, ("disp", [1]), [])], [("s", ("assign", 4, EA(A(3))))],
          [("s", ("assign", 2, ("disp", [])))], [("s", ("assign", 6, EA(("none",))))], [("s", ("assign", 1, EA(A(0))))],
          [("s", ("assign", 5, ("disp", [1])))]]
TAIL = [("s", ("print", EA(V9))), ("s", ("print", ("call", "list", EA(V9))))]


def wraps(arg):
    yield arg
    for f in ("list", "tuple", "iter"):
        yield ("call", f, arg)
    yield ("call", "list", ("call", "tuple", arg))
    yield ("call", "tuple", ("call", "iter", arg))
    yield ("call", "iter", ("call", "list", arg))


def fam_rri():
    bodies = [[("print", EA(V8))], [("remove", 9, V8)], [("append", 9, A(7)), ("print", EA(V8)), ("remove", 9, A(7))],
              [("print", ("in", A(2), EA(V9)))]]
    for pre in PREFIXES + REBIND[:2]:
        for arg in ARGS:
            for i, w in enumerate(wraps(arg)):
                body = bodies[(i + len(pre)) % len(bodies)] if arg != EA(V9) else bodies[i % len(bodies)]
                yield pre + [("for", 8, w, body)] + TAIL[:1]
    for pre in PREFIXES[:6]:
        for body in bodies:
            for w in (("call", "list", EA(V9)), ("call", "tuple", EA(V9)), EA(V9)):
                yield pre + [("for", 8, w, body)] + TAIL
    for arg in ARGS[:8]:
        for w in wraps(arg):
            yield PREFIXES[1] + [("s", ("print", ("comp", w))), ("s", ("assign", 8, ("genx", w))), ("s", ("print", ("call", "list", EA(V8))))]


def fam_oct():
    elems = [A(2), A(5), V8, A(-1), ("none",)]
    for pi, pre in enumerate(PREFIXES + REBIND[:4]):
        for ai, arg in enumerate(ARGS):
            for wi, w in enumerate([arg, ("call", "list", arg), ("call", "tuple", arg), ("call", "iter", arg), ("sorted", False, arg),
                                    ("sorted", True, arg), ("comp", arg), ("call", "list", ("call", "list", arg)),
                                    ("call", "list", ("sorted", False, arg)), ("comp", ("call", "list", arg))]):
                a = elems[(pi + ai + wi) % 2]
                yield pre + [("s", ("print", ("in", a, w)))] + TAIL[1:]
    for a in elems:
        for pre8 in ([], [("s", ("assign", 8, ("disp", [1])))], [("s", ("assign", 8, EA(A(2))))], [("s", ("assign", 8, ("tup", [1])))]):
            for c in (("disp", [1, 2]), ("tup", [2]), ("call", "list", ("disp", [2, 2])), ("comp", ("disp", [1, 2])), ("disp", [])):
                yield pre8 + [("s", ("print", ("in", a, c)))]
    yield [("s", ("assign", 8, ("in", A(1), ("call", "list", ("disp", [1])))))] + [("s", ("print", EA(V8)))]
    yield [("for", 8, ("disp", [1, 5]), [("print", ("in", V8, ("call", "tuple", ("tup", [1, 2]))))])]


def fam_hq():
    subs = [lambda e: ("idx0", e), lambda e: ("idxl", e), lambda e: ("sto", e, A(2)), lambda e: ("sto", e, A(0)),
            lambda e: ("sto", e, V8), lambda e: ("sto", e, A(-1)), lambda e: ("sfrom", e, A(2)), lambda e: ("sfrom", e, A(0)),
            lambda e: ("sfrom", e, V8), lambda e: ("sto", e, ("none",)), lambda e: ("sto", e, A(1)), lambda e: ("sfrom", e, A(1))]
    n_vals = [None, A(2), A(-1), ("none",), A(0)]
    for pi, pre in enumerate(PREFIXES + REBIND):
        for ai, arg in enumerate(ARGS):
            for si, sub in enumerate(subs):
                k = (pi + ai + si) % 3 == 0
                nv = n_vals[(pi + ai + si) % len(n_vals)]
                pre8 = [("s", ("assign", 8, EA(nv)))] if nv is not None else []
                yield pre8 + pre + [("s", ("print", sub(("sorted", k, arg))))] + TAIL[1:]
    for sub in subs[:3]:
        yield [("s", ("print", sub(D312)))]
        yield [("s", ("print", ("min", False, sub(("sorted", False, ("call", "list", ("sorted", True, TM)))))))]
        yield [("for", 8, sub(("sorted", False, D312)) if sub is not subs[0] else ("call", "list", D312), [("print", sub(("sorted", True, TM)))])]


def rand_expr(rnd, depth):
    if depth == 0 or rnd.random() < 0.25:
        return rnd.choice([D312, D0, T21, TM, EA(V9), EA(V8), ("gen", 0), ("gen", 1), EA(A(1)), ("disp", [1, 1, -1])])
    k = rnd.choice(["call", "call", "sorted", "min", "max", "in", "idx0", "idxl", "sto", "sfrom", "comp", "genx", "in", "sorted"])
    sub = rand_expr(rnd, depth - 1)
    if k == "call":
        return ("call", rnd.choice(["list", "tuple", "iter"]), sub)
    if k in ("sorted", "min", "max"):
        return (k, rnd.random() < 0.3, sub)
    if k == "in":
        return ("in", rnd.choice([A(1), A(2), V8, A(-1)]), sub)
    if k in ("sto", "sfrom"):
        return (k, sub, rnd.choice([A(0), A(1), A(2), V8, A(3)]))
    return (k, sub)


def rand_prog(rnd):
    p = list(rnd.choice(PREFIXES + REBIND[:3]))
    if rnd.random() < 0.5:
        p.append(("s", ("assign", 8, rnd.choice([EA(A(2)), EA(A(-1)), ("disp", [1]), EA(A(0)), ("gen", 1)]))))
    for _ in range(rnd.randint(1, 3)):
        e = rand_expr(rnd, 3)
        r = rnd.random()
        if r < 0.4:
            p.append(("s", ("print", e)))
        elif r < 0.55:
            p.append(("s", ("assign", rnd.choice([8, 9, 10]), e)))
        else:
            body = rnd.choice([[("print", EA(V(10)))], [("remove", 9, V(10))], [("append", 9, A(1)), ("remove", 9, A(1))],
                               [("print", rand_expr(rnd, 2))]])
            p.append(("for", 10, e, body))
    p.append(rnd.choice(TAIL))
    return p


# ------------------------------------------------------------------------------------------------ findings
RULES = {"RRri": "remove_redundant_iter", "ROct": "optimize_contains_types", "RHq": "replace_sorted_heapq"}
MODELLED = ["performance." + v for v in RULES.values()]


def _has(p, pred):
    def walk(e):
        if pred(e):
            return True
        return any(walk(x) for x in e[1:] if isinstance(x, tuple) and x and isinstance(x[0], str) and x[0] not in ("int", "var", "none"))
    for st in p:
        exprs = [st[1][1]] if st[0] == "s" and st[1][0] in ("print", "expr") else \
            [st[1][2]] if st[0] == "s" and st[1][0] == "assign" else \
            ([st[2]] + [s[1] if s[0] in ("print", "expr") else s[2] for s in st[3] if s[0] in ("print", "expr", "assign")]
             if st[0] == "for" else [])
        if any(walk(e) for e in exprs):
            return True
    return False


def _srt(e):
    return isinstance(e, tuple) and e and e[0] == "sorted"


SIGS = {
    # 'a in [1, 2]' -> 'a in {1, 2}' with an unhashable a: TypeError afterwards only
    "membership_in_set_needs_hashable": lambda c: c["rule"] == "ROct" and c["after"][0] == "TypeError"
    and c["after"][1] == c["before"][1][:len(c["after"][1])] and len(c["after"][1]) < len(c["before"][1]) + (c["before"][0] != "TypeError")
    and _has(c["q"], lambda e: e[0] == "inset" and e[1][0] == "var"),
    # sorted(.., key=..)[-1] / [-n:]: ties in reverse order
    "sorted_tail_ties": lambda c: c["rule"] == "RHq"
    and _has(c["p"], lambda e: e[0] in ("idxl", "sfrom") and _srt(e[1]) and e[1][1]),
    # [-n:] with n == 0
    "sorted_tail_of_length_zero": lambda c: c["rule"] == "RHq"
    and _has(c["p"], lambda e: e[0] == "sfrom" and _srt(e[1]) and e[2][0] != "int" or (e[0] == "sfrom" and _srt(e[1]) and e[2] == ("int", 0))),
    # [:n] / [-n:] with n a name (holding -1, 0, None, ...) or the literal 0 (an iterator argument is not used up)
    "heapq_count_not_positive": lambda c: c["rule"] == "RHq"
    and _has(c["p"], lambda e: e[0] in ("sto", "sfrom") and _srt(e[1]) and (e[2][0] != "int" or e[2][1] == 0)),
    # IndexError before, ValueError after: the empty case
    "empty_sorted_exception_class": lambda c: c["rule"] == "RHq" and c["before"][0] == "IndexError"
    and c["after"][0] == "ValueError" and c["before"][1] == c["after"][1]
    and _has(c["p"], lambda e: e[0] in ("idx0", "idxl") and _srt(e[1])),
}


def match_finding(kf, case):
    site = "performance." + RULES[case["rule"]]
    for f in kf:
        if f.kind != "finding" or f.fields.get("site") not in (site, "*"):
            continue
        pred = SIGS.get(f.fields.get("sig", ""))
        if pred is not None and pred(case):
            return f
    return None


WITNESSES = [
    # (id, site, source, expected difference now: True = finding still open, False = repaired)
    ("F02perf-1", "optimize_contains_types", "g = iter([1, 2, 3])\nprint(2 in [c for c in g])\nprint(list(g))\n", False),
    ("F02perf-1", "optimize_contains_types", "def f(c):\n    print(c)\n    return c\nprint(1 in [f(c) for c in [1, 2]])\n", False),
    ("F02-65", "remove_redundant_iter", "xs = [1, 2, 3]\nfor x in list(xs):\n    xs.remove(x)\nprint(xs)\n", False),
    ("F02-65", "remove_redundant_iter", "d = {1: 2, 3: 4}\nfor k in list(d):\n    del d[k]\nprint(d)\n", False),
    ("F02perf-2", "replace_sorted_heapq", "import heapq\nn = -1\nprint(sorted([3, 1, 2])[:n])\n", True),
    ("F02perf-3", "replace_sorted_heapq", "def first(xs):\n    return sorted(xs)[0]\ntry:\n    print(first([]))\nexcept IndexError:\n    print('empty')\n", True),
    ("F02perf-4", "optimize_contains_types", "print(1 in [1 // c for c in [1, 0]])\n", True),
]


def run_text(src: str):
    import contextlib
    import io
    import warnings
    buf = io.StringIO()
    try:
        with contextlib.redirect_stdout(buf), warnings.catch_warnings():
            warnings.simplefilter("ignore")
            exec(compile(src, "<w>", "exec"), {"__name__": "w"})
        return buf.getvalue() + "<ok>"
    except Exception as e:  # noqa
        return buf.getvalue() + "<" + type(e).__name__ + ">"


def apply_rule(mods, fname: str, src: str) -> str:
    mods["core"].parse.cache_clear()
    with common.quiet():
        return getattr(mods["performance"], fname)(src)


def _shards(items, n=400):
    for k in range(0, len(items), n):
        yield k // n, items[k:k + n]


# ------------------------------------------------------------------------------------------------ check
def check(run, mods, wd, rnd) -> dict:
    t0 = time.time()
    quick = run.tier == "quick"
    hist = Counter()
    kf = common.load_findings("C02")
    progs, seen = [], set()

    def add(p, seeded, own=None):
        try:
            src = p_prog(p)
            if parse_prog(src) != p:
                raise Unsupported("round trip")
        except (Unsupported, SyntaxError):
            hist["unprintable"] += 1
            return
        if src not in seen:
            seen.add(src)
            progs.append((p, src, seeded, own))

    for fam, own in ((fam_rri, "RRri"), (fam_oct, "ROct"), (fam_hq, "RHq")):
        for p in fam():
            add(p, False, own)
    n_exh = len(progs)
    for _ in range(300 if quick else 6000):
        add(rand_prog(rnd), True)

    cases, problems, fired = [], [], {}
    for pi, (p, src, seeded, own) in enumerate(progs):
        for g_rule, fname in RULES.items():
            if quick and own is not None and own != g_rule and pi % 4:
                continue          # quick tier: the other two rules on every fourth module of a family
            try:
                out = apply_rule(mods, fname, src)
            except Exception as e:  # noqa
                problems.append({"kind": "rule-raised", "rule": fname, "source": src, "problem": f"{type(e).__name__}: {e}"})
                continue
            try:
                q = parse_prog(out)
            except (Unsupported, SyntaxError) as e:
                problems.append({"kind": "rule-output-outside-fragment", "rule": fname, "source": src, "impl_output": out, "problem": str(e)})
                continue
            cases.append((g_rule, p, q, src, out))
            hist[f"{fname}:{'fired' if q != p else 'silent'}"] += 1
            if q != p:
                fired.setdefault((g_rule, src), (p, q, out))
    t_impl = time.time() - t0

    files, meta = [], []
    for k, shard in _shards(cases):
        f = wd / f"prule_{k}.v"
        body = ";\n ".join(f"({c[0]}, {g_prog(c[1])}, {g_prog(c[2])})" for c in shard)
        f.write_text(HEADER + f"Definition cases : list (prule * prog * prog) := [\n {body}\n].\n"
                     "Eval vm_compute in (bad_idx rule_case_ok cases).\n")
        files.append(f)
        meta.append(("rule", shard))

    # semantics validation on inputs and outputs
    sem, sem_seen, sem_todo = [], set(), []
    cap = 2500 if quick else 40000
    for c in cases:
        for p, src in ((c[1], c[3]), (c[2], c[4])):
            if src not in sem_seen:
                sem_seen.add(src)
                sem_todo.append((p, src))
    stride = max(1, -(-len(sem_todo) // cap))
    for off in range(1):
        for p, src in sem_todo[(run.seed % stride)::stride]:
            res, log = run_py(src)
            if res == "diverges":
                hist["sem:diverges"] += 1
                continue
            hist["sem:" + str(res)] += 1
            try:
                sem.append((p, src, EXC_CODE.get(res, 9) if res else 0, "[" + "; ".join(g_event(e) for e in log) + "]", res))
            except Unsupported:
                hist["sem:unsupported-value"] += 1
    gworld = "[" + "; ".join(gzs(w) for w in WORLD) + "]"
    for k, shard in _shards(sem):
        f = wd / f"psem_{k}.v"
        body = ";\n ".join(f"({g_prog(p)}, {gworld}, {code}%nat, {t})" for p, _, code, t, _ in shard)
        f.write_text(HEADER + f"Definition cases : list (prog * list (list Z) * nat * list event) := [\n {body}\n].\n"
                     "Eval vm_compute in (map sem_status cases).\n")
        files.append(f)
        meta.append(("sem", shard))
    t_py = time.time() - t0

    results = common.run_case_files(files)
    disagreements, sem_bad, sem_gap = [], [], 0
    for f, (kind, shard) in zip(files, meta):
        rc, out = results[f]
        idx = common.parse_nat_list(out) if rc == 0 else None
        if idx is None:
            disagreements.append({"kind": "eval-failed", "file": f.name, "log": out[-1200:]})
            continue
        if kind == "rule":
            for i in idx:
                c = shard[i]
                disagreements.append({"kind": "rule-model", "rule": "performance." + RULES[c[0]], "source": c[3], "impl_output": c[4]})
        else:
            for i, st in enumerate(idx):
                if st == 1:
                    sem_bad.append({"kind": "semantics", "source": shard[i][1], "cpython": str(shard[i][4]) + " " + shard[i][3][:300]})
                elif st == 2:
                    sem_gap += 1
    t_coq = time.time() - t0

    # property oracle on every fired case (the failing-input search of the correspondence)
    failures, reproduced = [], {}
    for (g_rule, src), (p, q, out) in fired.items():
        before, after = observation(src), observation(out)
        if before == after:
            continue
        case = {"rule": g_rule, "p": p, "q": q, "before": before, "after": after, "source": src, "output": out}
        m = match_finding(kf, case)
        if m is None:
            failures.append(case)
        else:
            reproduced.setdefault(m.id, (m, []))[1].append(case)
    # witnesses
    n_wit = 0
    open_ids = {f.id for f in kf if f.kind == "finding"}
    for fid, fname, src, still_open in WITNESSES:
        n_wit += 1
        out = apply_rule(mods, fname, src)
        b, a = run_text(src), run_text(out)
        if b != a and fid in open_ids and still_open:
            f = next(x for x in kf if x.id == fid and x.kind == "finding")
            reproduced.setdefault(fid, (f, []))[1].append({"source": src, "output": out, "before": b, "after": a})
        elif b != a:
            failures.append({"rule": fname, "source": src, "output": out, "before": b, "after": a, "witness": fid})
    for fid, (f, hits) in sorted(reproduced.items()):
        if fid.startswith("F02perf"):
            h = hits[0]
            run.known_finding(fid, f"{f.text} [{len(hits)} instances, e.g. {h['source']!r}: {h['before']} -> {h['after']}]"[:900])
    for f in kf:
        if f.kind == "finding" and f.id.startswith("F02perf") and f.id not in reproduced:
            common.log(f"note: known finding {f.id} no longer reproduces")

    for d in (disagreements + sem_bad + problems)[:8]:
        common.log("perf tranche: " + json.dumps(d, default=str)[:700])
    seen_rules = Counter()
    for c in failures:
        seen_rules[c["rule"]] += 1
        if seen_rules[c["rule"]] <= 2:
            site = "performance." + RULES.get(c["rule"], c["rule"])
            run.violation({"tranche": "perf", "kind": "property-oracle", "site": site, "source": c["source"], "output": c["output"],
                           "obs_before": repr(c["before"]), "obs_after": repr(c["after"]), "witness": c.get("witness"),
                           "explanation": "the module behaves differently after the rule (exception class / printed values / "
                                          "order of the producer's steps) and no listed finding covers it"}, True)
    if not failures:
        for d in (disagreements + sem_bad + problems)[:5]:
            run.violation({"tranche": "perf", **d, "kernel": "RulesPerfModel",
                           "explanation": "model and implementation (or model and CPython) disagree; executing before/after "
                                          "found no difference on the generated modules"}, False)
    elif disagreements or sem_bad or problems:
        run.notes.append(f"perf: {len(disagreements)} correspondence / {len(sem_bad)} semantics disagreements / {len(problems)} rule problems")
    samples = [s for (_, s) in list(fired)[:: max(1, len(fired) // 5)]][:5]
    return {
        "evaluations": len(cases) + len(sem) + 2 * len(fired) + n_wit,
        "distinct_nontrivial": len(fired),
        "rule": ("modules of the fragment: per rule an exhaustive family (9 bindings of the argument variable + 7 rebindings "
                 "of builtin names x 13 arguments x every wrapper / subscript form) and seeded random modules; each through "
                 "the three real rules, parsed back and compared with the model in Coq; non-trivial = the real rule changed "
                 "the module, distinct by (rule, source). Semantics: every input and output module under CPython vs "
                 "RulesPerfModel.run (exception class + event trace)."),
        "samples": samples, "modelled_rules": MODELLED, "exhaustive_part": n_exh, "random_part": len(progs) - n_exh,
        "histogram": dict(hist), "rule_cases": len(cases), "semantic_cases": len(sem), "semantic_gaps": sem_gap,
        "semantic_mismatches": len(sem_bad), "correspondence_disagreements": len(disagreements), "rule_problems": len(problems),
        "oracle_runs": len(fired), "oracle_failures": len(failures), "witness_programs": n_wit,
        "known_reproduced": {k: len(v[1]) for k, v in reproduced.items()},
        "timings_cumulative": {"impl_s": round(t_impl, 1), "cpython_s": round(t_py, 1), "coq_s": round(t_coq, 1),
                               "total_s": round(time.time() - t0, 1)},
    }


TRUSTED_BASE = [
    "module <-> Python text printer and ast reader in harness/c02_perf.py (round trip asserted on every case)",
    "RulesPerfModel.run (eval / exec_simple / loop, iterator store, generator events) is a definition, validated against "
    "CPython (exception class + event trace) on every input and output module of the correspondence",
]
UNMODELLED = [
    "performance.optimize_contains_types: the wrappers set() and reversed(), dict / set comprehensions, displays with "
    "non-literal elements (-> tuple); performance.remove_redundant_iter: string constants, range / set / dict arguments",
    "performance.replace_sorted_heapq: key functions other than abs, the try-body guard of 3169aff (no try in the fragment)",
    "fixes.simplify_transposes, performance.replace_subscript_looping, fixes.inline_math_comprehensions: not modelled",
    "processing.fix's five passes: the models rewrite to the normal form at once (nesting depth <= 4 in the generated modules)",
]
ASSUMPTIONS = [
    "elements of lists and tuples are integers: ties between equal but distinguishable values (1, True, 1.0) without a key "
    "function are outside the fragment (finding F02-69 covers the keyed case)",
    "generator functions are opaque producers: every step is an event, the elements come from a world W the theorems "
    "quantify over; producers do not touch the variables of the module",
]


def replay(mods, data) -> int:
    if data.get("source") and data.get("site"):
        fname = data["site"].split(".")[1]
        out = apply_rule(mods, fname, data["source"])
        print("input:\n" + data["source"] + "output now:\n" + out)
        if data.get("witness"):
            b, a = run_text(data["source"]), run_text(out)
        else:
            b, a = observation(data["source"]), observation(out)
        print("before:", b, "\nafter: ", a)
        return 1 if a != b else 0
    print(json.dumps({k: v for k, v in data.items() if k in ("kind", "rule", "source", "impl_output", "explanation")}, indent=1))
    return 0
