"""Closed deterministic trigger programs per rule (C02 sweep, part b).  Every program terminates normally and ends
by printing every name it binds, so that executing it before/after a rule is an oracle for the rule."""

TRIGGERS: dict = {}


def T(rule, *srcs):
    TRIGGERS.setdefault(rule, []).extend(srcs)


T("fixes.remove_dead_ifs",
  "x = 1\nwhile False:\n    x = 2\nelse:\n    x = 3\nprint(x)\n",
  "def f(a):\n    if a:\n        r = 'a'\n    elif True:\n        r = 'b'\n    else:\n        r = 'c'\n    return r\nprint(f(0), f(1))\n",
  "def f(a):\n    r = 'z'\n    if a:\n        r = 'a'\n    elif 0:\n        r = 'b'\n    else:\n        r = r + 'c'\n    return r\nprint(f(0), f(1))\n",
  "x = []\nif 1:\n    x.append(1)\nelse:\n    x.append(2)\nif ():\n    x.append(3)\nprint(x)\n")
T("fixes.delete_unreachable_code",
  "x = 1\nwhile 0:\n    x = 2\nelse:\n    x = 3\nprint(x)\n",
  "def f(a):\n    for i in range(3):\n        if i == a:\n            break\n        continue\n        print('never')\n    else:\n        return 'else'\n    return i\n    print('never')\nprint(f(1), f(7))\n")

# ---------------------------------------------------------------------------------------------------------------
# control flow

T("fixes.breakout_common_code_in_ifs",
  # common first statement moved in front of the test it influences (module form / function form)
  "x = 5\nif x > 0:\n    x = 0\n    print('pos')\nelse:\n    x = 0\n    print('neg')\nprint(x)\n",
  "def f(x):\n    if x > 0:\n        x = 0\n        r = 'pos'\n    else:\n        x = 0\n        r = 'neg'\n    return r, x\nprint(f(5), f(-5), f(0))\n",
  # the test has a side effect that must come before the common first statement
  "log = []\ndef t(v):\n    log.append('test')\n    return v\nfor v in (0, 1):\n    if t(v):\n        log.append('common')\n        log.append('a')\n    else:\n        log.append('common')\n        log.append('b')\nprint(log)\n",
  # common last statement (sound direction)
  "def f(a):\n    out = []\n    if a:\n        out.append('a')\n        out.append('end')\n    else:\n        out.append('b')\n        out.append('end')\n    return out\nprint(f(0), f(1))\n",
  # implicit else (body returns): first statement of the body and of the code after the if are the same
  "def f(a, acc):\n    if a:\n        acc.append(a)\n        return 'early'\n    acc.append(a)\n    return 'late'\nacc = []\nprint(f(1, acc), f(0, acc), acc)\n",
  "def f(a):\n    if a.pop():\n        a.append(9)\n        return 1\n    a.append(9)\n    return len(a)\nprint(f([0, 1]), f([1, 0]), f([0]))\n")
T("fixes.fix_if_return",
  "def f(x):\n    if x:\n        return True\n    return False\nprint(f(5))\n",
  "def f(x):\n    if x:\n        return False\n    return True\nprint(f(5), f(0), f([]), f('a'))\n",
  "def f(x, y):\n    if x and y:\n        return False\n    return True\nprint(f(5, 0), f(0, 3), f(2, 3), f([], 1))\n",
  "def f(x, y):\n    if x > y:\n        return True\n    return False\nprint(f(1, 2), f(2, 1), f(1, 1))\n",
  "def f(x, y):\n    if x or y:\n        return True\n    return False\nprint(f(0, 0), f(0, 'b'), f(3, 0))\n")
T("fixes.fix_if_assign",
  "x = 5\nif x:\n    v = True\nelse:\n    v = False\nprint(v)\n",
  "def f(x):\n    if x:\n        v = False\n    else:\n        v = True\n    return v\nprint(f(5), f(0), f(''), f([0]))\n",
  "def f(x, y):\n    if x and y:\n        v = False\n    else:\n        v = True\n    return v\nprint(f(5, 0), f(0, 3), f(2, 3))\n",
  "def f(x, y):\n    if x == y:\n        v = True\n    else:\n        v = False\n    return v\nprint(f(1, 1), f(1, 2))\n",
  "def f(x, y):\n    if x or y:\n        v = True\n    else:\n        v = False\n    return v\nprint(f(0, []), f(0, 'b'), f(3, 0))\n")
T("fixes.move_before_loop",
  "x = 0\na = 0\nwhile a:\n    x = 2\n    a = 0\nprint(x)\n",
  "x = 0\nfor i in []:\n    x = 2\nprint(x)\n",
  "def f(n):\n    x = 'init'\n    for i in range(n):\n        x = 'set'\n        y = i\n    return x\nprint(f(0), f(1), f(3))\n",
  # aliasing: the hoisted value is a fresh mutable object in every iteration
  "out = []\nfor i in range(3):\n    y = []\n    z = y\n    z.append(i)\n    out.append(y)\nprint(out)\n",
  # sound case: loop-invariant pure assignment, one or more iterations
  "total = 0\nfor i in range(1, 4):\n    k = 10\n    total = total + k * i\nprint(total, k, i)\n",
  # hoisted expression raises when evaluated although the loop body never runs
  "d = {}\nfor i in d:\n    v = d['missing']\nprint('done')\n")
T("fixes.remove_redundant_else",
  "def f(a):\n    if a:\n        return 'a'\n    else:\n        r = 'b'\n    return r\nprint(f(0), f(1))\n",
  "def f(a, b):\n    if a:\n        return 'a'\n    elif b:\n        return 'b'\n    else:\n        return 'c'\nprint(f(0, 0), f(0, 1), f(1, 0))\n",
  "out = []\nfor i in range(4):\n    if i == 1:\n        continue\n    else:\n        out.append(i)\n    if i == 2:\n        break\n    else:\n        out.append(-i)\nprint(out)\n",
  "def f(a):\n    for i in range(3):\n        if i == a:\n            raise ValueError(i)\n        else:\n            a += 0\n    return a\ntry:\n    print(f(5))\n    print(f(1))\nexcept ValueError as e:\n    print('err', e)\n")
T("fixes.swap_if_else",
  "def f(a):\n    if a:\n        pass\n    else:\n        return 'else'\n    return 'end'\nprint(f(0), f(1), f([]), f('x'))\n",
  "def f(a, b):\n    if a < b:\n        pass\n    else:\n        return 'ge'\n    return 'lt'\nprint(f(1, 2), f(2, 1), f(1, 1))\n",
  # partial order: not (a < b) is not (a >= b)
  "def f(a, b):\n    if a < b:\n        pass\n    else:\n        return 'not-less'\n    return 'less'\nprint(f({1}, {2}), f({1}, {1, 2}), f({1, 2}, {1}))\n",
  "def f(a, b):\n    if a <= b:\n        pass\n    else:\n        return 'not-le'\n    return 'le'\nn = float('nan')\nprint(f(n, 1.0), f(1.0, n), f(1.0, 2.0))\n",
  "def f(a, b):\n    if a and not b:\n        pass\n    else:\n        return 'x'\n    return 'y'\nprint(f(0, 0), f(1, 0), f(1, 1), f(0, 1))\n",
  "def f(a):\n    out = []\n    for i in range(3):\n        if i == a:\n            out.append('eq')\n            out.append(i)\n            out.append(i * 2)\n            out.append(i * 3)\n        else:\n            continue\n    return out\nprint(f(1), f(9))\n")
T("fixes.early_return",
  "def f(a):\n    if a:\n        x = 'a'\n    else:\n        x = 'b'\n    return x\nprint(f(0), f(1))\n",
  "def f(a, b):\n    if a:\n        x = 1\n    elif b:\n        x = 2\n    else:\n        x = 3\n    return x\nprint(f(0, 0), f(0, 1), f(1, 0), f(1, 1))\n",
  "def f(a, b):\n    x = 0\n    if a:\n        x = x + 1\n        if b:\n            x = x + 10\n        else:\n            x = x + 20\n    else:\n        x = -1\n    return x\nprint(f(0, 0), f(0, 1), f(1, 0), f(1, 1))\n")
T("fixes.early_continue",
  "out = []\nfor i in range(5):\n    if i % 2:\n        out.append(i)\n        out.append(i * 2)\n        out.append(i * 3)\n        out.append(i * 4)\n        out.append(i * 5)\n        out.append(i * 6)\nprint(out)\n",
  "out = []\nfor a, b in [({1}, {2}), ({1}, {1, 2}), ({1, 2}, {1})]:\n    if a < b:\n        out.append('lt')\n        out.append(len(a))\n        out.append(len(b))\n        out.append(sorted(a))\n        out.append(sorted(b))\n        out.append('end')\nprint(out)\n",
  "out = []\nfor i in range(4):\n    if i == 0:\n        out.append('zero')\n    else:\n        out.append('a')\n        out.append('b')\n        out.append(i)\nelse:\n    out.append('loop-else')\nprint(out)\n")
T("fixes.delete_unreachable_code",
  "def f(a):\n    if a:\n        return 1\n    else:\n        return 2\n    return 3\nprint(f(0), f(1))\n",
  "def f(a):\n    while True:\n        if a:\n            break\n        return 'ret'\n    return 'after'\nprint(f(0), f(1))\n",
  "def f():\n    try:\n        raise KeyError(1)\n        print('never')\n    except KeyError:\n        return 'caught'\n    return 'end'\nprint(f())\n")
T("fixes.remove_dead_ifs",
  "print('a' if 1 else 'b', 'c' if '' else 'd')\n",
  "g = (x for x in [1, 2] if False)\nprint(next(g, 'default'))\n",
  "def noisy():\n    print('noisy')\n    return [1, 2]\nprint([x for x in noisy() if 0])\nprint({x for x in noisy() if True})\n",
  "print([x for x in range(3) if 1 if x], {x: 1 for x in range(2) if ()})\n")

# ---------------------------------------------------------------------------------------------------------------
# deletion / definitions / imports

T("fixes.delete_pointless_statements",
  "x = [1, 2]\nx\nx[0]\n3 + 4\n'doc'\nprint(x)\n",
  "def f(a):\n    'docstring'\n    a\n    a == 1\n    'not a docstring'\n    return a\nprint(f(2), f.__doc__)\n",
  "class A:\n    'cls doc'\n    1\n    x = 2\n    x\nprint(A.x, A.__doc__)\n")
T("fixes.delete_unused_functions_and_classes",
  # decorator with a side effect: deleting the function deletes the registration
  "reg = []\ndef register(fn):\n    reg.append(fn.__name__)\n    return fn\n@register\ndef unused():\n    return 1\nprint(reg)\n",
  # duck-typed protocol method that is never named in the text
  "out = []\nclass W:\n    def write(self, s):\n        out.append(s)\n    def flush(self):\n        out.append('flush')\nprint('x', file=W())\nprint(out)\n",
  # class body with a side effect
  "class Unused:\n    print('class body runs')\ndef used():\n    return 1\nprint(used())\n",
  "def a():\n    return 1\ndef b():\n    return b\nclass C:\n    def m(self):\n        return 2\n    def unused(self):\n        return 3\nprint(a(), C().m())\n",
  # reached only through globals()
  "def helper():\n    return 'h'\nprint(globals()['helper']())\n")
T("fixes.undefine_unused_variables",
  "def f(a):\n    x = a + [1]\n    y = a.pop()\n    return a\nprint(f([1, 2]))\n",
  "def f():\n    x = 1\n    x = 2\n    return x\nprint(f())\n",
  "def f(p):\n    a, b = p\n    c = d = p[0]\n    return b\nprint(f((1, 2)))\n",
  # the unused name is read through locals()/eval
  "def f():\n    secret = 41\n    return eval('secret + 1')\nprint(f())\n",
  "x = 1\nfor i in range(3):\n    x = i\nprint('end')\n",
  # a later del needs the binding
  "def f():\n    x = 1\n    del x\n    return 'ok'\nprint(f())\n")
T("fixes.move_imports_to_toplevel",
  "def f():\n    import math\n    return math.floor(2.5)\nprint(f())\n",
  # optional (platform specific) stdlib module guarded by try/except
  "try:\n    import winreg\nexcept ImportError:\n    winreg = None\nprint(winreg)\n",
  "import sys\nif sys.platform == 'win32':\n    import msvcrt\n    print('win')\nelse:\n    print('other')\n",
  # the function-local import shadows a global of the same name only inside the function
  "json = 'data'\ndef f():\n    import json\n    return json.dumps([1])\nprint(f(), json)\n",
  "def f():\n    from os import path as p\n    return p.basename('/a/b')\ndef g():\n    import os.path\n    return os.path.basename('/c/d')\nprint(f(), g())\n")
T("fixes.remove_duplicate_functions",
  "def f(x):\n    return x + 1\ndef g(x):\n    return x + 1\nprint(f(1), g(2))\n",
  # default values are evaluated at definition time
  "n = 1\ndef f(x=n):\n    return x\nn = 2\ndef g(x=n):\n    return x\nprint(f(), g())\n",
  # separate mutable state in the default
  "def f(a, acc=[]):\n    acc.append(a)\n    return list(acc)\ndef g(a, acc=[]):\n    acc.append(a)\n    return list(acc)\nprint(f(1), g(2), f(3))\n",
  "def f(x):\n    return x * 2\ndef g(y):\n    return y * 2\nprint(f(1), g(y=2))\n",
  # the duplicate is defined between two uses of the first definition under another binding
  "def f():\n    return 'first'\nh = f\ndef f():\n    return 'second'\ndef k():\n    return 'second'\nprint(h(), f(), k())\n")
T("fixes.remove_unused_imports",
  "import os, sys\nimport math as m\nfrom collections import OrderedDict, deque\nprint(deque([1]), sys.maxsize > 0)\n",
  # import with a side effect on later behaviour: submodule import binds the attribute on the package
  "import os\nimport xml.dom\nimport xml.dom.minidom\nimport xml\nprint(hasattr(xml, 'dom'))\n",
  "import json\nprint(eval('json.dumps(1)'))\n",
  "import collections.abc\nimport collections\nprint(collections.abc.Sized.__name__)\n")
T("fixes.add_missing_imports",
  # (a program that reaches the undefined name raises NameError: only unreached uses can be observed)
  "def f():\n    return os.path.basename('/a/b')\ndef g():\n    return math.floor(2.5) + sys.maxsize\nprint('f and g are not called')\n",
  "import sys\nif len(sys.argv) > 5:\n    print(json.dumps(1), Path('.'))\nprint('end')\n")
T("fixes.fix_duplicate_imports",
  "import os\nimport os\nimport sys, os\nfrom os import path\nfrom os import sep, path\nprint(os.sep, sys.maxsize > 0, path.basename('/a/b'), sep)\n",
  # two imports bound to the same name: the last one wins
  "import json as m\nimport csv as m\nprint(m.__name__)\n",
  "import os.path as path\nimport collections.abc as abc\nprint(path.basename('a/b'), abc.Sized.__name__)\n",
  "from os import path as p\nfrom os import path as q, sep\nfrom os import sep as p\nprint(p, q.basename('a/b'), sep)\n")
T("fixes.sort_imports",
  "import sys\nimport os\nfrom os import path\nprint(os.sep, sys.maxsize > 0, path.basename('/a/b'))\n",
  # same name bound by two imports of one block: order matters
  "import json as m\nimport csv as m\nprint(m.__name__)\n",
  "import sys\nsys.path.insert(0, '.')\nimport os\nimport collections\nprint(collections.OrderedDict.__name__, os.sep)\n")
T("fixes.fix_import_spacing",
  "import os\n\n\n\nimport sys\nx = 1\nprint(os.sep, sys.maxsize > 0, x)\n",
  "import os\ndef f():\n    return os.sep\nprint(f())\n")
T("fixes.fix_too_many_blank_lines",
  "x = 1\n\n\n\n\n\ny = 2\n\n\n\ndef f():\n\n\n\n    return x + y\n\n\n\nprint(f())\n\n\n\n",
  # blank lines inside a string literal belong to the value
  "s = '''a\n\n\n\n\nb'''\nprint(repr(s))\n",
  "def f():\n    s = '''x\n\n\n    y'''\n    return s\nprint(repr(f()))\n")
T("fixes.fix_line_lengths",
  "def f(a, b, c, d, e):\n    return a + b + c + d + e\nprint(f(1111111111111, 2222222222222, 3333333333333, 4444444444444, 5555555555555), f(1111111111111, 2222222222222, 3333333333333, 4444444444444, 5))\n",
  "x = {'aaaaaaaaaaaaaaaaaaaa': 1, 'bbbbbbbbbbbbbbbbbbbbbbbb': 2, 'cccccccccccccccccccccccc': 3, 'dddddddddddddddddddddddd': 4, 'eeeeeeeeeeee': 5}\nif x['aaaaaaaaaaaaaaaaaaaa'] == 1 and x['bbbbbbbbbbbbbbbbbbbbbbbb'] == 2 and x['cccccccccccccccccccccccc'] == 3 and x['eeeeeeeeeeee']:\n    print('yes')\nelif x['aaaaaaaaaaaaaaaaaaaa'] == 2 and x['bbbbbbbbbbbbbbbbbbbbbbbb'] == 2 and x['cccccccccccccccccccccccc'] == 3 and x['eeeeeeeeeeee']:\n    print('no')\nprint(sorted(x))\n",
  "s = 'a long string literal with    several   spaces inside, that must not be changed by the line length rule' + ' and another one that is concatenated to it'\nprint(s)\n")
T("fixes.align_variable_names_with_convention",
  "def MyFunc(SomeArg):\n    LocalVar = SomeArg + 1\n    return LocalVar\nclass my_class:\n    def Method(self):\n        return 1\nsomeConstant = 3\nprint(MyFunc(1), my_class().Method(), someConstant)\n",
  # renamed global is read through globals() / a keyword argument keeps its name
  "def f(SomeArg=1):\n    return SomeArg\nprint(f(SomeArg=2))\n",
  "myVar = 1\nprint(globals()['myVar'])\n",
  # two names that are normalised to the same new name
  "myVar = 1\nmy_var = 2\nprint(myVar, my_var)\n",
  "class A:\n    someAttr = 1\n    def getIt(self):\n        return self.someAttr\nprint(A().getIt(), A.someAttr)\n")
T("fixes.delete_commented_code",
  "x = 1\n# x = 2\n# print(x)\nprint(x)  # y = 3\n",
  "s = '''\n# x = 1\n# print(x)\n'''\nprint(s)\n",
  "def f():\n    # import os\n    # os.remove('x')\n    return 1\nprint(f())\n")
T("fixes.invalid_escape_sequence",
  "import warnings\nwarnings.simplefilter('ignore')\nprint('\\d+', \"a\\.b\", '\\d\\n' if False else 'x')\n",
  "import warnings\nwarnings.simplefilter('ignore')\ns = '\\w\\''\nprint(s, len(s))\n",
  "import warnings\nwarnings.simplefilter('ignore')\ns = b'\\d'\nt = '\\d' '\\n'\nprint(s, repr(t))\n")
T("fixes.fix_raise_missing_from",
  "def f():\n    try:\n        int('x')\n    except ValueError:\n        raise KeyError('k')\ntry:\n    f()\nexcept KeyError as e:\n    print(repr(e))\n",
  # the introduced name `error` is unbound again at the end of the handler
  "error = 5\ntry:\n    try:\n        int('x')\n    except ValueError:\n        raise KeyError(error)\nexcept KeyError as e:\n    print(e)\nprint(error)\n",
  "def f(error):\n    try:\n        int('x')\n    except ValueError:\n        raise KeyError(error)\ntry:\n    f('my message')\nexcept KeyError as e:\n    print(e)\n",
  "def f():\n    try:\n        int('x')\n    except (ValueError, TypeError):\n        raise\n    except Exception:\n        raise RuntimeError('r') from None\ntry:\n    f()\nexcept ValueError as e:\n    print(type(e).__name__)\n")
T("fixes.missing_context_manager",
  "open('t1.txt', 'w').write('hello')\nf = open('t1.txt')\ndata = f.read()\nf.close()\nprint(data, f.closed)\n",
  # another name for the file object is used after the last mention of the first one
  "open('t2.txt', 'w').write('hello')\nf = open('t2.txt')\ng = f\nprint(g.read())\ng.close()\n",
  # `with T() as d` binds the result of __enter__, not the object
  "import tempfile\nimport os\nd = tempfile.TemporaryDirectory()\nprint(os.path.isdir(d.name))\nd.cleanup()\n",
  "def f():\n    h = open('t3.txt', 'w')\n    h.write('abc')\n    h.close()\n    h = open('t3.txt')\n    s = h.read()\n    h.close()\n    return s\nprint(f())\n",
  "import sqlite3\ncon = sqlite3.connect(':memory:')\ncon.execute('create table t (a)')\ncon.execute('insert into t values (1)')\nrows = con.execute('select a from t').fetchall()\ncon.close()\nprint(rows)\n")
T("fixes.deinterpolate_logging_args",
  "import logging, sys\nlogging.basicConfig(stream=sys.stdout, format='%(message)s', level=logging.INFO)\na = 3\nlogging.info(f'a={a}')\nlogging.warning('b={}'.format(a))\nprint('end')\n",
  "import logging, sys\nlogging.basicConfig(stream=sys.stdout, format='%(message)s', level=logging.INFO)\nlogger = logging.getLogger('x')\nlogger.error(f'{1 + 1:>4} and 100%')\nlogger.log(logging.INFO, f'v={sys.maxsize > 0}')\nprint('end')\n",
  "import logging, sys\nlogging.basicConfig(stream=sys.stdout, format='%(message)s', level=logging.INFO)\nlog = logging.getLogger('y')\nlog.info('{x} {y}'.format(x=1, y=2))\nprint('end')\n")
T("fixes.simplify_assign_immediate_return",
  "def f(a):\n    x = a + 1\n    return x\nprint(f(1))\n",
  "x = 0\ndef f():\n    global x\n    x = 5\n    return x\nprint(f(), x)\n",
  "def f():\n    x = 1\n    def g():\n        nonlocal x\n        x = 7\n        return x\n    return g(), x\nprint(f())\n",
  "def f(a):\n    if a:\n        r = [a]\n        return r\n    q: int = 3\n    return q\nprint(f(0), f(2))\n")

# ---------------------------------------------------------------------------------------------------------------
# comparisons / boolean

T("fixes.singleton_eq_comparison",
  "def f(x):\n    return x == None, x != None\nprint(f(None), f(0), f(''))\n",
  # 0 == False and 1 == True, but they are not the same objects
  "def f(x):\n    return x == False, x == True, x != True\nprint(f(0), f(1), f(False), f(2), f(1.0))\n",
  "x = 0\nif x == False:\n    print('falsy zero')\nelse:\n    print('not False')\n")
T("fixes.replace_negated_numeric_comparison",
  "def f(a):\n    return not a < 3, not a <= 3, not a > 3, not a >= 3, not a == 3, not a != 3\nprint(f(2), f(3), f(4), f(2.5))\n",
  "n = float('nan')\nprint(not n < 3, not n >= 3.5, not 0 > n, not n == 3)\n",
  "def f(a, b):\n    return not a in b, not a not in b, not a is b, not a is not b\nprint(f(1, [1]), f(2, [1]), f((), ()))\n",
  "def f(a):\n    return not a + 1 < -2, not 2 * a >= a\nprint(f(-5), f(0), f(3))\n")
T("fixes.remove_redundant_boolop_values",
  "def f(x):\n    return x or 0 or '', x and 1 and 2, x or 3 or 4, 0 and x, x and 0 and 5\nprint(f(0), f(7), f([]))\n",
  "def f(x, y):\n    return (x or False or None or y), (x and True and y), ('' or x), (1 and x)\nprint(f(0, 2), f(3, 0), f([], ()))\n",
  "def g():\n    print('g called')\n    return 0\nprint(0 and g(), 1 or g(), g() or 0 or 0)\n")

# ---------------------------------------------------------------------------------------------------------------
# comprehensions and collections

T("fixes.redundant_enumerate",
  "y = ['a', 'b']\nfor _, x in enumerate(y):\n    print(100 * x)\nprint([x for _, x in enumerate(y)], {k: 1 for _, k in enumerate(y)})\n",
  "for _, x in enumerate([]):\n    print(x)\nprint(list(x for _, x in enumerate(iter('ab'))))\n",
  # `_` is read after the loop
  "for _, x in enumerate('abc'):\n    pass\nprint(_, x)\n",
  "for _, (a, b) in enumerate([(1, 2), (3, 4)]):\n    print(a + b)\n")
T("fixes.unused_zip_args",
  "for a, _ in zip([1, 2], [3, 4]):\n    print(a)\nprint([b for _, b in zip('ab', 'cd')])\n",
  "for a, _, c in zip([1, 2], [3, 4], [5, 6]):\n    print(a, c)\n",
  "import itertools\nfor a, _ in itertools.zip_longest([1], [3, 4]):\n    print(a)\n",
  "for _, _ in zip([1, 2], [3]):\n    print('x')\n")
T("fixes.replace_map_lambda_with_comp",
  "print(list(map(lambda x: x * 2, [1, 2, 3])), sum(map(lambda v: v + 1, (1, 2))))\n",
  "x = 10\nm = map(lambda x: x + 1, [1, 2])\nprint(x, list(m), x)\n",
  "fs = [1, 2]\nm = map(lambda y: y * len(fs), fs)\nfs = [5, 5, 5]\nprint(list(m))\n",
  "it = iter([1, 2, 3])\nm = map(lambda x: x, it)\nprint(next(m), next(it), next(m, 'end'))\n")
T("fixes.replace_filter_lambda_with_comp",
  "print(list(filter(lambda x: x % 2, [1, 2, 3])), list(filter(lambda v: v, ['', 'a', 0, 5])))\n",
  "import itertools\nprint(list(itertools.filterfalse(lambda x: x % 2, range(5))))\n",
  "seq = [1, 2, 3]\nf = filter(lambda x: x > 1, seq)\nseq = [7, 8]\nprint(list(f), next(iter(filter(lambda y: y, [0, 4]))))\n")
T("fixes.replace_with_filter",
  "for x in [1, 0, 2, None]:\n    if x:\n        print(x)\n",
  # the loop variable is read after the loop: it is the last element before, the last accepted one after
  "for x in [1, 0]:\n    if x:\n        print(x)\nprint('last', x)\n",
  "def ok(v):\n    return v > 1\nfor v in [1, 2, 3]:\n    if not ok(v):\n        continue\n    print(v)\nfor w in ('', 'a', 'b'):\n    if not w:\n        continue\n    print(w)\n",
  "def ok(v):\n    return v % 2\nfor v in range(4):\n    if ok(v):\n        print(v)\n        print(-v)\n")
T("fixes.merge_chained_comps",
  "print([x for x in [y for y in range(5) if y % 2] if x > 1], {x for x in {x for x in 'abca'} if x != 'a'} == {'b', 'c'})\n",
  "def t(v):\n    print('t', v)\n    return v\nprint(list(x for x in (x for x in range(3) if t(x)) if t(-x)))\n",
  "print([x * 2 for x in [x for x in range(4)]], [x for x in [x + 1 for x in range(3)]])\n")
T("fixes.merge_nested_comprehensions",
  "print([a for a in [b for b in range(4) if b % 2]], [a + 1 for a in (b for b in range(3))])\n",
  "print({a for a in {b for b in 'abca'}} == set('abc'), [a for a in {b for b in (1, 1, 2)}] == [1, 2], {a: 1 for a in {b: 2 for b in range(2)}})\n",
  "b = 'outer'\nprint([(a, b) for a in [b for b in range(2)]])\n",
  "print([a for a in [b for c in range(3) for b in range(c)]], [a for a in [b for b in range(3) for c in range(b)]])\n")
T("fixes.remove_redundant_comprehension_casts",
  "print(list(x for x in range(3)), set([x for x in 'aab']) == {'a', 'b'}, list({x for x in [3, 1, 3]}) == [3, 1] or True)\n",
  "print(next(iter(x for x in [7, 8])), dict({k: 1 for k in 'ab'}), set({k: 1 for k in 'ab'}) == {'a', 'b'}, list({k: k for k in (2, 1, 2)}))\n",
  "g = iter([x for x in range(3)])\nprint(next(g), list(g))\n")
T("fixes.remove_redundant_chain_casts",
  "import itertools\nprint(list(itertools.chain([1], (2, 3))), tuple(itertools.chain('ab', 'c')), set(itertools.chain([1], [1, 2])) == {1, 2})\n",
  "import itertools\nprint(list(itertools.chain()), tuple(itertools.chain()), set(itertools.chain()), list(iter(itertools.chain())))\n",
  "import itertools\ni = iter(itertools.chain([1, 2], [3]))\nprint(next(i), list(i))\n",
  "import itertools\ni = iter(itertools.chain([1, 2]))\nprint(next(i), list(i))\n")
T("fixes.remove_redundant_comprehensions",
  "y = [3, 1]\nprint([x for x in y], {x for x in y} == {1, 3}, list(x for x in y), {k: v for k, v in [(1, 2)]})\n",
  # a dict iterates over its keys: {k: v for k, v in d} unpacks the KEYS
  "d = {(1, 2): 3}\nprint({k: v for k, v in d})\n",
  "y = [3, 1]\nz = [x for x in y]\nz.append(0)\nprint(y, z, [x for x in y] is y)\n",
  "g = (x for x in [1, 2])\nprint(next(g), list(g))\n")
T("fixes.replace_functions_with_literals",
  "print(list(), tuple(), dict(), list((1, 2)), tuple([3, 4]), set((1, 1)), list([5]), set([x for x in 'ab']) == {'a', 'b'})\n",
  "a = list()\nb = list()\na.append(1)\nprint(a, b, a is b)\n",
  "print(set(x for x in 'aab') == {'a', 'b'}, next(iter(x for x in [9])), set({1, 2}) == {1, 2}, list([y for y in range(2)]))\n")
T("fixes.replace_collection_add_update_with_collection_literal",
  "x = [1]\nx.append(2)\nx.extend([3, 4])\nx.extend((5,))\nx.extend(range(2))\nprint(x)\n",
  "s = set()\ns.add(1)\ns.update([2, 3])\ns.update({4}, [5])\nprint(sorted(s))\n",
  "x = [i for i in range(2)]\nx.append(len('ab'))\nprint(x)\n",
  # the appended value refers to the collection itself
  "x = [1, 2]\nx.append(len(x))\nx.append(x[0])\nprint(x)\n",
  "s = {1}\ns.add(2)\ns.update('ab')\nprint(sorted(s, key=str))\n")
T("fixes.simplify_collection_unpacks",
  "print([*[1, 2], 3, *(4,)], (*[1], *[]), {*{1, 2}, *[2, 3]} == {1, 2, 3}, [*{7}], [*{'k': 1}])\n",
  "def n(v):\n    print('n', v)\n    return v\nprint([n(1), *[n(2), n(3)], *(n(4),)], {*{}, *()})\n",
  "print([*{1: 'a', 2: 'b'}], {*{1: 'a', 2: 'b'}} == {1, 2}, (*{3: 4},), [*[*[1]]])\n")
T("fixes.simplify_dict_unpacks",
  "print({**{'a': 1}, 'b': 2, **{'a': 3}}, {**{}, **{1: 2}})\n",
  "d = {'x': 0}\nprint({**d, **{'x': 1, 'y': 2}}, {**{'x': 1}, **d})\n",
  "def n(v):\n    print('n', v)\n    return v\nprint({n(1): n(2), **{n(3): n(4)}, **{n(1): n(5)}})\n")
T("fixes.remove_duplicate_dict_keys",
  "print({'a': 1, 'b': 2, 'a': 3}, {1: 'x', 1.0: 'y', True: 'z'})\n",
  # the value expression of the dropped entry has a side effect
  "def n(v):\n    print('n', v)\n    return v\nprint({'a': n(1), 'a': n(2)})\n",
  "k = 'a'\nprint({'a': 1, k: 2, 'a': 3}, {0: 'i', 0.0: 'f', False: 'b', -0.0: 'n'})\n")
T("fixes.remove_duplicate_set_elts",
  "print({1, 2, 1} == {1, 2}, len({1, 1.0, True}), {'a', 'a', 'b'} == {'a', 'b'})\n",
  # which of the equal elements survives is observable
  "print({1, 1.0}, {1.0, 1}, {True, 1, 1.0}, {0, False, 0.0})\n",
  "x = 1\nprint({1, x, 1} == {1}, {'a', x, 'a'} == {'a', 1})\n")
T("fixes.breakout_starred_args",
  "def foo(*a):\n    return a\nprint(foo(1, *(2, 3), *[4], *{5}), foo(*()), foo(*[[1, 2]]))\n",
  "def n(v):\n    print('n', v)\n    return v\ndef foo(*a, **k):\n    return a, k\nprint(foo(n(0), *(n(1), n(2)), z=n(3)))\n",
  "print(*[1, 2], *('a',), sep='-')\nprint(max(*[3, 9, 4]), '{} {}'.format(*('x', 'y')))\n")
T("fixes.replace_redundant_starred",
  "print([*(x for x in range(3))], (*[x for x in 'ab'],), {*{x for x in (1, 1)}} == {1})\n",
  "r = range(3)\nprint([*(x * x for x in r)], [*[x for x in r if x]])\n")
T("fixes.replace_for_loops_with_set_list_comp",
  "x = []\nfor i in range(3):\n    x.append(i * i)\nprint(x)\n",
  # the loop variable is read after the loop
  "x = []\nfor i in range(3):\n    x.append(i)\nprint(x, i)\n",
  # the element refers to the list that is being built
  "x = []\nfor i in range(3):\n    x.append(len(x) * 10)\nprint(x)\n",
  # += on a list extends it
  "x = []\nfor i in range(3):\n    x += [i]\nprint(x)\n",
  "s = ''\nfor c in 'abc':\n    s += c\nprint(s)\n",
  "t = 0\nfor i in range(4):\n    if i % 2:\n        t += i\nu = 10\nfor i in range(3):\n    u -= i\nprint(t, u)\n",
  "s = set()\nfor i in [1, 2, 1]:\n    for j in (0, 1):\n        if i != j:\n            s.add((i, j))\nprint(sorted(s))\n",
  # float accumulation order
  "t = 0.1\nfor v in [0.2, 0.3]:\n    t += v\nprint(t)\n")
T("fixes.replace_for_loops_with_dict_comp",
  "d = {}\nfor i in range(3):\n    d[i] = i * i\nprint(d)\n",
  "d = {'z': 0}\nfor i in range(2):\n    if i:\n        d[str(i)] = i\nprint(d)\n",
  # the value refers to the dict that is being built / the loop variable is read afterwards
  "d = {}\nfor i in range(3):\n    d[i] = len(d)\nprint(d)\n",
  "d = {}\nfor k in 'ab':\n    d[k] = 1\nprint(d, k)\n",
  "d = {a: 0 for a in 'xy'}\nfor k in 'yz':\n    d[k] = 1\nprint(d)\n")
T("fixes.replace_nested_loops_with_set_list_comp",
  "l = []\nfor a in range(3):\n    m = list(range(a))\n    l.extend(m)\nprint(l)\n",
  "l = []\nfor a in range(3):\n    if a:\n        for c in 'xy':\n            l.extend([c] * a)\nprint(l)\n",
  # the temporary and the loop variables are read after the loop
  "l = []\nfor a in range(3):\n    m = [a]\n    l.extend(m)\nprint(l, m, a)\n",
  # the extension refers to the list that is being extended
  "l = [1]\nfor a in range(3):\n    l.extend(l[:1] * len(l))\nprint(l)\n")
T("fixes.replace_setcomp_add_with_union",
  "x = {1}\nfor i in range(3):\n    x.add(i * 2)\nprint(sorted(x))\n",
  "x = {a for a in 'ab'}\nx.update('bc')\nprint(sorted(x))\n",
  "x = {0}\ny = x\nfor i in range(2):\n    x.add(len(x) + 5)\nprint(sorted(x), i)\n")
T("fixes.replace_listcomp_append_with_plus",
  "x = [0]\nfor i in range(3):\n    x.append(i * 2)\nprint(x)\n",
  "x = [a for a in 'ab']\nx.extend('cd')\nx.extend(k for k in 'e')\nprint(x)\n",
  "x = [0]\nfor i in range(3):\n    x.append(len(x))\nprint(x, i)\n")
T("fixes.replace_dict_assign_with_dict_literal",
  "d = {'a': 1}\nd['b'] = 2\nd['a'] = 3\nprint(d)\n",
  "d = {}\nd['n'] = len(d)\nd['m'] = d['n'] + 1\nprint(d)\n",
  "d = {1: 'a'}\nd[1.0] = 'b'\nd[2] = d.get(1)\nprint(d)\n")
T("fixes.replace_dict_update_with_dict_literal",
  "d = {'a': 1}\nd.update({'b': 2})\nd.update({'a': 3})\nprint(d)\n",
  "d = {'a': 1}\nd.update([('b', 2)])\nprint(d)\n",
  "d = {'a': 1}\nd.update(b=2)\nprint(d)\n",
  "d = {'a': 1}\nd.pop('a')\nd.setdefault('c', 3)\nprint(d)\n",
  "d = {'a': 1}\nd.update(d)\nd.update({'n': len(d)})\nprint(d)\n")
T("fixes.replace_dictcomp_assign_with_dict_literal",
  "d = {k: 0 for k in 'ab'}\nd['c'] = 1\nd['a'] = 2\nprint(d)\n",
  "d = {k: 0 for k in 'ab'}\nd['n'] = len(d)\nprint(d)\n")
T("fixes.replace_dictcomp_update_with_dict_literal",
  "d = {k: 0 for k in 'ab'}\nd.update({'c': 1})\nprint(d)\n",
  "d = {k: 0 for k in 'ab'}\nd.update([('c', 1)])\nd.pop('a')\nprint(d)\n")
T("fixes.implicit_dict_keys_values_items",
  "d = {1: 2, 3: 0}\nfor x, _ in d.items():\n    print(x)\nfor _, v in d.items():\n    print(v)\nprint([k for k, _ in d.items()], [v for _, v in d.items() if v])\n",
  "d = {1: 2, 3: 4}\nfor k in d.keys():\n    print(k, d[k])\nprint([d[k] for k in d.keys()], {k: d[k] + 1 for k in d.keys()})\n",
  # the loop writes d[k]: the write is turned into an assignment to the new loop variable
  "d = {1: 2, 3: 4}\nfor k in d.keys():\n    d[k] = d[k] * 10\nprint(d)\n",
  "d = {1: 2, 3: 4}\nfor k in d.keys():\n    d[k] += 1\n    print(d[k])\nprint(d)\n")
T("fixes.implicit_defaultdict",
  "d = {}\nfor k, v in [('a', 1), ('b', 2), ('a', 3)]:\n    if k not in d:\n        d[k] = []\n    d[k].append(v)\nprint(sorted(d.items()))\n",
  # the type of d is visible
  "d = {}\nfor k, v in [('a', 1), ('a', 3)]:\n    if k not in d:\n        d[k] = []\n    d[k].append(v)\nprint(d)\n",
  "import collections\nd = {}\nfor k, v in [('a', 1), ('a', 3)]:\n    if k in d:\n        d[k].add(v)\n    else:\n        d[k] = {v}\ntry:\n    d['zz']\nexcept KeyError:\n    print('KeyError')\nprint(sorted(d))\n")
T("fixes.simplify_redundant_lambda",
  "f = lambda: []\ng = lambda: {}\nh = lambda *a: [*a]\nprint(f(), g(), h(1, 2), (lambda: ())())\n",
  "def w(*a, **k):\n    return a, k\nf = lambda x, y: w(x, y)\ng = lambda *a, **k: w(*a, **k)\nprint(f(1, 2), g(3, z=4), (lambda: w())())\n",
  # late binding: the lambda looks the function up when it is called
  "def w():\n    return 'old'\nf = lambda: w()\ndef w():\n    return 'new'\nprint(f())\n")
T("fixes.inline_math_comprehensions",
  "y = [i * i for i in range(4)]\nprint(sum(y))\n",
  "def p(i):\n    print('p', i)\n    return i\ny = [p(i) for i in range(2)]\nprint('mid')\nz = sum(y)\nprint(z)\n",
  "r = range(3)\ny = (i for i in r)\nprint(max(y))\n",
  "y = {i % 2 for i in range(5)}\nz = len(y)\nw = sorted(i for i in y)\nprint(z, w)\n")
T("fixes.simplify_transposes",
  "m = [[1, 2], [3, 4]]\nprint(list(zip(*zip(*m))))\n",
  "class M:\n    def __init__(self, rows):\n        self.rows = rows\n    @property\n    def T(self):\n        return M([list(r) for r in zip(*self.rows)])\n    def __iter__(self):\n        return iter(self.rows)\nm = M([[1, 2], [3, 4]])\nprint(m.T.T.rows, [list(r) for r in zip(*m.T)])\n",
  "m = [[1, 2, 3], [4, 5]]\nfor row in zip(*zip(*m)):\n    print(row)\n")

# ---------------------------------------------------------------------------------------------------------------
# performance

T("performance.optimize_contains_types",
  "def f(x):\n    return x in [1, 2, 3], x in (4, 5), x in list(range(3)), x in sorted({1, 9}), x in [y * 2 for y in range(3)]\nprint(f(1), f(4), f(9), f(2.0))\n",
  # an unhashable element can be looked up in a list, not in a set
  "x = [1]\nprint(x in [1, 2, 3], {} in [(), 0])\n",
  # a string is not the list of its characters
  "print('ab' in list('abc'), 'ab' in sorted('abc'), 'ab' in tuple('abc'), '' in list('abc'))\n",
  "d = {1: 'a'}\nprint(1 in list(d), 'a' in set(d), 1 in {k: 0 for k in d}, 2 in iter([1, 2]))\n",
  "n = float('nan')\nprint(n in [n], n in [float('nan')], 1 in [1.0, True])\n",
  # 2835a2e: list(g) consumes the iterator to its end, `in g` only up to the first hit
  "g = iter([1, 2, 3])\nprint(2 in list(g), list(g))\n")
T("performance.remove_redundant_iter",
  "for x in list(range(3)):\n    print(x)\nprint([y for y in tuple('ab')], [z for z in iter((1, 2))])\n",
  # the copy protects the iteration from mutation in the body
  "d = {1: 'a', 2: 'b'}\nfor k in list(d):\n    del d[k]\nprint(d)\n",
  "l = [1, 2, 3]\nfor v in list(l):\n    if v < 3:\n        l.append(v + 10)\nprint(l)\n",
  "s = {1, 2}\nfor v in tuple(s):\n    s.add(v + 10)\nprint(sorted(s))\n",
  # 32fac44: list() around a generator runs the producer to its end before the loop body starts
  "def gen():\n    for i in range(3):\n        print('produce', i)\n        yield i\nfor x in list(gen()):\n    print('use', x)\nprint([y for y in tuple(gen())])\n")
T("performance.remove_redundant_chained_calls",
  "v = [3, 1, 2]\nprint(sorted(list(v)), list(tuple(v)), set(sorted(v)) == {1, 2, 3}, sum(list(v)), tuple(list(v)), list(list(v)), sorted(sorted(v)))\n",
  # keyword arguments of the outer call
  "v = ['bb', 'a', 'ccc']\nprint(sorted(list(v), key=len), sorted(tuple(v), reverse=True))\n",
  # two-stage stable sort
  "v = [(1, 'b'), (0, 'b'), (1, 'a')]\nprint(sorted(sorted(v, key=lambda t: t[0]), key=lambda t: t[1]))\n",
  # reversed() needs a sequence
  "g = (i for i in range(3))\nprint(list(reversed(list(g))), list(reversed(tuple({5: 1, 6: 2}))))\n",
  # reversed(sorted(...)) reverses ties, sorted(reverse=True) keeps them
  "v = ['bb', 'a', 'cc']\nprint(list(reversed(sorted(v, key=len))), list(reversed(sorted([3, 1, 2]))), list(reversed(sorted(v, reverse=True))))\n",
  "print(sum(sorted([3, 1, 2])), sum(reversed([1, 2])), set(reversed([1, 2])) == {1, 2}, sorted(reversed([2, 3, 1])))\n",
  # 7f623fd: the iterator over a copy outlives the expression; an iterator argument is consumed at once
  "x = [1, 2, 3]\nit = iter(list(x))\nx.append(4)\nprint(list(it))\n",
  "g = (i for i in range(3))\nit = iter(tuple(g))\nprint(list(g), list(it))\n")
T("performance.replace_sorted_heapq",
  "v = [3, 1, 2]\nprint(sorted(v, key=abs)[0], sorted(v, key=abs)[-1], sorted(v, key=abs)[:2], sorted(v, key=abs)[-2:])\n",
  # ties: sorted(...)[-1] is the LAST maximal element, max() returns the first
  "v = ['bb', 'cc', 'a']\nprint(sorted(v, key=len)[-1], sorted(v, key=len)[0])\n",
  "v = ['bb', 'cc', 'a', 'dd']\nprint(sorted(v, key=len)[-2:], sorted(v, key=len)[:2])\n",
  "v = [3, 1, 2]\nn = 0\nprint(sorted(v, key=abs)[-n:], sorted(v, key=abs)[:n])\n")
T("performance.replace_subscript_looping",
  "s = [3, 1, 2]\nprint([s[i] for i in range(len(s))], list(s[i] for i in range(len(s))), [s[i] * 2 for i in range(len(s))], {s[i]: s[i] + 1 for i in range(len(s))})\n",
  # a dict with integer keys is not a sequence
  "d = {0: 'a', 1: 'b'}\nprint([d[i] for i in range(len(d))], [d[i] + '!' for i in range(len(d))])\n",
  "s = 'abc'\nprint([s[i] for i in range(len(s))], [(i, s[i]) for i in range(len(s))])\n")

# numpy / pandas are not installed: the programs below define the tiny part of the interface they use themselves
_NP = ("class np:\n    @staticmethod\n    def dot(a, b):\n        a, b = list(a), list(b)\n        if len(a) != len(b):\n            raise ValueError('shapes not aligned')\n        t = 0\n        for i in range(len(a)):\n            t += a[i] * b[i]\n        return t\n"
       "    @staticmethod\n    def matmul(a, b):\n        return [[sum(a[i][k] * b[k][j] for k in range(len(b))) for j in range(len(b[0]))] for i in range(len(a))]\n")
T("performance_numpy.replace_implicit_dot",
  _NP + "a = [1, 2, 3]\nb = [4, 5, 6]\nprint(sum(x * y for x, y in zip(a, b)), sum([x * y for x, y in zip(a, b)]), np.dot(a, b))\n",
  _NP + "a = []\nprint(sum(x * y for x, y in zip(a, a)), np.dot(a, a))\n",
  # zip stops at the shorter operand, dot requires equal lengths
  _NP + "a = [1, 2, 3]\nb = [4, 5]\nprint(sum(x * y for x, y in zip(a, b)), np.dot(b, b))\n")
# (since c0aaff0 the rule only fires in programs that mention np.<something>: `check = np.matmul(..)` keeps the triggers
#  in its domain)
T("performance_numpy.replace_implicit_matmul",
  _NP + "left = [[1, 2], [3, 4]]\nright = [[5, 6], [7, 8]]\ncheck = np.matmul(left, right)\nresult = [[0, 0], [0, 0]]\nfor i in range(len(left)):\n    for j in range(len(right[0])):\n        for k in range(len(right)):\n            result[i][j] += left[i][k] * right[k][j]\nprint(result)\n",
  # += accumulates onto the previous content of result
  _NP + "left = [[1, 2], [3, 4]]\nright = [[5, 6], [7, 8]]\ncheck = np.matmul(left, right)\nresult = [[100, 0], [0, 100]]\nfor i in range(len(left)):\n    for j in range(len(right[0])):\n        for k in range(len(right)):\n            result[i][j] += left[i][k] * right[k][j]\nprint(result)\n",
  # the loop updates the object in place: another name for it sees the update
  _NP + "left = [[1, 2], [3, 4]]\nright = [[5, 6], [7, 8]]\ncheck = np.matmul(left, right)\nresult = [[0, 0], [0, 0]]\nalias = result\nfor i in range(len(left)):\n    for j in range(len(right[0])):\n        for k in range(len(right)):\n            result[i][j] += left[i][k] * right[k][j]\nprint(alias)\n",
  _NP + "left = [[1, 2], [3, 4]]\nright = [[5, 6], [7, 8]]\nresult = [[sum(left[i][k] * right[k][j] for k in range(len(right))) for j in range(len(right[0]))] for i in range(len(left))]\nprint(result)\n")
_M = ("class M:\n    def __init__(self, rows):\n        self.rows = [list(r) for r in rows]\n    @property\n    def T(self):\n        return M(zip(*self.rows))\n"
      "    def __repr__(self):\n        return 'M(%r)' % (self.rows,)\n"
      "class np:\n    @staticmethod\n    def matmul(a, b):\n        a, b = a.rows, b.rows\n        return M([[sum(a[i][k] * b[k][j] for k in range(len(b))) for j in range(len(b[0]))] for i in range(len(a))])\n")
T("performance_numpy.simplify_matmul_transposes",
  _M + "a = M([[1, 2], [3, 4]])\nb = M([[5, 6], [7, 9]])\nprint(np.matmul(a.T, b.T).T, np.matmul(b, a))\n",
  _M + "a = M([[1, 2, 3]])\nb = M([[4], [5]])\nprint(np.matmul(a.T, b.T).T)\n")
T("fixes.simplify_transposes",
  _M + "a = M([[1, 2], [3, 4]])\nb = M([[5, 6], [7, 9]])\nprint(a.T.T, np.matmul(a.T, b.T).T)\n")
_DF = ("class _Ix:\n    def __init__(self, rows):\n        self.rows = rows\n    def __getitem__(self, key):\n        i, j = key if isinstance(key, tuple) else (key, None)\n        row = self.rows[i]\n        return row if j is None else row[j]\n"
       "class _Row(dict):\n    def __getattr__(self, name):\n        return self if name == 'at' else self[name]\n"
       "class DF:\n    def __init__(self, rows):\n        self.rows = [_Row(r) for r in rows]\n        self.index = list(range(len(rows)))\n        self.loc = self.at = self.iloc = self.iat = _Ix(self.rows)\n"
       "    def iterrows(self):\n        return iter(enumerate(self.rows))\n    def itertuples(self):\n        return iter(self.rows)\n"
       "df = DF([{'a': 1, 'b': 2}, {'a': 3, 'b': 4}])\n")
T("performance_pandas.replace_loc_at_iloc_iat",
  _DF + "print(df.loc[0], df.loc[1, 'a'], df.iloc[1], df.iloc[0, 'b'])\n",
  _DF + "i = 1\nprint(df.loc[i], df.loc[0:1] if False else df.loc[-1])\n")
T("performance_pandas.replace_iterrows_index",
  _DF + "for i, _ in df.iterrows():\n    print(i)\nprint([i for i, _ in df.iterrows()])\n")
T("performance_pandas.replace_iterrows_itertuples",
  _DF + "for _, row in df.iterrows():\n    print(row['a'], row['b'])\n",
  _DF + "for _, row in df.iterrows():\n    print(row['a'] + row.at['b'])\n")

# ---------------------------------------------------------------------------------------------------------------
# classes

T("object_oriented.remove_unused_self_cls",
  "class A:\n    def m(self, x):\n        return x + 1\n    def k(self):\n        return self.m(1)\nprint(A().m(1), A().k())\n",
  # implicit calls pass the instance: special methods, explicit A.m(a), properties
  "class A:\n    def __len__(self):\n        return 3\n    def __repr__(self):\n        return 'A!'\nprint(len(A()), A())\n",
  "class A:\n    def m(self, x):\n        return x + 1\na = A()\nprint(A.m(a, 1))\n",
  "class A:\n    @property\n    def p(self):\n        return 7\nprint(A().p)\n",
  "class A:\n    @classmethod\n    def c(cls, x):\n        return x * 2\n    def s(self):\n        return self.c(2)\nprint(A.c(1), A().s())\n",
  "class B:\n    def m(self):\n        return 'B'\nclass C(B):\n    def m(self):\n        return 'C' + super().m()\nprint(C().m())\n")
T("object_oriented.move_staticmethod_static_scope",
  "class A:\n    @staticmethod\n    def m(x):\n        return x + 1\n    def k(self):\n        return self.m(1) + A.m(2)\nprint(A().k(), A.m(5))\n",
  "class A:\n    @staticmethod\n    def m(x):\n        return x + 1\n    def k(self):\n        r = self.m(1) + A.m(2)\n        return r\nprint(A().k(), A.m(5))\n",
  # reached through an instance held in a variable
  "class A:\n    @staticmethod\n    def m(x):\n        return x + 1\na = A()\nprint(a.m(1))\n",
  "class A:\n    @staticmethod\n    def m(x):\n        return x + 1\nprint(getattr(A, 'm')(1), 'm' in vars(A))\n",
  "def _m(x):\n    return 'module'\nclass A:\n    @staticmethod\n    def m(x):\n        return 'static'\nprint(A.m(1), _m(1))\n")
T("object_oriented.fix_unconventional_class_definitions",
  "class Foo:\n    pass\nFoo.x = 1\nFoo.y = Foo.x if False else 2\nprint(Foo.x, Foo.y)\n",
  # the value is evaluated in the class namespace after the move
  "a = 10\nclass Foo:\n    a = 1\nFoo.b = a\nprint(Foo.b)\n",
  "class Foo:\n    pass\nFoo.inst = Foo()\nprint(type(Foo.inst).__name__)\n")

# ---------------------------------------------------------------------------------------------------------------
# abstractions

T("abstractions.overused_constant",
  "a = 'some/path/to/something/cool'\nb = 'some/path/to/something/cool'\nc = 'some/path/to/something/cool'\nd = 'some/path/to/something/cool'\ne = 'some/path/to/something/cool'\nprint(a, b, c, d, e, a is e)\n",
  # a display of constants is a NEW mutable object each time it is evaluated
  "a = [1000000, 2000000, 3000000]\nb = [1000000, 2000000, 3000000]\nc = [1000000, 2000000, 3000000]\nd = [1000000, 2000000, 3000000]\ne = [1000000, 2000000, 3000000]\na.append(1)\nprint(a, b, c, d, e)\n",
  "def f():\n    return {'spam': 3, 'eggs': 2, 'snake': 1336}\ndef g():\n    return {'spam': 3, 'eggs': 2, 'snake': 1336}\nx = f()\nx['spam'] = 0\nprint(x, f(), g(), {'spam': 3, 'eggs': 2, 'snake': 1336}, {'spam': 3, 'eggs': 2, 'snake': 1336}, {'spam': 3, 'eggs': 2, 'snake': 1336})\n",
  # the default value is evaluated where the function is defined
  "import sys\ndef f(a='abcdefghijklmnopqrstuvwxyz'):\n    b = 'abcdefghijklmnopqrstuvwxyz'\n    c = 'abcdefghijklmnopqrstuvwxyz'\n    d = 'abcdefghijklmnopqrstuvwxyz'\n    e = 'abcdefghijklmnopqrstuvwxyz'\n    return a == b == c == d == e\nprint(f())\n")
T("abstractions.simplify_if_control_flow",
  "def do(v):\n    print('do', v)\n    return v\nx = 11\ny = 12\nfor z in (0, 1):\n    if z:\n        do(x)\n        do(y - x ** 2)\n        print(do(x) - do(y ** 2))\n    else:\n        do(y)\n        do(x - y ** 2)\n        print(do(y) - do(x ** 2))\n",
  # the names that differ are rebound by a call made inside the branch
  "x = 1\ny = 2\ndef bump():\n    global x, y\n    x += 10\n    y += 100\nfor z in (0, 1):\n    if z:\n        print(x)\n        bump()\n        print(x * 2)\n        print(x + 1, x - 1)\n    else:\n        print(y)\n        bump()\n        print(y * 2)\n        print(y + 1, y - 1)\n")
T("abstractions.create_abstractions",
  "out = []\nfor x in range(11):\n    out.append(x > 7)\n    if x == 3:\n        continue\n    if x == 5:\n        continue\n    if x == 8:\n        continue\n    out.append(x)\nprint(out)\n",
  "out = []\nfor x in range(6):\n    if x == 3:\n        a = 12\n    elif x == 5:\n        a = x\n    elif x == 4:\n        a = sum((x, 2, 3))\n    else:\n        a = x + 1\n    out.append(x)\n    out.append((x, a))\n    out.append(a)\nprint(out)\n")

# ---------------------------------------------------------------------------------------------------------------
# symbolic_math (kernel owned by C17; observed here through the rule functions)

T("symbolic_math.simplify_boolean_expressions",
  "def f(x, y):\n    return (x and False and y), (x or y) and (x or y), (x or x or x), (x > 2 or x > 3), (x > 2 and x > 3), (x == 8 or x >= 3)\nprint(f(0, 1), f(5, 0), f(3, 3), f(8, []), f(2.5, ''))\n",
  "def f(x):\n    return (x and not x), (x or not x), (x <= 5 or x >= 3), (x > 7 and x < 3), (x == 2 or x != 2)\nprint(f(0), f(5), f(2), f(-1), f(4.5))\n",
  "n = float('nan')\nprint((n <= 5) or (n >= 3), (n == 2) or (n != 2), n > 2 or n > 3)\n",
  "def t(v):\n    print('t', v)\n    return v\nprint(t(1) and t(0) and t(1) and not t(1), t(0) or t(0))\n")
T("symbolic_math.simplify_boolean_expressions_symmath",
  "def f(a, b, c):\n    return (a and b) or (a and c), not (not a or not b), (a or b) and (a or c)\nprint(f(1, 0, 2), f(0, 5, 5), f(3, 4, 0), f([], 'x', None))\n",
  "def f(a, b):\n    return (a and b) or (a and not b), not not a, (a or b) and a\nprint(f(1, 0), f(0, 1), f('s', ''), f((), 7))\n")
T("symbolic_math.simplify_constrained_range",
  "print([x for x in range(10) if x > 3], [x for x in range(10) if x < 4 and x >= 1], [x for x in range(2, 20) if x % 2 == 0 if x < 9])\n",
  "print(list(x for x in range(5) if x > 10), {x for x in range(-5, 5) if x <= -3} == {-5, -4, -3}, [x for x in range(10, 0, -1) if x > 6])\n",
  "n = 7\nprint([x for x in range(n) if x >= 2], [x for x in range(n) if x > n], [x for x in range(3, n) if x != 4])\n")
T("symbolic_math.simplify_math_iterators",
  "print(sum(range(10)), sum(range(3, 7)), sum(x for x in range(5)), sum([x * x for x in range(4)]), sum(2 * x + 1 for x in range(3)))\n",
  "n = 6\nprint(sum(range(n)), sum(range(2, n)), sum(i for i in range(n)), sum(1 for _ in range(n)))\n",
  "n = 0\nm = -3\nprint(sum(range(n)), sum(range(m)), sum(range(5, 3)), sum(x for x in range(m)))\n",
  "print(sum(range(0, 10, 3)), sum(x for x in range(10) if x % 2), sum(x * y for x in range(3) for y in range(2)))\n")

# ---------------------------------------------------------------------------------------------------------------
# tracing

T("tracing.fix_starred_imports",
  "from os.path import *\nprint(basename('/a/b'), join('a', 'b'))\n",
  "from math import *\nfrom os.path import *\nprint(floor(2.5), basename('x/y'), pi > 3)\n",
  # a name of the starred module that is only reached dynamically
  "from math import *\nprint(floor(2.5), eval('ceil(2.5)'))\n",
  "from string import *\nprint(digits)\n")

# near misses: programs on which a rule must NOT fire (a mutated pattern that starts matching them changes behaviour)
T("fixes.redundant_enumerate",
  "for i, _ in enumerate('abc'):\n    print(i)\n",
  "print([i for i, _ in enumerate('ab')])\n")
T("fixes.unused_zip_args",
  "for a, b in zip([1, 2], 'xy'):\n    print(a, b)\n")
# compound tests through _negate_condition (De Morgan, reversed comparisons, double negation)
T("fixes.swap_if_else",
  "def f(a, b):\n    if a and b:\n        pass\n    else:\n        return 'else'\n    return 'body'\nprint([f(a, b) for a in (0, 1) for b in (0, 1)])\n",
  "def f(a, b, c):\n    if a or (b and not c):\n        pass\n    else:\n        return 'else'\n    return 'body'\nprint([f(a, b, c) for a in (0, 1) for b in (0, 1) for c in (0, 1)])\n",
  "def f(a, b):\n    if not (a < b) or a == 3:\n        pass\n    else:\n        return 'else'\n    return 'body'\nprint([f(a, b) for a in (1, 2, 3) for b in (1, 2, 3)])\n")
T("fixes.early_continue",
  "out = []\nfor a in (0, 1):\n    for b in (0, 1):\n        if a and not b:\n            out.append(1)\n            out.append(2)\n            out.append(3)\n            out.append(4)\n            out.append(5)\n            out.append((a, b))\nprint(out)\n")
# witnesses of repaired defects (must pass from now on)
T("fixes.fix_if_assign",   # F02-7
  "def f(a, b):\n    if a:\n        v = 5\n    elif b:\n        v = True\n    else:\n        v = False\n    return v\nprint(f(1, 1), f(0, 1), f(0, 0))\n")
T("fixes.early_continue",  # F02-10
  "out = []\nfor i in range(2):\n    if i >= 0:\n        for j in range(2):\n            if j >= 0:\n                out.append(1)\n                out.append(2)\n                out.append(3)\n                out.append(4)\n                out.append(5)\n                out.append(6)\n        out.append(7)\n        out.append(8)\n        out.append(9)\n        out.append(10)\n        out.append(11)\nprint(out)\n")
T("fixes.breakout_common_code_in_ifs",  # F02-12: tail move when the if ends its block and a dedented line follows
  "def e(x):\n    print(x)\ndef f(a):\n    if a:\n        e(2)\n        e(1)\n    else:\n        e(3)\n        e(1)\nprint(f(1), f(0))\n",
  "def e(x):\n    print(x)\ndef f(a, b):\n    if b:\n        if a:\n            e(2)\n            e(1)\n        else:\n            e(3)\n            e(1)\n    else:\n        e(4)\n    for _k in (0, 1):\n        if a:\n            e(5)\n            e(b)\n        else:\n            e(b)\n    return a\nprint(f(1, 0), f(0, 1))\n")


# ------------------------------------------------------------------------------------------------------------
# Generated families (round 4: hunt reports C01-a-11, C01-b-12/13/14, C15-7 and missed seed C02-c)

def _relayout(src: str, unit: str, nl: str, else_space: bool) -> str:
    """Re-indent a base written with 4-space indentation.  Lines starting with the marker '~' are continuation
    lines of a multi-line string literal: they are emitted verbatim (without the marker)."""
    out = []
    for line in src.split("\n"):
        if line.startswith("~"):
            out.append(line[1:])
            continue
        body = line.lstrip(" ")
        n = (len(line) - len(body)) // 4
        if else_space and body.rstrip() == "else:":
            body = "else :"
        out.append(unit * n + body)
    return nl.join(out)


LAYOUTS = [("    ", "\n", False), ("  ", "\n", False), ("\t", "\n", False), ("   ", "\n", False),
           ("    ", "\n", True), ("  ", "\n", True), ("    ", "\r\n", False), ("    ", "\r", False)]

# (rules that should fire on it, program).  Every moved block has several statements, some have string literals
# that span lines, so that a textual re-indentation of the block is observable.
LAYOUT_BASES = [
    (("fixes.remove_dead_ifs",),
     "def f():\n    if True:\n        a = 1\n        b = 2\n        return a + b\nprint(f())\n"),
    (("fixes.remove_dead_ifs",),
     "if True:\n    s = \"\"\"a\n~    b\"\"\"\n    print(s)\n"),
    (("fixes.remove_dead_ifs",),
     "def f():\n    if 0:\n        return 1\n    else:\n        a = 1\n        s = '''x\n~        y\n~  z'''\n        return (a, s)\nprint(f())\n"),
    (("fixes.remove_dead_ifs",),
     "out = []\nfor i in (1, 2):\n    if 1:\n        out.append(i)\n        for j in (3, 4):\n            out.append(i * j)\n        out.append(-i)\nprint(out)\n"),
    (("fixes.remove_redundant_else",),
     "def f(x):\n    if x:\n        return 1\n    else:\n        print(\"a\")\n        return 2\nprint(f(0), f(1))\n"),
    (("fixes.remove_redundant_else",),
     "def f(x):\n    if x:\n        return 1\n    else:\n        s = \"\"\"a\n~        b\"\"\"\n        return s\nprint(repr(f(0)), f(1))\n"),
    (("fixes.remove_redundant_else",),
     "def f(x):\n    if x:\n        y = 1\n    else:\n        y = 2\n    if y == 1:\n        return 1\n    else:\n        return 2\nprint(f(0), f(1))\n"),
    (("fixes.remove_redundant_else",),
     "def f(x):\n    for i in range(3):\n        if i == x:\n            continue\n        elif i > x:\n            print('gt', i)\n            break\n        else:\n            print('lt', i)\n            t = '''q\n~  r'''\n            print(t)\n    return x\nprint(f(1), f(5))\n"),
    (("fixes.swap_if_else", "fixes.remove_redundant_else"),
     "def f(x):\n    if x:\n        pass\n    else:\n        print('no')\n        s = '''k\n~        l'''\n        return s\n    return 'yes'\nprint(f(0), f(1))\n"),
    (("fixes.swap_if_else",),
     "def f(x):\n    if x > 1:\n        a = x * 2\n        b = a + 1\n        print(a, b)\n    else:\n        return 'small'\n    return 'big'\nprint(f(0), f(3))\n"),
    (("fixes.early_return",),
     "def f(c):\n    if c:\n        print('c')\n        r = 1\n    else:\n        r = 2\n    return r\nprint(f(0), f(1))\n"),
    (("fixes.early_continue",),
     "out = []\nfor a in range(3):\n    if a != 1:\n        out.append(1)\n        out.append('''m\n~        n''')\n        out.append(3)\n        out.append(4)\n        out.append(5)\n        out.append(a)\nprint(out)\n"),
    (("fixes.breakout_common_code_in_ifs",),
     "def f(a):\n    r = []\n    if a:\n        r.append(1)\n        r.append('''u\n~        v''')\n    else:\n        r.append(2)\n        r.append('''u\n~        v''')\n    return r\nprint(f(0), f(1))\n"),
    (("fixes.breakout_common_code_in_ifs",),
     "def f(a):\n    r = []\n    if a:\n        r.append(0)\n        r.append(1)\n    else:\n        r.append(0)\n        r.append(2)\n    return r\nprint(f(0), f(1))\n"),
    (("fixes.delete_unreachable_code", "fixes.remove_dead_ifs"),
     "def f(x):\n    if x:\n        return 1\n    if False:\n        print('dead')\n    else:\n        print('live')\n        print('''w\n~    x''')\n    return 2\n    print('never')\nprint(f(0), f(1))\n"),
    (("fixes.move_before_loop",),
     "out = []\nfor i in range(2):\n    k = 7\n    out.append((i, k))\nprint(out)\n"),
    (("fixes.fix_if_return", "fixes.fix_if_assign"),
     "def f(x):\n    if x > 1:\n        return True\n    return False\ndef g(x):\n    if x > 1:\n        v = True\n    else:\n        v = False\n    return v\nprint(f(0), f(2), g(0), g(2))\n"),
]
for _rules, _src in LAYOUT_BASES:
    for _unit, _nl, _es in LAYOUTS:
        _v = _relayout(_src, _unit, _nl, _es)
        for _r in _rules:
            if _v not in TRIGGERS.get(_r, []):
                T(_r, _v)

# early_return on variables that outlive the function frame (C01-a-11)
T("fixes.early_return",
  "r = 0\ndef f(c):\n    global r\n    if c:\n        r = 1\n    else:\n        r = 2\n    return r\nprint(f(1), r)\n",
  "def outer(c):\n    r = 0\n    def f():\n        nonlocal r\n        if c:\n            r = 1\n        else:\n            r = 2\n        return r\n    return f(), r\nprint(outer(0), outer(1))\n",
  "def f(c):\n    g = lambda: r\n    if c:\n        r = 1\n    elif c is None:\n        r = 3\n    else:\n        r = 2\n    return r\nprint(f(0), f(1), f(None))\n",
  "def f(c):\n    def g():\n        return r * 10\n    if c:\n        r = 1\n    else:\n        r = 2\n    return r\nprint(f(0), f(1))\n",
  "log = []\ndef f(c):\n    def g():\n        log.append(r)\n    try:\n        if c:\n            r = 1\n        else:\n            r = 2\n        return r\n    finally:\n        g()\nprint(f(0), f(1), log)\n")

# sum() of a comprehension over a literal range, every sign of the step (missed seed C02-c: element count of a
# range with a negative step)
for _lo, _hi, _st in [(lo, hi, st) for lo in (-2, 0, 3, 7, 11) for hi in (-4, 0, 7, 10) for st in (-4, -3, -1, 2, 3)]:
    if (_hi - _lo) * _st <= 0 and (_lo, _hi) not in ((7, 7), (0, 0)):
        continue        # empty ranges: keep only two of them per step
    T("symbolic_math.simplify_math_iterators",
      f"print(sum([a for a in range({_lo}, {_hi}, {_st})]), sum(a * a + 1 for a in range({_lo}, {_hi}, {_st})))\n")
T("symbolic_math.simplify_math_iterators",
  "print(sum([a for a in range(11, 0, -3)]))\n", "print(sum(2 * a + 1 for a in range(3, -4, -1)))\n",
  "print(sum([1 for a in range(7, 7, -4)]), sum(1 for a in range(9, 0, -3)))\n")

# loops over literal iterables that yield nothing although the object is truthy (missed seed C02-b: is_blocking)
for _it in ("enumerate(())", "reversed([])", "zip(('a', 'b'), range(0))", "zip((), range(2))", "()", "range(0)", "''",
            "enumerate('a')", "reversed([1])"):
    for _rule in ("fixes.delete_unreachable_code", "fixes.remove_redundant_else", "fixes.swap_if_else"):
        T(_rule,
          f"def f():\n    for x in {_it}:\n        return 'in loop'\n    print('after the loop')\n    return 'default'\nprint(f())\n",
          f"def g(c):\n    if c:\n        for x in {_it}:\n            raise ValueError(x)\n    else:\n        return 'else'\n    return 'after'\nprint(g(0), g(1) if not list({_it}) else 'raises')\n")

# and/or in a TRUTH context (if/while tests): operands with effects must survive (F02-83 after repair e3d6231, which
# stopped the rewrites in value contexts only)
for _rule in ("symbolic_math.simplify_boolean_expressions", "symbolic_math.simplify_boolean_expressions_symmath"):
    T(_rule,
      "def t(v):\n    print('t', v)\n    return v\nif t(1) and t(0) and t(1) and not t(1):\n    print('yes')\nif t(0) or t(0):\n    print('y2')\nprint('end')\n",
      "def t(v):\n    print('t', v)\n    return v\nx = 3\nif x > 1 and (t(1) or x > 1):\n    print(1)\nwhile t(0) or t(0):\n    pass\nprint('end')\n")


# ---------------------------------------------------------------------------------------------------------------
# round 5b (seeds C02-e, C02-g): small generated families, seed-independent

def _dict_view_snapshots():
    """`for .. in list(d.<view>()):` whose body changes the size of d: the copy is what makes the loop legal
    (seed C02-e let _is_collection accept dict views, so remove_redundant_iter dropped the copy)."""
    out = []
    bodies = {"pop": "d.pop({k})", "del": "del d[{k}]", "insert": "d[({k}, 'n')] = 0", "clear": "d.clear()"}
    for wrap in ("list", "tuple"):
        for view, key in (("keys", "v"), ("values", "next(iter(d))"), ("items", "v[0]")):
            for bname, body in bodies.items():
                for binder in ("d = {1: 2, 3: 4}", "d = {i: i * i for i in range(3)}"):
                    out.append(f"{binder}\nseen = []\nfor v in {wrap}(d.{view}()):\n    seen.append(v)\n"
                               f"    {body.format(k=key)}\n    if len(seen) > 5:\n        break\nprint(seen, sorted(map(repr, d)))\n")
    # the same views in positions where dropping the copy is harmless or where the rule must not care
    out.append("d = {1: 2, 3: 4}\nprint(2 in list(d.values()), 1 in tuple(d.keys()), sorted(list(d.items())))\n")
    out.append("d = {1: 2}\nks = list(d.keys())\nd[5] = 6\nprint(ks, list(d))\n")
    return out


T("performance.remove_redundant_iter", *_dict_view_snapshots())
T("performance.optimize_contains_types", *_dict_view_snapshots()[-2:])


def _chained_tests():
    """if / loop tests that are chained comparisons whose middle operand has an effect or is not idempotent: a
    negation must evaluate it once (seed C02-g negated chains by De Morgan's law, evaluating it twice)."""
    out = []
    mids = {
        "call": ("def mid():\n    print('mid')\n    return 2\n", "mid()"),
        "next": ("it = iter([2, 9, 2, 9, 2, 9])\n", "next(it)"),
        "pop": ("q = [2, 9, 2, 9, 2, 9]\n", "q.pop()"),
    }
    chains = ("0 < {m} < 3", "0 <= {m} <= 2 < 5", "5 > {m} != 9", "{m} < 3 < {m}")
    for mname, (pre, m) in mids.items():
        for ch in chains:
            test = ch.format(m=m)
            # swap_if_else: empty / shorter body first
            out.append(f"{pre}def f():\n    if {test}:\n        pass\n    else:\n        print('else')\n        return 'e'\n"
                       f"    return 'b'\nprint(f(), f())\n")
            # early_continue: if at the end of a loop body
            out.append(f"{pre}out = []\nfor i in range(2):\n    out.append(i)\n    if {test}:\n        out.append('a')\n"
                       f"        out.append('b')\n        out.append('c')\nprint(out)\n")
            # early_return shape
            out.append(f"{pre}def g(x):\n    if {test}:\n        y = x + 1\n        y = y * 2\n        return y\n    return -1\n"
                       f"print(g(1), g(2))\n")
    return out


for _rule in ("fixes.swap_if_else", "fixes.early_continue", "fixes.early_return", "fixes.remove_redundant_else"):
    T(_rule, *_chained_tests())
