"""Closed deterministic trigger programs per rule (C02 sweep, part b).  Every program terminates normally and ends
by printing every name it binds, so that executing it before/after a rule is an oracle for the rule."""

TRIGGERS: dict = {}


def T(rule, *srcs):
    TRIGGERS.setdefault(rule, []).extend(srcs)


T("fixes.remove_dead_ifs",
  "x = 1\nwhile False:\n    x = 2\nelse:\n    x = 3\nprint(x)\n",
  "def f(a):\n    if a:\n        r = 'a'\n    elif True:\n        r = 'b'\n    else:\n        r = 'c'\n    return r\nprint(f(0), f(1))\n",
  "def f(a):\n    r = 'z'\n    if a:\n        r = 'a'\n    elif 0:\n        r = 'b'\n    else:\n        r = r + 'c'\n    return r\nprint(f(0), f(1))\n",
  "x = []\nif 1:\n    x.append(1)\nelse:\n    x.append(2)\nif ():\n    x.append(3)\nprint(x)\n")
T("fixes.delete_unreachable_code",
  "x = 1\nwhile 0:\n    x = 2\nelse:\n    x = 3\nprint(x)\n",
  "def f(a):\n    for i in range(3):\n        if i == a:\n            break\n        continue\n        print('never')\n    else:\n        return 'else'\n    return i\n    print('never')\nprint(f(1), f(7))\n")
