"""Closed deterministic trigger programs per rule (C02 sweep, part b).  Every program terminates normally and ends
by printing every name it binds, so that executing it before/after a rule is an oracle for the rule."""

TRIGGERS: dict = {}


def T(rule, *srcs):
    TRIGGERS.setdefault(rule, []).extend(srcs)


T("fixes.remove_dead_ifs",
  "x = 1\nwhile False:\n    x = 2\nelse:\n    x = 3\nprint(x)\n",
  "def f(a):\n    if a:\n        r = 'a'\n    elif True:\n        r = 'b'\n    else:\n        r = 'c'\n    return r\nprint(f(0), f(1))\n",
  "def f(a):\n    r = 'z'\n    if a:\n        r = 'a'\n    elif 0:\n        r = 'b'\n    else:\n        r = r + 'c'\n    return r\nprint(f(0), f(1))\n",
  "x = []\nif 1:\n    x.append(1)\nelse:\n    x.append(2)\nif ():\n    x.append(3)\nprint(x)\n")
T("fixes.delete_unreachable_code",
  "x = 1\nwhile 0:\n    x = 2\nelse:\n    x = 3\nprint(x)\n",
  "def f(a):\n    for i in range(3):\n        if i == a:\n            break\n        continue\n        print('never')\n    else:\n        return 'else'\n    return i\n    print('never')\nprint(f(1), f(7))\n")

# ---------------------------------------------------------------------------------------------------------------
# control flow

T("fixes.breakout_common_code_in_ifs",
  # common first statement moved in front of the test it influences (module form / function form)
  "x = 5\nif x > 0:\n    x = 0\n    print('pos')\nelse:\n    x = 0\n    print('neg')\nprint(x)\n",
  "def f(x):\n    if x > 0:\n        x = 0\n        r = 'pos'\n    else:\n        x = 0\n        r = 'neg'\n    return r, x\nprint(f(5), f(-5), f(0))\n",
  # the test has a side effect that must come before the common first statement
  "log = []\ndef t(v):\n    log.append('test')\n    return v\nfor v in (0, 1):\n    if t(v):\n        log.append('common')\n        log.append('a')\n    else:\n        log.append('common')\n        log.append('b')\nprint(log)\n",
  # common last statement (sound direction)
  "def f(a):\n    out = []\n    if a:\n        out.append('a')\n        out.append('end')\n    else:\n        out.append('b')\n        out.append('end')\n    return out\nprint(f(0), f(1))\n",
  # implicit else (body returns): first statement of the body and of the code after the if are the same
  "def f(a, acc):\n    if a:\n        acc.append(a)\n        return 'early'\n    acc.append(a)\n    return 'late'\nacc = []\nprint(f(1, acc), f(0, acc), acc)\n",
  "def f(a):\n    if a.pop():\n        a.append(9)\n        return 1\n    a.append(9)\n    return len(a)\nprint(f([0, 1]), f([1, 0]), f([0]))\n")
T("fixes.fix_if_return",
  "def f(x):\n    if x:\n        return True\n    return False\nprint(f(5))\n",
  "def f(x):\n    if x:\n        return False\n    return True\nprint(f(5), f(0), f([]), f('a'))\n",
  "def f(x, y):\n    if x and y:\n        return False\n    return True\nprint(f(5, 0), f(0, 3), f(2, 3), f([], 1))\n",
  "def f(x, y):\n    if x > y:\n        return True\n    return False\nprint(f(1, 2), f(2, 1), f(1, 1))\n",
  "def f(x, y):\n    if x or y:\n        return True\n    return False\nprint(f(0, 0), f(0, 'b'), f(3, 0))\n")
T("fixes.fix_if_assign",
  "x = 5\nif x:\n    v = True\nelse:\n    v = False\nprint(v)\n",
  "def f(x):\n    if x:\n        v = False\n    else:\n        v = True\n    return v\nprint(f(5), f(0), f(''), f([0]))\n",
  "def f(x, y):\n    if x and y:\n        v = False\n    else:\n        v = True\n    return v\nprint(f(5, 0), f(0, 3), f(2, 3))\n",
  "def f(x, y):\n    if x == y:\n        v = True\n    else:\n        v = False\n    return v\nprint(f(1, 1), f(1, 2))\n",
  "def f(x, y):\n    if x or y:\n        v = True\n    else:\n        v = False\n    return v\nprint(f(0, []), f(0, 'b'), f(3, 0))\n")
T("fixes.move_before_loop",
  "x = 0\na = 0\nwhile a:\n    x = 2\n    a = 0\nprint(x)\n",
  "x = 0\nfor i in []:\n    x = 2\nprint(x)\n",
  "def f(n):\n    x = 'init'\n    for i in range(n):\n        x = 'set'\n        y = i\n    return x\nprint(f(0), f(1), f(3))\n",
  # aliasing: the hoisted value is a fresh mutable object in every iteration
  "out = []\nfor i in range(3):\n    y = []\n    z = y\n    z.append(i)\n    out.append(y)\nprint(out)\n",
  # sound case: loop-invariant pure assignment, one or more iterations
  "total = 0\nfor i in range(1, 4):\n    k = 10\n    total = total + k * i\nprint(total, k, i)\n",
  # hoisted expression raises when evaluated although the loop body never runs
  "d = {}\nfor i in d:\n    v = d['missing']\nprint('done')\n")
T("fixes.remove_redundant_else",
  "def f(a):\n    if a:\n        return 'a'\n    else:\n        r = 'b'\n    return r\nprint(f(0), f(1))\n",
  "def f(a, b):\n    if a:\n        return 'a'\n    elif b:\n        return 'b'\n    else:\n        return 'c'\nprint(f(0, 0), f(0, 1), f(1, 0))\n",
  "out = []\nfor i in range(4):\n    if i == 1:\n        continue\n    else:\n        out.append(i)\n    if i == 2:\n        break\n    else:\n        out.append(-i)\nprint(out)\n",
  "def f(a):\n    for i in range(3):\n        if i == a:\n            raise ValueError(i)\n        else:\n            a += 0\n    return a\ntry:\n    print(f(5))\n    print(f(1))\nexcept ValueError as e:\n    print('err', e)\n")
T("fixes.swap_if_else",
  "def f(a):\n    if a:\n        pass\n    else:\n        return 'else'\n    return 'end'\nprint(f(0), f(1), f([]), f('x'))\n",
  "def f(a, b):\n    if a < b:\n        pass\n    else:\n        return 'ge'\n    return 'lt'\nprint(f(1, 2), f(2, 1), f(1, 1))\n",
  # partial order: not (a < b) is not (a >= b)
  "def f(a, b):\n    if a < b:\n        pass\n    else:\n        return 'not-less'\n    return 'less'\nprint(f({1}, {2}), f({1}, {1, 2}), f({1, 2}, {1}))\n",
  "def f(a, b):\n    if a <= b:\n        pass\n    else:\n        return 'not-le'\n    return 'le'\nn = float('nan')\nprint(f(n, 1.0), f(1.0, n), f(1.0, 2.0))\n",
  "def f(a, b):\n    if a and not b:\n        pass\n    else:\n        return 'x'\n    return 'y'\nprint(f(0, 0), f(1, 0), f(1, 1), f(0, 1))\n",
  "def f(a):\n    out = []\n    for i in range(3):\n        if i == a:\n            out.append('eq')\n            out.append(i)\n            out.append(i * 2)\n            out.append(i * 3)\n        else:\n            continue\n    return out\nprint(f(1), f(9))\n")
T("fixes.early_return",
  "def f(a):\n    if a:\n        x = 'a'\n    else:\n        x = 'b'\n    return x\nprint(f(0), f(1))\n",
  "def f(a, b):\n    if a:\n        x = 1\n    elif b:\n        x = 2\n    else:\n        x = 3\n    return x\nprint(f(0, 0), f(0, 1), f(1, 0), f(1, 1))\n",
  "def f(a, b):\n    x = 0\n    if a:\n        x = x + 1\n        if b:\n            x = x + 10\n        else:\n            x = x + 20\n    else:\n        x = -1\n    return x\nprint(f(0, 0), f(0, 1), f(1, 0), f(1, 1))\n")
T("fixes.early_continue",
  "out = []\nfor i in range(5):\n    if i % 2:\n        out.append(i)\n        out.append(i * 2)\n        out.append(i * 3)\n        out.append(i * 4)\n        out.append(i * 5)\n        out.append(i * 6)\nprint(out)\n",
  "out = []\nfor a, b in [({1}, {2}), ({1}, {1, 2}), ({1, 2}, {1})]:\n    if a < b:\n        out.append('lt')\n        out.append(len(a))\n        out.append(len(b))\n        out.append(sorted(a))\n        out.append(sorted(b))\n        out.append('end')\nprint(out)\n",
  "out = []\nfor i in range(4):\n    if i == 0:\n        out.append('zero')\n    else:\n        out.append('a')\n        out.append('b')\n        out.append(i)\nelse:\n    out.append('loop-else')\nprint(out)\n")
T("fixes.delete_unreachable_code",
  "def f(a):\n    if a:\n        return 1\n    else:\n        return 2\n    return 3\nprint(f(0), f(1))\n",
  "def f(a):\n    while True:\n        if a:\n            break\n        return 'ret'\n    return 'after'\nprint(f(0), f(1))\n",
  "def f():\n    try:\n        raise KeyError(1)\n        print('never')\n    except KeyError:\n        return 'caught'\n    return 'end'\nprint(f())\n")
T("fixes.remove_dead_ifs",
  "print('a' if 1 else 'b', 'c' if '' else 'd')\n",
  "g = (x for x in [1, 2] if False)\nprint(next(g, 'default'))\n",
  "def noisy():\n    print('noisy')\n    return [1, 2]\nprint([x for x in noisy() if 0])\nprint({x for x in noisy() if True})\n",
  "print([x for x in range(3) if 1 if x], {x: 1 for x in range(2) if ()})\n")

# ---------------------------------------------------------------------------------------------------------------
# deletion / definitions / imports

T("fixes.delete_pointless_statements",
  "x = [1, 2]\nx\nx[0]\n3 + 4\n'doc'\nprint(x)\n",
  "def f(a):\n    'docstring'\n    a\n    a == 1\n    'not a docstring'\n    return a\nprint(f(2), f.__doc__)\n",
  "class A:\n    'cls doc'\n    1\n    x = 2\n    x\nprint(A.x, A.__doc__)\n")
T("fixes.delete_unused_functions_and_classes",
  # decorator with a side effect: deleting the function deletes the registration
  "reg = []\ndef register(fn):\n    reg.append(fn.__name__)\n    return fn\n@register\ndef unused():\n    return 1\nprint(reg)\n",
  # duck-typed protocol method that is never named in the text
  "out = []\nclass W:\n    def write(self, s):\n        out.append(s)\n    def flush(self):\n        out.append('flush')\nprint('x', file=W())\nprint(out)\n",
  # class body with a side effect
  "class Unused:\n    print('class body runs')\ndef used():\n    return 1\nprint(used())\n",
  "def a():\n    return 1\ndef b():\n    return b\nclass C:\n    def m(self):\n        return 2\n    def unused(self):\n        return 3\nprint(a(), C().m())\n",
  # reached only through globals()
  "def helper():\n    return 'h'\nprint(globals()['helper']())\n")
T("fixes.undefine_unused_variables",
  "def f(a):\n    x = a + 1\n    y = a.pop()\n    return a\nprint(f([1, 2]))\n",
  "def f():\n    x = 1\n    x = 2\n    return x\nprint(f())\n",
  "def f(p):\n    a, b = p\n    c = d = p[0]\n    return b\nprint(f((1, 2)))\n",
  # the unused name is read through locals()/eval
  "def f():\n    secret = 41\n    return eval('secret + 1')\nprint(f())\n",
  "x = 1\nfor i in range(3):\n    x = i\nprint('end')\n",
  # a later del needs the binding
  "def f():\n    x = 1\n    del x\n    return 'ok'\nprint(f())\n")
T("fixes.move_imports_to_toplevel",
  "def f():\n    import math\n    return math.floor(2.5)\nprint(f())\n",
  # optional (platform specific) stdlib module guarded by try/except
  "try:\n    import winreg\nexcept ImportError:\n    winreg = None\nprint(winreg)\n",
  "import sys\nif sys.platform == 'win32':\n    import msvcrt\n    print('win')\nelse:\n    print('other')\n",
  # the function-local import shadows a global of the same name only inside the function
  "json = 'data'\ndef f():\n    import json\n    return json.dumps([1])\nprint(f(), json)\n",
  "def f():\n    from os import path as p\n    return p.basename('/a/b')\ndef g():\n    import os.path\n    return os.path.basename('/c/d')\nprint(f(), g())\n")
T("fixes.remove_duplicate_functions",
  "def f(x):\n    return x + 1\ndef g(x):\n    return x + 1\nprint(f(1), g(2), g.__name__)\n",
  # default values are evaluated at definition time
  "n = 1\ndef f(x=n):\n    return x\nn = 2\ndef g(x=n):\n    return x\nprint(f(), g())\n",
  # separate mutable state in the default
  "def f(a, acc=[]):\n    acc.append(a)\n    return list(acc)\ndef g(a, acc=[]):\n    acc.append(a)\n    return list(acc)\nprint(f(1), g(2), f(3))\n",
  "def f(x):\n    return x * 2\ndef g(y):\n    return y * 2\nprint(f(1), g(y=2))\n",
  # the duplicate is defined between two uses of the first definition under another binding
  "def f():\n    return 'first'\nh = f\ndef f():\n    return 'second'\ndef k():\n    return 'second'\nprint(h(), f(), k())\n")
T("fixes.remove_unused_imports",
  "import os, sys\nimport math as m\nfrom collections import OrderedDict, deque\nprint(deque([1]), sys.maxsize > 0)\n",
  # import with a side effect on later behaviour: submodule import binds the attribute on the package
  "import os\nimport xml.dom\nimport xml.dom.minidom\nimport xml\nprint(hasattr(xml, 'dom'))\n",
  "import json\nprint(eval('json.dumps(1)'))\n",
  "import collections.abc\nimport collections\nprint(collections.abc.Sized.__name__)\n")
T("fixes.add_missing_imports",
  "print(math.floor(2.5), os.sep == '/')\n" if False else "import sys\ntry:\n    math.floor(1.5)\nexcept NameError as e:\n    print('NameError')\n",
  "def f():\n    return os.path.basename('/a/b')\ntry:\n    print(f())\nexcept NameError:\n    print('no os')\n")
T("fixes.fix_duplicate_imports",
  "import os\nimport os\nimport sys, os\nfrom os import path\nfrom os import sep, path\nprint(os.sep, sys.maxsize > 0, path.basename('/a/b'), sep)\n",
  # two imports bound to the same name: the last one wins
  "import json as m\nimport csv as m\nprint(m.__name__)\n",
  "import os.path as path\nimport collections.abc as abc\nprint(path.basename('a/b'), abc.Sized.__name__)\n",
  "from os import path as p\nfrom os import path as q, sep\nfrom os import sep as p\nprint(p, q.basename('a/b'), sep)\n")
T("fixes.sort_imports",
  "import sys\nimport os\nfrom os import path\nprint(os.sep, sys.maxsize > 0, path.basename('/a/b'))\n",
  # same name bound by two imports of one block: order matters
  "import json as m\nimport csv as m\nprint(m.__name__)\n",
  "from string import digits as d, ascii_lowercase as d\nprint(d)\n",
  "import sys\nsys.path.insert(0, '.')\nimport os\nimport collections\nprint(collections.OrderedDict.__name__, os.sep)\n")
T("fixes.fix_import_spacing",
  "import os\n\n\n\nimport sys\nx = 1\nprint(os.sep, sys.maxsize > 0, x)\n",
  "import os\ndef f():\n    return os.sep\nprint(f())\n")
T("fixes.fix_too_many_blank_lines",
  "x = 1\n\n\n\n\n\ny = 2\n\n\n\ndef f():\n\n\n\n    return x + y\n\n\n\nprint(f())\n\n\n\n",
  # blank lines inside a string literal belong to the value
  "s = '''a\n\n\n\n\nb'''\nprint(repr(s))\n",
  "def f():\n    s = '''x\n\n\n    y'''\n    return s\nprint(repr(f()))\n")
T("fixes.fix_line_lengths",
  "def f(a, b, c, d, e):\n    return a + b + c + d + e\nprint(f(1111111111111, 2222222222222, 3333333333333, 4444444444444, 5555555555555), f(1111111111111, 2222222222222, 3333333333333, 4444444444444, 5))\n",
  "x = {'aaaaaaaaaaaaaaaaaaaa': 1, 'bbbbbbbbbbbbbbbbbbbbbbbb': 2, 'cccccccccccccccccccccccc': 3, 'dddddddddddddddddddddddd': 4, 'eeeeeeeeeeee': 5}\nif x['aaaaaaaaaaaaaaaaaaaa'] == 1 and x['bbbbbbbbbbbbbbbbbbbbbbbb'] == 2 and x['cccccccccccccccccccccccc'] == 3 and x['eeeeeeeeeeee']:\n    print('yes')\nelif x['aaaaaaaaaaaaaaaaaaaa'] == 2 and x['bbbbbbbbbbbbbbbbbbbbbbbb'] == 2 and x['cccccccccccccccccccccccc'] == 3 and x['eeeeeeeeeeee']:\n    print('no')\nprint(sorted(x))\n",
  "s = 'a long string literal with    several   spaces inside, that must not be changed by the line length rule' + ' and another one that is concatenated to it'\nprint(s)\n")
T("fixes.align_variable_names_with_convention",
  "def MyFunc(SomeArg):\n    LocalVar = SomeArg + 1\n    return LocalVar\nclass my_class:\n    def Method(self):\n        return 1\nsomeConstant = 3\nprint(MyFunc(1), my_class().Method(), someConstant)\n",
  # renamed global is read through globals() / a keyword argument keeps its name
  "def f(SomeArg=1):\n    return SomeArg\nprint(f(SomeArg=2))\n",
  "myVar = 1\nprint(globals()['myVar'])\n",
  # two names that are normalised to the same new name
  "myVar = 1\nmy_var = 2\nprint(myVar, my_var)\n",
  "class A:\n    someAttr = 1\n    def getIt(self):\n        return self.someAttr\nprint(A().getIt(), A.someAttr)\n")
T("fixes.delete_commented_code",
  "x = 1\n# x = 2\n# print(x)\nprint(x)  # y = 3\n",
  "s = '''\n# x = 1\n# print(x)\n'''\nprint(s)\n",
  "def f():\n    # import os\n    # os.remove('x')\n    return 1\nprint(f())\n")
T("fixes.invalid_escape_sequence",
  "import warnings\nwarnings.simplefilter('ignore')\nprint('\\d+', \"a\\.b\", '\\d\\n' if False else 'x')\n",
  "import warnings\nwarnings.simplefilter('ignore')\ns = '\\w\\''\nprint(s, len(s))\n",
  "import warnings\nwarnings.simplefilter('ignore')\ns = b'\\d'\nt = '\\d' '\\n'\nprint(s, repr(t))\n")
T("fixes.fix_raise_missing_from",
  "def f():\n    try:\n        int('x')\n    except ValueError:\n        raise KeyError('k')\ntry:\n    f()\nexcept KeyError as e:\n    print(repr(e))\n",
  # the introduced name `error` is unbound again at the end of the handler
  "error = 5\ntry:\n    try:\n        int('x')\n    except ValueError:\n        raise KeyError(error)\nexcept KeyError as e:\n    print(e)\nprint(error)\n",
  "def f(error):\n    try:\n        int('x')\n    except ValueError:\n        raise KeyError(error)\ntry:\n    f('my message')\nexcept KeyError as e:\n    print(e)\n",
  "def f():\n    try:\n        int('x')\n    except (ValueError, TypeError):\n        raise\n    except Exception:\n        raise RuntimeError('r') from None\ntry:\n    f()\nexcept ValueError as e:\n    print(type(e).__name__)\n")
T("fixes.missing_context_manager",
  "open('t1.txt', 'w').write('hello')\nf = open('t1.txt')\ndata = f.read()\nf.close()\nprint(data, f.closed)\n",
  # another name for the file object is used after the last mention of the first one
  "open('t2.txt', 'w').write('hello')\nf = open('t2.txt')\ng = f\nprint(g.read())\ng.close()\n",
  # `with T() as d` binds the result of __enter__, not the object
  "import tempfile\nimport os\nd = tempfile.TemporaryDirectory()\nprint(os.path.isdir(d.name))\nd.cleanup()\n",
  "def f():\n    h = open('t3.txt', 'w')\n    h.write('abc')\n    h.close()\n    h = open('t3.txt')\n    s = h.read()\n    h.close()\n    return s\nprint(f())\n",
  "import sqlite3\ncon = sqlite3.connect(':memory:')\ncon.execute('create table t (a)')\ncon.execute('insert into t values (1)')\nrows = con.execute('select a from t').fetchall()\ncon.close()\nprint(rows)\n")
T("fixes.deinterpolate_logging_args",
  "import logging, sys\nlogging.basicConfig(stream=sys.stdout, format='%(message)s', level=logging.INFO)\na = 3\nlogging.info(f'a={a}')\nlogging.warning('b={}'.format(a))\nprint('end')\n",
  "import logging, sys\nlogging.basicConfig(stream=sys.stdout, format='%(message)s', level=logging.INFO)\nlogger = logging.getLogger('x')\nlogger.error(f'{1 + 1:>4} and 100%')\nlogger.log(logging.INFO, f'v={sys.maxsize > 0}')\nprint('end')\n",
  "import logging, sys\nlogging.basicConfig(stream=sys.stdout, format='%(message)s', level=logging.INFO)\nlog = logging.getLogger('y')\nlog.info('{x} {y}'.format(x=1, y=2))\nprint('end')\n")
T("fixes.simplify_assign_immediate_return",
  "def f(a):\n    x = a + 1\n    return x\nprint(f(1))\n",
  "x = 0\ndef f():\n    global x\n    x = 5\n    return x\nprint(f(), x)\n",
  "def f():\n    x = 1\n    def g():\n        nonlocal x\n        x = 7\n        return x\n    return g(), x\nprint(f())\n",
  "def f(a):\n    if a:\n        r = [a]\n        return r\n    q: int = 3\n    return q\nprint(f(0), f(2))\n")
