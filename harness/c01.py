"""C01 -- Whole-pipeline refactoring preserves program behaviour (PipelineModel.v / PipelineProofs.v).

What is PROVED (Coq): statements about the ORCHESTRATION of main.format_code for arbitrary stage functions: if every
reachable stage preserves a preorder R (behaviour, validity, surface ...) then format_code does (T01.1, all inputs,
early returns characterised exactly); the set of stages that run is exactly `reachable` (T01.2).  That each stage
preserves behaviour is a HYPOTHESIS of those theorems, not a result.
Driver correspondence: the real format_code with every stage replaced by a scripted fake over an abstract universe of
texts vs the Gallina model (returned text, full stage sequence, call context), exhaustive small scope + seeded.
Sweep (the property's own oracle, NOT a proof): a deterministic corpus of closed programs x option combinations is
executed before/after format_code in isolated workers; failures are bisected to the first offending stage, shrunk by
statement deletion and matched against KNOWN_FINDINGS.txt by (site, structural predicate)."""
from __future__ import annotations

import ast
import itertools
import json
import random
from collections import Counter
from pathlib import Path

from . import common, c01_corpus, c01_driver, c01_findings, c01_hunt, c01_kinds, c01_sweep

PID = "C01"
WITNESS_FILE = common.VERIF / "corpus" / "c01" / "witnesses.json"

ALL_OPTS = [dict(safe=s, keep_imports=k, use_preserve=p, max_line_length=m)
            for s, k, p, m in itertools.product((False, True), (False, True), (False, True), (100, 60))]


def preserve_set(src: str) -> list[str]:
    try:
        tree = ast.parse(src)
    except SyntaxError:
        return []
    return sorted({n.name for n in tree.body if isinstance(n, (ast.FunctionDef, ast.AsyncFunctionDef, ast.ClassDef))})


def opts_for(src: str, combo: dict) -> dict:
    return {"safe": combo["safe"], "keep_imports": combo["keep_imports"], "max_line_length": combo["max_line_length"],
            "preserve": preserve_set(src) if combo["use_preserve"] else []}


def pick_combos(i: int, n: int) -> list[dict]:
    """n of the 16 combinations for program number i; rotating so that a corpus covers all of them evenly"""
    if n >= len(ALL_OPTS):
        return list(ALL_OPTS)
    return [ALL_OPTS[(i * 5 + j * 7) % len(ALL_OPTS)] for j in range(n)] if n > 1 else [ALL_OPTS[(i * 5) % len(ALL_OPTS)]]


def load_witnesses() -> dict:
    if WITNESS_FILE.exists():
        return json.loads(WITNESS_FILE.read_text())
    return {}


def build_corpus(tier: str, seed: int = 0, extra_seed=None):
    """[(cid, family, src, [options])].  Quick tier: triggers + witnesses always, plus shard (seed mod 6) of the generated
    families and of the repository examples (every shard is quiet on the unchanged tree; thorough runs all of them).
    extra_seed: seeded random programs for the failing-input search only."""
    quick = tier == "quick"
    out = []

    def add(cid, fam, src, combos):
        out.append((cid, fam, src, [opts_for(src, cb) for cb in combos]))

    if extra_seed is not None:
        for j in range(40):
            i = 1_000_000 + extra_seed * 1000 + j
            add(f"flow:{i}", "search", c01_corpus.flow_program(i), pick_combos(i, 2))
            add(f"data:{i}", "search", c01_corpus.data_program(i), pick_combos(i, 2))
        return out
    for k, (name, src) in enumerate(sorted(c01_corpus.TRIGGERS.items())):
        add(f"trigger:{name}", "trigger", src, pick_combos(k + seed, 1 if quick else 16))
        if k % 3 == 0 or not quick:        # the same program without its final line terminator: the format_code wrapper path
            add(f"trigger:{name}:unterminated", "trigger", src.rstrip("\n"), pick_combos(k + 1, 1 if quick else 4))
    # every listed finding is exercised on every run (all witnesses, both tiers); the witness of a `fixed:` entry is a
    # must-pass regression case: if it fails again nothing suppresses it
    fixed_ids = {f.id for f in common.load_findings(PID) if f.kind == "fixed"}
    for k, (fid, w) in enumerate(sorted(load_witnesses().items())):
        fam = "regression" if fid in fixed_ids else "witness"
        out.append((f"{fam}:{fid}", fam, w["src"], [w["opts"]]))
        if not quick:
            add(f"{fam}:{fid}:all", fam, w["src"], pick_combos(k, 8))
    # round 4: families over dimensions the hunters varied (harness/c01_hunt.py); small programs, all of them in both tiers
    D = {"safe": False, "keep_imports": False, "use_preserve": False, "max_line_length": 100}
    for k, (name, src) in enumerate(c01_hunt.all_programs()):
        both = [D, dict(D, safe=True)]
        add(f"hunt:{name}", "hunt", src, (both if name.startswith(("imports/", "star/")) or k % 4 == seed % 4 else [D]) if quick else both + pick_combos(k, 2))
    # round 5: statement-kind coverage (harness/c01_kinds.py).  Quick: of the carrier family the slice in which the loop
    # CAN be judged impossible to get past (constant-true while that falls through, non-empty literal for whose body ends
    # in return) with one of the two guard forms, plus shard (seed mod 16) of the rest; everything in the thorough tier (carrier x1, placement x2)
    for k, (name, src) in enumerate(c01_kinds.carrier_family()):
        capable = ":while_true:none:" in name or ":for_literal:return:" in name
        if not quick or (capable and k % 2 == seed % 2) or k % 16 == seed % 16:
            add(f"kinds:carrier:{name}", "kinds", src, pick_combos(k + seed, 1))       # 16 combinations rotate over the programs
    for k, (name, src) in enumerate(c01_kinds.placement_family()):
        if not quick or (":while_true:" in name and k % 2 == seed % 2) or k % 8 == seed % 8:
            add(f"kinds:placement:{name}", "kinds", src, pick_combos(k + seed + 1, 1 if quick else 2))
    for k, (name, src) in enumerate(c01_kinds.node_family()):
        add(f"kinds:node:{name}", "kinds", src, pick_combos(k + seed, 2 if quick else 16))
    for k, (name, src) in enumerate(c01_kinds.implicit_use_family()):
        add(f"kinds:implicit:{name}", "kinds", src, [D, dict(D, safe=True)] if quick else [D, dict(D, safe=True)] + pick_combos(k, 2))
    nflow, ndata = (240, 240) if quick else (600, 600)
    shard = (lambda i: i % 6 == seed % 6) if quick else (lambda i: True)
    for i in range(nflow):
        if shard(i):
            add(f"flow:{i}", "flow", c01_corpus.flow_program(i), pick_combos(i, 2 if quick else 4))
    for i in range(ndata):
        if shard(i):
            add(f"data:{i}", "data", c01_corpus.data_program(i), pick_combos(i + 3, 2 if quick else 4))
    for k, (name, src) in enumerate(c01_corpus.repo_examples(common.REPO)):
        if shard(k):
            add(f"repo:{name}", "repo", src, pick_combos(k, 1 if quick else 2))
    return out


def _may_match(c, r, fixed_sites) -> bool:
    """a `fixed:` witness must pass at the site that was repaired; under other option combinations it may still run
    into a different, listed defect"""
    if c[1] != "regression":
        return True
    fid = c[0].split(":")[1]
    return r.get("site") != fixed_sites.get(fid)


def run_sweep(corpus, scratch: Path, pool, kf, hist: Counter, shrink_budget=120):
    """Returns (stats, unmatched failure cases, matched {finding id: [cases]})."""
    fixed_sites = {f.id: f.fields.get("site") for f in kf if f.kind == "fixed"}
    import time
    t0 = time.time()
    srcs = [c[2] for c in corpus]
    orig = c01_sweep.exec_programs(srcs, scratch)
    common.log(f"[c01] executed {len(srcs)} originals {time.time() - t0:.0f}s")
    orig2 = c01_sweep.exec_programs(srcs, scratch)           # determinism filter: same behaviour twice
    live = []
    for c, r, r2 in zip(corpus, orig, orig2):
        b = c01_sweep.behaviour(r)
        if c01_sweep.NONDET.search(c[2]) or c01_sweep.behaviour(r2) != b:
            hist[f"original:{c[1]}:nondeterministic (outside the domain)"] += 1
            continue
        hist[f"original:{c[1]}:{r['status']}"] += 1
        if c01_sweep.observable(b):
            live.append((c, b))
    jobs = [(c[2], c[3]) for c, _ in live]
    outs = pool.format_all(jobs)
    common.log(f"[c01] formatted {sum(len(j[1]) for j in jobs)} (program, options) pairs {time.time() - t0:.0f}s")
    todo, n_eval, changed_programs = [], 0, set()
    for (c, b), (src, olist), res in zip(live, jobs, outs):
        for o, (kind, text) in zip(olist, res):
            n_eval += 1
            if kind == "exc":
                hist[f"format_code raised {text} (C04's business, skipped)"] += 1
                continue
            if text == src:
                hist["unchanged"] += 1
                continue
            changed_programs.add(c[0])
            todo.append((c, b, o, text))
    distinct = list(dict.fromkeys(t[3] for t in todo))
    er = dict(zip(distinct, map(c01_sweep.behaviour, c01_sweep.exec_programs(distinct, scratch))))
    fails, seen = [], set()
    for c, b, o, text in todo:
        if er[text] == b:
            hist["behaviour preserved"] += 1
            continue
        hist["behaviour CHANGED"] += 1
        if (c[0], text) in seen:
            continue
        seen.add((c[0], text))
        fails.append((c, b, o, text))
    # bisect every distinct failure (no shrinking yet)
    common.log(f"[c01] executed {len(distinct)} outputs, {len(fails)} distinct failures {time.time() - t0:.0f}s")
    bis = pool.bisect_all([(c[2], o, list(b), 0) for c, b, o, _ in fails])
    common.log(f"[c01] bisected {time.time() - t0:.0f}s")
    matched, pending = {}, []
    for (c, b, o, text), r in zip(fails, bis):
        r = dict(r, cid=c[0], family=c[1], output=text)
        hist["first offending stage: " + r["site"]] += 1
        f = c01_findings.match(kf, r) if "stage_in" in r and _may_match(c, r, fixed_sites) else None
        if f is not None:
            matched.setdefault(f.id, []).append(r)
        else:
            pending.append((c, b, o, r))
    # shrink what is not covered on the unminimised pair, then match again
    unmatched = []
    if pending:
        bis2 = pool.bisect_all([(c[2], o, list(b), shrink_budget) for c, b, o, _ in pending])
        for (c, b, o, r0), r in zip(pending, bis2):
            r = dict(r, cid=c[0], family=c[1], output=r0["output"])
            f = c01_findings.match(kf, r) if "stage_in" in r and _may_match(c, r, fixed_sites) else None
            if f is not None:
                matched.setdefault(f.id, []).append(r)
            elif r["site"] == "not-reproduced":
                hist["failure not reproduced under tracing (dropped)"] += 1
            else:
                unmatched.append(r)
    stats = {"programs": len(corpus), "in_domain": len(live), "evaluations": n_eval, "changed_programs": len(changed_programs),
             "executed_outputs": len(distinct), "failing_cases": len(fails)}
    return stats, unmatched, matched


# ------------------------------------------------------------------------------------------------


def driver_correspondence(run, wd: Path, mods, rnd, hist: Counter):
    pr = c01_driver.probe(mods)
    names = pr.names
    maxp = mods["main"].MAX_FILE_PASSES
    quick = run.tier == "quick"
    cases = [pr]
    if quick:
        # every (option combination, f) once; the scripted variant of the other stages rotates with f and the seed
        allc = list(c01_driver.exhaustive_cases(names))
        cases += [c for i, c in enumerate(allc) if i % 3 == (i // 3 + run.seed) % 3]
    else:
        cases += list(c01_driver.exhaustive_cases(names))
    n_exh = len(cases)
    cases += c01_driver.special_cases(names)
    n_special = len(cases) - n_exh
    cases += list(c01_driver.random_cases(rnd, names, 400 if quick else 6000))
    for c in cases[1:]:
        c01_driver.run_real(mods, c)
    dis = []
    files, shards = [], []
    good = []
    for c in cases:
        if c.problems or (c.names and c.names != names):
            dis.append({"kind": "driver-structure", "problems": c.problems or ["the callee list of _multi_run_fixes varies between runs"],
                        "case": c.key()})
        else:
            good.append(c)
        hist[f"driver:{c.fam}"] += 1
    SH = 400
    for k in range(0, len(good), SH):
        p = wd / f"drv_{k // SH}.v"
        c01_driver.write_case_file(p, good[k:k + SH], names, maxp)
        files.append(p)
        shards.append(good[k:k + SH])
    res = common.run_case_files(files)
    for p, shard in zip(files, shards):
        rc, out = res[p]
        idx = common.parse_nat_list(out) if rc == 0 else None
        if idx is None:
            dis.append({"kind": "model-evaluation-failed", "file": p.name, "log": out[-1500:]})
            continue
        for i in idx:
            c = shard[i]
            dis.append({"kind": "driver", "family": c.fam, "options": {"safe": c.safe, "keep_imports": c.keep, "preserve_mask": c.p0,
                        "max_line_length": c.maxlen}, "input_text": c01_driver.U[c.inp], "script": {k: str(v) for k, v in c.script.items()},
                        "invalid_texts": c.invalid, "indentation_levels": c.level, "impl_result": c.result,
                        "impl_trace": c01_driver.compress(c.trace, len(names)), "impl_ctx": c.ctx})
    for d in dis[:5]:
        common.log("[c01] driver disagreement: " + json.dumps(d, default=str)[:1500])
    distinct = len({(c.result, tuple(c01_driver.compress(c.trace, len(names))), tuple(c.ctx)) for c in good})
    return names, cases, dis, {"exhaustive": n_exh, "special": n_special, "random": len(cases) - n_exh - n_special,
                               "distinct_outcomes": distinct, "n_multi": len(names), "max_file_passes": maxp}


def check(run: common.Run):
    wd = common.workdir(PID)
    ps = common.proof_step(run, PID, wd)
    mods = common.import_impl()
    rnd = random.Random(run.seed)
    hist = Counter()

    names, dcases, dis, dstats = driver_correspondence(run, wd, mods, rnd, hist)

    kf = [f for f in common.load_findings(PID)]
    scratch = wd / "sweep"
    pool = c01_sweep.Pool(scratch)
    try:
        corpus = build_corpus(run.tier, run.seed)
        stats, unmatched, matched = run_sweep(corpus, scratch, pool, kf, hist)
        proof_broken = bool(ps.get("props") and not ps["props"]["ok"]) or not ps.get("build_ok", True)
        search_stats = None
        if (dis or proof_broken) and not unmatched:
            # failing-input search: seeded random programs, only now that something else has signalled a change
            search_stats, unmatched2, _ = run_sweep(build_corpus(run.tier, run.seed, extra_seed=run.seed), scratch, pool, kf, Counter())
            unmatched += unmatched2
    finally:
        pool.close()

    for f in kf:
        if f.kind != "finding":
            continue
        got = matched.get(f.id)
        if got:
            ex = got[0]
            run.known_finding(f.id, f"{f.text} [first offending stage {ex['site']}]")
        else:
            common.log(f"note: known finding {f.id} was not reproduced by this tier's corpus")

    shown = set()
    for r in unmatched:
        key = (r["site"], r.get("min_in") or r.get("src"))
        if key in shown or len(shown) >= 8:
            continue
        shown.add(key)
        run.violation({"kind": "property-oracle", "site": r["site"], "program": r["cid"], "source": r["src"], "options": r["opts"],
                       "formatted": r.get("output"), "expected_behaviour": r.get("expected"), "observed_behaviour": r.get("actual"),
                       "first_offending_stage": r["site"], "minimised_stage_input": r.get("min_in"),
                       "minimised_stage_output": r.get("min_out"),
                       "explanation": "the formatted program does not behave like the original (exit status / exception class / "
                                      "stdout) and no listed finding covers this stage + shape"}, True)
    if not unmatched:
        for d in dis[:5]:
            run.violation(dict(d, kernel="PipelineModel (orchestration of main.format_code / _multi_run_fixes)",
                               explanation="the real driver and the model disagree on the returned text, the stage sequence or the call "
                                           "context; the execution sweep and the seeded program search found no behaviour change"), False)
        if ps.get("props") and not ps["props"]["ok"]:
            pr = ps["props"]
            run.violation({"kind": "proof", "file": pr["file"], "broken": pr.get("broken"), "log": pr["log"],
                           "explanation": "a property theorem no longer checks"}, False)

    # coverage meter: which ast node classes occur in the whole (thorough, seed-independent) sweep corpus
    meter = c01_kinds.coverage_meter([c[2] for c in (corpus if run.tier != "quick" else build_corpus("thorough", 0))])
    meter["this_run_histogram"] = dict(c01_kinds.node_histogram([c[2] for c in corpus])[0]) if run.tier == "quick" else "same corpus"
    for name in meter["unlisted_uncovered"]:
        common.log(f"[c01] coverage: ast.{name} occurs in no sweep program and is not listed in corpus/c01/uncovered_nodes.json")
    for name in meter["stale_listed"]:
        common.log(f"[c01] coverage: ast.{name} is listed in corpus/c01/uncovered_nodes.json but occurs in the corpus (or is no node class)")
    for name in meter["blocks_without_carrier_template"]:
        common.log(f"[c01] coverage: statement block {name} of this interpreter's grammar has no carrier template (harness/c01_kinds.py)")

    stage_names = sorted(set(names) | set(c01_driver.TOP_STAGES) | {k for k in c01_driver.FIXED_KINDS if k.startswith("processing.chain")})
    sample_prog = next((c for c in corpus if c[1] == "data"), corpus[0])
    run.coverage.update(
        evaluations=len(dcases) + stats["evaluations"],
        distinct_nontrivial=dstats["distinct_outcomes"] + stats["changed_programs"],
        rule=("driver: distinct (returned text, stage sequence, call context) outcomes over scripted runs of the real format_code; "
              "sweep: programs of the corpus that run to completion and whose formatted text differs from the input under at least one "
              "option combination (each such output is executed and compared)"),
        samples=[{"driver_case": {"input": c01_driver.U[dcases[1].inp], "script": {k: str(v) for k, v in dcases[1].script.items()},
                                  "result": dcases[1].result, "trace": c01_driver.compress(dcases[1].trace, len(names))}},
                 {"program": sample_prog[0], "source": sample_prog[2], "options": sample_prog[3]}],
        exhaustive=False,
        driver=dstats, driver_disagreements=len(dis),
        sweep=dict(stats, corpus={k: v for k, v in Counter(c[1] for c in corpus).items()}, option_combinations=len(ALL_OPTS),
                   unmatched_failures=len(unmatched), matched_findings={k: len(v) for k, v in sorted(matched.items())},
                   failing_input_search=search_stats),
        histogram=dict(hist),
        node_coverage=meter,
        stage_hypotheses=stage_names,
        stage_hypotheses_discharged_here=[],
        trusted_base=common.TRUSTED_BASE_COMMON + [
            "the stage functions themselves: T01.1 assumes, per reachable stage, that it preserves behaviour; none of these "
            "hypotheses is discharged by this check (rule-level theorems are C02's, analyses C15/C16/C17/C18/C19)",
            "harness/c01_trace.py: interception of module attributes (fixes.*, tracing.*, ..., processing.chain, main.rmspace, "
            "main.textwrap, str.expandtabs through a str subclass)",
            "harness/c01_exec.py: forked worker per program, stdout to a file, fixed PYTHONHASHSEED, fixed cwd, alarm + CPU limit"],
        unmodelled=["every rule function (parameters of the model)", "processing.chain's internal scheduling (one stage)",
                    "core.parse cache effects between stages (C05)", "format_file / format_files (C03/C06)"],
    )
    run.assumptions += [
        "T01.1/T01.2 are about the orchestration only; per-stage behaviour preservation is a hypothesis list, printed as "
        "coverage.stage_hypotheses, of which this check discharges none",
        "the sweep is a deterministic enumeration of programs executed before/after, not a proof; it is the only evidence here "
        "about the stages themselves",
        "programs in the domain: closed, deterministic, terminate normally within 5 s, print no object addresses"]


def replay(path: str) -> int:
    data = json.loads(Path(path).read_text())
    print(json.dumps({k: data[k] for k in data if k in ("kind", "explanation", "site", "program", "options")}, indent=1))
    if data.get("kind") != "property-oracle":
        print(json.dumps(data, indent=1)[:4000])
        return 0
    wd = common.workdir(PID + "-replay")
    common.import_impl()
    pool = c01_sweep.Pool(wd / "sweep")
    try:
        src, o = data["source"], data["options"]
        exp = c01_sweep.behaviour(c01_sweep.exec_programs([src], wd / "sweep")[0])
        (res,) = pool.format_all([(src, [o])])
        kind, text = res[0]
        print("format_code:", kind)
        if kind == "ok":
            act = c01_sweep.behaviour(c01_sweep.exec_programs([text], wd / "sweep")[0])
            print("original  :", exp[0], exp[1], repr(exp[2][:300]))
            print("formatted :", act[0], act[1], repr(act[2][:300]))
            print("behaviour preserved now:", act == exp)
            if act != exp:
                (b,) = pool.bisect_all([(src, o, list(exp), 120)])
                print("first offending stage:", b["site"])
                print("--- minimised stage input\n" + str(b.get("min_in")) + "\n--- minimised stage output\n" + str(b.get("min_out")))
    finally:
        pool.close()
    return 0
