"""Structural predicates (sig=...) of the known C01 findings.  A failing sweep case is suppressed only if the first
offending stage equals the finding's `site` AND the predicate holds on the (minimised) stage input / output pair.

case = {"site", "a": stage input text (minimised when available), "b": stage output text}.  Every predicate is an
existential statement about a rewrite the stage made (something present in `a` and changed in `b`), so that extra,
unrelated code in a not fully minimised program cannot make it false; a predicate that raises never suppresses."""
from __future__ import annotations

import ast
import builtins
import re


def _p(text):
    return ast.parse(text)


def _walk(text, *types):
    return [n for n in ast.walk(_p(text)) if isinstance(n, types)]


def _dumps(text, *types):
    return {ast.dump(n) for n in _walk(text, *types)}


def _names(text):
    """identifier occurrences: Name ids, attribute names, def/class names, argument names, global/nonlocal names"""
    out = []
    for n in ast.walk(_p(text)):
        if isinstance(n, ast.Name):
            out.append(n.id)
        elif isinstance(n, ast.Attribute):
            out.append(n.attr)
        elif isinstance(n, (ast.FunctionDef, ast.AsyncFunctionDef, ast.ClassDef)):
            out.append(n.name)
        elif isinstance(n, ast.arg):
            out.append(n.arg)
        elif isinstance(n, (ast.Global, ast.Nonlocal)):
            out += n.names
        elif isinstance(n, ast.keyword) and n.arg:
            out.append(n.arg)
    return out


def _norm(name):
    return name.replace("_", "").lower()


def _loops(tree):
    return [n for n in ast.walk(tree) if isinstance(n, (ast.For, ast.While, ast.AsyncFor))]


def _removed_stmts(a, b, *types):
    """statements of the given types in `a` whose dump occurs nowhere in `b`"""
    have = {ast.dump(n) for n in ast.walk(_p(b)) if isinstance(n, ast.stmt)}
    return [n for n in _walk(a, *types) if ast.dump(n) not in have]


def _reads(node, name):
    return any(isinstance(n, ast.Name) and n.id == name for n in ast.walk(node))


# ---------------------------------------------------------------------------------------------- predicates


def raise_from_added(c):
    had = sum(1 for r in _walk(c["a"], ast.Raise) if r.cause is not None)
    return sum(1 for r in _walk(c["b"], ast.Raise) if r.cause is not None) > had


def pointless_comprehension_effect(c):
    return any(isinstance(s.value, (ast.ListComp, ast.SetComp, ast.DictComp, ast.GeneratorExp))
               and any(isinstance(n, ast.Call) for n in ast.walk(s.value)) for s in _removed_stmts(c["a"], c["b"], ast.Expr))


def pointless_builtin_call(c):
    return any(isinstance(s.value, ast.Call) and isinstance(s.value.func, ast.Name) and hasattr(builtins, s.value.func.id)
               for s in _removed_stmts(c["a"], c["b"], ast.Expr))


def pointless_may_raise(c):
    """a bare expression that can raise (subscript, division, attribute access) was deleted, e.g. inside a try block"""
    return any(any(isinstance(n, (ast.Subscript, ast.Attribute)) or (isinstance(n, ast.BinOp) and isinstance(n.op, (ast.Div, ast.FloorDiv, ast.Mod)))
                   for n in ast.walk(s.value)) for s in _removed_stmts(c["a"], c["b"], ast.Expr))


def sympy_function_leak(c):
    """a sympy printer name (Mod, floor, ...) appears in the output as if it were Python"""
    leak = {"Mod", "floor", "ceiling", "Abs", "Max", "Min", "Piecewise", "Rational", "Integer", "Float", "oo", "zoo", "nan"}
    na, nb = set(_names(c["a"])), set(_names(c["b"]))
    return bool((nb - na) & leak)


def pointless_loop_else(c):
    return any(s.orelse for s in _removed_stmts(c["a"], c["b"], ast.For, ast.While))


def hoisted_out_of_loop(c):
    """a simple assignment sits at a smaller loop-nesting depth than before (moved in front of its loop)"""
    def depths(tree):
        out = {}

        def visit(node, d):
            for ch in ast.iter_child_nodes(node):
                nd = d + 1 if isinstance(ch, (ast.For, ast.While, ast.AsyncFor)) else d
                if isinstance(ch, (ast.FunctionDef, ast.AsyncFunctionDef, ast.ClassDef, ast.Lambda)):
                    nd = 0
                if isinstance(ch, (ast.Assign, ast.AugAssign, ast.AnnAssign)):
                    out.setdefault(ast.dump(ch), []).append(d)
                visit(ch, nd)
        visit(tree, 0)
        return out
    da, db = depths(_p(c["a"])), depths(_p(c["b"]))
    return any(k in db and len(db[k]) == len(v) and sum(db[k]) < sum(v) for k, v in da.items())


def self_removed(c):
    def methods(text):
        return {(k.name, f.name): [x.arg for x in f.args.posonlyargs + f.args.args]
                for k in _walk(text, ast.ClassDef) for f in k.body if isinstance(f, (ast.FunctionDef, ast.AsyncFunctionDef))}
    ma, mb = methods(c["a"]), methods(c["b"])
    return any(k in mb and args and args[0] in ("self", "cls") and mb[k] == args[1:] for k, args in ma.items())


def staticmethod_moved_attr_access(c):
    def statics(text):
        return {f.name for k in _walk(text, ast.ClassDef) for f in k.body if isinstance(f, ast.FunctionDef)
                and any(isinstance(d, ast.Name) and d.id == "staticmethod" for d in f.decorator_list)}
    gone = statics(c["a"]) - statics(c["b"])
    return any(isinstance(n, ast.Attribute) and n.attr in gone for n in ast.walk(_p(c["b"])))


def dunder_method_deleted(c):
    def dunders(text):
        return {(k.name, f.name) for k in _walk(text, ast.ClassDef) for f in k.body
                if isinstance(f, ast.FunctionDef) and f.name.startswith("__") and f.name.endswith("__")}
    return bool(dunders(c["a"]) - dunders(c["b"]))


def eq_true_false(c):
    def hits(text, ops):
        return sum(1 for n in _walk(text, ast.Compare) for op, r in zip(n.ops, n.comparators)
                   if isinstance(op, ops) and isinstance(r, ast.Constant) and r.value in (True, False) and isinstance(r.value, bool))
    return hits(c["a"], (ast.Eq, ast.NotEq)) > hits(c["b"], (ast.Eq, ast.NotEq))


def zip_arg_dropped(c):
    def zips(text):
        return sorted(len(n.args) for n in _walk(text, ast.Call) if isinstance(n.func, ast.Name) and n.func.id == "zip")
    return sum(zips(c["b"])) < sum(zips(c["a"])) or len(zips(c["b"])) < len(zips(c["a"]))


def filter_introduced(c):
    cnt = lambda t: sum(1 for n in _walk(t, ast.Call) if isinstance(n.func, ast.Name) and n.func.id == "filter")
    return cnt(c["b"]) > cnt(c["a"])


def _bool_const(n):
    return isinstance(n, ast.Constant) and isinstance(n.value, bool)


def if_return_bool(c):
    for i in _removed_stmts(c["a"], c["b"], ast.If):
        if len(i.body) == 1 and isinstance(i.body[0], ast.Return) and _bool_const(i.body[0].value):
            return True
    return False


def if_assign_bool(c):
    for i in _removed_stmts(c["a"], c["b"], ast.If):
        if len(i.body) == 1 and isinstance(i.body[0], ast.Assign) and _bool_const(i.body[0].value):
            return True
    return False


def collection_self_reference(c):
    """x.append(e) / x.add(e) / x.update(e) / x[k] = e merged into the literal although e (or k) reads x"""
    for s in _removed_stmts(c["a"], c["b"], ast.Expr, ast.Assign):
        if isinstance(s, ast.Expr) and isinstance(s.value, ast.Call) and isinstance(s.value.func, ast.Attribute) \
                and isinstance(s.value.func.value, ast.Name):
            if any(_reads(x, s.value.func.value.id) for x in s.value.args):
                return True
        if isinstance(s, ast.Assign) and isinstance(s.targets[0], ast.Subscript) and isinstance(s.targets[0].value, ast.Name):
            n = s.targets[0].value.id
            if _reads(s.value, n) or _reads(s.targets[0].slice, n):
                return True
    return False


def dict_dup_keys(c):
    for d in _walk(c["a"], ast.Dict):
        ks = [k.value for k in d.keys if isinstance(k, ast.Constant)]
        try:
            if len(set(ks)) < len(ks) and ast.dump(d) not in _dumps(c["b"], ast.Dict):
                return True
        except TypeError:
            pass
    return False


def _removed_loops(c):
    return _removed_stmts(c["a"], c["b"], ast.For)


def comp_augassign_list(c):
    return any(isinstance(s, ast.AugAssign) and isinstance(s.value, (ast.List, ast.Tuple, ast.Set))
               for l in _removed_loops(c) for s in ast.walk(l))


def comp_reads_target(c):
    """the loop body reads the collection it builds (len(res), x not in out, m.get(x)): a comprehension cannot"""
    for l in _removed_loops(c):
        for s in ast.walk(l):
            tgt = None
            if isinstance(s, ast.Expr) and isinstance(s.value, ast.Call) and isinstance(s.value.func, ast.Attribute) \
                    and isinstance(s.value.func.value, ast.Name):
                tgt, rest = s.value.func.value.id, s.value.args
            elif isinstance(s, ast.Assign) and isinstance(s.targets[0], ast.Subscript) and isinstance(s.targets[0].value, ast.Name):
                tgt, rest = s.targets[0].value.id, [s.value, s.targets[0].slice]
            if tgt and (any(_reads(x, tgt) for x in rest) or _reads(l.iter, tgt)
                        or any(isinstance(t, ast.If) and _reads(t.test, tgt) for t in ast.walk(l))):
                return True
    return False


def loop_var_used_after(c):
    tb = _p(c["b"])
    bound_b = {n.id for n in ast.walk(tb) if isinstance(n, ast.Name) and isinstance(n.ctx, ast.Store)} | {
        a.arg for a in ast.walk(tb) if isinstance(a, ast.arg)}
    for l in _removed_loops(c):
        for t in ast.walk(l.target):
            if isinstance(t, ast.Name) and t.id != "_":
                # still read somewhere outside a comprehension in b
                comps = [x for x in ast.walk(tb) if isinstance(x, (ast.ListComp, ast.SetComp, ast.DictComp, ast.GeneratorExp))]
                inside = {id(n) for cmp in comps for n in ast.walk(cmp)}
                if any(isinstance(n, ast.Name) and n.id == t.id and isinstance(n.ctx, ast.Load) and id(n) not in inside
                       for n in ast.walk(tb)):
                    return True
    return False


def sum_shadowed_or_non_numeric(c):
    """`acc += e` loop turned into acc = sum(...): wrong when `sum` is rebound or e is not a number"""
    for l in _removed_loops(c):
        for s in ast.walk(l):
            if isinstance(s, ast.AugAssign) and isinstance(s.op, ast.Add) and isinstance(s.target, ast.Name):
                if s.target.id == "sum":
                    return True
                if any(isinstance(n, (ast.JoinedStr, ast.List)) or (isinstance(n, ast.Constant) and isinstance(n.value, str))
                       or (isinstance(n, ast.Call) and isinstance(n.func, ast.Name) and n.func.id in ("str", "repr", "list"))
                       or (isinstance(n, ast.BinOp) and isinstance(n.op, ast.Mod) and isinstance(n.left, ast.Constant)
                           and isinstance(n.left.value, str))
                       for n in ast.walk(s.value)):
                    return True
    return False


def genexp_call_paren_eaten(c):
    new = set(re.findall(r"\b([A-Za-z_]\w*iter)\(", c["b"])) - set(re.findall(r"\b([A-Za-z_]\w*iter)\(", c["a"]))
    return any(not hasattr(builtins, n) for n in new)


def double_transpose(c):
    def tt(text):
        return sum(1 for n in _walk(text, ast.Attribute) if n.attr == "T" and isinstance(n.value, ast.Attribute) and n.value.attr == "T")
    return tt(c["a"]) > tt(c["b"])


def defaultdict_introduced(c):
    return c["b"].count("defaultdict(") > c["a"].count("defaultdict(")


def boolop_constant_operand(c):
    have = _dumps(c["b"], ast.BoolOp)
    return any(any(isinstance(v, ast.Constant) for v in n.values) and ast.dump(n) not in have for n in _walk(c["a"], ast.BoolOp))


def boolop_non_boolean_operand(c):
    """an and/or whose operands are not all comparisons (so its VALUE is not a bool) was rewritten"""
    have = _dumps(c["b"], ast.BoolOp)

    def booly(v):
        return isinstance(v, ast.Compare) or (isinstance(v, ast.BoolOp) and all(booly(x) for x in v.values)) \
            or (isinstance(v, ast.UnaryOp) and isinstance(v.op, ast.Not)) or _bool_const(v)
    return any(ast.dump(n) not in have and not all(booly(v) for v in n.values) for n in _walk(c["a"], ast.BoolOp))


def sorted_reversed_stability(c):
    def hits(text):
        k = 0
        for n in _walk(text, ast.Call):
            if isinstance(n.func, ast.Name) and n.func.id in ("sorted", "reversed", "list"):
                inner = [x for a in n.args for x in ast.walk(a) if isinstance(x, ast.Call) and isinstance(x.func, ast.Name)]
                names = {n.func.id} | {x.func.id for x in inner}
                if {"sorted", "reversed"} <= names:
                    k += 1
        return k
    return hits(c["a"]) > hits(c["b"])


def reversed_of_reversed(c):
    def hits(t):
        return sum(1 for n in _walk(t, ast.Call) if isinstance(n.func, ast.Name) and n.func.id == "reversed" and n.args
                   and isinstance(n.args[0], ast.Call) and isinstance(n.args[0].func, ast.Name) and n.args[0].func.id == "reversed")
    return hits(c["b"]) > hits(c["a"])


def constrained_range_rewritten(c):
    """a comprehension over range(...) with an `if` on the loop variable had its range arguments rewritten"""
    def ranges(t):
        out = []
        for comp in _walk(t, ast.comprehension):
            if isinstance(comp.iter, ast.Call) and isinstance(comp.iter.func, ast.Name) and comp.iter.func.id == "range":
                out.append(ast.dump(comp.iter))
        return sorted(out)
    had_if = any(comp.ifs for comp in _walk(c["a"], ast.comprehension))
    return had_if and ranges(c["a"]) != ranges(c["b"])


def sorted_subscript_ties(c):
    """sorted(xs, key=...)[i] / [i:] -> min/max/heapq with a key: ties are resolved differently"""
    def hits(text):
        return sum(1 for n in _walk(text, ast.Subscript) if isinstance(n.value, ast.Call) and isinstance(n.value.func, ast.Name)
                   and n.value.func.id == "sorted" and any(k.arg == "key" for k in n.value.keywords))
    return hits(c["a"]) > hits(c["b"])


def duplicate_function_merged(c):
    fa = [f.name for f in _walk(c["a"], ast.FunctionDef)]
    fb = [f.name for f in _walk(c["b"], ast.FunctionDef)]
    return len(fb) < len(fa)


def global_assign_return(c):
    for f in _walk(c["a"], ast.FunctionDef):
        g = {n for s in f.body if isinstance(s, (ast.Global, ast.Nonlocal)) for n in s.names}
        for x, y in zip(f.body, f.body[1:]):
            if isinstance(x, ast.Assign) and isinstance(x.targets[0], ast.Name) and x.targets[0].id in g \
                    and isinstance(y, ast.Return) and isinstance(y.value, ast.Name) and y.value.id == x.targets[0].id:
                return ast.dump(x) not in {ast.dump(s) for s in ast.walk(_p(c["b"])) if isinstance(s, ast.stmt)}
    return False


def partial_rename(c):
    """some occurrences of an identifier were renamed, others (attribute access, nonlocal/global, del, keyword, an
    assignment in another block) were left: the old name still occurs, fewer times, next to its renamed form"""
    na, nb = _names(c["a"]), _names(c["b"])
    new = {_norm(n) for n in set(nb) - set(na)}
    return any(0 < nb.count(n) < na.count(n) and _norm(n) in new for n in set(na))


def rename_collision(c):
    """two different identifiers of the input end up as one"""
    na, nb = set(_names(c["a"])), set(_names(c["b"]))
    gone = na - nb
    groups = {}
    for n in na:
        groups.setdefault(_norm(n), set()).add(n)
    return any(len(g) > 1 and g & gone and len(g & nb) + len({x for x in nb - na if _norm(x) == k}) < len(g) for k, g in groups.items())


def rename_shadows(c):
    """a renamed identifier collides with a name that already exists (builtin or other binding)"""
    na, nb = _names(c["a"]), _names(c["b"])
    for n in set(nb) - set(na):
        if hasattr(builtins, n):
            return True
    for n in set(na) & set(nb):
        if nb.count(n) > na.count(n):
            return True
    return False


def star_import_removed(c):
    star = lambda t: sum(1 for n in _walk(t, ast.ImportFrom) if any(a.name == "*" for a in n.names))
    return star(c["b"]) < star(c["a"])


def logging_brace_format(c):
    return bool(re.search(r"\.format\(", c["a"])) and c["b"].count(".format(") < c["a"].count(".format(")


def logging_deinterpolated(c):
    cnt = lambda t: sum(1 for n in _walk(t, ast.Call) if isinstance(n.func, ast.Attribute) and n.func.attr in (
        "debug", "info", "warning", "error", "critical", "exception", "log") and len(n.args) == 1)
    return cnt(c["b"]) < cnt(c["a"])


def tab_in_literal(c):
    return any(isinstance(n.value, str) and "\t" in n.value for n in _walk(c["a"], ast.Constant)) and \
        _dumps(c["a"], ast.Constant) != _dumps(c["b"], ast.Constant)


def literal_whitespace_changed(c):
    as_text = lambda v: v if isinstance(v, str) else v.decode("latin-1")
    sa = sorted(as_text(n.value) for n in _walk(c["a"], ast.Constant) if isinstance(n.value, (str, bytes)))
    sb = sorted(as_text(n.value) for n in _walk(c["b"], ast.Constant) if isinstance(n.value, (str, bytes)))
    return sa != sb and [re.sub(r"\s+", "", x) for x in sa] == [re.sub(r"\s+", "", x) for x in sb]


def _own_break(loop) -> bool:
    """a break that belongs to `loop` itself (searched everywhere except nested loops' bodies and nested scopes)"""
    stack = list(loop.body)
    while stack:
        n = stack.pop()
        if isinstance(n, ast.Break):
            return True
        if isinstance(n, (ast.FunctionDef, ast.AsyncFunctionDef, ast.ClassDef, ast.Lambda)):
            continue
        if isinstance(n, (ast.For, ast.AsyncFor, ast.While)):
            stack.extend(n.orelse)
            continue
        stack.extend(ast.iter_child_nodes(n))
    return False


def _ends_flow_syntactically(st) -> bool:
    """what core.is_blocking accepts as the end of the flow inside a with body: raise / return / continue / break, a
    constant-true while loop without a break of its own, a nested with whose body does"""
    if isinstance(st, (ast.Raise, ast.Return, ast.Continue, ast.Break)):
        return True
    if isinstance(st, ast.While) and isinstance(st.test, ast.Constant) and bool(st.test.value) and not _own_break(st):
        return True
    if isinstance(st, ast.With):
        return any(_ends_flow_syntactically(x) for x in st.body)
    return False


def with_body_exits(c):
    """statements that come AFTER a `with` (same block or an enclosing one) were deleted, and the body of that with ends the flow as far as
    core.is_blocking can see (raise / return / continue / break, or `while True:` without a break: the exception that
    really ends it, e.g. StopIteration from next(it), may be swallowed by the context manager; see F16-2)"""
    from collections import Counter
    gone = Counter(ast.dump(n) for n in ast.walk(_p(c["a"])) if isinstance(n, ast.stmt))
    gone.subtract(Counter(ast.dump(n) for n in ast.walk(_p(c["b"])) if isinstance(n, ast.stmt)))
    ta = _p(c["a"])
    lost = [n for n in ast.walk(ta) if isinstance(n, ast.stmt) and gone[ast.dump(n)] > 0]
    for w in ast.walk(ta):
        if isinstance(w, ast.With) and any(_ends_flow_syntactically(x) for x in w.body) and any(n.lineno > w.end_lineno for n in lost):
            return True
    return False


def deleted_definition_has_effect(c):
    """a def / class that is gone from the output had decorators, or was a class with bases / keywords (metaclass,
    __init_subclass__) or with statements other than defs in its body: executing the definition was observable"""
    kept = {(type(n).__name__, n.name) for n in _walk(c["b"], ast.FunctionDef, ast.AsyncFunctionDef, ast.ClassDef)}
    for n in _walk(c["a"], ast.FunctionDef, ast.AsyncFunctionDef, ast.ClassDef):
        if (type(n).__name__, n.name) in kept:
            continue
        if n.decorator_list:
            return True
        if isinstance(n, ast.ClassDef) and (n.bases or n.keywords or any(
                isinstance(x, ast.Call) for st in n.body if not isinstance(st, (ast.FunctionDef, ast.AsyncFunctionDef)) for x in ast.walk(st))):
            return True
    return False


def dead_elif_else_promoted(c):
    for i in _removed_stmts(c["a"], c["b"], ast.If):
        node = i
        while len(node.orelse) == 1 and isinstance(node.orelse[0], ast.If):
            node = node.orelse[0]
            if isinstance(node.test, ast.Constant):
                return True
    return False


def len_of_literal(c):
    def hits(t):
        return sum(1 for n in _walk(t, ast.Call) if isinstance(n.func, ast.Name) and n.func.id in ("len", "sum", "min", "max")
                   and n.args and isinstance(n.args[0], (ast.List, ast.Tuple, ast.Set, ast.ListComp, ast.GeneratorExp)))
    return hits(c["a"]) > hits(c["b"])


def sum_range_closed_form(c):
    """sum(...) over a range / a comprehension over a range was replaced by a closed form (see F17-1)"""
    def hits(t):
        return sum(1 for n in _walk(t, ast.Call) if isinstance(n.func, ast.Name) and n.func.id == "sum" and n.args
                   and any(isinstance(x, ast.Call) and isinstance(x.func, ast.Name) and x.func.id == "range" for x in ast.walk(n.args[0])))
    return hits(c["a"]) > hits(c["b"])


def hoist_writes_test_var(c):
    """a statement common to all branches was moved in front of the `if` although it writes a name the test reads"""
    for i in _removed_stmts(c["a"], c["b"], ast.If):
        if not i.orelse:
            continue
        first = i.body[0]
        written = {n.id for n in ast.walk(first) if isinstance(n, ast.Name) and isinstance(n.ctx, ast.Store)}
        if any(_reads(i.test, w) for w in written) and ast.dump(first) == ast.dump(i.orelse[0]):
            return True
    return False


def splice_corruption(c):
    """the output contains identifiers that occur nowhere in the input (text spliced at a wrong offset)"""
    na, nb = set(_names(c["a"])), set(_names(c["b"]))
    new = nb - na
    text = c["a"]
    return any(n not in text and not hasattr(builtins, n) and not any(_norm(n) == _norm(m) for m in na) for n in new)


def assignment_undefined_still_read(c):
    """`name = value` reduced to `value` although the name is still read"""
    ta, tb = _p(c["a"]), _p(c["b"])
    stores = lambda t: [n.id for n in ast.walk(t) if isinstance(n, ast.Name) and isinstance(n.ctx, ast.Store)]
    sa, sb = stores(ta), stores(tb)
    for n in set(sa):
        if sb.count(n) < sa.count(n) and any(isinstance(x, ast.Name) and x.id == n and isinstance(x.ctx, ast.Load) for x in ast.walk(tb)):
            return True
    return False


def nested_loop_var_escapes(c):
    """for x in A: T.extend(B)  ->  T.extend(b for x in A for b in B) although T itself mentions x"""
    for l in _removed_loops(c):
        tv = {t.id for t in ast.walk(l.target) if isinstance(t, ast.Name)}
        for s in l.body:
            if isinstance(s, ast.Expr) and isinstance(s.value, ast.Call) and isinstance(s.value.func, ast.Attribute):
                if any(_reads(s.value.func.value, v) for v in tv):
                    return True
    return False


# ---------------------------------------------------------------------------------------------- round 4 (bug hunt)


def _cnt(text, pred):
    return sum(1 for n in ast.walk(_p(text)) if pred(n))


def _parents(tree):
    par = {}
    for n in ast.walk(tree):
        for ch in ast.iter_child_nodes(n):
            par[id(ch)] = n
    return par


def _nested_imports(text):
    """(dump of import stmt, chain of ancestor type names) for imports that are not module-level statements"""
    tree = _p(text)
    par = _parents(tree)
    out = []
    for n in ast.walk(tree):
        if isinstance(n, (ast.Import, ast.ImportFrom)):
            chain, cur = [], par.get(id(n))
            while cur is not None and not isinstance(cur, ast.Module):
                chain.append(cur)
                cur = par.get(id(cur))
            if chain:
                out.append((n, chain))
    return out


def _moved_imports(c):
    top_b = {ast.dump(n) for n in _p(c["b"]).body if isinstance(n, (ast.Import, ast.ImportFrom))}
    top_a = {ast.dump(n) for n in _p(c["a"]).body if isinstance(n, (ast.Import, ast.ImportFrom))}
    return [(n, ch) for n, ch in _nested_imports(c["a"]) if ast.dump(n) in top_b - top_a]


def import_moved_out_of_guard(c):
    return any(any(isinstance(x, (ast.Try, ast.If, ast.While, ast.For, ast.With)) for x in ch) or
               (isinstance(ch[0], (ast.FunctionDef, ast.AsyncFunctionDef)) and True and not _import_names(n) & _stored_in(ch[0], n))
               for n, ch in _moved_imports(c) if not any(isinstance(x, ast.ClassDef) for x in ch))


def _import_names(n):
    return {(a.asname or a.name).split(".")[0] for a in n.names}


def _stored_in(func, imp):
    return {x.id for x in ast.walk(func) if isinstance(x, ast.Name) and isinstance(x.ctx, (ast.Store, ast.Del))}


def import_moved_name_rebound_locally(c):
    return any(isinstance(ch[0], (ast.FunctionDef, ast.AsyncFunctionDef)) and _import_names(n) & _stored_in(ch[0], n) for n, ch in _moved_imports(c))


def import_moved_out_of_class(c):
    return any(isinstance(ch[0], ast.ClassDef) for n, ch in _moved_imports(c))


def _removed_import_names(c):
    def bound(t):
        return [nm for n in ast.walk(_p(t)) if isinstance(n, (ast.Import, ast.ImportFrom)) for nm in
                [(a.asname or a.name) for a in n.names]]
    ba, bb = bound(c["a"]), bound(c["b"])
    return [n for n in set(ba) if bb.count(n) < ba.count(n)]


def unused_import_removed(c):
    """the removed import binds a name that is read nowhere: only executing the import mattered"""
    loads = {n.id for n in ast.walk(_p(c["a"])) if isinstance(n, ast.Name) and isinstance(n.ctx, ast.Load)}
    return any(n.split(".")[0] not in loads for n in _removed_import_names(c))


def import_needed_by_del_or_augassign(c):
    tree = _p(c["a"])
    needed = {n.id for n in ast.walk(tree) if isinstance(n, ast.Name) and isinstance(n.ctx, ast.Del)} | {
        n.target.id for n in ast.walk(tree) if isinstance(n, ast.AugAssign) and isinstance(n.target, ast.Name)}
    return any(n.split(".")[0] in needed for n in _removed_import_names(c))


def pointless_loop_drains_iterator(c):
    def lazy(it):
        return not isinstance(it, (ast.List, ast.Tuple, ast.Set, ast.Dict, ast.Constant)) and not (
            isinstance(it, ast.Call) and isinstance(it.func, ast.Name) and it.func.id == "range")
    return any(lazy(s.iter) for s in _removed_stmts(c["a"], c["b"], ast.For)) or any(
        isinstance(s.value, (ast.ListComp, ast.SetComp, ast.GeneratorExp, ast.List, ast.Compare, ast.Starred))
        and any(isinstance(n, ast.Name) for n in ast.walk(s.value)) for s in _removed_stmts(c["a"], c["b"], ast.Expr))


def underscore_definition_deleted(c):
    return any(getattr(s, "name", None) == "_" for s in _removed_stmts(c["a"], c["b"], ast.FunctionDef, ast.ClassDef))


def pointless_user_callable(c):
    """a call of a name the FILE defines (class without own __init__, function, parameter) was deleted"""
    tree = _p(c["a"])
    defined = {n.name for n in ast.walk(tree) if isinstance(n, (ast.FunctionDef, ast.ClassDef))} | {a.arg for a in ast.walk(tree) if isinstance(a, ast.arg)}
    return any(isinstance(s.value, ast.Call) and isinstance(s.value.func, ast.Name) and s.value.func.id in defined
               for s in _removed_stmts(c["a"], c["b"], ast.Expr))


def _rebound_builtins(text):
    tree = _p(text)
    names = {n.name for n in ast.walk(tree) if isinstance(n, (ast.FunctionDef, ast.ClassDef))} | {
        n.id for n in ast.walk(tree) if isinstance(n, ast.Name) and isinstance(n.ctx, ast.Store)}
    return {n for n in names if hasattr(builtins, n)}


def rebound_builtin_rewritten(c):
    """the file rebinds a builtin name and the stage removed / evaluated calls of that name"""
    rb = _rebound_builtins(c["a"])
    calls = lambda t: [n.func.id for n in ast.walk(_p(t)) if isinstance(n, ast.Call) and isinstance(n.func, ast.Name)]
    ca, cb = calls(c["a"]), calls(c["b"])
    return any(cb.count(n) < ca.count(n) for n in rb)


def _str_consts(t):
    return sorted(repr(n.value) for n in ast.walk(_p(t)) if isinstance(n, ast.Constant) and isinstance(n.value, (str, bytes)))


def literal_value_changed(c):
    """the VALUE of a str/bytes literal differs although no rule is supposed to edit literals"""
    try:
        return _str_consts(c["a"]) != _str_consts(c["b"])
    except SyntaxError:
        return False


def escape_made_raw(c):
    return bool(re.search(r"\\(x[0-9a-fA-F]{2}|[0-7]{1,3}|\n)", c["a"])) and (c["b"].count('r"') + c["b"].count("r'") > c["a"].count('r"') + c["a"].count("r'"))


def raw_prefix_inside_fstring(c):
    return bool(re.search(r"""\bf['"]""", c["a"])) and c["b"].count("r\"") + c["b"].count("r'") > c["a"].count("r\"") + c["a"].count("r'")


def last_yield_removed(c):
    def gens(t):
        return {f.name for f in ast.walk(_p(t)) if isinstance(f, (ast.FunctionDef, ast.AsyncFunctionDef))
                and any(isinstance(n, (ast.Yield, ast.YieldFrom)) for n in ast.walk(f))}
    return bool(gens(c["a"]) - gens(c["b"]))


def indentation_not_four(c):
    widths = {len(l) - len(l.lstrip(" ")) for l in c["a"].split("\n") if l.strip() and l.startswith(" ")}
    return any(w % 4 for w in widths)


def else_with_space_before_colon(c):
    return bool(re.search(r"(?m)^\s*else\s+:", c["a"]))


def return_into_global_branch(c):
    """final assignments to a global/nonlocal name were replaced by returns"""
    for f in _walk(c["a"], ast.FunctionDef, ast.AsyncFunctionDef):
        if any(isinstance(n, (ast.Global, ast.Nonlocal)) for n in ast.walk(f)):
            return _cnt(c["b"], lambda n: isinstance(n, ast.Return)) > _cnt(c["a"], lambda n: isinstance(n, ast.Return))
    return False


def with_introduced(c):
    w = lambda t: _cnt(t, lambda n: isinstance(n, (ast.With, ast.AsyncWith)))
    return w(c["b"]) > w(c["a"])


def with_introduced_for_cursor(c):
    return with_introduced(c) and ".cursor(" in c["a"]


def exotic_line_separator(c):
    return bool(re.search("[\x0b\x0c\x1c\x1d\x1e\x85\u2028\u2029]", c["a"]))


def comprehension_merged(c):
    k = lambda t: _cnt(t, lambda n: isinstance(n, (ast.ListComp, ast.SetComp, ast.GeneratorExp, ast.DictComp)))
    return k(c["b"]) < k(c["a"])


def class_body_statement_rewritten(c):
    """a loop / compound statement that was a direct statement of a class body is gone"""
    def direct(t):
        return {ast.dump(s) for k in _walk(t, ast.ClassDef) for s in k.body if isinstance(s, (ast.For, ast.If, ast.Try, ast.With, ast.While))}
    return bool(direct(c["a"]) - direct(c["b"]))


def tuple_unpacking_dropped(c):
    return any(isinstance(s.targets[0], (ast.Tuple, ast.List)) for s in _removed_stmts(c["a"], c["b"], ast.Assign))


def del_target_renamed(c):
    dels = lambda t: [n.id for n in ast.walk(_p(t)) if isinstance(n, ast.Name) and isinstance(n.ctx, ast.Del)]
    return dels(c["a"]).count("_") < dels(c["b"]).count("_")


def nonlocal_target_touched(c):
    decl = {n for x in _walk(c["a"], ast.Nonlocal, ast.Global) for n in x.names}
    stores = lambda t: [n.id for n in ast.walk(_p(t)) if isinstance(n, ast.Name) and isinstance(n.ctx, ast.Store)]
    sa, sb = stores(c["a"]), stores(c["b"])
    return any(sb.count(n) < sa.count(n) for n in decl)


def lambda_replaced(c):
    k = lambda t: _cnt(t, lambda n: isinstance(n, ast.Lambda))
    return k(c["b"]) < k(c["a"])


def map_filter_lambda_inlined(c):
    k = lambda t: _cnt(t, lambda n: isinstance(n, ast.Call) and isinstance(n.func, ast.Name) and n.func.id in ("map", "filter"))
    return k(c["b"]) < k(c["a"])


def negated_comparison_rewritten(c):
    k = lambda t: _cnt(t, lambda n: isinstance(n, ast.UnaryOp) and isinstance(n.op, ast.Not) and isinstance(n.operand, ast.Compare))
    return k(c["b"]) < k(c["a"])


def fstring_field_starts_with_brace(c):
    """a replacement field whose expression now starts with '{' (set / dict display or comprehension)"""
    return bool(re.search(r"""f['"][^'"]*\{\{""", c["b"])) or (
        _cnt(c["a"], lambda n: isinstance(n, ast.JoinedStr)) > 0 and _safe_fail_parse(c["b"]))


def _safe_fail_parse(t):
    try:
        ast.parse(t)
        return False
    except SyntaxError:
        return True


def async_for_rewritten(c):
    k = lambda t: _cnt(t, lambda n: isinstance(n, ast.AsyncFor))
    return k(c["b"]) < k(c["a"])


def closed_form_in_operator_context(c):
    """sum(...) that was an operand of a binary / unary operator or attribute was replaced by an unparenthesised closed form"""
    tree = _p(c["a"])
    par = _parents(tree)
    for n in ast.walk(tree):
        if isinstance(n, ast.Call) and isinstance(n.func, ast.Name) and n.func.id == "sum":
            if isinstance(par.get(id(n)), (ast.BinOp, ast.UnaryOp, ast.Attribute, ast.Compare)):
                return _cnt(c["b"], lambda m: isinstance(m, ast.Call) and isinstance(m.func, ast.Name) and m.func.id == "sum") < \
                    _cnt(c["a"], lambda m: isinstance(m, ast.Call) and isinstance(m.func, ast.Name) and m.func.id == "sum")
    return False


def _moved_static(c):
    def statics(text):
        return {f.name: f for k in _walk(text, ast.ClassDef) for f in k.body if isinstance(f, (ast.FunctionDef, ast.AsyncFunctionDef))
                and any(isinstance(d, ast.Name) and d.id == "staticmethod" for d in f.decorator_list)}
    sa, sb = statics(c["a"]), statics(c["b"])
    return [f for n, f in sa.items() if n not in sb]


def static_moved_with_extra_decorator(c):
    """accesses of a static method that carries a second decorator were rewritten to a module-level name (whether or
    not the definition itself was moved)"""
    names = {f.name for k in _walk(c["a"], ast.ClassDef) for f in k.body if isinstance(f, (ast.FunctionDef, ast.AsyncFunctionDef))
             and len(f.decorator_list) > 1 and any(isinstance(d, ast.Name) and d.id == "staticmethod" for d in f.decorator_list)}
    acc = lambda t: sum(1 for n in ast.walk(_p(t)) if isinstance(n, ast.Attribute) and n.attr in names)
    return bool(names) and acc(c["b"]) < acc(c["a"])


def static_moved_with_defaults(c):
    return any(f.args.defaults or f.args.kw_defaults for f in _moved_static(c))


def static_moved_with_private_name(c):
    return any(re.search(r"\b__[A-Za-z0-9]+(?<!__)\b", ast.unparse(f)) for f in _moved_static(c))


def static_moved_async(c):
    return any(isinstance(f, ast.AsyncFunctionDef) for f in _moved_static(c))


def static_moved_but_assigned(c):
    names = {f.name for f in _moved_static(c)}
    return any(isinstance(n, ast.Attribute) and isinstance(n.ctx, ast.Store) and n.attr in names for n in ast.walk(_p(c["a"])))


def non_self_first_parameter_removed(c):
    def methods(text):
        return {(k.name, f.name): [x.arg for x in f.args.posonlyargs + f.args.args]
                for k in _walk(text, ast.ClassDef) for f in k.body if isinstance(f, (ast.FunctionDef, ast.AsyncFunctionDef))}
    ma, mb = methods(c["a"]), methods(c["b"])
    return any(k in mb and args and args[0] not in ("self", "cls") and mb[k] == args[1:] for k, args in ma.items())


def self_attr_call_to_cls(c):
    k = lambda t: _cnt(t, lambda n: isinstance(n, ast.Attribute) and isinstance(n.value, ast.Name) and n.value.id == "self")
    return k(c["b"]) < k(c["a"]) and not self_removed(c)


def class_attr_assignment_moved_in(c):
    def outer(t):
        return sum(1 for s in _p(t).body if isinstance(s, ast.Assign) and isinstance(s.targets[0], ast.Attribute))
    return outer(c["b"]) < outer(c["a"])


def constant_abstracted_in_match(c):
    return _cnt(c["a"], lambda n: isinstance(n, ast.Match)) > 0 and _new_upper_names(c)


def _new_upper_names(c):
    na, nb = set(_names(c["a"])), set(_names(c["b"]))
    return bool({n for n in nb - na if n.isupper() or n.startswith("_") and n[1:].isupper()})


def constant_inserted_before_docstring(c):
    body = _p(c["a"]).body
    has = bool(body) and (isinstance(body[0], ast.Expr) and isinstance(getattr(body[0], "value", None), ast.Constant) or
                          any(isinstance(s, ast.ImportFrom) and s.module == "__future__" for s in body))
    return has and _new_upper_names(c)


def constant_nested_candidates(c):
    """a repeated display that itself contains a repeated literal"""
    return _new_upper_names(c) and any(isinstance(n, (ast.Tuple, ast.List)) and any(isinstance(e, ast.Constant) and isinstance(e.value, str) and len(e.value) > 10 for e in n.elts)
                                       for n in ast.walk(_p(c["a"])))


def var_n_introduced(c):
    return bool({n for n in set(_names(c["b"])) - set(_names(c["a"])) if re.fullmatch(r"var_\d+", n)})


def snapshot_wrapper_removed(c):
    """list(...) / tuple(...) / sorted(...) around an iterable was dropped (snapshot / eager consumption lost)"""
    k = lambda t: _cnt(t, lambda n: isinstance(n, ast.Call) and isinstance(n.func, ast.Name) and n.func.id in ("list", "tuple", "sorted"))
    return k(c["b"]) < k(c["a"])


def numpy_introduced(c):
    return bool(re.search(r"\b(np|numpy)\.", c["b"])) and not re.search(r"\b(np|numpy)\b", c["a"])


def pandas_accessor_introduced(c):
    pat = r"\.(iat|at|itertuples|index)\b"
    return len(re.findall(pat, c["b"])) > len(re.findall(pat, c["a"]))


def invented_loop_variable_collides(c):
    na, nb = _names(c["a"]), _names(c["b"])
    return any(nb.count(n) > na.count(n) and na.count(n) > 0 and "_" in n for n in set(na))


def star_name_bound_in_other_scope(c):
    """a star import was narrowed / dropped and a name it provides is also bound inside some function (parameter, local,
    comprehension variable) or LATER at module level -- not a builtin and not bound earlier at module level (that shape
    is what the star import exists for)"""
    ta = _p(c["a"])
    if star_import_removed(c) or True:
        stars = [i for i, s in enumerate(ta.body) if isinstance(s, ast.ImportFrom) and any(a.name == "*" for a in s.names)]
        if not stars:
            return False
        import importlib
        exported = set()
        for i in stars:
            try:
                m = importlib.import_module(ta.body[i].module)
                exported |= set(getattr(m, "__all__", [n for n in dir(m) if not n.startswith("_")]))
            except Exception:  # noqa
                pass
        explicit_b = {a.asname or a.name for s in ast.walk(_p(c["b"])) if isinstance(s, ast.ImportFrom) for a in s.names}
        used = {n.id for n in ast.walk(ta) if isinstance(n, ast.Name) and isinstance(n.ctx, ast.Load)}
        lost = (used & exported) - explicit_b
        if not lost:
            return False
        early = set()
        for s in ta.body[:stars[0]]:
            early |= {n.id for n in ast.walk(s) if isinstance(n, ast.Name) and isinstance(n.ctx, ast.Store)}
        inner = {n.id for f in ast.walk(ta) if isinstance(f, (ast.FunctionDef, ast.Lambda, ast.ListComp, ast.GeneratorExp, ast.SetComp, ast.DictComp))
                 for n in ast.walk(f) if isinstance(n, ast.Name) and isinstance(n.ctx, ast.Store)} | {
            a.arg for a in ast.walk(ta) if isinstance(a, ast.arg)}
        later = set()
        for s in ta.body[stars[-1] + 1:]:
            if not isinstance(s, (ast.FunctionDef, ast.ClassDef)):
                later |= {n.id for n in ast.walk(s) if isinstance(n, ast.Name) and isinstance(n.ctx, ast.Store)}
        return any(n in (inner | later) and not hasattr(builtins, n) and n not in early for n in lost)
    return False


SIGS = {k: v for k, v in globals().items() if callable(v) and not k.startswith("_") and getattr(v, "__module__", None) == __name__}


def match(findings, case):
    """findings: common.Finding list (kind == 'finding').  Returns the first whose site and predicate match."""
    # lower prio= first (default 5): a predicate about a whole compound statement is tried before one about its parts
    for f in sorted(findings, key=lambda f: int(f.fields.get("prio", "5"))):
        if f.kind != "finding" or f.fields.get("site") != case["site"]:
            continue
        pred = SIGS.get(f.fields.get("sig", ""))
        if pred is None:
            continue
        for a, b in ((case.get("min_in"), case.get("min_out")), (case.get("stage_in"), case.get("stage_out"))):
            if a is None or b is None:
                continue
            try:
                if pred({"site": case["site"], "a": a, "b": b}):
                    return f
            except Exception:  # noqa
                continue
    return None
