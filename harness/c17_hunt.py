"""C17, round 4: program-level families that widen the inputs of the C17 check (hunt reports C17-0..10, C01-c-0/1/2,
C01-a-16).  Every case is a small program; the real rule is applied to its text and the program is executed before
and after under every environment of a box.  Observed: the value AND type of `r`, the exception type, the log of the
effectful operands (`e0()`, `next(it)`), the bindings a walrus leaves behind.

Oracle (the property's own): same value (and type) of r for every integer assignment; an exception raised by the
rewritten program that the original does not raise, a new or reordered effect, or a lost binding is a failure too.
Dropping an evaluation that cannot change r (`f() and True and not f()` -> False) is the tool's documented design
(tests/unit/test_simplify_boolean_expressions_symmath.py) and is not reported."""
from __future__ import annotations

import ast
import itertools

from . import common

BOX = (-2, -1, 0, 1, 2, 3)


# ---------------------------------------------------------------------------------------------------------------
# execution


def _env(vals: dict, log: list):
    it_src = [4, 9, 1, 7, 0, 5]

    def e0():
        log.append("e0"); return vals.get("e0", 1)

    def e1():
        log.append("e1"); return vals.get("e1", 0)

    class _It:
        def __init__(self):
            self.i = 0

        def __iter__(self):
            return self

        def __next__(self):
            log.append("next"); self.i += 1
            return it_src[(self.i - 1) % len(it_src)]
    env = {"e0": e0, "e1": e1, "it": _It(), "t": (5, 0, 7), "cfg": {} if vals.get("x", 0) <= 0 else {"on": vals.get("y", 1)}}
    env.update({k: v for k, v in vals.items() if k not in ("e0", "e1")})
    return env


def run_program(text: str, vals: dict):
    """(value of r with its type | None, exception type | None, effect log, names bound by the program)"""
    log = []
    env = _env(vals, log)
    before = set(env)
    try:
        exec(compile(text, "<prog>", "exec"), env)
        exc = None
    except Exception as e:  # noqa
        exc = type(e).__name__
    r = env.get("r", "<unbound>")
    bound = sorted(k for k in set(env) - before if k not in ("__builtins__", "r", "f", "g"))
    return (repr(r), type(r).__name__), exc, tuple(log), tuple((k, repr(env[k])) for k in bound)


def _subsequence(small, big) -> bool:
    it = iter(big)
    return all(x in it for x in small)


def compare(before, after) -> str | None:
    (rb, eb, lb, bb), (ra, ea, la, ba) = before, after
    if ea is not None and ea != eb:
        return f"the rewritten program raises {ea}, the original {'raises ' + eb if eb else 'does not raise'}"
    if eb is not None and ea is None:
        return None          # an evaluation that raised was dropped: the tool's design, see the module docstring
    if eb is None and rb != ra:
        return f"r = {rb[0]} ({rb[1]}) became {ra[0]} ({ra[1]})"
    if not _subsequence(la, lb):
        return f"effects {list(lb)} became {list(la)} (a new or reordered evaluation)"
    if eb is None and not set(dict(ba)) >= set(dict(bb)):
        return f"bindings {dict(bb)} became {dict(ba)} (a name is no longer bound)"
    return None


# ---------------------------------------------------------------------------------------------------------------
# families: (family, site, module, rule, source, variables)

SUM_CTX = ["r = {S}\n", "r = {S} ** 2\n", "r = 10 - {S}\n", "r = x * {S}\n", "r = -{S} % 7\n", "r = {S} * 2\n",
           "r = ({S}).bit_length() if isinstance({S}, int) else -1\n", "r = [{S}, 1]\n", "r = {S} if x else 0\n",
           "r = {S} < 3\n", "r = 2 ** {S} if 0 <= {S} < 9 else 0\n"]
SUM_BODIES = [   # the argument of sum(...)
    "range(-3, 0)", "[1, -3]", "range(x, y)", "range(y)", "[x + 1, x + 2]", "[-1, -2]", "range(3, 17)",
    "i and 1 for i in range(5)", "i or 1 for i in range(5)", "i if x else 0 for i in range(4)", "[not x, 1]",
    "[(1 if x else 2) + 0, 3]", "range(y if x else 0)", "i < 2 for i in range(4)", "[i if i else 7 for i in range(3)]",
    "[1 / 2, 1 / 2]", "3 ** i for i in range(-1, 3)", "(-1) ** i for i in range(-1, 3)", "[0.1, 0.2]", "[y / 2, y / 2]",
    "x / x for i in range(3)", "i / 2 for i in range(4)", "[4 / 2, 1]", "[i * 0.5 for i in range(3)]", "[2 ** -1, 1]",
    "[1 % 0, 1]", "[7 // 0, 1]", "i % 0 for i in range(3)", "[1 % x, 1]", "[7 // x for i in range(2)]",
    "[i * i for i in range(y)]", "i for i in range(x, y)", "[i ** 3 for i in range(y + 1)]", "[x * i for i in range(y)]",
    "[i for i in range(11, 0, -3)]", "[i for i in range(9, 0, -3)]", "[i + 1 for i in range(3, -4, -1)]",
    "[1 for i in range(7, 7, -4)]", "[i * i for i in range(10, 0, -3)]", "[i for i in range(x, -3, -2)]",
    "[next(it) for i in range(3)]", "[e0() + i for i in range(2)]",
]
WALRUS_SUMS = ["r = sum(range((n := 5)))\nr = r + n\n", "r = sum([i for i in range((n := 3))]) + n\n",
               "r = sum([(n := 2), 1]) + n\n"]

GUARDS = ["x", "x != 0", "x > 0", "cfg"]
PARTIAL = {"x": ["10 // x > 1", "10 % x == 1", "1 / x > 0"], "x != 0": ["10 // x > 1", "7 % x == 1"],
           "x > 0": ["t[x - 1] > 0", "10 // x > 1"], "cfg": ["cfg['on']"]}
BOOL_SHAPES = [     # G guard, P guarded operand, a / b plain names
    "{G} and {P} and {G}", "({G} and {P} and y) or ({G} and {P} and z)", "{G} and ({P} or {G} and y)",
    "not ({G}) or {P} or not ({G})", "{G} and {P} and ({G} or y)", "(y or {G}) and (y or {G}) and {P}",
    "({G} and {P}) or ({G} and {P})", "{G} and y and {P} and y", "y and ({G} and {P} or {G} and {P} and z)",
]
EFFECT_FORMULAS = [
    "e0() and y and e0()", "(e0() and y) or (e0() and z)", "e0() and True and not e0()", "e1() or y or e1()",
    "(y and e0()) or (y and e1())", "e0() > 3 and e0() > 5", "next(it) > 3 and next(it) > 5", "next(it) > 3 and next(it) > 2",
    "e0() > 3 or e0() > 2", "x > 1 and next(it) > 3 and x > 0", "y and e0() and y",
]
WALRUS_FORMULAS = [
    "x > 3 and (x := x - 5) < 100 and x > 1", "x > 1 and (x := 0) == 0 and x > 1", "x > 0 and (x := -1) and x > 0",
    "(x := y) > 1 or x > 1", "x > 3 and (w := x) and x < 2", "(w := y) and False", "(w := y) or True",
    "y and (w := x) and not y", "x < 2 or (w := 1) or x > 0",
]
IFEXP_FORMULAS = [      # a conditional expression as an operand (parentheses matter once the and/or collapses)
    "0 or (x if y else z) if w else v", "1 and (x if y else z) or v", "v or 1 and (x if y else z)",
    "(x if y else z) and True or v", "False or (x if y else z) if w else v", "(x if y else z) or (x if y else z)",
    "((x if y else z) and w) or ((x if y else z) and not w)", "True and (lambda: x)() or v",
]
# round 5 (seed C17-d): chained comparisons as operands of and / or / not -- a chain is the conjunction of its links and
# must be treated as ONE operand by every boolean rule
CHAIN_ATOMS = ["0 < x < 2", "-1 <= x < 2", "0 < x <= y", "x < y < 2", "0 <= x <= y <= 2", "2 > x >= 0", "0 == x == y",
               "-1 < x != 1 < 3", "-2 < x < 3 > y"]
CHAIN_PARTNERS = ["y > 1", "x > 1", "x < 1", "1 == x", "z", "not z", "0 < y < 2", "y <= x < 2"]
CHAIN_SHAPES = ["{C} or {P}", "{P} or {C}", "{C} and {P}", "{P} and {C}", "not ({C}) or {P}", "not ({C} or {P})",
                "not ({C}) and not ({P})", "({C} or {P}) and z", "({C} and {P}) or z", "{C} or {P} or x > 0",
                "{C} and {P} and x < 2", "{C} or ({P} or x >= 2)", "({C} or z) and ({C} or not z)", "{C} or not ({C})"]
BOOL_EMBED = ["r = {F}\n", "if {F}:\n    r = 1\nelse:\n    r = 0\n", "r = 1 if {F} else 0\n", "r = not ({F})\n"]

CONDS = ["b", "a > 1", "not a", "a and b", "b or not 2 <= a", "a >= b and 0", "a if b else c", "(y := a)", "0 < a < 3", "a or b",
         "not (a and b)", "a == b", "b and (a if c else 0)", "a if b else c if a else b", "(lambda: a)()", "a - b", "not a if b else c"]
IF_TEMPLATES = [
    ("fixes", "fix_if_return", "def f(a, b, c):\n    if {C}:\n        return True\n    return False\nr = f(a, b, c)\n"),
    ("fixes", "fix_if_return", "def f(a, b, c):\n    if {C}:\n        return False\n    return True\nr = f(a, b, c)\n"),
    ("fixes", "fix_if_assign", "if {C}:\n    r = True\nelse:\n    r = False\n"),
    ("fixes", "fix_if_assign", "if {C}:\n    r = False\nelse:\n    r = True\n"),
    ("fixes", "fix_if_return", "def f(a, b, c):\n    if a:\n        return 5\n    elif {C}:\n        return True\n    return False\nr = f(a, b, c)\n"),
]

RANGE_IGNORE = [
    "r = [\n    x\n    for x in range(10)  # pyrefact: ignore\n    if x > 5\n]\n",
    "r = [\n    x\n    for x in range(10)\n    if x > 5  # pyrefact: ignore\n]\n",
    "r = [\n    x\n    for x in range(2, 9)  # pyrefact: ignore\n    if x >= 4\n    if x < 7\n]\n",
    "r = {\n    x\n    for x in range(10)\n    if x > 5 and x < 8  # pyrefact: ignore\n}\n",
    "r = [\n    x\n    for x in range(10)  # pyrefact: ignore\n    if x > 5 and e0()\n]\n",
    "r = [\n    x\n    for x in range(0, 12, 3)  # pyrefact: ignore\n    if x > 2\n]\n",
    "r = list(\n    x\n    for x in range(10)  # pyrefact: ignore\n    if x == 4\n)\n",
    "r = [\n    x\n    for x in range(10)\n    if x > 5\n    # pyrefact: ignore\n]\n",
    "r = [x for x in range(10) if x > 5]  # pyrefact: ignore\n",
    "r = [\n    x for x in range(10)\n    if x > 5\n    if x < 9  # pyrefact: ignore\n]\n",
]


def cases(tier, rnd):
    out = []
    # sums: every body in the plain context, every context with the first bodies (precedence)
    for k, body in enumerate(SUM_BODIES):
        for j, ctx in enumerate(SUM_CTX):
            if j == 0 or k < 7 or (tier != "quick" and k in (30, 31, 32, 34)):
                call = f"sum({body})"
                out.append(("sum", "symbolic_math", "simplify_math_iterators", ctx.format(S=call), ("x", "y")))
    for w in WALRUS_SUMS:
        out.append(("sum", "symbolic_math", "simplify_math_iterators", w, ()))
    # and/or formulas with guards, effects, walrus, conditional-expression operands: both boolean rules
    formulas = []
    for g in GUARDS:
        for p in PARTIAL[g]:
            for s in BOOL_SHAPES:
                formulas.append(s.format(G=g, P=p))
    formulas += EFFECT_FORMULAS + WALRUS_FORMULAS
    for k, f in enumerate(formulas):
        embeds = BOOL_EMBED if tier != "quick" else [BOOL_EMBED[1], BOOL_EMBED[k % 4]]
        for emb in dict.fromkeys(embeds):
            for rule in ("simplify_boolean_expressions_symmath", "simplify_boolean_expressions"):
                out.append(("bool", "symbolic_math", rule, emb.format(F=f), ("x", "y", "z")))
    k = 0
    for c in CHAIN_ATOMS:
        for p_ in CHAIN_PARTNERS:
            for sh in CHAIN_SHAPES:
                k += 1
                f = sh.format(C=c, P=p_)
                embeds = BOOL_EMBED if tier != "quick" else [BOOL_EMBED[k % 4]]
                for emb in embeds:
                    for mod, rule in (("symbolic_math", "simplify_boolean_expressions"),
                                      ("symbolic_math", "simplify_boolean_expressions_symmath"),
                                      ("fixes", "remove_redundant_boolop_values")):
                        if tier != "quick" or rule == "simplify_boolean_expressions" or k % 3 == 0:
                            out.append(("chain", mod, rule, emb.format(F=f), ("x", "y", "z")))
    for f in IFEXP_FORMULAS:
        top_ifexp = isinstance(ast.parse(f, mode="eval").body, ast.IfExp)
        for emb in BOOL_EMBED[:3]:
            if top_ifexp and emb != BOOL_EMBED[0]:
                f = f"({f})" if not f.startswith("((") else f
            for mod, rule in (("symbolic_math", "simplify_boolean_expressions_symmath"), ("symbolic_math", "simplify_boolean_expressions"),
                              ("fixes", "remove_redundant_boolop_values")):
                out.append(("bool-ifexp", mod, rule, emb.format(F=f), ("x", "y", "z", "w", "v")))
    for c in CONDS:
        for mod, rule, tmpl in IF_TEMPLATES:
            out.append(("if-bool", mod, rule, tmpl.format(C=c), ("a", "b", "c")))
    for src in RANGE_IGNORE:
        out.append(("range-ignore", "symbolic_math", "simplify_constrained_range", src, ()))
    return out


def boxes(variables):
    if len(variables) <= 3:
        return itertools.product(BOX, repeat=len(variables))
    return itertools.product((0, 1, 3), repeat=len(variables))


_MODS = None


def _eval(jobs):
    out = []
    for fam, mod, rule, source, variables in jobs:
        fn = getattr(_MODS[mod], rule)
        try:
            with common.quiet():
                new = fn(source)
        except Exception as e:  # noqa
            out.append((fam, mod, rule, source, None, f"the rule raised {type(e).__name__}: {e}", None))
            continue
        if new == source:
            out.append((fam, mod, rule, source, new, None, None))
            continue
        problem, at = None, None
        try:
            ast.parse(new)
        except SyntaxError as e:
            problem = f"the output does not parse: {e}"
        if problem is None:
            for vals in boxes(variables):
                env = dict(zip(variables, vals))
                problem = compare(run_program(source, env), run_program(new, env))
                if problem:
                    at = env
                    break
        out.append((fam, mod, rule, source, new, problem, at))
    return out


def sweep(mods, tier, rnd):
    """returns (results, failures) -- a failure is (site, payload)"""
    global _MODS
    _MODS = mods
    cs = cases(tier, rnd)
    import multiprocessing
    nw = 4 if tier == "quick" else 8
    size = max(25, len(cs) // (nw * 4))
    with multiprocessing.get_context("fork").Pool(nw) as pool:
        parts = pool.map(_eval, [cs[k:k + size] for k in range(0, len(cs), size)])
    results = [r for p in parts for r in p]
    failures = []
    for fam, mod, rule, source, new, problem, at in results:
        if problem:
            site = sum_site(source) if fam == "sum" and new is not None else f"{mod}.{rule}"
            failures.append((site, {"family": fam, "source": source, "output": new, "problem": problem,
                                               "valuation": at}))
    return results, failures


# ---------------------------------------------------------------------------------------------------------------
# structural predicates of the findings recorded for sites owned by other repairers (keyed by sig=)


def _boolops(source):
    return [n for n in ast.walk(ast.parse(source)) if isinstance(n, ast.BoolOp)]


def _has(node, kinds):
    return any(isinstance(n, kinds) for n in ast.walk(node))


def _reversed_at(it) -> bool:
    """some range(...) of the program has its bounds the wrong way round at the failing valuation (F17-1 / F17-12)"""
    env = dict(it.get("valuation") or {})
    for n in ast.walk(ast.parse(it["source"])):
        if isinstance(n, ast.Call) and isinstance(n.func, ast.Name) and n.func.id == "range" and 1 <= len(n.args) <= 3:
            try:
                vals = [eval(compile(ast.Expression(a), "<a>", "eval"), {"__builtins__": {}}, dict(env)) for a in n.args]
            except Exception:  # noqa   (a bound that mentions a loop variable)
                continue
            lo, hi, st = (0, vals[0], 1) if len(vals) == 1 else (vals[0], vals[1], 1) if len(vals) == 2 else vals
            if all(isinstance(v, int) for v in (lo, hi, st)) and ((st > 0 and hi < lo) or (st < 0 and hi > lo)):
                return True
    return False


def sum_site(source: str) -> str:
    """the helper that computes the closed form: _sum_range for sum(range(..)), _integrate_over for comprehensions"""
    for n in ast.walk(ast.parse(source)):
        if isinstance(n, ast.Call) and isinstance(n.func, ast.Name) and n.func.id == "sum" and n.args:
            a = n.args[0]
            if isinstance(a, ast.Call) and isinstance(a.func, ast.Name) and a.func.id == "range":
                return "symbolic_math._sum_range"
            if isinstance(a, (ast.ListComp, ast.GeneratorExp)):
                return "symbolic_math._integrate_over"
    return "symbolic_math.simplify_math_iterators"


SIGS = {
    "sum_empty_range": _reversed_at,
    "sum_reversed_range": _reversed_at,
    # an operand of the and/or contains an assignment expression or a call: text equality is not value equality
    "boolop_operand_rebinds_or_calls": lambda it: any(_has(v, (ast.NamedExpr, ast.Call)) for b in _boolops(it["source"])
                                                      for v in b.values),
    # the and/or that collapses has a conditional expression / lambda as a direct operand
    "boolop_weak_operand_unparenthesised": lambda it: any(isinstance(v, (ast.IfExp, ast.Lambda)) for b in _boolops(it["source"])
                                                          for v in b.values),
}
