"""Shared machinery: paths, Coq build / evaluation, evidence, known findings, verdict protocol."""
from __future__ import annotations

import contextlib
import fcntl
import hashlib
import importlib
import io
import json
import os
import re
import shutil
import subprocess
import sys
import time
from pathlib import Path

VERIF = Path(__file__).resolve().parent.parent
REPO = Path(os.environ.get("VERIF_REPO", "/repo"))
COQ = VERIF / "coq"
WORK = VERIF / ".work"
EVIDENCE = VERIF / "evidence"
REPLAYS = VERIF / "replays"
FINDINGS_FILE = VERIF / "KNOWN_FINDINGS.txt"
NCPU = min(16, os.cpu_count() or 4)

COQ_FLAGS = ["-Q", str(COQ / "theories"), "Pyrefact", "-Q", str(COQ / "generated"), "PyrefactGen",
             "-w", "-notation-overridden,-deprecated-hint-without-locality,-deprecated-instance-without-locality"]

ALLOWED_AXIOMS: set[str] = set()  # the development is axiom-free; stdlib axioms would be named here

FORBIDDEN = re.compile(
    r"\b(Admitted|admit|Axiom|Axioms|Parameter|Parameters|Conjecture|Conjectures|Admit Obligations|"
    r"Unset Guard Checking|Unset Positivity Checking|Unset Universe Checking|bypass_check|"
    r"type-in-type|impredicative-set)\b")


def log(*a):
    print(*a, file=sys.stderr, flush=True)


# ------------------------------------------------------------------------------------------------
# implementation under test


def import_impl():
    """Import pyrefact from REPO's current working tree (never from a stale location)."""
    repo = str(REPO)
    if sys.path[0] != repo:
        sys.path.insert(0, repo)
    for name in [n for n in sys.modules if n == "pyrefact" or n.startswith("pyrefact.")]:
        del sys.modules[name]
    import pyrefact  # noqa

    assert Path(pyrefact.__file__).resolve().is_relative_to(REPO.resolve()), pyrefact.__file__
    from pyrefact import logs

    logs.set_level(100)
    mods = {}
    for m in ("core", "processing", "fixes", "main", "pattern_matching", "constants", "parsing",
              "style", "symbolic_math", "tracing", "abstractions", "performance", "object_oriented",
              "formatting", "performance_numpy", "performance_pandas"):
        mods[m] = importlib.import_module(f"pyrefact.{m}")
    return mods


@contextlib.contextmanager
def quiet():
    """Silence stdout/stderr noise of the implementation (it logs and may print)."""
    out, err = io.StringIO(), io.StringIO()
    with contextlib.redirect_stdout(out), contextlib.redirect_stderr(err):
        yield


# ------------------------------------------------------------------------------------------------
# Coq


@contextlib.contextmanager
def build_lock():
    WORK.mkdir(exist_ok=True)
    with open(WORK / "build.lock", "w") as fh:
        fcntl.flock(fh, fcntl.LOCK_EX)
        try:
            yield
        finally:
            fcntl.flock(fh, fcntl.LOCK_UN)


def write_if_changed(path: Path, text: str) -> bool:
    if path.exists() and path.read_text() == text:
        return False
    path.parent.mkdir(parents=True, exist_ok=True)
    tmp = path.with_suffix(path.suffix + ".tmp%d" % os.getpid())
    tmp.write_text(text)
    tmp.replace(path)
    return True


def coq_gate() -> list[str]:
    """grep gate: no Admitted/Axiom/... anywhere in the development."""
    bad = []
    listed = [COQ / l.strip() for l in (COQ / "_CoqProject").read_text().splitlines() if l.strip().endswith(".v")]
    for p in sorted(set(listed) | set(COQ.rglob("*.v"))):
        if not p.exists():
            bad.append(f"{p.relative_to(VERIF)}: listed in _CoqProject but missing")
            continue
        text = strip_coq_comments(p.read_text())
        for i, line in enumerate(text.splitlines(), 1):
            m = FORBIDDEN.search(line)
            if m:
                bad.append(f"{p.relative_to(VERIF)}:{i}: {m.group(0)}")
    return bad


def strip_coq_comments(text: str) -> str:
    out, depth, i = [], 0, 0
    while i < len(text):
        if text.startswith("(*", i):
            depth += 1
            i += 2
        elif text.startswith("*)", i) and depth:
            depth -= 1
            i += 2
        else:
            if not depth:
                out.append(text[i])
            elif text[i] == "\n":
                out.append("\n")
            i += 1
    return "".join(out)


def coq_build(timeout=1800) -> tuple[bool, str]:
    """Full .vo build of the project (incremental). Returns (ok, log)."""
    with build_lock():
        mk = COQ / "Makefile"
        proj = COQ / "_CoqProject"
        if not mk.exists() or mk.stat().st_mtime < proj.stat().st_mtime:
            r = subprocess.run(["coq_makefile", "-f", "_CoqProject", "-o", "Makefile"], cwd=COQ,
                               capture_output=True, text=True)
            if r.returncode:
                return False, r.stdout + r.stderr
        r = subprocess.run(["timeout", str(timeout), "make", f"-j{NCPU}"], cwd=COQ,
                           capture_output=True, text=True)
        return r.returncode == 0, (r.stdout + r.stderr)[-6000:]


def workdir(tag: str) -> Path:
    """Scratch directory for generated case files; removed at exit unless VERIF_KEEP_WORK is set."""
    import atexit

    d = WORK / f"{tag}-{os.getpid()}"
    if d.exists():
        shutil.rmtree(d)
    d.mkdir(parents=True)
    if not os.environ.get("VERIF_KEEP_WORK"):
        atexit.register(shutil.rmtree, d, True)
    return d


def coqc(path: Path, timeout=600) -> tuple[int, str]:
    r = subprocess.run(["timeout", str(timeout), "coqc", "-noglob", *COQ_FLAGS, str(path)], cwd=path.parent,
                       capture_output=True, text=True)
    return r.returncode, r.stdout + r.stderr


def check_props(pid: str, wd: Path) -> dict:
    """Compile coq/props/<pid>.v (theorems only + Print Assumptions) and read the assumptions."""
    src = COQ / "props" / f"{pid}.v"
    text = src.read_text()
    theorems = re.findall(r"^\s*Theorem\s+(\w+)", strip_coq_comments(text), flags=re.M)
    dst = wd / f"Props_{pid}.v"
    dst.write_text(text)
    t0 = time.time()
    rc, out = coqc(dst)
    res = {"file": str(src.relative_to(VERIF)), "theorems": theorems, "obligations": len(theorems),
           "discharged": 0, "ok": False, "axioms": {}, "log": "", "wall_s": round(time.time() - t0, 2)}
    if rc != 0:
        res["log"] = out[-3000:]
        # which theorem broke: the last "Theorem" before the error line
        m = re.search(r"line (\d+)", out)
        if m:
            ln = int(m.group(1))
            before = [t for t in re.finditer(r"^\s*Theorem\s+(\w+)", text, flags=re.M)
                      if text.count("\n", 0, t.start()) + 1 <= ln]
            if before:
                res["broken"] = before[-1].group(1)
        return res
    # parse Print Assumptions blocks: each prints either "Closed under the global context" or "Axioms:\n..."
    blocks = re.split(r"(?=Closed under the global context|Axioms:)", out)
    blocks = [b for b in blocks if b.startswith(("Closed under", "Axioms:"))]
    printed = re.findall(r"^\s*Print Assumptions\s+(\w+)", strip_coq_comments(text), flags=re.M)
    ok = len(blocks) == len(printed) and set(theorems) <= set(printed)
    discharged = 0
    for name, b in zip(printed, blocks):
        if b.startswith("Closed under"):
            axs = []
        else:
            axs = re.findall(r"^(\S+)\s*:", b[len("Axioms:"):], flags=re.M)
        res["axioms"][name] = axs
        if set(axs) <= ALLOWED_AXIOMS:
            if name in theorems:
                discharged += 1
        else:
            ok = False
    res["discharged"] = discharged
    res["ok"] = ok and discharged == len(theorems)
    if not res["ok"]:
        res["log"] = out[-3000:]
    return res


def coqchk_step(run, pid: str, wd: Path, timeout=1500) -> dict:
    """Thorough tier: re-check the property theorems' .vo closure with the independent checker and record
    the axioms it reports.  A failure is a broken proof obligation."""
    vo = wd / f"Props_{pid}.vo"
    if not vo.exists():
        return {"ran": False, "reason": "props not compiled"}
    t0 = time.time()
    r = subprocess.run(["timeout", str(timeout), "coqchk", "-silent", "-o", "-Q", str(COQ / "theories"), "Pyrefact",
                        "-Q", str(COQ / "generated"), "PyrefactGen", "-Q", str(wd), "", f"Props_{pid}"],
                       capture_output=True, text=True, cwd=wd)
    out = r.stdout + r.stderr
    m = re.search(r"\* Axioms:\s*(.*?)\n\s*\n", out, flags=re.S)
    axioms = m.group(1).strip() if m else "?"
    res = {"ran": True, "rc": r.returncode, "axioms": axioms, "wall_s": round(time.time() - t0, 1),
           "unsafe": [l.strip() for l in out.splitlines() if l.startswith("* ") and "<none>" not in l
                      and "Theory" not in l and "Axioms" not in l]}
    run.coverage["coqchk"] = res
    names = [] if axioms in ("<none>", "?") else [a for a in axioms.split() if a]
    foreign = [a for a in names if not a.startswith("Coq.") and a not in ALLOWED_AXIOMS]
    res["stdlib_axioms_of_loaded_libraries"] = [a for a in names if a.startswith("Coq.")]
    # coqchk -o lists the axioms of EVERY loaded library (e.g. the specification axioms of primitive
    # integers when a stdlib file loads Uint63); they are recorded, never ours.  An axiom outside Coq.* that is
    # not in ALLOWED_AXIOMS, or a failing coqchk, is a broken obligation.
    if r.returncode != 0 or axioms == "?" or foreign:
        run.violation({"kind": "proof", "file": f"coq/props/{pid}.v", "coqchk": out[-3000:],
                       "explanation": "coqchk (independent checker) rejects the property theorems' closure or "
                                      "reports axioms that are not in the trusted base"}, False)
    return res


def run_case_files(files: list[Path], timeout=900) -> dict[Path, tuple[int, str]]:
    """Compile generated case files in parallel; returns per-file (rc, output)."""
    from concurrent.futures import ThreadPoolExecutor

    with ThreadPoolExecutor(max_workers=NCPU) as ex:
        results = list(ex.map(lambda p: coqc(p, timeout), files))
    res = dict(zip(files, results))
    # a coqc that died without any output (fork / memory trouble on an overloaded machine) is not a verdict:
    # re-run those files, one at a time
    for _ in range(2):
        again = [p for p in files if res[p][0] != 0 and not res[p][1].strip()]
        if not again:
            break
        time.sleep(2)
        for p in again:
            res[p] = coqc(p, timeout)
    return res


def parse_nat_list(out: str) -> list[int] | None:
    """Parse the `= [..] : list nat` printed by `Eval vm_compute in (bad_indices ...)`."""
    m = re.search(r"=\s*(\[[^\]]*\]|nil)\s*:\s*list nat", out, flags=re.S)
    if not m:
        return None
    return [int(x) for x in re.findall(r"\d+", m.group(1))]


# Gallina literal printers -----------------------------------------------------------------------

def gz(n: int) -> str:
    return f"({n})" if n < 0 else str(n)


def glist(items, f=str) -> str:
    return "[" + "; ".join(f(x) for x in items) + "]"


def gtext(s: str) -> str:
    return glist([ord(c) for c in s], gz)


def gbool(b) -> str:
    return "true" if b else "false"


def gopt(x, f=str) -> str:
    return "None" if x is None else f"(Some {f(x)})"


# ------------------------------------------------------------------------------------------------
# known findings


class Finding:
    def __init__(self, kind, prop, fields, text):
        self.kind, self.prop, self.fields, self.text = kind, prop, fields, text

    @property
    def id(self):
        return self.fields.get("id", "")


def load_findings(pid: str | None = None) -> list[Finding]:
    res = []
    if not FINDINGS_FILE.exists():
        return res
    for line in FINDINGS_FILE.read_text().splitlines():
        line = line.strip()
        if not line or line.startswith("#"):
            continue
        m = re.match(r"(finding|fixed):\s*(.*?)(?:\s+::\s+(.*))?$", line)
        if not m:
            continue
        kind, head, text = m.group(1), m.group(2), m.group(3) or ""
        fields = dict(kv.split("=", 1) for kv in head.split() if "=" in kv)
        if pid is None or fields.get("property") == pid:
            res.append(Finding(kind, fields.get("property"), fields, text))
    return res


# ------------------------------------------------------------------------------------------------
# verdict / evidence


class Run:
    """Collects the outcome of one check invocation and writes evidence + verdict lines."""

    def __init__(self, pid: str, tier: str, seed: int):
        self.pid, self.tier, self.seed = pid, tier, seed
        self.t0 = time.time()
        self.violations: list[tuple[str, bool]] = []   # (replay path, has_failing_input)
        self.known: list[str] = []
        self.coverage: dict = {}
        self.assumptions: list[str] = []
        self.notes: list[str] = []

    def violation(self, payload: dict, failing_input: bool):
        REPLAYS.mkdir(exist_ok=True)
        payload = dict(payload, property=self.pid, seed=self.seed, tier=self.tier,
                       failing_input_found=failing_input,
                       rerun=f"./check {self.pid} --replay <this file>")
        h = hashlib.sha1(json.dumps(payload, sort_keys=True, default=str).encode()).hexdigest()[:10]
        path = REPLAYS / f"{self.pid}-{h}.json"
        path.write_text(json.dumps(payload, indent=1, default=str))
        self.violations.append((str(path.relative_to(VERIF)), failing_input))

    def known_finding(self, fid: str, what: str):
        self.known.append(f"{fid} {what}".strip())

    def finish(self) -> int:
        cov = dict(self.coverage)
        ev = {
            "property_id": self.pid, "tier": self.tier, "seed": self.seed, "level": "proof",
            "coverage": cov, "assumptions": self.assumptions,
            "wall_s": round(time.time() - self.t0, 2), "violations": len(self.violations),
        }
        if self.known:
            ev["coverage"]["known_findings_reproduced"] = self.known
        if self.notes:
            ev["coverage"]["notes"] = self.notes
        EVIDENCE.mkdir(exist_ok=True)
        (EVIDENCE / f"{self.pid}.json").write_text(json.dumps(ev, indent=1, default=str) + "\n")
        for k in self.known:
            print(f"KNOWN-FINDING: property={self.pid} {k}", flush=True)
        seen = set()
        for path, has_input in self.violations:
            if path in seen:
                continue
            seen.add(path)
            tail = "" if has_input else " no-failing-input-found"
            print(f"VIOLATION property={self.pid} replay={path}{tail}", flush=True)
        return 1 if self.violations else 0


TRUSTED_BASE_COMMON = [
    "Coq 8.16.1 kernel + vm_compute (no native_compute)",
    "no axioms: Print Assumptions reports 'Closed under the global context' for every property theorem",
    "correspondence harness (Python): case generators, AST<->term converters, canonicalisation, Coq output parser",
    "CPython 3.12 `ast` as the reference parser/validity oracle",
]


def proof_step(run: Run, pid: str, wd: Path) -> dict:
    """Steps 1-2 of the verdict protocol: grep gate, project build, property theorems."""
    gate = coq_gate()
    ok, blog = coq_build()
    res = {"gate": gate, "build_ok": ok}
    if gate:
        run.violation({"kind": "proof-gate", "detail": gate,
                       "explanation": "forbidden construct in the Coq development"}, False)
    if not ok:
        run.violation({"kind": "proof-build", "detail": blog[-3000:],
                       "explanation": "the Coq project no longer builds; the theorems are not re-checked"}, False)
        run.coverage.update(obligations=1, discharged=0)
        return res
    pr = check_props(pid, wd)
    res["props"] = pr
    run.coverage.update(
        obligations=pr["obligations"], discharged=pr["discharged"],
        checker_cmd=f"make -C coq (full .vo build) && coqc {pr['file']}  [Print Assumptions under every theorem]",
        theorems=pr["theorems"], axioms=pr["axioms"], props_wall_s=pr["wall_s"])
    return res
