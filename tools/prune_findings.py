#!/usr/bin/env python3
"""usage: prune_findings.py <dir with th_<P>.log thorough-tier outputs> [--apply]

A `finding:` line of KNOWN_FINDINGS.txt suppresses failing inputs of its (site, sig).  After the repairs of other
owners were merged many listed findings no longer reproduce; a stale line would still hide a *regression* of the
repaired defect.  This tool lists the `finding:` lines of every property whose thorough-tier run (exit 0) did not
print a KNOWN-FINDING line for them, and with --apply rewrites them as `fixed:` lines (same fields and text, so the
witnesses stay in the corpora and must pass from now on), naming the repair commits found through shared hunt= ids.
Never run by a check; KNOWN_FINDINGS.txt is never written at check time."""
import collections
import pathlib
import re
import sys

VERIF = pathlib.Path(__file__).resolve().parent.parent
logs = pathlib.Path(sys.argv[1])
apply = "--apply" in sys.argv

lines = (VERIF / "KNOWN_FINDINGS.txt").read_text().splitlines()
printed, ok = collections.defaultdict(set), set()
for f in sorted(logs.glob("th_C*.log")):
    p = f.stem[3:]
    txt = f.read_text(errors="replace")
    if re.search(r"^VIOLATION", txt, re.M):
        continue                                        # not quiet: nothing is concluded for this property
    ok.add(p)
    for m in re.finditer(r"^KNOWN-FINDING: property=(C\d+)\s+(?:id=)?(F[\w-]+)", txt, re.M):
        printed[m.group(1)].add(m.group(2))

# hunt id -> repair hashes (from fixed: lines)
hunt_fix = collections.defaultdict(list)
for ln in lines:
    if ln.startswith("fixed:"):
        h = re.search(r"property=C\d+\s+([0-9a-f]{7,10})\b", ln)
        for hid in re.findall(r"hunt=([\w,.-]+)", ln):
            for one in hid.split(","):
                if h and h.group(1) not in hunt_fix[one]:
                    hunt_fix[one].append(h.group(1))

out, n = [], 0
for ln in lines:
    m = re.match(r"finding:\s*property=(C\d+)\s+id=(\S+)", ln)
    if m and m.group(1) in ok and m.group(2) not in printed[m.group(1)]:
        hashes = []
        for hid in re.findall(r"hunt=([\w,.-]+)", ln):
            for one in hid.split(","):
                hashes += [h for h in hunt_fix.get(one, []) if h not in hashes]
        tag = ",".join(hashes) if hashes else "merged-tree"
        new = re.sub(r"^finding:\s*property=(C\d+)\s+", rf"fixed: property=\1 {tag} ", ln)
        new += " [listed as a finding until round 5; its witness no longer fails on the merged tree]"
        print(f"{m.group(1)} {m.group(2)} -> fixed ({tag})")
        out.append(new)
        n += 1
    else:
        out.append(ln)
print(f"{n} stale finding lines; properties with a quiet thorough log: {sorted(ok)}")
if apply:
    (VERIF / "KNOWN_FINDINGS.txt").write_text("\n".join(out) + "\n")
