#!/bin/bash
# usage: seed_matrix_par.sh [-j lanes] [seed-id ...]
# Like seed_matrix.sh, but never touches /repo or /verif: every lane works on a scratch copy of /verif (with its
# build output) and a detached scratch worktree of /repo under /tmp/sm, so that several seeded changes are tried
# at once while /repo stays clean.  Results (one line per seed) are appended to seeded/RESULTS.tsv at the end.
lanes=4
if [ "$1" = "-j" ]; then lanes=$2; shift 2; fi
cd /verif || exit 2
seeds=${@:-$(ls seeded | grep -E '^C[0-9]+-')}
S=/tmp/sm; mkdir -p $S
vhead=$(git rev-parse --short HEAD); rhead=$(git -C /repo rev-parse --short HEAD)
for k in $(seq 1 $lanes); do
  rm -rf $S/v$k; rsync -a --exclude .git --exclude .work --exclude replays --exclude 'evidence/*' /verif/ $S/v$k/
  mkdir -p $S/v$k/replays $S/v$k/evidence
  git -C /repo worktree remove --force $S/r$k 2>/dev/null; rm -rf $S/r$k
  git -C /repo worktree add -q --detach $S/r$k HEAD
done
lane() {
  k=$1; shift
  for s in "$@"; do
    prop=${s%%-*}
    if ! git -C $S/r$k apply /verif/seeded/$s/patch.diff 2>/dev/null; then
      if ! git -C $S/r$k apply --3way /verif/seeded/$s/patch.diff 2>/dev/null || git -C $S/r$k diff --name-only --diff-filter=U | grep -q .; then
        git -C $S/r$k reset -q --hard; echo -e "$s\t$prop\tpatch-does-not-apply\t$rhead\t$vhead"; continue
      fi
      git -C $S/r$k reset -q
    fi
    # does the change still break the property on this tree?  (its own demonstration must still fail)
    (cd $S/r$k && PYTHONPATH=$S/r$k PYTHONHASHSEED=0 timeout 600 /venv/bin/python /verif/seeded/$s/demo.py >/dev/null 2>&1); demo=$?
    if [ $demo -eq 0 ]; then
      git -C $S/r$k checkout -q -- . ; git -C $S/r$k clean -fdq
      echo -e "$s\t$prop\tneutralised(demo-passes-with-patch)\t$rhead\t$vhead"; continue
    fi
    out=$(cd $S/v$k && VERIF_REPO=$S/r$k timeout 1500 ./check $prop --tier quick 2>/dev/null | grep -E '^(VIOLATION|KNOWN-FINDING)')
    git -C $S/r$k checkout -q -- . ; git -C $S/r$k clean -fdq
    if echo "$out" | grep -q "^VIOLATION.*no-failing-input-found" && ! echo "$out" | grep "^VIOLATION" | grep -qv "no-failing-input-found"; then r="caught(no-failing-input)";
    elif echo "$out" | grep -q "^VIOLATION"; then r="caught(failing-input)";
    else r="MISSED"; fi
    echo -e "$s\t$prop\t$r\t$rhead\t$vhead"
  done
}
i=0; declare -a buckets
for s in $seeds; do k=$(( i % lanes + 1 )); buckets[$k]="${buckets[$k]} $s"; i=$((i+1)); done
for k in $(seq 1 $lanes); do lane $k ${buckets[$k]} > $S/out$k.tsv & done
wait
cat $S/out*.tsv | sort | tee -a seeded/RESULTS.tsv
for k in $(seq 1 $lanes); do git -C /repo worktree remove --force $S/r$k; rm -rf $S/v$k; done
