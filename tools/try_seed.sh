#!/bin/bash
# usage: try_seed.sh <seed dir name under /verif/seeded> <property id> [tier]
# applies the seeded patch to /repo, runs the check, and always reverts.
seed=$1; prop=$2; tier=${3:-quick}
cd /repo || exit 2
test -z "$(git status --porcelain -- pyrefact)" || { echo "/repo dirty"; exit 2; }
git apply /verif/seeded/$seed/patch.diff || { echo "patch does not apply"; exit 3; }
trap 'git -C /repo checkout -- pyrefact' EXIT
cd /verif && ./check $prop --tier $tier 2>/dev/null | grep -E "^(VIOLATION|KNOWN-FINDING)" | cut -c1-220
echo "exit=${PIPESTATUS[0]}"
