#!/bin/bash
# usage: confirm_seed.sh <seed-name> <dir containing patch.diff demo.py meta.json>
# Confirms in a scratch worktree of /repo HEAD: tests pass with the patch, demo fails with it and passes without.
name=$1; src=$2
wt=/tmp/confirm/$name
rm -rf $wt; mkdir -p /tmp/confirm
git -C /repo worktree add --detach $wt HEAD >/dev/null 2>&1 || { echo "worktree failed"; exit 2; }
cd $wt
if ! git apply $src/patch.diff 2>/dev/null; then
  if ! git apply --3way $src/patch.diff 2>/dev/null; then echo "PATCH DOES NOT APPLY"; git -C /repo worktree remove --force $wt; exit 3; fi
  git reset -q
fi
git diff -- pyrefact > /tmp/confirm/$name.applied.diff
tests=$(PYTHONPATH=$wt /venv/bin/python -m pytest -q -p no:cacheprovider --timeout=900 tests 2>&1 | tail -1)
PYTHONPATH=$wt PYTHONHASHSEED=0 timeout 600 /venv/bin/python $src/demo.py >/tmp/confirm/$name.with.log 2>&1; with=$?
git checkout -q -- pyrefact
PYTHONPATH=$wt PYTHONHASHSEED=0 timeout 600 /venv/bin/python $src/demo.py >/tmp/confirm/$name.without.log 2>&1; without=$?
cd /; git -C /repo worktree remove --force $wt
echo "$name: tests=[$tests] demo_with_patch_exit=$with demo_without_patch_exit=$without"
