#!/venv/bin/python
"""Mutation campaign: how many one-token mutants of the code a property is anchored in does its check detect?

  tools/mutation_campaign.py --props C10,C17 [--workers 4] [--per-func 8] [--seed 0]

For every property: the functions overlapping the anchor line ranges of properties.jsonl (resolved on the pinned
tree c33cff9, then looked up BY NAME in the current /repo) are mutated with a fixed operator set (comparison / boolean
operator swaps, off-by-one constants, dropped `not`, forced branch conditions, dropped statements, break<->continue).
Each mutant is applied to a scratch COPY of /repo outside /repo and /verif, the 58-test suite is run on it (a mutant
the suite kills is not interesting), then the property's quick check is run against the copy in a private worktree of
/verif (own Coq build).  Nothing here is part of a registered command; results go to mutation/<Cxx>.jsonl and are
summarised in design/MUTATION.md."""
from __future__ import annotations

import argparse
import ast
import copy
import json
import os
import random
import re
import shutil
import subprocess
import sys
import time
from concurrent.futures import ProcessPoolExecutor, as_completed
from pathlib import Path

V = Path(__file__).resolve().parent.parent
REPO = Path("/repo")
SCRATCH = Path("/tmp/mut")
PINNED = "c33cff9"
OUT_SUFFIX = ""


def anchors(pid):
    for l in (V / "properties.jsonl").read_text().splitlines():
        d = json.loads(l)
        if d["id"] == pid:
            text = " ; ".join(m["where"] for m in d["anchors"].get("mechanism", []))
            out = []
            for m in re.finditer(r"((?:pyrefact/)?[\w]+\.py):([\d,\-\s]+)", text):
                f = m.group(1)
                if not f.startswith("pyrefact/"):
                    f = "pyrefact/" + f
                for r in re.findall(r"(\d+)(?:-(\d+))?", m.group(2)):
                    a = int(r[0]); b = int(r[1] or r[0])
                    out.append((f, a, b))
            return out
    raise SystemExit(f"unknown property {pid}")


def functions_at(pid):
    """qualified function names (Class.method or function) overlapping the anchor ranges on the pinned tree"""
    res = {}
    for f, a, b in anchors(pid):
        src = subprocess.run(["git", "-C", str(REPO), "show", f"{PINNED}:{f}"], capture_output=True, text=True).stdout
        if not src:
            continue
        tree = ast.parse(src)

        def visit(node, prefix):
            for ch in node.body if hasattr(node, "body") else []:
                if isinstance(ch, (ast.FunctionDef, ast.AsyncFunctionDef)):
                    if ch.lineno <= b and ch.end_lineno >= a:
                        res.setdefault(f, set()).add(prefix + ch.name)
                elif isinstance(ch, ast.ClassDef):
                    visit(ch, prefix + ch.name + ".")
        visit(tree, "")
    return {f: sorted(v) for f, v in res.items()}


# ---------------------------------------------------------------------------------------------
CMP_SWAP = {ast.Lt: ast.LtE, ast.LtE: ast.Lt, ast.Gt: ast.GtE, ast.GtE: ast.Gt, ast.Eq: ast.NotEq, ast.NotEq: ast.Eq,
            ast.Is: ast.IsNot, ast.IsNot: ast.Is, ast.In: ast.NotIn, ast.NotIn: ast.In}


def mutants_of(func: ast.AST):
    """yield (description, mutated deep copy of func)"""
    nodes = list(ast.walk(func))
    for idx, n in enumerate(nodes):
        def clone():
            c = copy.deepcopy(func)
            return c, list(ast.walk(c))[idx]
        line = getattr(n, "lineno", 0)
        if isinstance(n, ast.Compare):
            for k, op in enumerate(n.ops):
                if type(op) in CMP_SWAP:
                    c, m = clone(); m.ops[k] = CMP_SWAP[type(op)]()
                    yield f"L{line}: {type(op).__name__} -> {CMP_SWAP[type(op)].__name__}", c
        elif isinstance(n, ast.BoolOp):
            c, m = clone(); m.op = ast.Or() if isinstance(n.op, ast.And) else ast.And()
            yield f"L{line}: {'and->or' if isinstance(n.op, ast.And) else 'or->and'}", c
        elif isinstance(n, ast.UnaryOp) and isinstance(n.op, ast.Not):
            c = copy.deepcopy(func)
            for p in ast.walk(c):
                for fld, val in ast.iter_fields(p):
                    if isinstance(val, list):
                        for i, x in enumerate(val):
                            if isinstance(x, ast.UnaryOp) and isinstance(x.op, ast.Not) and getattr(x, "lineno", -1) == line \
                                    and getattr(x, "col_offset", -1) == n.col_offset:
                                val[i] = x.operand
                    elif isinstance(val, ast.UnaryOp) and isinstance(val.op, ast.Not) and getattr(val, "lineno", -1) == line \
                            and getattr(val, "col_offset", -1) == n.col_offset:
                        setattr(p, fld, val.operand)
            yield f"L{line}: drop not", c
        elif isinstance(n, ast.Constant) and type(n.value) is int and -2 <= n.value <= 100:
            for d in (1, -1):
                c, m = clone(); m.value = n.value + d
                yield f"L{line}: const {n.value} -> {n.value + d}", c
        elif isinstance(n, ast.Constant) and type(n.value) is bool:
            c, m = clone(); m.value = not n.value
            yield f"L{line}: {n.value} -> {not n.value}", c
        elif isinstance(n, ast.BinOp) and isinstance(n.op, (ast.Add, ast.Sub)):
            c, m = clone(); m.op = ast.Sub() if isinstance(n.op, ast.Add) else ast.Add()
            yield f"L{line}: {'+ -> -' if isinstance(n.op, ast.Add) else '- -> +'}", c
        elif isinstance(n, (ast.If, ast.While)) :
            for v in (True, False):
                c, m = clone(); m.test = ast.Constant(value=v)
                yield f"L{line}: {type(n).__name__} test -> {v}", c
        elif isinstance(n, ast.Break):
            c, m = clone()
            _replace_stmt(c, m, ast.Continue())
            yield f"L{line}: break -> continue", c
        elif isinstance(n, ast.Continue):
            c, m = clone()
            _replace_stmt(c, m, ast.Pass())
            yield f"L{line}: continue -> pass", c
        elif isinstance(n, (ast.Expr, ast.Assign, ast.AugAssign)) and n is not func:
            if isinstance(n, ast.Expr) and isinstance(n.value, ast.Constant):
                continue  # docstring
            c, m = clone()
            _replace_stmt(c, m, ast.Pass())
            yield f"L{line}: drop statement `{ast.unparse(n)[:50]}`", c


def _replace_stmt(root, target, new):
    for p in ast.walk(root):
        for fld, val in ast.iter_fields(p):
            if isinstance(val, list):
                for i, x in enumerate(val):
                    if x is target:
                        val[i] = ast.copy_location(new, target)
                        return


def find_func(tree, qual):
    parts = qual.split(".")
    node = tree
    for p in parts:
        nxt = None
        for ch in getattr(node, "body", []):
            if isinstance(ch, (ast.FunctionDef, ast.AsyncFunctionDef, ast.ClassDef)) and ch.name == p:
                nxt = ch
        if nxt is None:
            return None
        node = nxt
    return node


FUNC_OVERRIDE = None   # {file: [qualified names]} from --functions


def make_mutants(pid, per_func, seed):
    rnd = random.Random(f"{pid}-{seed}")
    out = []
    for f, quals in (FUNC_OVERRIDE or functions_at(pid)).items():
        path = REPO / f
        if not path.exists():
            continue
        src = path.read_text()
        tree = ast.parse(src)
        lines = src.splitlines(keepends=True)
        # a function whose body was moved into a private helper of the same name (format_code -> _format_code)
        quals = list(quals) + [q2 for q2 in ("_" + q for q in quals if "." not in q) if find_func(tree, q2) is not None]
        for q in quals:
            fn = find_func(tree, q)
            if fn is None or isinstance(fn, ast.ClassDef):
                continue
            orig = ast.unparse(fn)
            start = min([fn.lineno] + [d.lineno for d in fn.decorator_list]) - 1
            seen, cands = set(), []
            for desc, m in mutants_of(fn):
                try:
                    text = ast.unparse(ast.fix_missing_locations(m))
                except Exception:
                    continue
                if text == orig or text in seen:
                    continue
                seen.add(text)
                cands.append((desc, text))
            rnd.shuffle(cands)
            for desc, text in cands[:per_func]:
                ind = " " * fn.col_offset
                new_src = "".join(lines[:start]) + "".join(ind + l + "\n" for l in text.splitlines()) + "".join(lines[fn.end_lineno:])
                try:
                    ast.parse(new_src)
                except SyntaxError:
                    continue
                out.append({"property": pid, "file": f, "function": q, "mutation": desc, "new_source": new_src})
    return out


# ---------------------------------------------------------------------------------------------
def worker_setup(k):
    wv = SCRATCH / f"verif-{k}"
    if not wv.exists():
        subprocess.run(["git", "-C", str(V), "worktree", "add", "-q", "--detach", str(wv), "HEAD"], check=True)
    # always bring the worktree to the current HEAD of /verif main
    head = subprocess.run(["git", "-C", str(V), "rev-parse", "HEAD"], capture_output=True, text=True).stdout.strip()
    subprocess.run(["git", "-C", str(wv), "reset", "-q", "--hard"], check=True)
    subprocess.run(["git", "-C", str(wv), "checkout", "-q", "-f", "--detach", head], check=True)
    r = subprocess.run(["./check", "--setup"], cwd=wv, capture_output=True, text=True, env=dict(os.environ, VERIF_REPO=str(REPO)))
    if "setup ok" not in r.stdout:
        raise RuntimeError(f"setup failed in {wv}: {r.stdout[-500:]} {r.stderr[-500:]}")
    return str(wv)


def run_mutant(k, mut, idx):
    wv = SCRATCH / f"verif-{k}"
    rp = SCRATCH / f"repo-{k}"
    if rp.exists():
        shutil.rmtree(rp)
    subprocess.run(["rsync", "-a", "--exclude", ".git", "--exclude", "__pycache__", str(REPO) + "/", str(rp) + "/"], check=True)
    (rp / mut["file"]).write_text(mut["new_source"])
    t0 = time.time()
    env = dict(os.environ, PYTHONPATH=str(rp), PYTHONHASHSEED="0", PYTHONDONTWRITEBYTECODE="1")
    r = subprocess.run(["/venv/bin/python", "-m", "pytest", "-q", "-x", "-p", "no:cacheprovider", "--timeout=300", "tests"],
                       cwd=rp, capture_output=True, text=True, env=env, timeout=900)
    res = {k2: mut[k2] for k2 in ("property", "file", "function", "mutation")}
    if r.returncode != 0:
        res.update(result="killed-by-test-suite", wall_s=round(time.time() - t0, 1))
        return res
    env2 = dict(os.environ, VERIF_REPO=str(rp))
    try:
        c = subprocess.run(["./check", mut["property"], "--tier", "quick"], cwd=wv, capture_output=True, text=True, env=env2, timeout=1500)
        viol = [l for l in c.stdout.splitlines() if l.startswith("VIOLATION")]
        if any("no-failing-input-found" not in l for l in viol):
            verdict = "caught(failing-input)"
        elif viol:
            verdict = "caught(no-failing-input)"
        elif c.returncode != 0:
            verdict = f"check-exit-{c.returncode}-without-violation-line"
        else:
            verdict = "SURVIVED"
    except subprocess.TimeoutExpired:
        verdict = "check-timeout"
    # the generated tables of the worker's verif copy must be restored for the next mutant
    res.update(result=verdict, wall_s=round(time.time() - t0, 1))
    return res


def worker(k, muts, suffix=""):
    global OUT_SUFFIX
    OUT_SUFFIX = suffix
    worker_setup(k)
    out = []
    for i, m in enumerate(muts):
        try:
            out.append(run_mutant(k, m, i))
        except Exception as e:  # noqa
            out.append({**{k2: m[k2] for k2 in ("property", "file", "function", "mutation")}, "result": f"harness-error {type(e).__name__}: {e}"[:300]})
        (V / "mutation").mkdir(exist_ok=True)
        with open(V / "mutation" / f"{m['property']}{OUT_SUFFIX}.jsonl", "a") as fh:
            fh.write(json.dumps(out[-1]) + "\n")
    return out


def main():
    ap = argparse.ArgumentParser()
    ap.add_argument("--props", required=True)
    ap.add_argument("--workers", type=int, default=4)
    ap.add_argument("--per-func", type=int, default=6)
    ap.add_argument("--max-per-prop", type=int, default=40)
    ap.add_argument("--seed", type=int, default=0)
    ap.add_argument("--worker-base", type=int, default=0, help="first worker index (scratch dirs /tmp/mut/verif-<k>): use disjoint ranges for concurrent campaigns")
    ap.add_argument("--list", action="store_true")
    ap.add_argument("--functions", help="restrict to these functions: pyrefact/core.py:get_charnos,_get_charno;pyrefact/x.py:Cls.meth")
    ap.add_argument("--out-suffix", default="", help="results go to mutation/<Cxx><suffix>.jsonl")
    a = ap.parse_args()
    global FUNC_OVERRIDE, OUT_SUFFIX
    OUT_SUFFIX = a.out_suffix
    if a.functions:
        FUNC_OVERRIDE = {}
        for part in a.functions.split(";"):
            f, names = part.split(":")
            FUNC_OVERRIDE[f] = names.split(",")
    SCRATCH.mkdir(exist_ok=True)
    allm = []
    for pid in a.props.split(","):
        ms = make_mutants(pid, a.per_func, a.seed)
        random.Random(a.seed).shuffle(ms)
        ms = ms[:a.max_per_prop]
        print(pid, "functions:", {f: len(q) for f, q in functions_at(pid).items()}, "mutants:", len(ms), flush=True)
        allm += ms
    if a.list:
        for m in allm:
            print(m["property"], m["file"], m["function"], m["mutation"])
        return
    shards = [allm[i::a.workers] for i in range(a.workers)]
    with ProcessPoolExecutor(max_workers=a.workers) as ex:
        futs = [ex.submit(worker, k + a.worker_base, sh, a.out_suffix) for k, sh in enumerate(shards) if sh]
        for f in as_completed(futs):
            for r in f.result():
                print(r["property"], r["result"], r["function"], r["mutation"], flush=True)


if __name__ == "__main__":
    main()
