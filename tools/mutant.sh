#!/bin/bash
# usage: mutant.sh <property> <file relative to /repo> <python-regex> <replacement> [tier]
# applies one textual mutation to /repo (first match only), runs the check, always reverts.
prop=$1; file=$2; pat=$3; rep=$4; tier=${5:-quick}
cd /repo || exit 2
test -z "$(git status --porcelain -- pyrefact)" || { echo "/repo dirty"; exit 2; }
trap 'git -C /repo checkout -- pyrefact' EXIT
/venv/bin/python - "$file" "$pat" "$rep" <<'PY' || exit 3
import re, sys
f, pat, rep = sys.argv[1:4]
s = open(f).read()
new, n = re.subn(pat, rep, s, count=1, flags=re.S)
if n != 1 or new == s:
    print("mutation did not apply"); sys.exit(3)
open(f, "w").write(new)
PY
git -C /repo diff --stat | tail -1
cd /verif && ./check $prop --tier $tier 2>/dev/null | grep -E "^(VIOLATION|KNOWN-FINDING)" | cut -c1-160 | grep VIOLATION | head -3
echo "exit=${PIPESTATUS[0]}"
