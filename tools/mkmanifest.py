#!/usr/bin/env python3
"""Assemble /verif/MANIFEST.json from manifest.d/<Cxx>.json fragments (one per claimed property).
A fragment holds: level_text, level_note, technique, design_ref.  Properties without a fragment are
listed under not_applicable with the reason in manifest.d/not_applicable.json (or 'not built yet')."""
import json
import sys
from pathlib import Path

V = Path(__file__).resolve().parent.parent
props = [json.loads(l)["id"] for l in (V / "properties.jsonl").read_text().splitlines() if l.strip()]
na_reasons = {}
p = V / "manifest.d" / "not_applicable.json"
if p.exists():
    na_reasons = json.loads(p.read_text())
checks, na = [], []
for pid in props:
    f = V / "manifest.d" / f"{pid}.json"
    if not f.exists():
        na.append({"property_id": pid, "reason": na_reasons.get(pid, "no check registered yet: the Coq model, theorems and correspondence for this property are not built in this revision")})
        continue
    d = json.loads(f.read_text())
    checks.append({
        "property_id": pid,
        "quick_cmd": f"./check {pid} --tier quick",
        "thorough_cmd": f"./check {pid} --tier thorough",
        "evidence_file": f"evidence/{pid}.json",
        "replay_cmd_template": f"./check {pid} --replay {{path}}",
        "engine": "coq+corr",
        "level_claimed": {"category": d.get("category", "proof"), "text": d["level_text"],
                          "design_ref": d.get("design_ref", f"DESIGN.md section 4 ({pid}) and design/{pid}.md")},
        "level_note": d["level_note"],
        "technique": d.get("technique", "machine-checked proof in Coq 8.16.1 about a Gallina model + model/implementation correspondence check"),
    })
m = {
    "version": 1,
    "setup_cmd": "cd /verif && ./check --setup",
    "hooks": {
        "guard": "PYREFACT_VERIF",
        "enable": "none: all observation is done by run-time wrapping from the harness; no source hooks",
        "baseline_off_cmd": "cd /repo && /venv/bin/python -m pytest -ra -q -p no:cacheprovider --timeout=900 --continue-on-collection-errors",
        "source_commits": [],
        "add_only": True,
    },
    "engines": [
        {"name": "coq", "path": "coq", "serves_properties": [c["property_id"] for c in checks],
         "kind_free_text": "Gallina models (theories/*Model.v), proofs (theories/*Proofs.v), property theorems (props/Cxx.v: `exact lemma` + Print Assumptions), data tables regenerated from /repo (generated/Tables.v); full .vo build with coqc 8.16.1"},
        {"name": "coq+corr", "path": "harness", "serves_properties": [c["property_id"] for c in checks],
         "kind_free_text": "per-property driver: regenerate tables, build + re-check theorems, run the real pyrefact code and the Gallina model (vm_compute inside coqc) on the same enumerated/seeded cases and diff, replay known findings, failing-input search with the property's own oracle"},
    ],
    "checks": checks,
    "not_applicable": na,
    "notes": "See DESIGN.md. `./check Cxx` exits 0 on a quiet tree (possibly printing KNOWN-FINDING lines) and 1 with VIOLATION lines otherwise.",
}
(V / "MANIFEST.json").write_text(json.dumps(m, indent=1) + "\n")
print(f"{len(checks)} checks, {len(na)} not claimed")
