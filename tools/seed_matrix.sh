#!/bin/bash
# usage: seed_matrix.sh [seed-id ...]   runs each seeded change against the check of its property (and
# prints one line per seed); appends to seeded/RESULTS.tsv.  Applies to /repo, always reverts.
cd /verif
seeds=${@:-$(ls seeded | grep -E '^C[0-9]+-')}
for s in $seeds; do
  prop=${s%%-*}
  if ! grep -q "\"property_id\": \"$prop\"" MANIFEST.json; then echo -e "$s\t$prop\tnot-registered"; continue; fi
  out=$(tools/try_seed.sh $s $prop 2>&1 | grep -v conda)
  if echo "$out" | grep -q "patch does not apply"; then r="patch-does-not-apply";
  elif echo "$out" | grep -q "^VIOLATION.*no-failing-input-found" && ! echo "$out" | grep "^VIOLATION" | grep -qv "no-failing-input-found"; then r="caught(no-failing-input)";
  elif echo "$out" | grep -q "^VIOLATION"; then r="caught(failing-input)";
  else r="MISSED"; fi
  echo -e "$s\t$prop\t$r\t$(git -C /repo rev-parse --short HEAD)\t$(git rev-parse --short HEAD)" | tee -a seeded/RESULTS.tsv
done
