#!/bin/bash
# runs every registered check's quick tier once; prints one line per property
cd "$(dirname "$0")/.."
for p in $(python3 -c "import json; print(' '.join(c['property_id'] for c in json.load(open('MANIFEST.json'))['checks']))"); do
  s=$(date +%s); out=$(./check $p --tier quick 2>/dev/null); rc=$?
  echo "$p exit=$rc violations=$(echo "$out" | grep -c '^VIOLATION') known=$(echo "$out" | grep -c '^KNOWN-FINDING') wall=$(( $(date +%s) - s ))s"
done
