#!/bin/sh
# tools/mkwt.sh <name>: scratch worktrees for a builder agent: /tmp/w/<name>/{verif,repo,tmp}
set -e
n="$1"; W=/tmp/w/$n
mkdir -p "$W/tmp"
git -C /verif worktree add -q "$W/verif" -b "b-$n" 2>/dev/null || git -C /verif worktree add -q "$W/verif" "b-$n"
git -C /repo worktree add -q "$W/repo" -b "verif-$n" 2>/dev/null || git -C /repo worktree add -q "$W/repo" "verif-$n"
echo "$W"
