#!/bin/bash
# usage: merge_agent.sh <name>   -- merge branch b-<name> into /verif main and cherry-pick the fix: commits of
# verif-<name> into /repo main (stops at the first conflict for manual resolution).
n=$1
cd /repo || exit 2
base=$(git merge-base main verif-$n)
# only commits whose patch is not yet in main ('+' lines of git cherry), oldest first
commits=$(git cherry main verif-$n $base | grep '^+' | cut -d' ' -f2)
for c in $commits; do
  msg=$(git log -1 --format=%s $c)
  case " $SKIP " in *" $(git rev-parse --short $c) "*) echo "SKIP (listed) $c"; continue;; esac
  case "$msg" in fix:*) ;; *) echo "SKIP non-fix commit $c: $msg"; continue;; esac
  if ! git cherry-pick $c >/dev/null 2>&1; then echo "CONFLICT cherry-picking $c: $msg"; git status --short | head; exit 3; fi
  echo "picked $(git rev-parse --short HEAD) <- $(git rev-parse --short $c) $msg"
  echo "$(git rev-parse --short $c) $(git rev-parse --short HEAD)" >> /tmp/w/hashmap.txt
done
/venv/bin/python -m pytest -q -p no:cacheprovider --timeout=900 tests 2>&1 | tail -1
cd /verif || exit 2
git merge --no-edit -X theirs b-$n 2>&1 | tail -3
# rewrite the agents' commit hashes to the cherry-picked ones
if [ -f /tmp/w/hashmap.txt ]; then
  while read old new; do
    grep -rl --include='*.txt' --include='*.md' --include='*.json' --include='*.py' --include='*.v' "$old" KNOWN_FINDINGS.txt design manifest.d harness coq/theories coq/props 2>/dev/null | xargs -r sed -i "s/$old/$new/g"
  done < /tmp/w/hashmap.txt
fi
git add -A; git diff --cached --quiet || git commit -qm "merge b-$n: fix-commit hashes remapped to /repo main"
