#!/bin/bash
# usage: harvest_seed.sh <seed-id>   (e.g. C05-a): confirm /tmp/seed/<id>/_seed in a scratch worktree, keep it under
# /verif/seeded/<id>/ when confirmed, remove the seeding agent's worktree.
id=$1; src=/tmp/seed/$id/_seed
test -f $src/patch.diff -a -f $src/demo.py || { echo "$id: incomplete deliverables"; exit 2; }
res=$(/verif/tools/confirm_seed.sh $id $src)
echo "$res"
if echo "$res" | grep -q "58 passed" && echo "$res" | grep -q "demo_with_patch_exit=1 demo_without_patch_exit=0"; then
  mkdir -p /verif/seeded/$id
  cp $src/patch.diff $src/demo.py /verif/seeded/$id/
  /venv/bin/python - "$id" "$src" <<'PY'
import json, sys
id_, src = sys.argv[1:3]
try:
    m = json.load(open(f"{src}/meta.json"))
except Exception as e:
    m = {"property": id_.split("-")[0], "summary": f"(meta.json unreadable: {e})"}
m["confirmed"] = {"by": "tools/confirm_seed.sh in a scratch worktree of /repo HEAD (removed afterwards)",
                  "tests_with_patch": "58 passed", "demo_with_patch_exit": 1, "demo_without_patch_exit": 0}
m["origin"] = "independent sub-agent given only the property text and its own worktree"
json.dump(m, open(f"/verif/seeded/{id_}/meta.json", "w"), indent=1)
PY
  echo "$id: kept"
  git -C /repo worktree remove --force /tmp/seed/$id 2>/dev/null
else
  echo "$id: NOT confirmed (worktree /tmp/seed/$id left in place)"
fi
