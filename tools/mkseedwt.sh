#!/bin/sh
# tools/mkseedwt.sh <seed-id>: detached scratch worktree of /repo HEAD for a seeding agent
set -e
d=/tmp/seed/$1
mkdir -p /tmp/seed
git -C /repo worktree add -q --detach "$d" HEAD
mkdir -p "$d/_seed"
echo "$d"
