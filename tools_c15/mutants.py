"""C15 mutation run: applies each mutant to $VERIF_REPO, runs ./check C15 --tier quick, restores the tree.
usage: VERIF_REPO=/tmp/w/c15/repo /venv/bin/python tools_c15/mutants.py [name ...]"""
import os
import subprocess
import sys
import time

REPO = os.environ["VERIF_REPO"]
HERE = os.path.dirname(os.path.dirname(os.path.abspath(__file__)))

M = {
    "revert-F15-1-wrapper": ("pyrefact/core.py", "    except Exception as error:\n        # Evaluating", "    except ArithmeticError as error:\n        # Evaluating"),
    "revert-F15-2-keywords": ("pyrefact/core.py", "if isinstance(node, ast.Call) and not node.keywords:", "if isinstance(node, ast.Call):"),
    "revert-F15-3-whitelist": ("pyrefact/core.py", "node.func.id in constants.PURE_BUILTIN_FUNCTIONS", "node.func.id in constants.BUILTIN_FUNCTIONS"),
    "table-lt-is-le": ("pyrefact/constants.py", "ast.Lt: operator.lt,", "ast.Lt: operator.le,"),
    "table-floordiv-is-truediv": ("pyrefact/constants.py", "ast.FloorDiv: operator.floordiv,", "ast.FloorDiv: operator.truediv,"),
    "and-returns-first-truthy": ("pyrefact/core.py", "                result = literal_value(value)\n                if not result:\n                    return result", "                result = literal_value(value)\n                if result:\n                    return result"),
    "or-returns-bool": ("pyrefact/core.py", "                result = literal_value(value)\n                if result:\n                    return result\n\n            return result\n\n    # For", "                result = literal_value(value)\n                if result:\n                    return True\n\n            return result\n\n    # For"),
    "not-dropped": ("pyrefact/core.py", "return not literal_value(node.operand)", "return literal_value(node.operand)"),
    "compare-any": ("pyrefact/core.py", "        return all(\n            constants.COMPARISON_OPERATORS[type(op)](literal_value(left)", "        return any(\n            constants.COMPARISON_OPERATORS[type(op)](literal_value(left)"),
    "compare-zip-shift": ("pyrefact/core.py", "[node.left] + node.comparators, node.ops, node.comparators", "[node.left] + node.comparators[:1] * len(node.ops), node.ops, node.comparators"),
    "print-whitelisted": ("pyrefact/constants.py", 'PURE_BUILTIN_FUNCTIONS = frozenset({\n    "abs",', 'PURE_BUILTIN_FUNCTIONS = frozenset({\n    "print",\n    "abs",'),
    "input-whitelisted": ("pyrefact/constants.py", 'PURE_BUILTIN_FUNCTIONS = frozenset({\n    "abs",', 'PURE_BUILTIN_FUNCTIONS = frozenset({\n    "input",\n    "abs",'),
    "revert-F15-8-while-else": ("pyrefact/fixes.py", "        if isinstance(node, ast.While) and not value and not node.orelse:", "        if isinstance(node, ast.While) and not value:"),
    "revert-F15-8-unreachable": ("pyrefact/fixes.py", "            if not node.orelse:\n                yield node, None, transaction", "            if True:\n                yield node, None, transaction"),
    "comprehension-side-effect-guard-dropped": ("pyrefact/fixes.py", "                core.has_side_effect(comprehension.iter, constants.SAFE_CALLABLES)\n                for comprehension in node.generators", "                False\n                for comprehension in node.generators"),
    "comprehension-genexp-tuple": ("pyrefact/fixes.py", '                yield (node, "(())")', '                yield (node, ast.Tuple(elts=[]))'),
    "revert-F15-4-compare-outside": ("pyrefact/symbolic_math.py", "            value = core.literal_value(node)\n        except ValueError:", "            value = constants.COMPARISON_OPERATORS[type(operator)](core.literal_value(node.left), core.literal_value(comparator))\n        except ValueError:"),
    "gate-ignores-attributes": ("pyrefact/core.py", "            or not all(child.attr in safe_callable_whitelist for child in walk(node, ast.Attribute))", "            or False"),
    "dead-if-ifexp-swapped": ("pyrefact/fixes.py", "yield node, node.body if value else node.orelse", "yield node, node.orelse if value else node.body"),
    "dead-while-inverted": ("pyrefact/fixes.py", "        if isinstance(node, ast.While) and not value and not node.orelse:", "        if isinstance(node, ast.While) and value and not node.orelse:"),
    "unreachable-if-inverted": ("pyrefact/fixes.py", "            if test_value and node.body:\n                for child in node.orelse:", "            if not test_value and node.body:\n                for child in node.orelse:"),
    "redundant-mask-swapped": ("pyrefact/fixes.py", "mask.append(truthy if deterministic_value else falsy)", "mask.append(falsy if deterministic_value else truthy)"),
    "compare-fold-negated": ("pyrefact/symbolic_math.py", "        yield node, ast.Constant(value=value, kind=None)\n\n\n@processing.fix\ndef simplify_boolean_expressions_symmath", "        yield node, ast.Constant(value=not value, kind=None)\n\n\n@processing.fix\ndef simplify_boolean_expressions_symmath"),
    "revert-F15-5-self-eq": ("pyrefact/symbolic_math.py", "                and not core.has_side_effect(node.left, constants.SAFE_CALLABLES)\n", ""),
    "revert-F15-10-len-as-sum": ("pyrefact/symbolic_math.py", '        if node.func.id != "sum":\n            # len() of a collection', '        if False:\n            # len() of a collection'),
    "comprehension-if-inverted": ("pyrefact/fixes.py", "                if not value:\n                    # Condition is always False, so the whole comprehension is dead", "                if value:\n                    # Condition is always False, so the whole comprehension is dead"),
}


def main():
    names = sys.argv[1:] or list(M)
    for name in names:
        path, old, new = M[name]
        full = os.path.join(REPO, path)
        text = open(full).read()
        if text.count(old) != 1:
            print(f"{name}: PATTERN NOT FOUND ({text.count(old)})", flush=True)
            continue
        open(full, "w").write(text.replace(old, new))
        t0 = time.time()
        try:
            r = subprocess.run(["./check", "C15", "--tier", "quick"], cwd=HERE, capture_output=True, text=True,
                               env=dict(os.environ, VERIF_SEED=os.environ.get("VERIF_SEED", "0")), timeout=1500)
            out = r.stdout + r.stderr
        except subprocess.TimeoutExpired:
            out, r = "TIMEOUT", None
        finally:
            subprocess.run(["git", "-C", REPO, "checkout", "--", "."], check=True)
        vio = [l for l in out.splitlines() if l.startswith("VIOLATION")]
        kinds = []
        import json
        for l in vio:
            p = l.split("replay=")[1].split()[0]
            try:
                d = json.load(open(os.path.join(HERE, p)))
                kinds.append(d.get("kind") + ("" if d.get("failing_input_found") else "(no-input)"))
            except Exception:
                kinds.append("?")
        print(f"{name}: rc={r.returncode if r else None} violations={len(vio)} kinds={sorted(set(kinds))} "
              f"wall={time.time() - t0:.0f}s" + ("" if vio else "   <-- MISSED\n" + out[-600:]), flush=True)


if __name__ == "__main__":
    main()
