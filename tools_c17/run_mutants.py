import subprocess, sys, os, shutil, re, json
from concurrent.futures import ThreadPoolExecutor
"""Mutation campaign for C17 (third round): copies $VERIF_REPO, applies one textual mutant of
pyrefact/symbolic_math.py at a time and runs ./check C17 --tier quick against the copy.
usage: VERIF_REPO=<repo> python tools_c17/run_mutants.py [mutant names]"""
import tempfile
REPO = os.environ.get("VERIF_REPO", "/repo"); VERIF = os.path.dirname(os.path.dirname(os.path.abspath(__file__)))
SCRATCH = tempfile.mkdtemp(prefix="c17mut")
F="pyrefact/symbolic_math.py"
MUT = {
 "A1_and_to_or_backtranslation": ("    if isinstance(expression, sympy.And):\n        return ast.BoolOp(\n            op=ast.And(),", "    if isinstance(expression, sympy.And):\n        return ast.BoolOp(\n            op=ast.Or(),"),
 "A2_drop_not": ("        return ast.UnaryOp(\n            op=ast.Not(), operand=_symmath_expr_to_ast(expression.args[0], conversion)\n        )", "        return _symmath_expr_to_ast(expression.args[0], conversion)"),
 "A3_swap_sympy_and_or_forward": ("            return sympy.And(*values), conversion", "            return sympy.Or(*values), conversion"),
 "A4_true_to_false": ("        return ast.Constant(value=True, kind=None)\n    if isinstance(expression, sympy.logic.boolalg.BooleanFalse)", "        return ast.Constant(value=False, kind=None)\n    if isinstance(expression, sympy.logic.boolalg.BooleanFalse)"),
 "A5_return_is_truth_tested": ("    for node in core.walk(root, ast.Expr):\n        tested.append(node.value)", "    for node in core.walk(root, (ast.Expr, ast.Assign)):\n        tested.append(node.value)"),
 "A6_output_value_check_dropped": ("        if value_is_used and not _is_boolean_valued(simplified):", "        if False and not _is_boolean_valued(simplified):"),
 "A7_name_is_boolean_valued": ("    if isinstance(node, ast.Compare):\n        return True", "    if isinstance(node, (ast.Compare, ast.Name)):\n        return True"),
 "A8_or_operands_of_not_only": ("        if isinstance(node, ast.BoolOp):\n            tested.extend(node.values)", "        if isinstance(node, (ast.BoolOp, ast.IfExp)):\n            tested.extend(getattr(node, 'values', None) or [node.body, node.orelse])"),
 "B1_ceil_to_floor": ("n_steps = max(0, math.ceil((upper - lower) / step))", "n_steps = max(0, math.floor((upper - lower) / step))"),
 "B2_upper_off_by_one": ("                upper = lower + n_steps - 1", "                upper = lower + n_steps"),
 "B3_generators_outermost_first": ("    for comprehension in reversed(generators):", "    for comprehension in generators:"),
 "B4_summands_unparenthesised": ('" + ".join(f"({core.unparse(node).strip()})" for node in values)', '" + ".join(f"{core.unparse(node).strip()}" for node in values)'),
 "B5_step1_upper_inclusive": ("                    upper = lower  # An empty range, not a negative number of elements\n                upper -= 1", "                    upper = lower  # An empty range, not a negative number of elements\n                upper -= 0"),
 "B6_symbolic_set_dedupe": ("                if not all(value.is_number for value in values):", "                if False:"),
 "B7_sympy_namespace": ("parse_expr(expression, local_dict=local_dict)", "parse_expr(expression)"),
 "B8_literal_empty_clamp_dropped": ("                if lower.is_Integer and upper.is_Integer and upper < lower:", "                if False:"),
 "B9_sum_range_step_guard_dropped": ("            if len(arg.args) == 3 and not core.match_template(arg.args[2], ast.Constant(value=1)):", "            if False:"),
 "C2_absorbing_constant_flipped": ("            if any(isinstance(value, ast.Constant) and not value.value for value in node.values):\n                yield node, ast.Constant(value=False, kind=None)", "            if any(isinstance(value, ast.Constant) and not value.value for value in node.values):\n                yield node, ast.Constant(value=True, kind=None)"),
}
def run(name):
    old, new = MUT[name]
    d = os.path.join(SCRATCH, name)
    if os.path.exists(d): shutil.rmtree(d)
    shutil.copytree(REPO, d, ignore=shutil.ignore_patterns(".git", "__pycache__"))
    p = os.path.join(d, F); t = open(p).read()
    if t.count(old) != 1:
        return name, f"PATTERN COUNT {t.count(old)}", []
    open(p, "w").write(t.replace(old, new))
    env = dict(os.environ, VERIF_REPO=d)
    r = subprocess.run(["./check", "C17", "--tier", "quick"], cwd=VERIF, env=env, capture_output=True, text=True)
    lines = [l for l in r.stdout.splitlines() if l.startswith("VIOLATION")]
    info = []
    for l in lines[:3]:
        m = re.search(r"replay=(\S+)", l)
        try:
            dd = json.load(open(os.path.join(VERIF, m.group(1))))
            info.append({k: str(dd.get(k))[:160] for k in ("kind", "site", "source", "output", "problem") if dd.get(k)})
        except Exception as e:
            info.append(str(e))
    shutil.rmtree(d)
    return name, f"rc={r.returncode} violations={len(lines)} with_input={sum('no-failing' not in l for l in lines)}", info
names = sys.argv[1:] or list(MUT)
with ThreadPoolExecutor(max_workers=3) as ex:
    for name, res, info in ex.map(run, names):
        print(name, res, flush=True)
        for i in info[:2]: print("    ", i, flush=True)
