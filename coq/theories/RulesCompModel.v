(* C02, loop -> comprehension tranche: a small imperative fragment of Python over list / set / dict
   values (for loops, append / add / extend / update / += / d[k] = v, conditionals, comprehensions with
   several for / if clauses, map / filter with a lambda, opaque calls recorded in a trace) and faithful
   models of pyrefact's loop -> comprehension rules (pattern + side conditions + replacement, as
   repaired).  Models only; the proofs are in RulesCompProofs.v.  The semantics (eval, exec) is a
   trusted definition validated against CPython by harness/c02_comp.py; the rule models are validated
   against the real rule functions by the same harness.  Values, builtins, worlds and traces are those
   of RulesExprModel. *)
From Coq Require Import List ZArith Bool Lia.
Import ListNotations.
Require Import Pyrefact.RulesExprModel.
Open Scope Z_scope.

(* ------------------------------------------------------------------------------------------- *)
(* Syntax *)

Inductive binop := OAdd | OSub | OBitOr.

Inductive cx :=
| XConst (a : atom)
| XName (x : nat)
| XCall (f : nat) (args : list cx)              (* call of an unknown function: recorded in the trace *)
| XBi (b : bi) (args : list cx)                 (* builtin call, positional arguments only *)
| XSeq (k : skind) (elts : list cx)             (* display [..] (..) {..} *)
| XDict (items : list cx)                       (* items are XKV k v or XDStar e *)
| XBin (o : binop) (l r : cx)
| XNeg (e : cx)                                 (* -e *)
| XNot (e : cx)
| XBool (is_and : bool) (es : list cx)          (* a and b and ..  /  a or b or .. *)
| XComp (k : ckind) (elt dval : cx) (gens : list cx)   (* gens are XGen nodes; dval only for CDict *)
| XGen (t : tgt) (iter : cx) (ifs : list cx)    (* one `for t in iter if .. if ..` clause *)
| XMap (a : nat) (body it : cx)                 (* map(lambda a: body, it) *)
| XFilter (neg : bool) (a : nat) (body it : cx) (* filter(lambda a: body, it) / filterfalse(...) *)
| XKV (k v : cx)
| XDStar (e : cx).

Inductive meth := MAppend | MAdd | MExtend | MUpdate.
Inductive recv := RName (x : nat) | RSub (x : nat) (k : cx).     (* x   or   x[k] *)

Inductive st :=
| SAssign (x : nat) (e : cx)                    (* x = e *)
| SMeth (r : recv) (m : meth) (e : cx)          (* r.append(e) / r.add(e) / r.extend(e) / r.update(e) *)
| SAug (x : nat) (o : binop) (e : cx)           (* x += e / x -= e / x |= e *)
| SSetItem (x : nat) (k v : cx)                 (* x[k] = v *)
| SExpr (e : cx)
| SFor (t : tgt) (it : cx) (body orelse : list st)
| SIf (c : cx) (body orelse : list st).

Definition dummy : cx := XConst ANone.      (* dval of a comprehension that is not a dict comprehension *)

(* ------------------------------------------------------------------------------------------- *)
(* Value operations that RulesExprModel does not have *)

Definition tnames (t : tgt) : list nat := match t with TName x => [x] | TTup xs => xs end.
Definition memn (n : nat) (l : list nat) : bool := existsb (Nat.eqb n) l.

Definition mask (ns : list nat) (en : env) : env := fun y => if memn y ns then None else en y.

(* dict(v): a dict is copied, anything else is a sequence of pairs *)
Fixpoint pairs_to_dict (l : list val) (d : list (val * val)) : option (list (val * val)) :=
  match l with
  | [] => Some d
  | p :: tl =>
      match items_of p with
      | Some [k; v] => if hashable k then pairs_to_dict tl (dict_set d k v) else None
      | _ => None
      end
  end.

Definition capply (b : bi) (args : list val) : option val :=
  match b, args with
  | BDict, [VDict d] => Some (VDict d)
  | BDict, [v] => match items_of v with
                  | Some l => option_map VDict (pairs_to_dict l [])
                  | None => None
                  end
  | _, _ => bapply b args []
  end.

Definition set_union (a b : list val) : list val := fold_left set_add b a.

(* a o b as an expression *)
Definition binop_val (o : binop) (a b : val) : option val :=
  match o with
  | OAdd =>
      match a, b with
      | VList x, VList y => Some (VList (x ++ y))
      | VTuple x, VTuple y => Some (VTuple (x ++ y))
      | _, _ => match num a, num b with Some p, Some q => Some (VInt (p + q)) | _, _ => None end
      end
  | OSub => match num a, num b with Some p, Some q => Some (VInt (p - q)) | _, _ => None end
  | OBitOr =>
      match a, b with
      | VSet x, VSet y => Some (VSet (set_union x y))
      | _, _ => None
      end
  end.

(* a o= b as a statement: a list is extended by any iterable *)
Definition aug_val (o : binop) (a b : val) : option val :=
  match o, a with
  | OAdd, VList x => match items_of b with Some y => Some (VList (x ++ y)) | None => None end
  | _, _ => binop_val o a b
  end.

Definition meth_val (m : meth) (c a : val) : option val :=
  match m, c with
  | MAppend, VList l => Some (VList (l ++ [a]))
  | MAdd, VSet l => if hashable a then Some (VSet (set_add l a)) else None
  | MExtend, VList l => match items_of a with Some y => Some (VList (l ++ y)) | None => None end
  | MUpdate, VSet l =>
      match items_of a with
      | Some y => if forallb hashable y then Some (VSet (set_union l y)) else None
      | None => None
      end
  | _, _ => None
  end.

Fixpoint dict_get (d : list (val * val)) (k : val) : option val :=
  match d with
  | [] => None
  | (k', v) :: tl => if key_eqb k' k then Some v else dict_get tl k
  end.

(* the entries collected by a dict comprehension are kept as pairs until the end *)
Fixpoint pairs_dict (l : list val) (d : list (val * val)) : option (list (val * val)) :=
  match l with
  | [] => Some d
  | VTuple [k; v] :: tl => if hashable k then pairs_dict tl (dict_set d k v) else None
  | _ => None
  end.

Definition finish (k : ckind) (acc : list val) : option val :=
  match k with
  | CList => Some (VList acc)
  | CGen => Some (VIter acc)
  | CSet => mkset acc
  | CDict => option_map VDict (pairs_dict acc [])
  end.

(* ------------------------------------------------------------------------------------------- *)
(* Evaluation of expressions.  None = an exception is raised. *)

(* what a comprehension threads through its clauses: the environment of its scope, the items collected so far
   and the trace *)
Definition res := option (env * list val * trace).

Section Iter.
  Variable body : env -> trace -> list val -> res.
  (* one scope for the whole comprehension: what a clause binds stays bound (like in a for statement) *)
  Fixpoint iter_items (t : tgt) (xs : list val) (en : env) (tr : trace) (acc : list val) : res :=
    match xs with
    | [] => Some (en, acc, tr)
    | x :: xs' =>
        match bind t x en with
        | Some en' =>
            match body en' tr acc with
            | Some (en'', acc', tr') => iter_items t xs' en'' tr' acc'
            | None => None
            end
        | None => None
        end
    end.
End Iter.

Section Walkers.
  Variable ev : cx -> env -> trace -> option (val * trace).

  Fixpoint ev_list (en : env) (l : list cx) (tr : trace) : option (list val * trace) :=
    match l with
    | [] => Some ([], tr)
    | a :: tl =>
        match ev a en tr with
        | Some (v, tr1) => match ev_list en tl tr1 with
                           | Some (rest, tr2) => Some (v :: rest, tr2)
                           | None => None
                           end
        | None => None
        end
    end.

  (* dict display: key then value, in order; ** merges a dict *)
  Fixpoint ev_items (en : env) (l : list cx) (d : list (val * val)) (tr : trace)
    : option (list (val * val) * trace) :=
    match l with
    | [] => Some (d, tr)
    | a :: tl =>
        match a with
        | XKV k v =>
            match ev k en tr with
            | Some (kv, tr1) =>
                match ev v en tr1 with
                | Some (vv, tr2) => if hashable kv then ev_items en tl (dict_set d kv vv) tr2 else None
                | None => None
                end
            | None => None
            end
        | XDStar v =>
            match ev v en tr with
            | Some (VDict d', tr1) => ev_items en tl (dict_update d d') tr1
            | _ => None
            end
        | _ => None
        end
    end.

  Fixpoint ev_conds (en : env) (cs : list cx) (tr : trace) : option (bool * trace) :=
    match cs with
    | [] => Some (true, tr)
    | c :: cs' =>
        match ev c en tr with
        | Some (cv, tr1) => if truthy cv then ev_conds en cs' tr1 else Some (false, tr1)
        | None => None
        end
    end.

  (* a and b and c: the first falsy operand, else the last one (dually for or) *)
  Fixpoint ev_bool (is_and : bool) (en : env) (es : list cx) (tr : trace) : option (val * trace) :=
    match es with
    | [] => None
    | e :: tl =>
        match ev e en tr with
        | Some (v, tr1) =>
            match tl with
            | [] => Some (v, tr1)
            | _ => if Bool.eqb (truthy v) is_and then ev_bool is_and en tl tr1 else Some (v, tr1)
            end
        | None => None
        end
    end.

  (* what one item of a clause does: the conditions, then the rest *)
  Definition clause_body (ifs : list cx) (k : env -> trace -> list val -> res)
    : env -> trace -> list val -> res :=
    fun en tr acc =>
      match ev_conds en ifs tr with
      | Some (true, tr1) => k en tr1 acc
      | Some (false, tr1) => Some (en, acc, tr1)
      | None => None
      end.

  Section Gens.
    Variable leaf : env -> trace -> list val -> res.
    Fixpoint run_gens (gens : list cx) (en : env) (tr : trace) (acc : list val) : res :=
      match gens with
      | [] => leaf en tr acc
      | g :: rest =>
          match g with
          | XGen t it ifs =>
              match ev it en tr with
              | Some (v, tr1) =>
                  match items_of v with
                  | Some xs => iter_items (clause_body ifs (run_gens rest)) t xs en tr1 acc
                  | None => None
                  end
              | None => None
              end
          | _ => None
          end
      end.
  End Gens.

  Definition leaf_of (k : ckind) (elt dval : cx) : env -> trace -> list val -> res :=
    fun en tr acc =>
      match ev elt en tr with
      | Some (v, tr1) =>
          match k with
          | CDict => match ev dval en tr1 with
                     | Some (dv, tr2) => Some (en, acc ++ [VTuple [v; dv]], tr2)
                     | None => None
                     end
          | _ => Some (en, acc ++ [v], tr1)
          end
      | None => None
      end.

  (* map / filter call a function per item: nothing but the parameter is bound, and only for the call *)
  Section Lam.
    Variable f : val -> trace -> option (list val * trace).      (* the items that one call contributes *)
    Fixpoint lam_items (xs : list val) (tr : trace) (acc : list val) : option (list val * trace) :=
      match xs with
      | [] => Some (acc, tr)
      | x :: xs' => match f x tr with
                    | Some (ys, tr') => lam_items xs' tr' (acc ++ ys)
                    | None => None
                    end
      end.
  End Lam.
End Walkers.

Fixpoint gens_targets (gens : list cx) : list nat :=
  match gens with
  | [] => []
  | XGen t _ _ :: rest => tnames t ++ gens_targets rest
  | _ :: rest => gens_targets rest
  end.

Fixpoint eval (w : world) (e : cx) (en : env) (tr : trace) {struct e} : option (val * trace) :=
  match e with
  | XConst a => Some (val_of_atom a, tr)
  | XName x => match en x with Some v => Some (v, tr) | None => None end
  | XCall f args =>
      match ev_list (eval w) en args tr with
      | Some (vs, tr1) =>
          match call_or w tr1 f vs with
          | Some r => Some (r, tr1 ++ [(f, vs)])
          | None => None
          end
      | None => None
      end
  | XBi b args =>
      match ev_list (eval w) en args tr with
      | Some (vs, tr1) => match capply b vs with Some r => Some (r, tr1) | None => None end
      | None => None
      end
  | XSeq k elts =>
      match ev_list (eval w) en elts tr with
      | Some (vs, tr1) =>
          match k with
          | KList => Some (VList vs, tr1)
          | KTuple => Some (VTuple vs, tr1)
          | KSet => match mkset vs with Some s => Some (s, tr1) | None => None end
          end
      | None => None
      end
  | XDict items =>
      match ev_items (eval w) en items [] tr with
      | Some (d, tr1) => Some (VDict d, tr1)
      | None => None
      end
  | XBin o l r =>
      match eval w l en tr with
      | Some (a, tr1) =>
          match eval w r en tr1 with
          | Some (b, tr2) => match binop_val o a b with Some v => Some (v, tr2) | None => None end
          | None => None
          end
      | None => None
      end
  | XNeg e1 =>
      match eval w e1 en tr with
      | Some (v, tr1) => match num v with Some z => Some (VInt (- z), tr1) | None => None end
      | None => None
      end
  | XNot e1 =>
      match eval w e1 en tr with
      | Some (v, tr1) => Some (VBool (negb (truthy v)), tr1)
      | None => None
      end
  | XBool is_and es => ev_bool (eval w) is_and en es tr
  | XComp k elt dval gens =>
      (* the first iterable is evaluated outside; the targets of all clauses are local to the
         comprehension and unbound at first *)
      match gens with
      | XGen t it ifs :: rest =>
          match eval w it en tr with
          | Some (v, tr1) =>
              match items_of v with
              | Some xs =>
                  match iter_items
                          (clause_body (eval w) ifs (run_gens (eval w) (leaf_of (eval w) k elt dval) rest))
                          t xs (mask (gens_targets gens) en) tr1 [] with
                  | Some (_, acc, tr2) => match finish k acc with Some r => Some (r, tr2) | None => None end
                  | None => None
                  end
              | None => None
              end
          | None => None
          end
      | _ => None
      end
  | XMap a body it =>
      match eval w it en tr with
      | Some (v, tr1) =>
          match items_of v with
          | Some xs =>
              match lam_items (fun x tr' => match eval w body (upd en a x) tr' with
                                            | Some (r, tr2) => Some ([r], tr2)
                                            | None => None
                                            end) xs tr1 [] with
              | Some (acc, tr2) => Some (VIter acc, tr2)
              | None => None
              end
          | None => None
          end
      | None => None
      end
  | XFilter neg a body it =>
      match eval w it en tr with
      | Some (v, tr1) =>
          match items_of v with
          | Some xs =>
              match lam_items (fun x tr' => match eval w body (upd en a x) tr' with
                                            | Some (r, tr2) =>
                                                Some (if Bool.eqb (truthy r) (negb neg) then [x] else [], tr2)
                                            | None => None
                                            end) xs tr1 [] with
              | Some (acc, tr2) => Some (VIter acc, tr2)
              | None => None
              end
          | None => None
          end
      | None => None
      end
  | XGen _ _ _ | XKV _ _ | XDStar _ => None
  end.

(* ------------------------------------------------------------------------------------------- *)
(* Execution of statements.  None = an exception is raised. *)

Section Loop.
  Variable body : env -> trace -> option (env * trace).
  (* a for statement threads the environment: its targets stay bound afterwards *)
  Fixpoint for_items (t : tgt) (xs : list val) (en : env) (tr : trace) : option (env * trace) :=
    match xs with
    | [] => Some (en, tr)
    | x :: xs' =>
        match bind t x en with
        | Some en' =>
            match body en' tr with
            | Some (en'', tr') => for_items t xs' en'' tr'
            | None => None
            end
        | None => None
        end
    end.
End Loop.

Fixpoint exec (w : world) (s : st) (en : env) (tr : trace) {struct s} : option (env * trace) :=
  let exec_block :=
    fix exec_block (l : list st) (en : env) (tr : trace) : option (env * trace) :=
      match l with
      | [] => Some (en, tr)
      | s1 :: l' => match exec w s1 en tr with
                    | Some (en', tr') => exec_block l' en' tr'
                    | None => None
                    end
      end in
  match s with
  | SAssign x e =>
      match eval w e en tr with
      | Some (v, tr1) => Some (upd en x v, tr1)
      | None => None
      end
  | SMeth (RName x) m e =>
      match en x with
      | Some c =>
          match eval w e en tr with
          | Some (a, tr1) => match meth_val m c a with Some c' => Some (upd en x c', tr1) | None => None end
          | None => None
          end
      | None => None
      end
  | SMeth (RSub x k) m e =>
      match en x with
      | Some (VDict d) =>
          match eval w k en tr with
          | Some (kv, tr1) =>
              match (if hashable kv then dict_get d kv else None) with
              | Some c =>
                  match eval w e en tr1 with
                  | Some (a, tr2) =>
                      match meth_val m c a with
                      | Some c' => Some (upd en x (VDict (dict_set d kv c')), tr2)
                      | None => None
                      end
                  | None => None
                  end
              | None => None
              end
          | None => None
          end
      | _ => None
      end
  | SAug x o e =>
      match en x with
      | Some a =>
          match eval w e en tr with
          | Some (b, tr1) => match aug_val o a b with Some v => Some (upd en x v, tr1) | None => None end
          | None => None
          end
      | None => None
      end
  | SSetItem x k v =>
      (* CPython evaluates the assigned value first, then the container, then the key *)
      match eval w v en tr with
      | Some (vv, tr1) =>
          match en x with
          | Some (VDict d) =>
              match eval w k en tr1 with
              | Some (kv, tr2) => if hashable kv then Some (upd en x (VDict (dict_set d kv vv)), tr2) else None
              | None => None
              end
          | _ => None
          end
      | None => None
      end
  | SExpr e => match eval w e en tr with Some (_, tr1) => Some (en, tr1) | None => None end
  | SFor t it body orelse =>
      match eval w it en tr with
      | Some (v, tr1) =>
          match items_of v with
          | Some xs =>
              match for_items (exec_block body) t xs en tr1 with
              | Some (en', tr2) => exec_block orelse en' tr2
              | None => None
              end
          | None => None
          end
      | None => None
      end
  | SIf c body orelse =>
      match eval w c en tr with
      | Some (cv, tr1) => if truthy cv then exec_block body en tr1 else exec_block orelse en tr1
      | None => None
      end
  end.

(* the same block executor as the local one of exec (convertible with it) *)
Definition exec_block (w : world) : list st -> env -> trace -> option (env * trace) :=
  fix exec_block (l : list st) (en : env) (tr : trace) : option (env * trace) :=
    match l with
    | [] => Some (en, tr)
    | s1 :: l' => match exec w s1 en tr with
                  | Some (en', tr') => exec_block l' en' tr'
                  | None => None
                  end
    end.

(* =========================================================================================== *)
(* Occurrences of names *)

(* any ast.Name node with that id (core.walk(node, ast.Name(id=n)): loads and stores; the parameter
   of a lambda is an ast.arg, not a Name) *)
Fixpoint mentions (n : nat) (e : cx) {struct e} : bool :=
  match e with
  | XConst _ => false
  | XName x => Nat.eqb x n
  | XCall _ args | XBi _ args | XSeq _ args | XDict args | XBool _ args => existsb (mentions n) args
  | XBin _ l r | XKV l r => mentions n l || mentions n r
  | XNeg e1 | XNot e1 | XDStar e1 => mentions n e1
  | XComp _ elt dval gens => mentions n elt || mentions n dval || existsb (mentions n) gens
  | XGen t it ifs => memn n (tnames t) || mentions n it || existsb (mentions n) ifs
  | XMap _ body it | XFilter _ _ body it => mentions n body || mentions n it
  end.

(* the loads that remain after the shielding of fixes._is_read_after_loop: inside a comprehension that
   binds n only the first iterable counts *)
Fixpoint rd (n : nat) (e : cx) {struct e} : bool :=
  match e with
  | XConst _ => false
  | XName x => Nat.eqb x n
  | XCall _ args | XBi _ args | XSeq _ args | XDict args | XBool _ args => existsb (rd n) args
  | XBin _ l r | XKV l r => rd n l || rd n r
  | XNeg e1 | XNot e1 | XDStar e1 => rd n e1
  | XComp _ elt dval gens =>
      if memn n (gens_targets gens) then
        match gens with XGen _ it _ :: _ => rd n it | _ => false end
      else rd n elt || rd n dval || existsb (rd n) gens
  | XGen t it ifs => rd n it || existsb (rd n) ifs
  | XMap _ body it | XFilter _ _ body it => rd n body || rd n it
  end.

(* all loads (ctx=Load names, and the target of an augmented assignment) *)
Fixpoint loads (n : nat) (e : cx) {struct e} : bool :=
  match e with
  | XConst _ => false
  | XName x => Nat.eqb x n
  | XCall _ args | XBi _ args | XSeq _ args | XDict args | XBool _ args => existsb (loads n) args
  | XBin _ l r | XKV l r => loads n l || loads n r
  | XNeg e1 | XNot e1 | XDStar e1 => loads n e1
  | XComp _ elt dval gens => loads n elt || loads n dval || existsb (loads n) gens
  | XGen t it ifs => loads n it || existsb (loads n) ifs
  | XMap _ body it | XFilter _ _ body it => loads n body || loads n it
  end.

Definition recv_name (r : recv) : nat := match r with RName x | RSub x _ => x end.
Definition recv_exprs (r : recv) : list cx := match r with RName _ => [] | RSub _ k => [k] end.

Section StWalk.
  Variable fe : nat -> cx -> bool.       (* what counts in an expression *)
  Variable shield : bool.                (* does `for t in ..` shield its body from reads of t's names *)
  Fixpoint st_reads (n : nat) (s : st) {struct s} : bool :=
    let blk := fix blk (l : list st) : bool :=
      match l with [] => false | s1 :: l' => st_reads n s1 || blk l' end in
    match s with
    | SAssign _ e | SExpr e => fe n e
    | SMeth r _ e => Nat.eqb (recv_name r) n || existsb (fe n) (recv_exprs r) || fe n e
    | SAug x _ e => Nat.eqb x n || fe n e
    | SSetItem x k v => Nat.eqb x n || fe n k || fe n v
    | SFor t it body orelse =>
        fe n it || (if shield && memn n (tnames t) then false else blk body) || blk orelse
    | SIf c body orelse => fe n c || blk body || blk orelse
    end.
  Definition block_reads (n : nat) (l : list st) : bool := existsb (st_reads n) l.
End StWalk.

Definition st_rd := st_reads rd true.            (* reads that count AFTER a rewritten loop *)
Definition blk_rd := block_reads rd true.
Definition st_loads := st_reads loads false.     (* every load *)
Definition blk_loads := block_reads loads false.

(* any mention in a statement (for "the loop may not mention the variable it fills") *)
Fixpoint st_mentions (n : nat) (s : st) {struct s} : bool :=
  let blk := fix blk (l : list st) : bool :=
    match l with [] => false | s1 :: l' => st_mentions n s1 || blk l' end in
  match s with
  | SAssign x e => Nat.eqb x n || mentions n e
  | SExpr e => mentions n e
  | SMeth r _ e => Nat.eqb (recv_name r) n || existsb (mentions n) (recv_exprs r) || mentions n e
  | SAug x _ e => Nat.eqb x n || mentions n e
  | SSetItem x k v => Nat.eqb x n || mentions n k || mentions n v
  | SFor t it body orelse => memn n (tnames t) || mentions n it || blk body || blk orelse
  | SIf c body orelse => mentions n c || blk body || blk orelse
  end.

(* a Call node anywhere (core.has_side_effect without a whitelist, on this fragment) *)
Fixpoint has_call (e : cx) {struct e} : bool :=
  match e with
  | XConst _ | XName _ => false
  | XCall _ _ | XBi _ _ | XMap _ _ _ | XFilter _ _ _ _ => true
  | XSeq _ args | XDict args | XBool _ args => existsb has_call args
  | XBin _ l r | XKV l r => has_call l || has_call r
  | XNeg e1 | XNot e1 | XDStar e1 => has_call e1
  | XComp _ elt dval gens => has_call elt || has_call dval || existsb has_call gens
  | XGen _ it ifs => has_call it || existsb has_call ifs
  end.

(* core.has_side_effect with the whitelist of parsing.safe_callable_names, on this fragment: a call of an
   unknown function (the builtins of `bi` are whitelisted; map / filter with a lambda are not) *)
Fixpoint effect (e : cx) {struct e} : bool :=
  match e with
  | XConst _ | XName _ => false
  | XCall _ _ | XMap _ _ _ | XFilter _ _ _ _ => true
  | XBi _ args | XSeq _ args | XDict args | XBool _ args => existsb effect args
  | XBin _ l r | XKV l r => effect l || effect r
  | XNeg e1 | XNot e1 | XDStar e1 => effect e1
  | XComp _ elt dval gens => effect elt || effect dval || existsb effect gens
  | XGen _ it ifs => effect it || existsb effect ifs
  end.

(* =========================================================================================== *)
(* Rule models (the repaired code) *)

(* ---- descending through `for ..: [one statement]` / `if ..: [one statement]` (no else) ------ *)
(* returns (conditions met before the first for, clauses (target, iterable, conditions), leaf) *)

Definition clause := (tgt * cx * list cx)%type.

Fixpoint collect (s : st) {struct s} : list cx * list clause * list st :=
  match s with
  | SFor t it body [] =>
      match body with
      | [b] => let '(ifs, cl, leaf) := collect b in ([], (t, it, ifs) :: cl, leaf)
      | _ => ([], [], [s])
      end
  | SIf c body [] =>
      match body with
      | [b] => let '(ifs, cl, leaf) := collect b in (c :: ifs, cl, leaf)
      | _ => ([], [], [s])
      end
  | _ => ([], [], [s])
  end.

(* replace_for_loops_*: several conditions of one clause are joined by `and` *)
Definition and_ifs (ifs : list cx) : list cx :=
  match ifs with
  | _ :: _ :: _ => [XBool true ifs]
  | _ => ifs
  end.
Definition gen_of (join : bool) (c : clause) : cx :=
  let '(t, it, ifs) := c in XGen t it (if join then and_ifs ifs else ifs).

Definition clause_targets (cl : list clause) : list nat := concat (map (fun c => tnames (fst (fst c))) cl).

(* the loop (a for statement whose body is one statement ...) seen as clauses + leaf; None when the
   statement is not such a for loop *)
Definition loop_shape (s : st) : option (list clause * st) :=
  match s with
  | SFor _ _ [_] [] =>
      match collect s with
      | (_, cl, [leaf]) => Some (cl, leaf)
      | _ => None
      end
  | _ => None
  end.

(* fixes._is_read_after_loop: `after n` says whether n is read after the loop or elsewhere in a
   surrounding loop (computed by the block walker below) *)
Definition dead_after (after : nat -> bool) (ns : list nat) : bool := forallb (fun n => negb (after n)) ns.

(* ---- fixes.replace_for_loops_with_set_list_comp ------------------------------------------- *)

Definition int_literal (e : cx) : option Z :=
  match e with
  | XConst (AInt z) => Some z
  | XNeg (XConst (AInt z)) => Some (- z)
  | _ => None
  end.

Definition site_setlist (after : nat -> bool) (s1 s2 : st) : option st :=
  match s1, loop_shape s2 with
  | SAssign x value, Some (cl, leaf) =>
      let gens := map (gen_of true) cl in
      let ok e := negb (mentions x e) && negb (existsb (mentions x) gens)
                  && dead_after after (clause_targets cl) in
      match leaf with
      | SMeth (RName x') MAppend e =>
          match value with
          | XSeq KList [] => if Nat.eqb x' x && ok e then Some (SAssign x (XComp CList e dummy gens)) else None
          | _ => None
          end
      | SMeth (RName x') MAdd e =>
          match value with
          | XBi BSet [] => if Nat.eqb x' x && ok e then Some (SAssign x (XComp CSet e dummy gens)) else None
          | _ => None
          end
      | SAug x' o e =>
          match o, int_literal value with
          | (OAdd | OSub), Some z =>
              if Nat.eqb x' x && ok e then
                let total := XBi BSum [XComp CGen e dummy gens] in
                Some (SAssign x (if z =? 0 then match o with OSub => XNeg total | _ => total end
                                 else XBin o value total))
              else None
          | _, _ => None
          end
      | _ => None
      end
  | _, _ => None
  end.

(* ---- fixes.replace_for_loops_with_dict_comp ----------------------------------------------- *)

Definition is_dstar (e : cx) : bool := match e with XDStar _ => true | _ => false end.

Definition site_dictcomp (after : nat -> bool) (s1 s2 : st) : option st :=
  match s1, loop_shape s2 with
  | SAssign x value, Some (cl, SSetItem x' k v) =>
      let gens := map (gen_of true) cl in
      if Nat.eqb x' x && negb (mentions x k) && negb (mentions x v) && negb (existsb (mentions x) gens)
         && dead_after after (clause_targets cl)
         && negb (effect k && effect v) then      (* d[k] = v evaluates v first, {k: v ..} evaluates k first *)
        let comp := XComp CDict k v gens in
        match value with
        | XDict [] => Some (SAssign x comp)
        | XDict items =>
            if forallb is_dstar items then Some (SAssign x (XDict (items ++ [XDStar comp])))
            else Some (SAssign x (XDict [XDStar value; XDStar comp]))
        | XComp CDict _ _ _ => Some (SAssign x (XDict [XDStar value; XDStar comp]))
        | _ => None
        end
      else None
  | _, _ => None
  end.

(* ---- fixes.replace_listcomp_append_with_plus / replace_setcomp_add_with_union ------------- *)

Definition plus_start (e : cx) : bool :=
  match e with XComp CList _ _ _ | XSeq KList _ | XBin OAdd _ _ => true | _ => false end.
Definition union_start (e : cx) : bool :=
  match e with XComp CSet _ _ _ | XSeq KSet _ | XBin OBitOr _ _ => true | _ => false end.

Definition site_fold (is_set : bool) (after : nat -> bool) (s1 s2 : st) : option st :=
  let start := if is_set then union_start else plus_start in
  let m1 := if is_set then MAdd else MAppend in
  let m2 := if is_set then MUpdate else MExtend in
  let op := if is_set then OBitOr else OAdd in
  let ck := if is_set then CSet else CList in
  let cast := if is_set then BSet else BList in
  match s1 with
  | SAssign x value =>
      if start value then
        match s2 with
        | SFor t it [SMeth (RName x') m e] [] =>
            if Nat.eqb x' x && (match m, m1 with MAppend, MAppend | MAdd, MAdd => true | _, _ => false end)
               && negb (memn x (tnames t)) && negb (mentions x it) && negb (mentions x e)
               && dead_after after (tnames t)
            then Some (SAssign x (XBin op value (XComp ck e dummy [XGen t it []])))
            else None
        | SMeth (RName x') m e =>
            if Nat.eqb x' x && (match m, m2 with MExtend, MExtend | MUpdate, MUpdate => true | _, _ => false end)
               && negb (mentions x e)
            then Some (SAssign x (XBin op value (XBi cast [e])))
            else None
        | _ => None
        end
      else None
  | _ => None
  end.

(* ---- fixes.replace_nested_loops_with_set_list_comp ---------------------------------------- *)
(* fresh : the number of the first unused one/two letter name *)

Definition recv_mentions_any (r : recv) (ns : list nat) : bool :=
  existsb (fun n => Nat.eqb (recv_name r) n || existsb (mentions n) (recv_exprs r)) ns.

(* the descent of this rule: through every `for` / `if` without else whose body is one such statement; the leaf
   is the whole body of the innermost one *)
Fixpoint down (s : st) {struct s} : list cx * list clause * list st :=
  match s with
  | SFor t it body [] =>
      match body with
      | [b] => match b with
               | SFor _ _ _ [] | SIf _ _ [] => let '(ifs, cl, leaf) := down b in ([], (t, it, ifs) :: cl, leaf)
               | _ => ([], [(t, it, [])], body)
               end
      | _ => ([], [(t, it, [])], body)
      end
  | SIf c body [] =>
      match body with
      | [b] => match b with
               | SFor _ _ _ [] | SIf _ _ [] => let '(ifs, cl, leaf) := down b in (c :: ifs, cl, leaf)
               | _ => ([c], [], body)
               end
      | _ => ([c], [], body)
      end
  | _ => ([], [], [s])
  end.

Definition site_nested (fresh : nat) (after : nat -> bool) (s : st) : option st :=
  match s with
  | SFor _ _ _ [] =>
      let '(_, cl, leaf) := down s in
      let gens := map (gen_of false) cl in
      let go (bound : list nat) (r : recv) (e : cx) :=
        if dead_after after bound
           && negb (recv_mentions_any r bound)
           && (match r with
               | RName x => negb (mentions x e || existsb (mentions x) gens)
               | RSub _ _ => false          (* a subscripted container is looked up once per iteration *)
               end)
        then Some (SMeth r MExtend
                     (XComp CGen (XName fresh) dummy (gens ++ [XGen (TName fresh) e []])))
        else None in
      match leaf with
      | [SMeth r MExtend e] => go (clause_targets cl) r e
      | [SAssign c e; SMeth r MExtend (XName c')] =>
          (* the temporary is gone afterwards: the loop may not read what it was in the iteration before *)
          if Nat.eqb c c' && negb (mentions c e) && negb (existsb (mentions c) gens)
          then go (clause_targets cl ++ [c]) r e else None
      | _ => None
      end
  | _ => None
  end.

(* ---- fixes.remove_redundant_comprehensions (repaired: name targets only) ------------------ *)

Definition rw_redundant (e : cx) : option cx :=
  match e with
  | XComp k (XName x) _ [XGen (TName x') it []] =>
      if Nat.eqb x x' then
        match k with
        | CList => Some (XBi BList [it])
        | CSet => Some (XBi BSet [it])
        | CGen => Some (XBi BIter [it])
        | CDict => None
        end
      else None
  | XComp CDict (XName k) (XName v) [XGen (TTup [k'; v']) it []] =>
      if Nat.eqb k k' && Nat.eqb v v' then Some (XBi BDict [it]) else None
  | _ => None
  end.

(* ---- fixes.merge_chained_comps ------------------------------------------------------------ *)

Definition tgt_expr_same (t : tgt) (e : cx) : bool :=
  match t, e with
  | TName x, XName y => Nat.eqb x y
  | TTup xs, XSeq KTuple es =>
      (fix same (xs : list nat) (es : list cx) : bool :=
         match xs, es with
         | [], [] => true
         | x :: xs', XName y :: es' => Nat.eqb x y && same xs' es'
         | _, _ => false
         end) xs es
  | _, _ => false
  end.

Definition rw_chained (e : cx) : option cx :=
  match e with
  | XComp k elt dval [XGen t (XComp k' elt' _ [XGen t' it ifs_in]) ifs_out] =>
      match k with
      | CDict => None
      | _ => if ckind_eqb k k' && tgt_eqb t t' && tgt_expr_same t elt'
             then Some (XComp k elt dval [XGen t it (ifs_in ++ ifs_out)]) else None
      end
  | _ => None
  end.

(* ---- fixes.merge_nested_comprehensions (repaired) ----------------------------------------- *)

(* RenameTransformer: every ast.Name with id y becomes x (targets included, lambda parameters not) *)
Definition ren_t (y x : nat) (t : tgt) : tgt :=
  let r n := if Nat.eqb n y then x else n in
  match t with TName n => TName (r n) | TTup ns => TTup (map r ns) end.

Fixpoint rename (y x : nat) (e : cx) {struct e} : cx :=
  match e with
  | XConst _ => e
  | XName n => if Nat.eqb n y then XName x else e
  | XCall f args => XCall f (map (rename y x) args)
  | XBi b args => XBi b (map (rename y x) args)
  | XSeq k args => XSeq k (map (rename y x) args)
  | XDict args => XDict (map (rename y x) args)
  | XBool a args => XBool a (map (rename y x) args)
  | XBin o l r => XBin o (rename y x l) (rename y x r)
  | XKV l r => XKV (rename y x l) (rename y x r)
  | XNeg e1 => XNeg (rename y x e1)
  | XNot e1 => XNot (rename y x e1)
  | XDStar e1 => XDStar (rename y x e1)
  | XComp k elt dval gens => XComp k (rename y x elt) (rename y x dval) (map (rename y x) gens)
  | XGen t it ifs => XGen (ren_t y x t) (rename y x it) (map (rename y x) ifs)
  | XMap a body it => XMap a (rename y x body) (rename y x it)
  | XFilter ng a body it => XFilter ng a (rename y x body) (rename y x it)
  end.

Definition last_target_is (gens : list cx) (y : nat) : bool :=
  match rev gens with
  | XGen (TName y') _ _ :: _ => Nat.eqb y y'
  | _ => false
  end.

Definition first_iter (gens : list cx) : list cx :=
  match gens with XGen _ it _ :: _ => [it] | _ => [] end.

(* one clause of `node` (whose other parts are `others`): Some new clauses when it is inlined *)
Definition merge_clause (k : ckind) (elt : cx) (others : list cx) (g : cx) : option (list cx) :=
  match g with
  | XGen (TName x) (XComp ik (XName y) idval igens) [] =>
      let inner := XComp ik (XName y) idval igens in
      if negb (last_target_is igens y) then None
      (* f6bcd55: an eager list / set / dict comprehension is not merged into a lazy generator expression *)
      else if (match k, ik with CGen, CGen => false | CGen, _ => true | _, _ => false end) then None
      else if (match ik with CSet | CDict => true | _ => false end)
              && negb (match k, elt with
                       | CSet, XName x' | CDict, XName x' => Nat.eqb x x'
                       | _, _ => false
                       end) then None
      else if (match ik, k with CSet, CDict => true | _, _ => false end) then None
      else if existsb (fun n => negb (Nat.eqb n y) && (existsb (mentions n) others || Nat.eqb n x))
                      (gens_targets igens) then None
      else if existsb (mentions y) (first_iter igens) then None
      else if negb (Nat.eqb x y) && mentions x inner then None
      else if (match ik with CDict => has_call idval | _ => false end) then None
      else Some (map (rename y x) igens)
  | _ => None
  end.

Fixpoint merge_gens (k : ckind) (elt dval : cx) (before after : list cx) : list cx * bool :=
  match after with
  | [] => ([], false)
  | g :: rest =>
      let '(r, ch) := merge_gens k elt dval (before ++ [g]) rest in
      match merge_clause k elt (elt :: dval :: before ++ rest) g with
      | Some new => (new ++ r, true)
      | None => (g :: r, ch)
      end
  end.

Definition rw_nested (e : cx) : option cx :=
  match e with
  | XComp k elt dval gens =>
      let '(r, ch) := merge_gens k elt dval [] gens in
      if ch then Some (XComp k elt dval r) else None
  | _ => None
  end.

(* ---- fixes.replace_map_lambda_with_comp / replace_filter_lambda_with_comp ----------------- *)

Definition rw_map (e : cx) : option cx :=
  match e with
  | XMap a body it => Some (XComp CGen body dummy [XGen (TName a) it []])
  | _ => None
  end.

Definition rw_filter (e : cx) : option cx :=
  match e with
  | XFilter ng a body it =>
      Some (XComp CGen (XName a) dummy [XGen (TName a) it [if ng then XNot body else body]])
  | _ => None
  end.

(* the rule as it was: `not` bound to the first operand of the lambda body only *)
Definition rw_filter_old (e : cx) : option cx :=
  match e with
  | XFilter true a (XBool false (b1 :: rest)) it =>
      Some (XComp CGen (XName a) dummy [XGen (TName a) it [XBool false (XNot b1 :: rest)]])
  | _ => rw_filter e
  end.

(* =========================================================================================== *)
(* The rules on whole programs (one pass over every block / every expression) *)

Section Blocks.
  Variable site2 : (nat -> bool) -> st -> st -> option st.   (* two consecutive statements -> one *)
  Variable site1 : (nat -> bool) -> st -> option st.          (* one statement -> one *)

  (* ctx n : n is read by what surrounds the block (after it, or anywhere in a surrounding loop);
     inloop : the block lies in a for loop; pre : the statements of the block that are already behind *)
  Fixpoint rw_st (ctx : nat -> bool) (inloop : bool) (pre rest : list st) (s : st) {struct s} : st :=
    let blk :=
      fix blk (ctx : nat -> bool) (inloop : bool) (pre l : list st) {struct l} : list st :=
        match l with
        | [] => []
        | s1 :: l1 =>
            let after (pre' r : list st) :=
              fun n => ctx n || blk_rd n r || (inloop && blk_loads n pre') in
            let single := fun _ : unit =>
              match site1 (after pre l1) s1 with
              | Some s' => s' :: blk ctx inloop (pre ++ [s1]) l1
              | None => rw_st ctx inloop pre l1 s1 :: blk ctx inloop (pre ++ [s1]) l1
              end in
            match l1 with
            | s2 :: r => match site2 (after (pre ++ [s1]) r) s1 s2 with
                         | Some s' => s' :: blk ctx inloop (pre ++ [s1; s2]) r
                         | None => single tt
                         end
            | [] => single tt
            end
        end in
    let around := fun n => ctx n || blk_rd n rest || (inloop && blk_loads n pre) in
    match s with
    | SFor t it body orelse =>
        SFor t it
          (blk (fun n => around n || loads n it || blk_loads n orelse) true [] body)
          (blk (fun n => around n || loads n it || blk_loads n body) true [] orelse)
    | SIf c body orelse =>
        SIf c
          (* the else branch comes after the body in the text: the rule looks at positions *)
          (blk (fun n => around n || blk_rd n orelse || (inloop && (loads n c || blk_loads n orelse))) inloop [] body)
          (blk (fun n => around n || (inloop && (loads n c || blk_loads n body))) inloop [] orelse)
    | _ => s
    end.

  Fixpoint rw_blk (ctx : nat -> bool) (inloop : bool) (pre l : list st) {struct l} : list st :=
    match l with
    | [] => []
    | s1 :: l1 =>
        let after (pre' r : list st) :=
          fun n => ctx n || blk_rd n r || (inloop && blk_loads n pre') in
        let single := fun _ : unit =>
          match site1 (after pre l1) s1 with
          | Some s' => s' :: rw_blk ctx inloop (pre ++ [s1]) l1
          | None => rw_st ctx inloop pre l1 s1 :: rw_blk ctx inloop (pre ++ [s1]) l1
          end in
        match l1 with
        | s2 :: r => match site2 (after (pre ++ [s1]) r) s1 s2 with
                     | Some s' => s' :: rw_blk ctx inloop (pre ++ [s1; s2]) r
                     | None => single tt
                     end
        | [] => single tt
        end
    end.

  Definition rw_prog (p : list st) : list st := rw_blk (fun _ => false) false [] p.
End Blocks.

Definition no_site2 : (nat -> bool) -> st -> st -> option st := fun _ _ _ => None.
Definition no_site1 : (nat -> bool) -> st -> option st := fun _ _ => None.

(* expression rules: children first, then the node itself *)
Section Deep.
  Variable f : cx -> option cx.
  Fixpoint deep (e : cx) {struct e} : cx :=
    let e' :=
      match e with
      | XConst _ | XName _ => e
      | XCall g args => XCall g (map deep args)
      | XBi b args => XBi b (map deep args)
      | XSeq k args => XSeq k (map deep args)
      | XDict args => XDict (map deep args)
      | XBool a args => XBool a (map deep args)
      | XBin o l r => XBin o (deep l) (deep r)
      | XKV l r => XKV (deep l) (deep r)
      | XNeg e1 => XNeg (deep e1)
      | XNot e1 => XNot (deep e1)
      | XDStar e1 => XDStar (deep e1)
      | XComp k elt dval gens => XComp k (deep elt) (deep dval) (map deep gens)
      | XGen t it ifs => XGen t (deep it) (map deep ifs)
      | XMap a body it => XMap a (deep body) (deep it)
      | XFilter ng a body it => XFilter ng a (deep body) (deep it)
      end in
    match f e' with Some r => r | None => e' end.

  Definition deep_recv (r : recv) : recv :=
    match r with RName x => r | RSub x k => RSub x (deep k) end.

  (* skip_for_iter: map / filter leave the iterable of a for statement alone *)
  Variable skip_for_iter : bool.
  Fixpoint deep_st (s : st) {struct s} : st :=
    let blk := fix blk (l : list st) : list st :=
      match l with [] => [] | s1 :: l' => deep_st s1 :: blk l' end in
    match s with
    | SAssign x e => SAssign x (deep e)
    | SMeth r m e => SMeth (deep_recv r) m (deep e)
    | SAug x o e => SAug x o (deep e)
    | SSetItem x k v => SSetItem x (deep k) (deep v)
    | SExpr e => SExpr (deep e)
    | SFor t it body orelse => SFor t (if skip_for_iter then it else deep it) (blk body) (blk orelse)
    | SIf c body orelse => SIf (deep c) (blk body) (blk orelse)
    end.
  Definition deep_prog (p : list st) : list st := map deep_st p.
End Deep.

(* the first one/two letter name that no ast.Name of the program uses; letter names are the numbers
   from 1000 on (a..z, aa, ab, ..) *)
Definition letter0 : nat := 1000%nat.
Definition fresh_name (p : list st) : nat :=
  match find (fun k => negb (existsb (st_mentions (letter0 + k)) p)) (seq 0 702) with
  | Some k => (letter0 + k)%nat
  | None => letter0
  end.

Inductive rule := RSetList | RDictComp | RNestedLoops | RPlus | RUnion | RRedundant | RChainedComps
                | RNestedComps | RMap | RFilter.

Definition pass (r : rule) (p : list st) : list st :=
  match r with
  | RSetList => rw_prog site_setlist no_site1 p
  | RDictComp => rw_prog site_dictcomp no_site1 p
  | RNestedLoops => rw_prog no_site2 (site_nested (fresh_name p)) p
  | RPlus => rw_prog (site_fold false) no_site1 p
  | RUnion => rw_prog (site_fold true) no_site1 p
  | RRedundant => deep_prog rw_redundant false p
  | RChainedComps => deep_prog rw_chained false p
  | RNestedComps => deep_prog rw_nested false p
  | RMap => deep_prog rw_map true p
  | RFilter => deep_prog rw_filter true p
  end.

(* processing.fix runs the generator up to five times *)
Fixpoint passes (n : nat) (r : rule) (p : list st) : list st :=
  match n with O => p | S n' => passes n' r (pass r p) end.
Definition apply_rule (r : rule) (p : list st) : list st := passes 5 r p.

(* =========================================================================================== *)
(* Decidable equality of terms, for the correspondence case files *)

Definition binop_eqb (a b : binop) : bool :=
  match a, b with OAdd, OAdd | OSub, OSub | OBitOr, OBitOr => true | _, _ => false end.
Definition meth_eqb (a b : meth) : bool :=
  match a, b with MAppend, MAppend | MAdd, MAdd | MExtend, MExtend | MUpdate, MUpdate => true | _, _ => false end.

Fixpoint cx_eqb (a b : cx) {struct a} : bool :=
  let leq := fix leq (x y : list cx) : bool :=
    match x, y with
    | [], [] => true
    | p :: x', q :: y' => cx_eqb p q && leq x' y'
    | _, _ => false
    end in
  match a, b with
  | XConst x, XConst y => atom_eqb_strict x y
  | XName x, XName y => Nat.eqb x y
  | XCall f x, XCall g y => Nat.eqb f g && leq x y
  | XBi f x, XBi g y => bi_eqb f g && leq x y
  | XSeq k x, XSeq k' y => skind_eqb k k' && leq x y
  | XDict x, XDict y => leq x y
  | XBool p x, XBool q y => Bool.eqb p q && leq x y
  | XBin o l r, XBin o' l' r' => binop_eqb o o' && cx_eqb l l' && cx_eqb r r'
  | XKV l r, XKV l' r' => cx_eqb l l' && cx_eqb r r'
  | XNeg x, XNeg y | XNot x, XNot y | XDStar x, XDStar y => cx_eqb x y
  | XComp k e1 d1 g1, XComp k' e2 d2 g2 =>
      ckind_eqb k k' && cx_eqb e1 e2 && (match k with CDict => cx_eqb d1 d2 | _ => true end) && leq g1 g2
  | XGen t i c, XGen t' i' c' => tgt_eqb t t' && cx_eqb i i' && leq c c'
  | XMap a x i, XMap a' x' i' => Nat.eqb a a' && cx_eqb x x' && cx_eqb i i'
  | XFilter n a x i, XFilter n' a' x' i' => Bool.eqb n n' && Nat.eqb a a' && cx_eqb x x' && cx_eqb i i'
  | _, _ => false
  end.

Definition recv_eqb (a b : recv) : bool :=
  match a, b with
  | RName x, RName y => Nat.eqb x y
  | RSub x k, RSub y k' => Nat.eqb x y && cx_eqb k k'
  | _, _ => false
  end.

Fixpoint st_eqb (a b : st) {struct a} : bool :=
  let leq := fix leq (x y : list st) : bool :=
    match x, y with
    | [], [] => true
    | p :: x', q :: y' => st_eqb p q && leq x' y'
    | _, _ => false
    end in
  match a, b with
  | SAssign x e, SAssign y e' => Nat.eqb x y && cx_eqb e e'
  | SMeth r m e, SMeth r' m' e' => recv_eqb r r' && meth_eqb m m' && cx_eqb e e'
  | SAug x o e, SAug y o' e' => Nat.eqb x y && binop_eqb o o' && cx_eqb e e'
  | SSetItem x k v, SSetItem y k' v' => Nat.eqb x y && cx_eqb k k' && cx_eqb v v'
  | SExpr e, SExpr e' => cx_eqb e e'
  | SFor t i b o, SFor t' i' b' o' => tgt_eqb t t' && cx_eqb i i' && leq b b' && leq o o'
  | SIf c b o, SIf c' b' o' => cx_eqb c c' && leq b b' && leq o o'
  | _, _ => false
  end.

Fixpoint prog_eqb (a b : list st) : bool :=
  match a, b with
  | [], [] => true
  | x :: a', y :: b' => st_eqb x y && prog_eqb a' b'
  | _, _ => false
  end.

(* a correspondence case: rule, program, what the real rule function returned (parsed back) *)
Definition rule_case_ok (c : rule * list st * list st) : bool :=
  let '(r, p, out) := c in prog_eqb (apply_rule r p) out.

(* ---- semantics validation against CPython ------------------------------------------------- *)
(* the scripted world of the harness (functions f0..f7) *)
Definition test_call (tr : trace) (f : nat) (args : list val) : option val :=
  match f with
  | 0%nat => Some (VInt (Z.of_nat (length tr)))
  | 1%nat => Some (VList [VInt 2; VBool true; VInt 1])
  | 2%nat => match args with [] => Some VNone | a :: _ => Some a end
  | 3%nat => None
  | 4%nat => match args with
             | a :: _ => match num a with Some z => Some (VBool (Z.odd z)) | None => Some (VBool true) end
             | [] => Some (VBool false)
             end
  | 5%nat => match args with
             | a :: _ => match num a with
                         | Some z => Some (VList [VInt z; VInt (z + 1)])
                         | None => Some (VList [a])
                         end
             | [] => Some (VList [])
             end
  | 6%nat => match args with
             | a :: _ => match num a with Some z => Some (VInt (z * 2)) | None => Some a end
             | [] => Some (VInt 0)
             end
  | _ => Some (VTuple [VInt (Z.of_nat f); VInt (Z.of_nat (length tr))])
  end.
Definition test_world : world :=
  {| call_or := test_call; eq_or := fun _ _ => VBool false |}.

Fixpoint env_agree (names : list nat) (en : env) (expected : list (nat * val)) : bool :=
  match names with
  | [] => true
  | n :: tl =>
      (match en n, find (fun p => Nat.eqb (fst p) n) expected with
       | Some v, Some p => val_equiv v (snd p)
       | None, None => true
       | _, _ => false
       end) && env_agree tl en expected
  end.

(* program, initial bindings, the names to compare, expected (None = raises; final values, trace).
   0 = agree, 1 = disagree, 2 = the model has no value where CPython has one *)
Definition sem_case_status
  (c : list st * list (nat * val) * list nat * option (list (nat * val) * trace)) : nat :=
  let '(p, bindings, names, expected) := c in
  match exec_block test_world p (mkenv bindings) [], expected with
  | Some (en, tr), Some (vals, tr') => if env_agree names en vals && trace_eqb tr tr' then 0%nat else 1%nat
  | None, None => 0%nat
  | None, Some _ => 2%nat
  | Some _, None => 1%nat
  end.

Fixpoint statuses {A} (f : A -> nat) (l : list A) (i : nat) : list nat * list nat :=
  match l with
  | [] => ([], [])
  | x :: tl =>
      let '(bad, gap) := statuses f tl (S i) in
      match f x with
      | 0%nat => (bad, gap)
      | 2%nat => (bad, i :: gap)
      | _ => (i :: bad, gap)
      end
  end.
