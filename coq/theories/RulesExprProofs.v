(* C02, expression / collection tranche: proofs about the rule models of RulesExprModel.v.
   Every theorem is unbounded (all expressions, environments, worlds, traces). *)
From Coq Require Import List ZArith Bool Lia Permutation.
Import ListNotations.
Require Import Pyrefact.RulesExprModel.
Open Scope Z_scope.

(* ------------------------------------------------------------------------------------------- *)
(* unfolding equations of eval (all by computation) *)

Lemma eval_ECmp : forall w l rest en tr,
  eval w (ECmp l rest) en tr =
  match eval w l en tr with
  | Some (lv, tr0) => eval_chain (eval w) w en rest lv tr0
  | None => None
  end.
Proof. reflexivity. Qed.

Lemma eval_ESeq : forall w k elts en tr,
  eval w (ESeq k elts) en tr =
  match eval_elts (eval w) en elts tr with
  | Some (vs, tr1) =>
      match k with
      | KList => Some (VList vs, tr1)
      | KTuple => Some (VTuple vs, tr1)
      | KSet => match mkset vs with Some s => Some (s, tr1) | None => None end
      end
  | None => None
  end.
Proof. reflexivity. Qed.

Lemma eval_EBi : forall w b args en tr,
  eval w (EBi b args) en tr =
  match eval_args (eval w) en args tr with
  | Some (vs, tr1) =>
      match bapply b (fst (split_kws vs)) (snd (split_kws vs)) with
      | Some r => Some (r, tr1)
      | None => None
      end
  | None => None
  end.
Proof. reflexivity. Qed.

Lemma eval_EDict : forall w items en tr,
  eval w (EDict items) en tr =
  match eval_items (eval w) en items [] tr with
  | Some (d, tr1) => Some (VDict d, tr1)
  | None => None
  end.
Proof. reflexivity. Qed.

Lemma eval_EComp : forall w k elt dval t iter ifs en tr,
  eval w (EComp k elt dval t iter ifs) en tr =
  match eval w iter en tr with
  | Some (itv, tr0) =>
      match items_of itv with
      | Some xs => comp_loop (eval w) k elt dval t ifs en xs [] [] tr0
      | None => None
      end
  | None => None
  end.
Proof. reflexivity. Qed.

(* ------------------------------------------------------------------------------------------- *)
(* fixes.singleton_eq_comparison *)

Lemma eq_none_is : forall w lv,
  (forall o, eq_or w o VNone = VBool false) ->
  py_eq w lv VNone = VBool (val_eqb lv VNone).
Proof.
  intros w lv H. destruct lv; cbn; try reflexivity. apply H.
Qed.

Lemma singleton_chain : forall w en,
  (forall o, eq_or w o VNone = VBool false) ->
  forall rest lv tr,
    eval_chain (eval w) w en (map (fun it => fst (singleton_item it)) rest) lv tr =
    eval_chain (eval w) w en rest lv tr.
Proof.
  intros w en H. induction rest as [|it tl IH]; intros lv tr; [reflexivity|].
  cbn [map].
  assert (Hnil : forall (l : list expr), match map (fun it => fst (singleton_item it)) l with [] => true | _ => false end
                                         = match l with [] => true | _ => false end) by (destruct l; reflexivity).
  destruct it; try reflexivity.
  destruct o; cbn [singleton_item fst];
    try (cbn [eval_chain]; destruct (eval w it en tr) as [[rv tr1]|]; [|reflexivity];
         destruct (cmp_sem w _ lv rv); [|reflexivity]; destruct tl; [reflexivity|];
         cbn [map]; cbn [map] in IH; destruct (truthy v); [apply IH|reflexivity]).
  - (* Eq *)
    destruct (is_none_const it) eqn:Hc; cbn [fst].
    + destruct it; try discriminate. destruct a; try discriminate.
      cbn [eval_chain eval val_of_atom cmp_sem is_same option_map].
      rewrite eq_none_is by assumption.
      destruct tl; [reflexivity|]. cbn [map]. cbn [map] in IH.
      destruct (truthy (VBool (val_eqb lv VNone))); [apply IH|reflexivity].
    + cbn [eval_chain]. destruct (eval w it en tr) as [[rv tr1]|]; [|reflexivity].
      destruct (cmp_sem w Eq lv rv); [|reflexivity]. destruct tl; [reflexivity|].
      cbn [map]. cbn [map] in IH. destruct (truthy v); [apply IH|reflexivity].
  - (* NotEq *)
    destruct (is_none_const it) eqn:Hc; cbn [fst].
    + destruct it; try discriminate. destruct a; try discriminate.
      cbn [eval_chain eval val_of_atom cmp_sem is_same option_map].
      rewrite eq_none_is by assumption. cbn [truthy].
      destruct tl; [reflexivity|]. cbn [map]. cbn [map] in IH.
      destruct (negb (val_eqb lv VNone)); [apply IH|reflexivity].
    + cbn [eval_chain]. destruct (eval w it en tr) as [[rv tr1]|]; [|reflexivity].
      destruct (cmp_sem w NotEq lv rv); [|reflexivity]. destruct tl; [reflexivity|].
      cbn [map]. cbn [map] in IH. destruct (truthy v); [apply IH|reflexivity].
Qed.

(* `x == None` -> `x is None` (also inside comparison chains) preserves value and call trace for every
   world in which no object claims to be equal to None *)
Theorem singleton_sound : forall w e e',
  (forall o, eq_or w o VNone = VBool false) ->
  rw_singleton e = Some e' ->
  forall en tr, eval w e' en tr = eval w e en tr.
Proof.
  intros w e e' H Hr en tr. destruct e; try discriminate. cbn [rw_singleton] in Hr.
  destruct (existsb snd (map singleton_item rest)); [|discriminate].
  injection Hr as <-. rewrite !eval_ECmp. destruct (eval w e en tr) as [[lv tr0]|]; [|reflexivity].
  rewrite map_map. apply singleton_chain. assumption.
Qed.

(* ... and is wrong for an object with its own __eq__ (numpy arrays, ORM columns, mocks) *)
Theorem singleton_refuted_custom_eq :
  exists w e e' en, rw_singleton e = Some e' /\ eval w e' en [] <> eval w e en [].
Proof.
  exists test_world, (ECmp (EName 1) [EOp Eq (EConst ANone)]), (ECmp (EName 1) [EOp Is (EConst ANone)]),
    (mkenv [(1%nat, VObj 1)]).
  split; [reflexivity|]. vm_compute. discriminate.
Qed.

(* the rule before the repair (x == True -> x is True) changed the value of plain integers *)
Theorem singleton_old_refuted :
  exists e e' en, rw_singleton_old e = Some e' /\
    (forall w, eval w e en [] = Some (VBool true, [])) /\ (forall w, eval w e' en [] = Some (VBool false, [])).
Proof.
  exists (ECmp (EName 1) [EOp Eq (EConst (ABool true))]), (ECmp (EName 1) [EOp Is (EConst (ABool true))]),
    (mkenv [(1%nat, VInt 1)]).
  split; [reflexivity|]. split; intros; reflexivity.
Qed.

Example singleton_example :
  rw_singleton (ECmp (EName 1) [EOp Lt (EName 2); EOp NotEq (EConst ANone)])
  = Some (ECmp (EName 1) [EOp Lt (EName 2); EOp IsNot (EConst ANone)]).
Proof. reflexivity. Qed.
