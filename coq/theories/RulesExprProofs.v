(* C02, expression / collection tranche: proofs about the rule models of RulesExprModel.v.
   Every theorem is unbounded (all expressions, environments, worlds, traces). *)
From Coq Require Import List ZArith Bool Lia Permutation.
Import ListNotations.
Require Import Pyrefact.RulesExprModel.
Open Scope Z_scope.

(* ------------------------------------------------------------------------------------------- *)
(* unfolding equations of eval (all by computation) *)

Lemma eval_ECmp : forall w l rest en tr,
  eval w (ECmp l rest) en tr =
  match eval w l en tr with
  | Some (lv, tr0) => eval_chain (eval w) w en rest lv tr0
  | None => None
  end.
Proof. reflexivity. Qed.

Lemma eval_ESeq : forall w k elts en tr,
  eval w (ESeq k elts) en tr =
  match eval_elts (eval w) en elts tr with
  | Some (vs, tr1) =>
      match k with
      | KList => Some (VList vs, tr1)
      | KTuple => Some (VTuple vs, tr1)
      | KSet => match mkset vs with Some s => Some (s, tr1) | None => None end
      end
  | None => None
  end.
Proof. reflexivity. Qed.

Lemma eval_EBi : forall w b args en tr,
  eval w (EBi b args) en tr =
  match eval_args (eval w) en args tr with
  | Some (vs, tr1) =>
      match bapply b (fst (split_kws vs)) (snd (split_kws vs)) with
      | Some r => Some (r, tr1)
      | None => None
      end
  | None => None
  end.
Proof. reflexivity. Qed.

Lemma eval_EDict : forall w items en tr,
  eval w (EDict items) en tr =
  match eval_items (eval w) en items [] tr with
  | Some (d, tr1) => Some (VDict d, tr1)
  | None => None
  end.
Proof. reflexivity. Qed.

Lemma eval_EComp : forall w k elt dval t iter ifs en tr,
  eval w (EComp k elt dval t iter ifs) en tr =
  match eval w iter en tr with
  | Some (itv, tr0) =>
      match items_of itv with
      | Some xs => comp_loop (eval w) k elt dval t ifs en xs [] [] tr0
      | None => None
      end
  | None => None
  end.
Proof. reflexivity. Qed.

(* ------------------------------------------------------------------------------------------- *)
(* fixes.singleton_eq_comparison *)

Lemma eq_none_is : forall w lv,
  (forall o, eq_or w o VNone = VBool false) ->
  py_eq w lv VNone = VBool (val_eqb lv VNone).
Proof.
  intros w lv H. destruct lv; cbn; try reflexivity. apply H.
Qed.

Lemma singleton_chain : forall w en,
  (forall o, eq_or w o VNone = VBool false) ->
  forall rest lv tr,
    eval_chain (eval w) w en (map (fun it => fst (singleton_item it)) rest) lv tr =
    eval_chain (eval w) w en rest lv tr.
Proof.
  intros w en H. induction rest as [|it tl IH]; intros lv tr; [reflexivity|].
  cbn [map].
  assert (Hnil : forall (l : list expr), match map (fun it => fst (singleton_item it)) l with [] => true | _ => false end
                                         = match l with [] => true | _ => false end) by (destruct l; reflexivity).
  destruct it; try reflexivity.
  destruct o; cbn [singleton_item fst];
    try (cbn [eval_chain]; destruct (eval w it en tr) as [[rv tr1]|]; [|reflexivity];
         destruct (cmp_sem w _ lv rv); [|reflexivity]; destruct tl; [reflexivity|];
         cbn [map]; cbn [map] in IH; destruct (truthy v); [apply IH|reflexivity]).
  - (* Eq *)
    destruct (is_none_const it) eqn:Hc; cbn [fst].
    + destruct it; try discriminate. destruct a; try discriminate.
      cbn [eval_chain eval val_of_atom cmp_sem is_same option_map].
      rewrite eq_none_is by assumption.
      destruct tl; [reflexivity|]. cbn [map]. cbn [map] in IH.
      destruct (truthy (VBool (val_eqb lv VNone))); [apply IH|reflexivity].
    + cbn [eval_chain]. destruct (eval w it en tr) as [[rv tr1]|]; [|reflexivity].
      destruct (cmp_sem w Eq lv rv); [|reflexivity]. destruct tl; [reflexivity|].
      cbn [map]. cbn [map] in IH. destruct (truthy v); [apply IH|reflexivity].
  - (* NotEq *)
    destruct (is_none_const it) eqn:Hc; cbn [fst].
    + destruct it; try discriminate. destruct a; try discriminate.
      cbn [eval_chain eval val_of_atom cmp_sem is_same option_map].
      rewrite eq_none_is by assumption. cbn [truthy].
      destruct tl; [reflexivity|]. cbn [map]. cbn [map] in IH.
      destruct (negb (val_eqb lv VNone)); [apply IH|reflexivity].
    + cbn [eval_chain]. destruct (eval w it en tr) as [[rv tr1]|]; [|reflexivity].
      destruct (cmp_sem w NotEq lv rv); [|reflexivity]. destruct tl; [reflexivity|].
      cbn [map]. cbn [map] in IH. destruct (truthy v); [apply IH|reflexivity].
Qed.

(* `x == None` -> `x is None` (also inside comparison chains) preserves value and call trace for every
   world in which no object claims to be equal to None *)
Theorem singleton_sound : forall w e e',
  (forall o, eq_or w o VNone = VBool false) ->
  rw_singleton e = Some e' ->
  forall en tr, eval w e' en tr = eval w e en tr.
Proof.
  intros w e e' H Hr en tr. destruct e; try discriminate. cbn [rw_singleton] in Hr.
  destruct (existsb snd (map singleton_item rest)); [|discriminate].
  injection Hr as <-. rewrite !eval_ECmp. destruct (eval w e en tr) as [[lv tr0]|]; [|reflexivity].
  rewrite map_map. apply singleton_chain. assumption.
Qed.

(* ... and is wrong for an object with its own __eq__ (numpy arrays, ORM columns, mocks) *)
Theorem singleton_refuted_custom_eq :
  exists w e e' en, rw_singleton e = Some e' /\ eval w e' en [] <> eval w e en [].
Proof.
  exists test_world, (ECmp (EName 1) [EOp Eq (EConst ANone)]), (ECmp (EName 1) [EOp Is (EConst ANone)]),
    (mkenv [(1%nat, VObj 1)]).
  split; [reflexivity|]. vm_compute. discriminate.
Qed.

(* the rule before the repair (x == True -> x is True) changed the value of plain integers *)
Theorem singleton_old_refuted :
  exists e e' en, rw_singleton_old e = Some e' /\
    (forall w, eval w e en [] = Some (VBool true, [])) /\ (forall w, eval w e' en [] = Some (VBool false, [])).
Proof.
  exists (ECmp (EName 1) [EOp Eq (EConst (ABool true))]), (ECmp (EName 1) [EOp Is (EConst (ABool true))]),
    (mkenv [(1%nat, VInt 1)]).
  split; [reflexivity|]. split; intros; reflexivity.
Qed.

Example singleton_example :
  rw_singleton (ECmp (EName 1) [EOp Lt (EName 2); EOp NotEq (EConst ANone)])
  = Some (ECmp (EName 1) [EOp Lt (EName 2); EOp IsNot (EConst ANone)]).
Proof. reflexivity. Qed.

(* ------------------------------------------------------------------------------------------- *)
(* values: induction principle, decidable equality, key equality is an equivalence *)

Section ValInd.
  Variable P : val -> Prop.
  Hypothesis HNone : P VNone.
  Hypothesis HBool : forall b, P (VBool b).
  Hypothesis HInt : forall z, P (VInt z).
  Hypothesis HStr : forall s, P (VStr s).
  Hypothesis HObj : forall o, P (VObj o).
  Hypothesis HTuple : forall l, Forall P l -> P (VTuple l).
  Hypothesis HList : forall l, Forall P l -> P (VList l).
  Hypothesis HSet : forall l, Forall P l -> P (VSet l).
  Hypothesis HDict : forall d, Forall (fun kv => P (fst kv) /\ P (snd kv)) d -> P (VDict d).
  Hypothesis HIter : forall l, Forall P l -> P (VIter l).

  Fixpoint val_ind' (v : val) : P v :=
    let fl := fix fl (l : list val) : Forall P l :=
      match l with
      | [] => Forall_nil P
      | x :: tl => Forall_cons x (val_ind' x) (fl tl)
      end in
    match v with
    | VNone => HNone
    | VBool b => HBool b
    | VInt z => HInt z
    | VStr s => HStr s
    | VObj o => HObj o
    | VTuple l => HTuple l (fl l)
    | VList l => HList l (fl l)
    | VSet l => HSet l (fl l)
    | VIter l => HIter l (fl l)
    | VDict d =>
        HDict d ((fix fd (d : list (val * val)) : Forall (fun kv => P (fst kv) /\ P (snd kv)) d :=
                    match d with
                    | [] => Forall_nil _
                    | (k, v) :: tl => Forall_cons (k, v) (conj (val_ind' k) (val_ind' v)) (fd tl)
                    end) d)
    end.
End ValInd.

Definition leqb (x y : list val) : bool :=
  (fix leq (x y : list val) : bool :=
     match x, y with
     | [], [] => true
     | p :: x', q :: y' => val_eqb p q && leq x' y'
     | _, _ => false
     end) x y.

Lemma leqb_cons : forall p x q y, leqb (p :: x) (q :: y) = val_eqb p q && leqb x y.
Proof. reflexivity. Qed.

Lemma leqb_true : forall x, Forall (fun a => forall b, val_eqb a b = true -> a = b) x ->
  forall y, leqb x y = true -> x = y.
Proof.
  induction 1 as [|a x Ha Hx IH]; intros [|b y] H; try reflexivity; try discriminate.
  rewrite leqb_cons in H. apply andb_true_iff in H as [H1 H2].
  f_equal; [apply Ha; assumption | apply IH; assumption].
Qed.

Lemma val_eqb_true : forall a b, val_eqb a b = true -> a = b.
Proof.
  induction a as [| | | | |l IH|l IH|l IH|d IH|l IH] using val_ind'; intros [] Hab; cbn in Hab;
    try discriminate; try reflexivity.
  - f_equal. apply Bool.eqb_prop. assumption.
  - f_equal. apply Z.eqb_eq. assumption.
  - f_equal. apply Nat.eqb_eq. assumption.
  - f_equal. apply Nat.eqb_eq. assumption.
  - f_equal. apply leqb_true; assumption.
  - f_equal. apply leqb_true; assumption.
  - f_equal. apply leqb_true; assumption.
  - f_equal. revert d0 Hab. induction IH as [|[k v] d [Hk Hv] Hd IHd]; intros [|[k' v'] d'] Hab;
      try reflexivity; try discriminate.
    apply andb_true_iff in Hab as [Hab H3]. apply andb_true_iff in Hab as [H1 H2].
    cbn in Hk, Hv. f_equal; [f_equal; [apply Hk|apply Hv]; assumption | apply IHd; assumption].
  - f_equal. apply leqb_true; assumption.
Qed.

Lemma leqb_refl : forall x, Forall (fun a => val_eqb a a = true) x -> leqb x x = true.
Proof.
  induction 1 as [|a x Ha Hx IH]; [reflexivity|]. rewrite leqb_cons, Ha, IH. reflexivity.
Qed.

Lemma val_eqb_refl : forall a, val_eqb a a = true.
Proof.
  induction a as [| | | | |l IH|l IH|l IH|d IH|l IH] using val_ind'; cbn; try reflexivity.
  - apply Bool.eqb_reflx.
  - apply Z.eqb_refl.
  - apply Nat.eqb_refl.
  - apply Nat.eqb_refl.
  - apply leqb_refl; assumption.
  - apply leqb_refl; assumption.
  - apply leqb_refl; assumption.
  - induction IH as [|[k v] d [Hk Hv] Hd IHd]; [reflexivity|]. cbn in Hk, Hv. rewrite Hk, Hv, IHd. reflexivity.
  - apply leqb_refl; assumption.
Qed.

Lemma val_eqb_iff : forall a b, val_eqb a b = true <-> a = b.
Proof. split; [apply val_eqb_true | intros ->; apply val_eqb_refl]. Qed.

Lemma val_eqb_false : forall a b, val_eqb a b = false <-> a <> b.
Proof.
  intros a b. split.
  - intros H E. subst. rewrite val_eqb_refl in H. discriminate.
  - intros H. destruct (val_eqb a b) eqn:E; [|reflexivity]. apply val_eqb_true in E. contradiction.
Qed.

Lemma key_eqb_iff : forall a b, key_eqb a b = true <-> norm a = norm b.
Proof. intros. apply val_eqb_iff. Qed.

Lemma key_eqb_refl : forall a, key_eqb a a = true.
Proof. intros. apply key_eqb_iff. reflexivity. Qed.

Lemma key_eqb_sym : forall a b, key_eqb a b = key_eqb b a.
Proof.
  intros. destruct (key_eqb a b) eqn:E1, (key_eqb b a) eqn:E2; try reflexivity.
  - apply key_eqb_iff in E1. symmetry in E1. apply key_eqb_iff in E1. congruence.
  - apply key_eqb_iff in E2. symmetry in E2. apply key_eqb_iff in E2. congruence.
Qed.

Lemma key_eqb_trans : forall a b c, key_eqb a b = true -> key_eqb b c = true -> key_eqb a c = true.
Proof. intros a b c H1 H2. apply key_eqb_iff in H1, H2. apply key_eqb_iff. congruence. Qed.

(* replacing one side by a key-equal value does not change the answer *)
Lemma key_eqb_congr_l : forall a b c, key_eqb a b = true -> key_eqb a c = key_eqb b c.
Proof.
  intros a b c H. destruct (key_eqb b c) eqn:E.
  - eapply key_eqb_trans; eassumption.
  - destruct (key_eqb a c) eqn:E2; [|reflexivity].
    rewrite key_eqb_sym in H. rewrite (key_eqb_trans _ _ _ H E2) in E. discriminate.
Qed.

(* ------------------------------------------------------------------------------------------- *)
(* sets *)

Definition key_in (v : val) (s : list val) : bool := existsb (key_eqb v) s.

Lemma key_in_congr : forall a b s, key_eqb a b = true -> key_in a s = key_in b s.
Proof.
  intros a b s H. unfold key_in. induction s as [|x s IH]; [reflexivity|].
  cbn. rewrite IH. rewrite (key_eqb_congr_l a b x H). reflexivity.
Qed.

Lemma key_in_app : forall v s t, key_in v (s ++ t) = key_in v s || key_in v t.
Proof. intros. unfold key_in. apply existsb_app. Qed.

Lemma set_add_in : forall s v, key_in v (set_add s v) = true.
Proof.
  intros. unfold set_add. fold (key_in v s). destruct (key_in v s) eqn:E; [assumption|].
  rewrite key_in_app. cbn. rewrite key_eqb_refl. apply orb_true_r.
Qed.

Lemma set_add_mono : forall s v x, key_in x s = true -> key_in x (set_add s v) = true.
Proof.
  intros. unfold set_add. fold (key_in v s). destruct (key_in v s); [assumption|].
  rewrite key_in_app, H. reflexivity.
Qed.

Lemma set_add_absorb : forall s v, key_in v s = true -> set_add s v = s.
Proof. intros. unfold set_add. fold (key_in v s). rewrite H. reflexivity. Qed.

Lemma fold_set_add_mono : forall vs s x, key_in x s = true -> key_in x (fold_left set_add vs s) = true.
Proof.
  induction vs as [|v vs IH]; intros; [assumption|]. cbn. apply IH. apply set_add_mono. assumption.
Qed.

Lemma atom_eqb_key : forall a b, atom_eqb a b = key_eqb (val_of_atom a) (val_of_atom b).
Proof.
  intros [|x|x|x] [|y|y|y]; try reflexivity.
  unfold atom_eqb, key_eqb. cbn [akey fst snd val_of_atom norm val_eqb]. rewrite Z.eqb_refl. cbn [andb].
  destruct (Nat.eqb x y) eqn:E.
  - apply Nat.eqb_eq in E. subst. apply Z.eqb_refl.
  - apply Nat.eqb_neq in E. apply Z.eqb_neq. lia.
Qed.

Lemma hashable_atom : forall a, hashable (val_of_atom a) = true.
Proof. destruct a; reflexivity. Qed.

Definition seen_in (seen : list atom) (s : list val) : Prop :=
  forall a, List.In a seen -> key_in (val_of_atom a) s = true.

Lemma seen_in_mono : forall seen s vs, seen_in seen s -> seen_in seen (fold_left set_add vs s).
Proof. intros seen s vs H a Ha. apply fold_set_add_mono. apply H. assumption. Qed.

Lemma seen_covers : forall seen s a, seen_in seen s -> existsb (atom_eqb a) seen = true ->
  key_in (val_of_atom a) s = true.
Proof.
  intros seen s a H E. apply existsb_exists in E as [a' [Hin Heq]].
  rewrite atom_eqb_key in Heq. rewrite (key_in_congr _ _ s Heq). apply H. assumption.
Qed.

(* the relation between evaluating the elements and evaluating the de-duplicated elements *)
Definition dedup_rel (seen : list atom) (r r' : option (list val * trace)) : Prop :=
  match r, r' with
  | Some (vs, t1), Some (vs', t2) =>
      t1 = t2 /\ forallb hashable vs' = forallb hashable vs /\
      forall s, seen_in seen s -> fold_left set_add vs' s = fold_left set_add vs s
  | None, None => True
  | _, _ => False
  end.

Lemma dedup_elts_rel : forall w en l seen tr,
  dedup_rel seen (eval_elts (eval w) en l tr) (eval_elts (eval w) en (dedup_set_elts seen l) tr).
Proof.
  intros w en. induction l as [|e tl IH]; intros seen tr.
  - cbn. repeat split; reflexivity.
  - assert (Hother : forall seen',
              (forall s v tr1, eval w e en tr = Some (v, tr1) -> seen_in seen s -> seen_in seen' (set_add s v)) ->
              dedup_rel seen
                (match eval w e en tr with
                 | Some (v, tr1) => match eval_elts (eval w) en tl tr1 with
                                    | Some (rest, tr2) => Some (v :: rest, tr2) | None => None end
                 | None => None end)
                (match eval w e en tr with
                 | Some (v, tr1) => match eval_elts (eval w) en (dedup_set_elts seen' tl) tr1 with
                                    | Some (rest, tr2) => Some (v :: rest, tr2) | None => None end
                 | None => None end)).
    { intros seen' Hs. destruct (eval w e en tr) as [[v tr1]|] eqn:Ev; [|exact I].
      specialize (IH seen' tr1). unfold dedup_rel in *.
      destruct (eval_elts (eval w) en tl tr1) as [[vs t1]|],
               (eval_elts (eval w) en (dedup_set_elts seen' tl) tr1) as [[vs' t2]|]; try contradiction; [|exact I].
      destruct IH as [-> [Hh Hf]]. repeat split.
      - cbn. rewrite Hh. reflexivity.
      - intros s Hin. cbn. apply Hf. eapply Hs; [reflexivity|assumption]. }
    assert (Hsame : forall s v tr1, eval w e en tr = Some (v, tr1) -> seen_in seen s -> seen_in seen (set_add s v)).
    { intros s v tr1 _ H a Ha. apply set_add_mono. apply H. assumption. }
    destruct e; cbn [dedup_set_elts];
      try (cbn [eval_elts]; apply (Hother seen Hsame)).
    + (* EConst *)
      destruct (existsb (atom_eqb a) seen) eqn:Eseen.
      * cbn [eval_elts eval]. specialize (IH seen tr). unfold dedup_rel in *.
        destruct (eval_elts (eval w) en tl tr) as [[vs t1]|],
                 (eval_elts (eval w) en (dedup_set_elts seen tl) tr) as [[vs' t2]|]; try contradiction; [|exact I].
        destruct IH as [-> [Hh Hf]]. repeat split.
        -- cbn. rewrite hashable_atom. assumption.
        -- intros s Hin. cbn. rewrite set_add_absorb by (eapply seen_covers; eassumption). apply Hf. assumption.
      * cbn [eval_elts]. apply (Hother (a :: seen)).
        intros s v tr1 Ev Hin a' [<-|Ha'].
        -- cbn [eval] in Ev. injection Ev as <- _. apply set_add_in.
        -- apply set_add_mono. apply Hin. assumption.
    + (* EStar *)
      cbn [eval_elts]. destruct (eval w e en tr) as [[v tr1]|]; [|exact I].
      destruct (items_of v) as [vs0|]; [|exact I].
      specialize (IH seen tr1). unfold dedup_rel in *.
      destruct (eval_elts (eval w) en tl tr1) as [[vs t1]|],
               (eval_elts (eval w) en (dedup_set_elts seen tl) tr1) as [[vs' t2]|]; try contradiction; [|exact I].
      destruct IH as [-> [Hh Hf]]. repeat split.
      * rewrite !forallb_app, Hh. reflexivity.
      * intros s Hin. rewrite !fold_left_app. apply Hf. apply seen_in_mono. assumption.
Qed.

(* fixes.remove_duplicate_set_elts: a constant equal (as a key: 1 == True) to an earlier constant of
   the display is dropped; same set (first element wins), same calls of the other elements *)
Theorem dup_set_sound : forall w e e',
  rw_dup_set e = Some e' ->
  forall en tr, eval w e' en tr = eval w e en tr.
Proof.
  intros w e e' Hr en tr. destruct e; try discriminate. destruct k; try discriminate.
  cbn [rw_dup_set] in Hr. destruct (length (dedup_set_elts [] elts) <? length elts)%nat; [|discriminate].
  injection Hr as <-. rewrite !eval_ESeq.
  pose proof (dedup_elts_rel w en elts [] tr) as H. unfold dedup_rel in H.
  destruct (eval_elts (eval w) en elts tr) as [[vs t1]|],
           (eval_elts (eval w) en (dedup_set_elts [] elts) tr) as [[vs' t2]|]; try contradiction; [|reflexivity].
  destruct H as [-> [Hh Hf]]. unfold mkset. rewrite Hh, (Hf []); [reflexivity|].
  intros a [].
Qed.

Example dup_set_example :
  rw_dup_set (ESeq KSet [EConst (AInt 1); ECall 0 []; EConst (ABool true); EStar (EName 2); EConst (AInt 1)])
  = Some (ESeq KSet [EConst (AInt 1); ECall 0 []; EStar (EName 2)]).
Proof. reflexivity. Qed.

(* ------------------------------------------------------------------------------------------- *)
(* induction principle for expressions (nested lists) *)

Section ExprInd.
  Variable P : expr -> Prop.
  Hypothesis HConst : forall a, P (EConst a).
  Hypothesis HName : forall x, P (EName x).
  Hypothesis HCall : forall f args, Forall P args -> P (ECall f args).
  Hypothesis HBi : forall b args, Forall P args -> P (EBi b args).
  Hypothesis HSeq : forall k elts, Forall P elts -> P (ESeq k elts).
  Hypothesis HDict : forall items, Forall P items -> P (EDict items).
  Hypothesis HCmp : forall l rest, P l -> Forall P rest -> P (ECmp l rest).
  Hypothesis HNot : forall e, P e -> P (ENot e).
  Hypothesis HComp : forall k elt dval t iter ifs,
      P elt -> P dval -> P iter -> Forall P ifs -> P (EComp k elt dval t iter ifs).
  Hypothesis HStar : forall e, P e -> P (EStar e).
  Hypothesis HKw : forall k e, P e -> P (EKw k e).
  Hypothesis HKV : forall k v, P k -> P v -> P (EKV k v).
  Hypothesis HDStar : forall v, P v -> P (EDStar v).
  Hypothesis HOp : forall o e, P e -> P (EOp o e).

  Fixpoint expr_ind' (e : expr) : P e :=
    let fl := fix fl (l : list expr) : Forall P l :=
      match l with
      | [] => Forall_nil P
      | x :: tl => Forall_cons x (expr_ind' x) (fl tl)
      end in
    match e with
    | EConst a => HConst a
    | EName x => HName x
    | ECall f args => HCall f args (fl args)
    | EBi b args => HBi b args (fl args)
    | ESeq k elts => HSeq k elts (fl elts)
    | EDict items => HDict items (fl items)
    | ECmp l rest => HCmp l rest (expr_ind' l) (fl rest)
    | ENot e1 => HNot e1 (expr_ind' e1)
    | EComp k elt dval t iter ifs =>
        HComp k elt dval t iter ifs (expr_ind' elt) (expr_ind' dval) (expr_ind' iter) (fl ifs)
    | EStar e1 => HStar e1 (expr_ind' e1)
    | EKw k e1 => HKw k e1 (expr_ind' e1)
    | EKV k v => HKV k v (expr_ind' k) (expr_ind' v)
    | EDStar v => HDStar v (expr_ind' v)
    | EOp o e1 => HOp o e1 (expr_ind' e1)
    end.
End ExprInd.

(* ------------------------------------------------------------------------------------------- *)
(* sorting *)

Definition indist (l : list val) : Prop :=
  forall a b, List.In a l -> List.In b l -> zk a = zk b -> a = b.

Definition indistb (l : list val) : bool :=
  forallb (fun a => forallb (fun b => negb (zk a =? zk b) || val_eqb a b) l) l.

Lemma indistb_spec : forall l, indistb l = true -> indist l.
Proof.
  intros l H a b Ha Hb Hk. unfold indistb in H. rewrite forallb_forall in H.
  specialize (H a Ha). rewrite forallb_forall in H. specialize (H b Hb).
  rewrite Hk, Z.eqb_refl in H. cbn in H. apply val_eqb_true. assumption.
Qed.

Lemma insert_perm : forall x l, Permutation (insert x l) (x :: l).
Proof.
  induction l as [|y tl IH]; cbn; [apply Permutation_refl|].
  destruct (zk x <=? zk y); [apply Permutation_refl|].
  eapply perm_trans; [apply perm_skip; exact IH | apply perm_swap].
Qed.

Lemma sort_cons : forall x l, sort (x :: l) = insert x (sort l).
Proof. reflexivity. Qed.

Lemma sort_perm : forall l, Permutation (sort l) l.
Proof.
  induction l as [|x l IH]; [constructor|]. rewrite sort_cons.
  eapply perm_trans; [apply insert_perm | apply perm_skip; exact IH].
Qed.

Lemma insert_comm : forall a b l, (zk a <> zk b \/ a = b) ->
  insert a (insert b l) = insert b (insert a l).
Proof.
  intros a b l [Hne | ->]; [|reflexivity].
  induction l as [|y tl IH]; cbn.
  - destruct (Z.leb_spec (zk a) (zk b)), (Z.leb_spec (zk b) (zk a)); try reflexivity; lia.
  - destruct (Z.leb_spec (zk b) (zk y)), (Z.leb_spec (zk a) (zk y)); cbn.
    + destruct (Z.leb_spec (zk a) (zk b)), (Z.leb_spec (zk b) (zk a)); try lia.
      * destruct (Z.leb_spec (zk b) (zk y)); [reflexivity|lia].
      * destruct (Z.leb_spec (zk a) (zk y)); [reflexivity|lia].
    + destruct (Z.leb_spec (zk a) (zk b)); [lia|].
      destruct (Z.leb_spec (zk a) (zk y)); [lia|].
      destruct (Z.leb_spec (zk b) (zk y)); [reflexivity|lia].
    + destruct (Z.leb_spec (zk b) (zk a)); [lia|].
      destruct (Z.leb_spec (zk b) (zk y)); [lia|].
      destruct (Z.leb_spec (zk a) (zk y)); [reflexivity|lia].
    + destruct (Z.leb_spec (zk a) (zk y)); [lia|].
      destruct (Z.leb_spec (zk b) (zk y)); [lia|]. rewrite IH. reflexivity.
Qed.

Lemma indist_perm : forall l l', Permutation l l' -> indist l -> indist l'.
Proof.
  intros l l' Hp H a b Ha Hb. apply H; eapply Permutation_in; try eassumption; apply Permutation_sym; assumption.
Qed.

Lemma indist_tail : forall x l, indist (x :: l) -> indist l.
Proof. intros x l H a b Ha Hb. apply H; right; assumption. Qed.

Lemma sort_perm_inv : forall l l', Permutation l l' -> indist l -> sort l = sort l'.
Proof.
  induction 1 as [|x l l' Hp IH|x y l|l l' l'' Hp1 IH1 Hp2 IH2]; intros Hi.
  - reflexivity.
  - rewrite !sort_cons. rewrite IH; [reflexivity|]. eapply indist_tail; eassumption.
  - rewrite !sort_cons. apply insert_comm.
    destruct (Z.eq_dec (zk y) (zk x)) as [E|E]; [right|left; assumption].
    apply Hi; [left; reflexivity | right; left; reflexivity | assumption].
  - rewrite IH1 by assumption. apply IH2. eapply indist_perm; eassumption.
Qed.

Lemma sort_rev : forall l, indist l -> sort (rev l) = sort l.
Proof.
  intros l H. symmetry. apply sort_perm_inv; [apply Permutation_rev | assumption].
Qed.

(* the sort is stable: it distinguishes [True, 1] from [1, True] *)
Lemma sort_rev_refuted : exists l, sort (rev l) <> sort l.
Proof. exists [VBool true; VInt 1]. vm_compute. discriminate. Qed.

Definition le_key (a b : val) : Prop := zk a <= zk b.

Lemma insert_sorted_head : forall x l, Forall (le_key x) l -> insert x l = x :: l.
Proof.
  intros x [|y tl] H; [reflexivity|]. cbn. inversion H as [|? ? Hxy _]; subst. unfold le_key in Hxy.
  destruct (Z.leb_spec (zk x) (zk y)); [reflexivity|lia].
Qed.

Inductive ssorted : list val -> Prop :=
| ss_nil : ssorted []
| ss_cons : forall x l, Forall (le_key x) l -> ssorted l -> ssorted (x :: l).

Lemma sort_id : forall l, ssorted l -> sort l = l.
Proof.
  induction 1 as [|x l Hx Hs IH]; [reflexivity|]. rewrite sort_cons, IH. apply insert_sorted_head. assumption.
Qed.

Lemma insert_ssorted : forall x l, ssorted l -> ssorted (insert x l).
Proof.
  intros x l H. induction H as [|y l Hy Hs IH]; cbn.
  - constructor; constructor.
  - destruct (Z.leb_spec (zk x) (zk y)).
    + constructor; [|constructor; assumption].
      constructor; [assumption|]. eapply Forall_impl; [|exact Hy]. unfold le_key. intros; lia.
    + constructor; [|assumption].
      eapply Permutation_Forall; [apply Permutation_sym, insert_perm|].
      constructor; [unfold le_key; lia | assumption].
Qed.

Lemma sort_ssorted : forall l, ssorted (sort l).
Proof. induction l as [|x l IH]; [constructor | rewrite sort_cons; apply insert_ssorted; assumption]. Qed.

Lemma sort_sort : forall l, sort (sort l) = sort l.
Proof. intros. apply sort_id, sort_ssorted. Qed.

Lemma sortable_spec : forall l,
  sortable l = true <->
  (forall a, List.In a l -> 0 <= cls a) /\ (forall a b, List.In a l -> List.In b l -> cls a = cls b).
Proof.
  intros [|x l]; cbn [sortable].
  - split; [intros _; split; [intros ? [] | intros ? ? []] | reflexivity].
  - rewrite andb_true_iff, forallb_forall. split.
    + intros [H0 H]. apply Z.leb_le in H0.
      assert (Hc : forall a, List.In a (x :: l) -> cls a = cls x) by (intros a Ha; apply Z.eqb_eq, H, Ha).
      split; [intros a Ha; rewrite (Hc a Ha); assumption | intros a b Ha Hb; rewrite (Hc a Ha), (Hc b Hb); reflexivity].
    + intros [H0 H]. split; [apply Z.leb_le, H0; left; reflexivity|].
      intros a Ha. apply Z.eqb_eq. apply H; [assumption | left; reflexivity].
Qed.

Lemma sortable_perm : forall l l', Permutation l l' -> sortable l = true -> sortable l' = true.
Proof.
  intros l l' Hp H. apply sortable_spec in H as [H0 H]. apply sortable_spec. apply Permutation_sym in Hp. split.
  - intros a Ha. apply H0. eapply Permutation_in; eassumption.
  - intros a b Ha Hb. apply H; eapply Permutation_in; eassumption.
Qed.

Lemma sum_num_perm : forall l l', Permutation l l' -> sum_num l = sum_num l'.
Proof.
  induction 1 as [|x l l' Hp IH|x y l|l l' l'' Hp1 IH1 Hp2 IH2]; cbn.
  - reflexivity.
  - rewrite IH. reflexivity.
  - destruct (num x), (num y), (sum_num l); try reflexivity. f_equal. lia.
  - congruence.
Qed.

(* ------------------------------------------------------------------------------------------- *)
(* performance.remove_redundant_chained_calls *)

Lemma eval_args_plain_cons : forall w en x tl tr, plain x = true ->
  eval_args (eval w) en (x :: tl) tr =
  match eval w x en tr with
  | Some (v, tr1) => match eval_args (eval w) en tl tr1 with
                     | Some (rest, tr2) => Some ((None, v) :: rest, tr2)
                     | None => None
                     end
  | None => None
  end.
Proof. intros w en x tl tr H. destruct x; try discriminate; reflexivity. Qed.

Lemma eval_args_kws : forall w en kws tr rest tr2,
  forallb is_kw kws = true -> eval_args (eval w) en kws tr = Some (rest, tr2) ->
  fst (split_kws rest) = [].
Proof.
  intros w en. induction kws as [|k kws IH]; intros tr rest tr2 Hk He.
  - injection He as <- _. reflexivity.
  - cbn in Hk. apply andb_true_iff in Hk as [Hk1 Hk2]. destruct k; try discriminate.
    cbn [eval_args] in He. destruct (eval w k0 en tr) as [[v tr1]|]; [|discriminate].
    destruct (eval_args (eval w) en kws tr1) as [[rest' tr2']|] eqn:E; [|discriminate].
    injection He as <- _. cbn. specialize (IH _ _ _ Hk2 E).
    destruct (split_kws rest') as [a b]. cbn in *. assumption.
Qed.

(* the calls under which the outer call only looks at the items of its argument *)
Definition items_outer (b : bi) : bool :=
  match b with BSorted | BList | BSet | BIter | BTuple | BSum => true | _ => false end.

Lemma outer_items : forall outer r v kw,
  items_outer outer = true -> items_of r = items_of v ->
  bapply outer [r] kw = bapply outer [v] kw.
Proof.
  intros outer r v kw Ho Hi. destruct outer; try discriminate; cbn [bapply];
    try (destruct kw; [rewrite Hi; reflexivity | reflexivity]).
  rewrite Hi. reflexivity.
Qed.

Definition exact_inner (outer inner : bi) : bool :=
  match outer, inner with
  | (BSorted | BList | BSet | BIter | BTuple | BSum), (BList | BTuple | BIter) => true
  | BSum, (BSorted | BReversed) => true
  | _, _ => false
  end.

Lemma pair_exact : forall outer inner v r,
  exact_inner outer inner = true -> bapply inner [v] [] = Some r ->
  forall kw res, bapply outer [r] kw = Some res -> bapply outer [v] kw = Some res.
Proof.
  intros outer inner v r He Hr kw res Hres.
  assert (Hwrap : inner = BList \/ inner = BTuple \/ inner = BIter -> items_outer outer = true ->
                  bapply outer [v] kw = Some res).
  { intros Hi Ho. rewrite <- Hres. symmetry. apply outer_items; [assumption|].
    destruct Hi as [-> | [-> | ->]]; cbn in Hr; destruct (items_of v); try discriminate;
      injection Hr as <-; reflexivity. }
  destruct outer, inner; try discriminate; try (apply Hwrap; [tauto | reflexivity]).
  - (* sum(sorted(v)) *)
    cbn in Hr. destruct (items_of v) as [l|] eqn:Ei; [|discriminate].
    unfold py_sorted in Hr. destruct (sortable l); [|discriminate]. injection Hr as <-.
    destruct kw; [|discriminate]. cbn in Hres. cbn. rewrite Ei.
    rewrite (sum_num_perm _ _ (sort_perm l)) in Hres. assumption.
  - (* sum(reversed(v)) *)
    destruct kw; [|cbn in Hres; destruct r; discriminate].
    destruct v; try discriminate; cbn in Hr; injection Hr as <-; cbn in Hres; cbn;
      rewrite <- (sum_num_perm _ _ (Permutation_rev _)) in Hres; assumption.
Qed.

Fixpoint strip_exact (outer : bi) (a : expr) : bool :=
  match a with
  | EBi inner [x] => if redundant_inner outer inner && plain x
                     then exact_inner outer inner && strip_exact outer x else true
  | _ => true
  end.

Lemma plain_strip : forall outer a, plain a = true -> plain (strip outer a) = true.
Proof.
  intros outer. induction a using expr_ind'; intros Hp; try assumption.
  destruct args as [|x [|y tl]]; try assumption. cbn [strip].
  destruct (redundant_inner outer b && plain x) eqn:E; [|assumption].
  apply andb_true_iff in E as [_ Hx]. inversion H; subst. auto.
Qed.

Lemma strip_sound : forall w outer a,
  strip_exact outer a = true ->
  forall en tr v tr', eval w a en tr = Some (v, tr') ->
  exists v', eval w (strip outer a) en tr = Some (v', tr') /\
             forall kw res, bapply outer [v] kw = Some res -> bapply outer [v'] kw = Some res.
Proof.
  intros w outer. induction a using expr_ind'; intros Hs en tr v tr' Hev;
    try (exists v; split; [exact Hev | auto]).
  destruct args as [|x [|y tl]]; try (exists v; split; [exact Hev | auto]).
  cbn [strip strip_exact] in *. destruct (redundant_inner outer b && plain x) eqn:E;
    [|exists v; split; [exact Hev | auto]].
  apply andb_true_iff in E as [Hred Hx]. apply andb_true_iff in Hs as [Hex Hs].
  rewrite eval_EBi, (eval_args_plain_cons _ _ _ _ _ Hx) in Hev.
  destruct (eval w x en tr) as [[v0 tr1]|] eqn:Ex; [|discriminate]. cbn in Hev.
  destruct (bapply b [v0] []) as [r|] eqn:Er; [|discriminate]. injection Hev as <- <-.
  inversion H as [|? ? Hx0 _]; subst. destruct (Hx0 Hs _ _ _ _ Ex) as [v' [Hv' Hlaw]].
  exists v'. split; [exact Hv'|]. intros kw res Hres. apply Hlaw. eapply pair_exact; eassumption.
Qed.

(* outer(inner(...(x)), kws) -> outer(x, kws): if every skipped call is one of list/tuple/iter (or
   sorted/reversed under sum), a normally terminating evaluation keeps its value and its call trace *)
Theorem chain1_exact : forall w e e',
  rw_chain1 e = Some e' ->
  (match e with EBi outer (a0 :: _) => strip_exact outer a0 | _ => false end) = true ->
  forall en tr r, eval w e en tr = Some r -> eval w e' en tr = Some r.
Proof.
  intros w e e' Hr Hex en tr r Hev. destruct e; try discriminate. destruct args as [|a0 kws]; [discriminate|].
  cbn [rw_chain1] in Hr. destruct (is_outer b && forallb is_kw kws) eqn:E1; [|discriminate].
  apply andb_true_iff in E1 as [_ Hkws].
  destruct a0; try discriminate. destruct args as [|x ikws]; [discriminate|].
  destruct (redundant_inner b b0 && negb (is_kw x) && forallb is_kw ikws) eqn:E2; [|discriminate].
  destruct ikws; [|discriminate]. destruct (plain x) eqn:Hx; [|discriminate]. injection Hr as <-.
  apply andb_true_iff in E2 as [E2 _]. apply andb_true_iff in E2 as [Hred _].
  assert (Hstrip : strip b (EBi b0 [x]) = strip b x) by (cbn [strip]; rewrite Hred, Hx; reflexivity).
  rewrite <- Hstrip.
  rewrite eval_EBi in *. rewrite eval_args_plain_cons in Hev by reflexivity.
  rewrite eval_args_plain_cons by (apply plain_strip; reflexivity).
  destruct (eval w (EBi b0 [x]) en tr) as [[v tr1]|] eqn:Ea; [|discriminate].
  destruct (strip_sound w b _ Hex _ _ _ _ Ea) as [v' [Hv' Hlaw]]. rewrite Hv'.
  destruct (eval_args (eval w) en kws tr1) as [[rest tr2]|] eqn:Ek; [|discriminate].
  cbn [fst snd split_kws] in *. pose proof (eval_args_kws _ _ _ _ _ _ Hkws Ek) as Hpos.
  destruct (split_kws rest) as [pos kwl]. cbn [fst snd] in *. subst pos.
  destruct (bapply b [v] kwl) as [res|] eqn:Eb; [|discriminate]. rewrite (Hlaw _ _ Eb). assumption.
Qed.

Example chain1_example :
  rw_chain1 (EBi BSorted [EBi BList [EBi BTuple [ECall 1 []]]; EKw KReverse (EName 2)])
  = Some (EBi BSorted [ECall 1 []; EKw KReverse (EName 2)])
  /\ strip_exact BSorted (EBi BList [EBi BTuple [ECall 1 []]]) = true.
Proof. split; reflexivity. Qed.

(* ---- the pairs that are only right when equal elements are indistinguishable ---------------- *)

Definition items_indist (v : val) : bool :=
  match items_of v with Some l => indistb l | None => true end.

Lemma sortable_perm_eq : forall l l', Permutation l l' -> sortable l = sortable l'.
Proof.
  intros l l' Hp. destruct (sortable l) eqn:E1, (sortable l') eqn:E2; try reflexivity.
  - rewrite (sortable_perm _ _ Hp E1) in E2. discriminate.
  - rewrite (sortable_perm _ _ (Permutation_sym Hp) E2) in E1. discriminate.
Qed.

Lemma py_sorted_perm : forall r l l', Permutation l l' -> indist l -> py_sorted r l = py_sorted r l'.
Proof.
  intros r l l' Hp Hi. unfold py_sorted. rewrite (sortable_perm_eq _ _ Hp).
  destruct (sortable l'); [|reflexivity]. f_equal. f_equal. destruct r.
  - f_equal. apply sort_perm_inv.
    + eapply perm_trans; [apply Permutation_sym, Permutation_rev|].
      eapply perm_trans; [exact Hp | apply Permutation_rev].
    + eapply indist_perm; [apply Permutation_rev | assumption].
  - apply sort_perm_inv; assumption.
Qed.

(* sorted(reversed(v), kws) = sorted(v, kws) and sorted(sorted(v), kws) = sorted(v, kws) when equal
   elements of v are identical *)
Lemma sorted_inner_partial : forall inner v r kw,
  inner = BReversed \/ inner = BSorted ->
  bapply inner [v] [] = Some r -> items_indist v = true ->
  bapply BSorted [r] kw = bapply BSorted [v] kw.
Proof.
  intros inner v r kw Hin Hr Hg. unfold items_indist in Hg. cbn [bapply].
  destruct (sorted_kws kw) as [rv|]; [|reflexivity].
  destruct Hin as [-> | ->].
  - destruct v; try discriminate; cbn in Hr; injection Hr as <-; cbn [items_of] in *;
      symmetry; apply py_sorted_perm; try apply Permutation_rev; apply indistb_spec; assumption.
  - cbn in Hr. destruct (items_of v) as [l|]; [|discriminate].
    unfold py_sorted in Hr. destruct (sortable l); [|discriminate]. injection Hr as <-. cbn [items_of].
    symmetry. apply py_sorted_perm; [apply Permutation_sym, sort_perm | apply indistb_spec; assumption].
Qed.

Theorem chain1_sorted_partial : forall w inner x kws,
  inner = BReversed \/ inner = BSorted -> plain x = true -> forallb is_kw kws = true ->
  forall en tr v tr1, eval w x en tr = Some (v, tr1) -> items_indist v = true ->
  forall r, eval w (EBi BSorted (EBi inner [x] :: kws)) en tr = Some r ->
            eval w (EBi BSorted (x :: kws)) en tr = Some r.
Proof.
  intros w inner x kws Hin Hx Hkws en tr v tr1 Hev Hg r0 Ho.
  rewrite eval_EBi in *. rewrite eval_args_plain_cons by assumption.
  rewrite (eval_args_plain_cons w en (EBi inner [x])) in Ho by reflexivity.
  rewrite eval_EBi, (eval_args_plain_cons _ _ _ _ _ Hx), Hev in Ho. cbn [eval_args fst snd split_kws] in Ho.
  rewrite Hev. destruct (bapply inner [v] []) as [r|] eqn:Er; [|discriminate].
  destruct (eval_args (eval w) en kws tr1) as [[rest tr2]|] eqn:Ek; [|discriminate].
  cbn [fst snd split_kws] in *. pose proof (eval_args_kws _ _ _ _ _ _ Hkws Ek) as Hpos.
  destruct (split_kws rest) as [pos kwl]. cbn [fst snd] in *. subst pos.
  rewrite <- (sorted_inner_partial inner v r kwl Hin Er Hg). assumption.
Qed.

(* ... and wrong otherwise: the sort is stable *)
Theorem chain1_sorted_reversed_refuted :
  exists e e' en, rw_chain1 e = Some e' /\
    forall w, eval w e en [] = Some (VList [VInt 1; VBool true], []) /\
              eval w e' en [] = Some (VList [VBool true; VInt 1], []).
Proof.
  exists (EBi BSorted [EBi BReversed [EName 1]]), (EBi BSorted [EName 1]),
    (mkenv [(1%nat, VList [VBool true; VInt 1])]).
  split; [reflexivity|]. intros w. split; reflexivity.
Qed.

Theorem chain1_set_reversed_refuted :
  exists e e' en, rw_chain1 e = Some e' /\
    forall w, eval w e en [] = Some (VSet [VInt 1], []) /\ eval w e' en [] = Some (VSet [VBool true], []).
Proof.
  exists (EBi BSet [EBi BReversed [EName 1]]), (EBi BSet [EName 1]),
    (mkenv [(1%nat, VList [VBool true; VInt 1])]).
  split; [reflexivity|]. intros w. split; reflexivity.
Qed.

Example chain1_sorted_partial_example :
  rw_chain1 (EBi BSorted [EBi BReversed [EName 1]; EKw KReverse (EConst (ABool true))])
  = Some (EBi BSorted [EName 1; EKw KReverse (EConst (ABool true))])
  /\ items_indist (VList [VInt 3; VInt 1; VBool false]) = true.
Proof. split; reflexivity. Qed.

(* ---- loop 2: outer(inner(...)) -> inner(...) ------------------------------------------------ *)

Inductive nodupk : list val -> Prop :=
| nd_nil : nodupk []
| nd_snoc : forall s v, nodupk s -> key_in v s = false -> nodupk (s ++ [v]).

Lemma set_add_nodupk : forall s v, nodupk s -> nodupk (set_add s v).
Proof.
  intros s v H. unfold set_add. fold (key_in v s). destruct (key_in v s) eqn:E; [assumption|].
  constructor; assumption.
Qed.

Lemma fold_set_add_nodupk : forall l s, nodupk s -> nodupk (fold_left set_add l s).
Proof. induction l as [|x l IH]; intros s H; [assumption|]. cbn. apply IH, set_add_nodupk, H. Qed.

Lemma nodupk_rebuild : forall s, nodupk s -> fold_left set_add s [] = s.
Proof.
  induction 1 as [|s v Hs IH Hv]; [reflexivity|].
  rewrite fold_left_app, IH. cbn. unfold set_add. fold (key_in v s). rewrite Hv. reflexivity.
Qed.

Lemma fold_set_add_hashable : forall l s,
  forallb hashable l = true -> forallb hashable s = true -> forallb hashable (fold_left set_add l s) = true.
Proof.
  induction l as [|x l IH]; intros s Hl Hs; [assumption|]. cbn in Hl. apply andb_true_iff in Hl as [Hx Hl].
  cbn. apply IH; [assumption|]. unfold set_add. destruct (existsb (key_eqb x) s); [assumption|].
  rewrite forallb_app, Hs. cbn. rewrite Hx. reflexivity.
Qed.

(* set(s) of a set value s is s *)
Lemma mkset_idem : forall l s, mkset l = Some (VSet s) -> mkset s = Some (VSet s).
Proof.
  intros l s H. unfold mkset in *. destruct (forallb hashable l) eqn:Hh; [|discriminate].
  injection H as <-. rewrite fold_set_add_hashable by (assumption || reflexivity).
  rewrite nodupk_rebuild; [reflexivity|]. apply fold_set_add_nodupk. constructor.
Qed.

Lemma chain2_val : forall inner outer pos kw r res,
  redundant_outer inner outer = true -> bapply inner pos kw = Some r ->
  bapply outer [r] [] = Some res -> res = r.
Proof.
  intros inner outer pos kw r res Hred Hr Hres.
  destruct inner, outer; try discriminate.
  - (* list(list(..)) *)
    destruct pos as [|v [|? ?]], kw; try discriminate; cbn in Hr.
    + injection Hr as <-. cbn in Hres. congruence.
    + destruct (items_of v); [|discriminate]. injection Hr as <-. cbn in Hres. congruence.
  - (* tuple(tuple(..)) *)
    destruct pos as [|v [|? ?]], kw; try discriminate; cbn in Hr.
    + injection Hr as <-. cbn in Hres. congruence.
    + destruct (items_of v); [|discriminate]. injection Hr as <-. cbn in Hres. congruence.
  - (* set(set(..)) *)
    destruct pos as [|v [|? ?]], kw; try discriminate; cbn in Hr.
    + injection Hr as <-. cbn in Hres. congruence.
    + destruct (items_of v) as [l|]; [|discriminate]. cbn [bapply items_of] in Hres.
      assert (exists s, r = VSet s) as [s ->].
      { unfold mkset in Hr. destruct (forallb hashable l); [|discriminate]. injection Hr as <-. eauto. }
      cbn [items_of] in Hres. rewrite (mkset_idem _ _ Hr) in Hres. congruence.
  - (* iter(iter(..)) *)
    destruct pos as [|v [|? ?]], kw; try discriminate; cbn in Hr.
    destruct (items_of v); [|discriminate]. injection Hr as <-. cbn in Hres. congruence.
  - (* list(sorted(..)) *)
    destruct pos as [|v [|? ?]]; try discriminate; cbn in Hr.
    destruct (sorted_kws kw), (items_of v) as [l|]; try discriminate.
    unfold py_sorted in Hr. destruct (sortable l); [|discriminate]. injection Hr as <-. cbn in Hres. congruence.
Qed.

Theorem chain2_sound : forall w e e',
  rw_chain2 e = Some e' ->
  forall en tr r, eval w e en tr = Some r -> eval w e' en tr = Some r.
Proof.
  intros w e e' Hr en tr r Hev. destruct e; try discriminate. destruct args as [|a0 [|? ?]]; try discriminate.
  cbn [rw_chain2] in Hr. destruct a0; try discriminate. destruct args as [|x ikws]; [discriminate|].
  destruct (redundant_outer b0 b && negb (is_kw x) && forallb is_kw ikws) eqn:E; [|discriminate].
  injection Hr as <-. apply andb_true_iff in E as [E _]. apply andb_true_iff in E as [Hred _].
  rewrite eval_EBi in Hev. rewrite eval_args_plain_cons in Hev by reflexivity.
  destruct (eval w (EBi b0 (x :: ikws)) en tr) as [[v tr1]|] eqn:Ea; [|discriminate].
  cbn [eval_args fst snd split_kws] in Hev. destruct (bapply b [v] []) as [res|] eqn:Eb; [|discriminate].
  injection Hev as <-. f_equal. f_equal.
  rewrite eval_EBi in Ea. destruct (eval_args (eval w) en (x :: ikws) tr) as [[vs tr2]|]; [|discriminate].
  destruct (bapply b0 (fst (split_kws vs)) (snd (split_kws vs))) as [r0|] eqn:Ei; [|discriminate].
  injection Ea as <- <-. symmetry. eapply chain2_val; eassumption.
Qed.

(* ---- loop 3: reversed(sorted(x)) -> sorted(x, reverse=True) --------------------------------- *)

Definition rev_sorted (x : expr) : expr := EBi BReversed [EBi BSorted [x]].
Definition sorted_rev (x : expr) : expr := EBi BSorted [x; EKw KReverse (EConst (ABool true))].

Lemma chain3_shape : forall x, plain x = true -> rw_chain3 (rev_sorted x) = Some (sorted_rev x).
Proof. intros x H. destruct x; try discriminate; reflexivity. Qed.

Lemma eval_rev_sorted : forall w x en tr, plain x = true ->
  eval w (rev_sorted x) en tr =
  match eval w x en tr with
  | Some (v, tr1) => match items_of v with
                     | Some l => if sortable l then Some (VIter (rev (sort l)), tr1) else None
                     | None => None
                     end
  | None => None
  end.
Proof.
  intros w x en tr Hx. unfold rev_sorted. rewrite eval_EBi, eval_args_plain_cons by reflexivity.
  rewrite eval_EBi, (eval_args_plain_cons _ _ _ _ _ Hx).
  destruct (eval w x en tr) as [[v tr1]|]; [|reflexivity]. cbn [eval_args fst snd split_kws bapply sorted_kws].
  destruct (items_of v) as [l|]; [|reflexivity]. unfold py_sorted. destruct (sortable l); reflexivity.
Qed.

Lemma eval_sorted_rev : forall w x en tr, plain x = true ->
  eval w (sorted_rev x) en tr =
  match eval w x en tr with
  | Some (v, tr1) => match items_of v with
                     | Some l => if sortable l then Some (VList (rev (sort (rev l))), tr1) else None
                     | None => None
                     end
  | None => None
  end.
Proof.
  intros w x en tr Hx. unfold sorted_rev. rewrite eval_EBi, (eval_args_plain_cons _ _ _ _ _ Hx).
  destruct (eval w x en tr) as [[v tr1]|]; [|reflexivity].
  cbn [eval_args eval val_of_atom fst snd split_kws bapply sorted_kws KReverse Nat.eqb].
  destruct (items_of v) as [l|]; [|reflexivity]. unfold py_sorted. destruct (sortable l); reflexivity.
Qed.

(* the rewritten expression never has the same value: an iterator became a list *)
Theorem chain3_refuted_type : forall w x en tr r t r' t', plain x = true ->
  eval w (rev_sorted x) en tr = Some (r, t) -> eval w (sorted_rev x) en tr = Some (r', t') -> r <> r'.
Proof.
  intros w x en tr r t r' t' Hx H1 H2. rewrite eval_rev_sorted in H1 by assumption.
  rewrite eval_sorted_rev in H2 by assumption.
  destruct (eval w x en tr) as [[v tr1]|]; [|discriminate]. destruct (items_of v) as [l|]; [|discriminate].
  destruct (sortable l); [|discriminate]. injection H1 as <- _. injection H2 as <- _. discriminate.
Qed.

(* as an iterable it yields the same items, provided equal elements are identical *)
Theorem chain3_partial_items : forall w x en tr v tr1 r t, plain x = true ->
  eval w x en tr = Some (v, tr1) -> items_indist v = true ->
  eval w (rev_sorted x) en tr = Some (r, t) ->
  exists r', eval w (sorted_rev x) en tr = Some (r', t) /\ items_of r' = items_of r.
Proof.
  intros w x en tr v tr1 r t Hx Hev Hg H1. rewrite eval_rev_sorted in H1 by assumption.
  rewrite eval_sorted_rev by assumption. rewrite Hev in *. unfold items_indist in Hg.
  destruct (items_of v) as [l|]; [|discriminate]. destruct (sortable l); [|discriminate].
  injection H1 as <- <-. eexists. split; [reflexivity|]. cbn. rewrite sort_rev by (apply indistb_spec; assumption).
  reflexivity.
Qed.

Theorem chain3_refuted_stability :
  exists x en, plain x = true /\
    forall w, eval w (rev_sorted x) en [] = Some (VIter [VInt 1; VBool true], []) /\
              eval w (sorted_rev x) en [] = Some (VList [VBool true; VInt 1], []).
Proof.
  exists (EName 1), (mkenv [(1%nat, VList [VBool true; VInt 1])]). split; [reflexivity|].
  intros w. split; reflexivity.
Qed.

(* ------------------------------------------------------------------------------------------- *)
(* frame lemma: an expression that never reads `_` does not depend on the binding of `_` *)

Definition agree_off (en1 en2 : env) : Prop := forall x, x <> underscore -> en1 x = en2 x.

Definition frame_at (w : world) (e : expr) : Prop :=
  reads_us e = false -> forall en1 en2, agree_off en1 en2 -> forall tr, eval w e en1 tr = eval w e en2 tr.

(* the same for the children of the wrapper nodes, which the list walkers evaluate directly *)
Definition frame_sub (w : world) (e : expr) : Prop :=
  match e with
  | EStar a | EKw _ a | EDStar a | EOp _ a => frame_at w a
  | EKV k v => frame_at w k /\ frame_at w v
  | _ => True
  end.

Definition frame_P (w : world) (e : expr) : Prop := frame_at w e /\ frame_sub w e.

Lemma agree_upd : forall en1 en2 x v, agree_off en1 en2 -> agree_off (upd en1 x v) (upd en2 x v).
Proof. intros en1 en2 x v H y Hy. unfold upd. destruct (Nat.eqb y x); [reflexivity | apply H, Hy]. Qed.

Lemma agree_bind_names : forall xs vs en1 en2, agree_off en1 en2 ->
  match bind_names xs vs en1, bind_names xs vs en2 with
  | Some a, Some b => agree_off a b
  | None, None => True
  | _, _ => False
  end.
Proof.
  induction xs as [|x xs IH]; intros [|v vs] en1 en2 H; cbn; try exact I; [assumption|].
  apply IH. apply agree_upd. assumption.
Qed.

Lemma agree_bind : forall t v en1 en2, agree_off en1 en2 ->
  match bind t v en1, bind t v en2 with
  | Some a, Some b => agree_off a b
  | None, None => True
  | _, _ => False
  end.
Proof.
  intros [x|xs] v en1 en2 H; cbn.
  - apply agree_upd. assumption.
  - destruct (items_of v); [apply agree_bind_names; assumption | exact I].
Qed.

Section Frame.
  Variable w : world.

  Lemma elts_frame : forall l, Forall (frame_P w) l -> existsb reads_us l = false ->
    forall en1 en2, agree_off en1 en2 -> forall tr,
      eval_elts (eval w) en1 l tr = eval_elts (eval w) en2 l tr.
  Proof.
    induction 1 as [|a l [Ha Hs] Hl IH]; intros Hr en1 en2 Hag tr; [reflexivity|].
    cbn in Hr. apply orb_false_iff in Hr as [Hra Hrl].
    assert (Hgen : match eval w a en1 tr with
                   | Some (v, tr1) => match eval_elts (eval w) en1 l tr1 with
                                      | Some (rest, tr2) => Some (v :: rest, tr2) | None => None end
                   | None => None end =
                   match eval w a en2 tr with
                   | Some (v, tr1) => match eval_elts (eval w) en2 l tr1 with
                                      | Some (rest, tr2) => Some (v :: rest, tr2) | None => None end
                   | None => None end).
    { rewrite (Ha Hra en1 en2 Hag tr). destruct (eval w a en2 tr) as [[v tr1]|]; [|reflexivity].
      rewrite (IH Hrl en1 en2 Hag tr1). reflexivity. }
    destruct a; try exact Hgen.
    cbn [eval_elts]. cbn [frame_sub] in Hs. cbn [reads_us] in Hra. rewrite (Hs Hra en1 en2 Hag tr).
    destruct (eval w a en2 tr) as [[v tr1]|]; [|reflexivity]. destruct (items_of v); [|reflexivity].
    rewrite (IH Hrl en1 en2 Hag tr1). reflexivity.
  Qed.

  Lemma args_frame : forall l, Forall (frame_P w) l -> existsb reads_us l = false ->
    forall en1 en2, agree_off en1 en2 -> forall tr,
      eval_args (eval w) en1 l tr = eval_args (eval w) en2 l tr.
  Proof.
    induction 1 as [|a l [Ha Hs] Hl IH]; intros Hr en1 en2 Hag tr; [reflexivity|].
    cbn in Hr. apply orb_false_iff in Hr as [Hra Hrl].
    assert (Hgen : match eval w a en1 tr with
                   | Some (v, tr1) => match eval_args (eval w) en1 l tr1 with
                                      | Some (rest, tr2) => Some ((None, v) :: rest, tr2) | None => None end
                   | None => None end =
                   match eval w a en2 tr with
                   | Some (v, tr1) => match eval_args (eval w) en2 l tr1 with
                                      | Some (rest, tr2) => Some ((None, v) :: rest, tr2) | None => None end
                   | None => None end).
    { rewrite (Ha Hra en1 en2 Hag tr). destruct (eval w a en2 tr) as [[v tr1]|]; [|reflexivity].
      rewrite (IH Hrl en1 en2 Hag tr1). reflexivity. }
    destruct a; try exact Hgen; cbn [eval_args]; cbn [frame_sub] in Hs; cbn [reads_us] in Hra;
      rewrite (Hs Hra en1 en2 Hag tr); destruct (eval w a en2 tr) as [[v tr1]|]; try reflexivity.
    - destruct (items_of v); [|reflexivity]. rewrite (IH Hrl en1 en2 Hag tr1). reflexivity.
    - rewrite (IH Hrl en1 en2 Hag tr1). reflexivity.
  Qed.

  Lemma items_frame : forall l, Forall (frame_P w) l -> existsb reads_us l = false ->
    forall en1 en2, agree_off en1 en2 -> forall d tr,
      eval_items (eval w) en1 l d tr = eval_items (eval w) en2 l d tr.
  Proof.
    induction 1 as [|a l [Ha Hs] Hl IH]; intros Hr en1 en2 Hag d tr; [reflexivity|].
    cbn in Hr. apply orb_false_iff in Hr as [Hra Hrl].
    destruct a; try reflexivity; cbn [eval_items]; cbn [frame_sub] in Hs; cbn [reads_us] in Hra.
    - apply orb_false_iff in Hra as [Hk Hv]. destruct Hs as [Fk Fv].
      rewrite (Fk Hk en1 en2 Hag tr). destruct (eval w a1 en2 tr) as [[kv tr1]|]; [|reflexivity].
      rewrite (Fv Hv en1 en2 Hag tr1). destruct (eval w a2 en2 tr1) as [[vv tr2]|]; [|reflexivity].
      destruct (hashable kv); [apply IH; assumption | reflexivity].
    - rewrite (Hs Hra en1 en2 Hag tr). destruct (eval w a en2 tr) as [[[] tr1]|]; try reflexivity.
      apply IH; assumption.
  Qed.

  Lemma chain_frame : forall l, Forall (frame_P w) l -> existsb reads_us l = false ->
    forall en1 en2, agree_off en1 en2 -> forall lv tr,
      eval_chain (eval w) w en1 l lv tr = eval_chain (eval w) w en2 l lv tr.
  Proof.
    induction 1 as [|a l [Ha Hs] Hl IH]; intros Hr en1 en2 Hag lv tr; [reflexivity|].
    cbn in Hr. apply orb_false_iff in Hr as [Hra Hrl].
    destruct a; try reflexivity. cbn [eval_chain]. cbn [frame_sub] in Hs. cbn [reads_us] in Hra.
    rewrite (Hs Hra en1 en2 Hag tr). destruct (eval w a en2 tr) as [[rv tr1]|]; [|reflexivity].
    destruct (cmp_sem w o lv rv); [|reflexivity]. destruct l; [reflexivity|].
    destruct (truthy v); [apply IH; assumption | reflexivity].
  Qed.

  Lemma conds_frame : forall l, Forall (frame_P w) l -> existsb reads_us l = false ->
    forall en1 en2, agree_off en1 en2 -> forall tr,
      eval_conds (eval w) en1 l tr = eval_conds (eval w) en2 l tr.
  Proof.
    induction 1 as [|a l [Ha Hs] Hl IH]; intros Hr en1 en2 Hag tr; [reflexivity|].
    cbn in Hr. apply orb_false_iff in Hr as [Hra Hrl]. cbn [eval_conds].
    rewrite (Ha Hra en1 en2 Hag tr). destruct (eval w a en2 tr) as [[cv tr1]|]; [|reflexivity].
    destruct (truthy cv); [apply IH; assumption | reflexivity].
  Qed.

  (* the comprehension loop under two targets / environments that agree off `_` after binding *)
  Lemma loop_frame : forall k elt dval ifs,
    frame_at w elt -> frame_at w dval -> Forall (frame_P w) ifs ->
    reads_us elt = false -> reads_us dval = false -> existsb reads_us ifs = false ->
    forall t1 t2 en1 en2 xs1 xs2,
      Forall2 (fun x1 x2 => match bind t1 x1 en1, bind t2 x2 en2 with
                            | Some a, Some b => agree_off a b
                            | None, None => True
                            | _, _ => False
                            end) xs1 xs2 ->
      forall acc dacc tr,
        comp_loop (eval w) k elt dval t1 ifs en1 xs1 acc dacc tr =
        comp_loop (eval w) k elt dval t2 ifs en2 xs2 acc dacc tr.
  Proof.
    intros k elt dval ifs Fe Fd Fi Re Rd Ri t1 t2 en1 en2 xs1 xs2 H2.
    induction H2 as [|x1 x2 xs1 xs2 Hb Hrest IH]; intros acc dacc tr; [reflexivity|].
    cbn [comp_loop]. destruct (bind t1 x1 en1) as [a|], (bind t2 x2 en2) as [b|]; try contradiction; [|reflexivity].
    rewrite (conds_frame ifs Fi Ri a b Hb tr).
    destruct (eval_conds (eval w) b ifs tr) as [[[] tr1]|]; [|apply IH|reflexivity].
    rewrite (Fe Re a b Hb tr1). destruct (eval w elt b tr1) as [[v tr2]|]; [|reflexivity].
    destruct k; try apply IH.
    rewrite (Fd Rd a b Hb tr2). destruct (eval w dval b tr2) as [[dv tr3]|]; [|reflexivity].
    destruct (hashable v); [apply IH | reflexivity].
  Qed.

  Lemma Forall2_same_bind : forall t en1 en2 xs, agree_off en1 en2 ->
    Forall2 (fun x1 x2 => match bind t x1 en1, bind t x2 en2 with
                          | Some a, Some b => agree_off a b
                          | None, None => True
                          | _, _ => False
                          end) xs xs.
  Proof. intros. induction xs; constructor; [apply agree_bind; assumption | assumption]. Qed.

  Lemma frame_all : forall e, frame_P w e.
  Proof.
    induction e using expr_ind'; split; try exact I; try (intros Hr en1 en2 Hag tr).
    - reflexivity.
    - cbn in Hr. cbn. apply Nat.eqb_neq in Hr. rewrite (Hag x Hr). reflexivity.
    - cbn [eval]. rewrite (elts_frame _ H Hr _ _ Hag). reflexivity.
    - cbn [eval]. rewrite (args_frame _ H Hr _ _ Hag). reflexivity.
    - cbn [eval]. rewrite (elts_frame _ H Hr _ _ Hag). reflexivity.
    - cbn [eval]. rewrite (items_frame _ H Hr _ _ Hag). reflexivity.
    - cbn in Hr. apply orb_false_iff in Hr as [Hl Hrest]. rewrite !eval_ECmp.
      destruct IHe as [Fe _]. rewrite (Fe Hl _ _ Hag). destruct (eval w e en2 tr) as [[lv tr0]|]; [|reflexivity].
      apply chain_frame; assumption.
    - cbn in Hr. cbn [eval]. destruct IHe as [Fe _]. rewrite (Fe Hr _ _ Hag). reflexivity.
    - cbn in Hr. apply orb_false_iff in Hr as [Hr Hifs]. apply orb_false_iff in Hr as [Hr Hit].
      apply orb_false_iff in Hr as [Helt Hdval]. rewrite !eval_EComp.
      destruct IHe1 as [F1 _], IHe2 as [F2 _], IHe3 as [F3 _].
      rewrite (F3 Hit _ _ Hag). destruct (eval w e3 en2 tr) as [[itv tr0]|]; [|reflexivity].
      destruct (items_of itv) as [xs|]; [|reflexivity].
      apply loop_frame; try assumption. apply Forall2_same_bind. assumption.
    - reflexivity.
    - destruct IHe as [Fe _]. apply Fe; assumption.
    - reflexivity.
    - destruct IHe as [Fe _]. apply Fe; assumption.
    - reflexivity.
    - destruct IHe1 as [F1 _], IHe2 as [F2 _]. split; assumption.
    - reflexivity.
    - destruct IHe as [Fe _]. apply Fe; assumption.
    - reflexivity.
    - destruct IHe as [Fe _]. apply Fe; assumption.
  Qed.
End Frame.

Lemma frame : forall w e, reads_us e = false ->
  forall en1 en2, agree_off en1 en2 -> forall tr, eval w e en1 tr = eval w e en2 tr.
Proof. intros w e. apply frame_all. Qed.

(* ------------------------------------------------------------------------------------------- *)
(* fixes.redundant_enumerate (repaired) *)

Lemma enum_bind_rel : forall x en l i,
  Forall2 (fun x1 x2 => match bind (TTup [underscore; x]) x1 en, bind (TName x) x2 en with
                        | Some a, Some b => agree_off a b
                        | None, None => True
                        | _, _ => False
                        end) (enum_from i l) l.
Proof.
  intros x en. induction l as [|y l IH]; intros i; cbn [enum_from]; constructor; [|apply IH].
  cbn. intros z Hz. unfold upd. destruct (Nat.eqb z x); [reflexivity|].
  destruct (Nat.eqb z underscore) eqn:E; [apply Nat.eqb_eq in E; contradiction | reflexivity].
Qed.

(* `for _, x in enumerate(it)` -> `for x in it` in a comprehension of a file that never reads `_`:
   same value, same calls (the hypothesis on EStar excludes a starred argument of enumerate, whose rewrite does not parse) *)
Theorem enumerate_sound : forall w e e',
  rw_enumerate e e = Some e' ->
  (match e with EComp _ _ _ _ (EBi _ [it]) _ => is_star it = false | _ => True end) ->
  forall en tr, eval w e' en tr = eval w e en tr.
Proof.
  intros w e e' Hr Hstar en tr. unfold rw_enumerate in Hr. destruct (reads_us e) eqn:Hus; [discriminate|].
  destruct e; try discriminate. destruct t as [|[|u [|x [|? ?]]]]; try discriminate.
  destruct e3; try discriminate. destruct b; try discriminate. destruct args as [|it [|? ?]]; try discriminate.
  destruct (Nat.eqb u underscore && negb (is_kw it)) eqn:E; [|discriminate]. injection Hr as <-.
  apply andb_true_iff in E as [Hu Hkw]. apply Nat.eqb_eq in Hu. subst u.
  assert (Hp : plain it = true) by (unfold plain; rewrite Hstar, Hkw; reflexivity).
  cbn [reads_us existsb] in Hus. repeat (apply orb_false_iff in Hus as [Hus ?]).
  rewrite !eval_EComp, eval_EBi, (eval_args_plain_cons _ _ _ _ _ Hp).
  destruct (eval w it en tr) as [[v tr1]|]; [|reflexivity]. cbn [eval_args fst snd split_kws bapply].
  destruct (items_of v) as [l|]; [|reflexivity]. cbn [option_map items_of].
  symmetry. apply loop_frame; try assumption; try apply frame_all.
  - clear. induction ifs; constructor; [apply frame_all | assumption].
  - apply enum_bind_rel.
Qed.

Example enumerate_example :
  rw_enumerate (EComp CList (ECall 2 [EName 2]) (EConst ANone) (TTup [0; 2]%nat) (EBi BEnumerate [EName 3]) [])
               (EComp CList (ECall 2 [EName 2]) (EConst ANone) (TTup [0; 2]%nat) (EBi BEnumerate [EName 3]) [])
  = Some (EComp CList (ECall 2 [EName 2]) (EConst ANone) (TName 2) (EName 3) []).
Proof. reflexivity. Qed.

(* ------------------------------------------------------------------------------------------- *)
(* fixes.unused_zip_args (repaired): wrong whenever the dropped argument is the shortest *)

Theorem zip_refuted :
  exists e e' en, rw_zip e e = Some e' /\
    forall w, eval w e en [] = Some (VList [], []) /\ eval w e' en [] = Some (VList [VInt 1], []).
Proof.
  exists (EComp CList (EName 2) (EConst ANone) (TTup [0; 2]%nat) (EBi BZip [EName 3; EName 4]) []),
         (EComp CList (EName 2) (EConst ANone) (TName 2) (EName 4) []),
         (mkenv [(3%nat, VList []); (4%nat, VList [VInt 1])]).
  split; [reflexivity|]. intros w; split; reflexivity.
Qed.

Definition same_len (va vb : val) : bool :=
  match items_of va, items_of vb with
  | Some la, Some lb => Nat.eqb (length la) (length lb)
  | _, _ => false
  end.

Lemma zip2_bind_rel : forall x en la lb, length la = length lb ->
  Forall2 (fun x1 x2 => match bind (TTup [underscore; x]) x1 en, bind (TName x) x2 en with
                        | Some a, Some b => agree_off a b
                        | None, None => True
                        | _, _ => False
                        end) (map VTuple (zip_cons la (map (fun y => [y]) lb))) lb.
Proof.
  intros x en. induction la as [|a la IH]; intros [|b lb] Hl; try discriminate; cbn; constructor.
  - cbn. intros z Hz. unfold upd. destruct (Nat.eqb z x); [reflexivity|].
    destruct (Nat.eqb z underscore) eqn:E; [apply Nat.eqb_eq in E; contradiction | reflexivity].
  - apply IH. cbn in Hl. lia.
Qed.

Lemma simple_eval : forall w a en tr v tr', simple a = true -> eval w a en tr = Some (v, tr') -> tr' = tr.
Proof.
  intros w a en tr v tr' Hs He. destruct a; try discriminate; cbn in He.
  - injection He as _ <-. reflexivity.
  - destruct (en x); [|discriminate]. injection He as _ <-. reflexivity.
Qed.

(* `for _, x in zip(a, b)` -> `for x in b`: right when a and b have the same number of items *)
Theorem zip2_partial : forall w k elt dval x a b ifs,
  let e := EComp k elt dval (TTup [underscore; x]) (EBi BZip [a; b]) ifs in
  let e' := EComp k elt dval (TName x) b ifs in
  reads_us e = false -> simple a = true -> plain b = true -> Nat.eqb x underscore = false ->
  rw_zip e e = Some e' /\
  forall en tr va tra vb tr1,
    eval w a en tr = Some (va, tra) -> eval w b en tr = Some (vb, tr1) -> same_len va vb = true ->
    eval w e' en tr = eval w e en tr.
Proof.
  intros w k elt dval x a b ifs e e' Hus Ha Hb Hx. split.
  - unfold rw_zip. fold e. rewrite Hus. unfold e. cbn [is_zip forallb andb zip_keep].
    assert (Hpa : plain a = true) by (destruct a; try discriminate; reflexivity).
    rewrite Hpa, Hb, Ha, Hx. cbn. reflexivity.
  - intros en tr va tra vb tr1 Eva Evb Hlen.
    assert (Hpa : plain a = true) by (destruct a; try discriminate; reflexivity).
    pose proof (simple_eval _ _ _ _ _ _ Ha Eva) as ->.
    unfold e, e'. cbn [reads_us existsb] in Hus. repeat (apply orb_false_iff in Hus as [Hus ?]).
    rewrite !eval_EComp, eval_EBi, (eval_args_plain_cons _ _ _ _ _ Hpa), Eva,
      (eval_args_plain_cons _ _ _ _ _ Hb), Evb.
    cbn [eval_args fst snd split_kws bapply all_items]. unfold same_len in Hlen.
    destruct (items_of va) as [la|]; [|discriminate]. destruct (items_of vb) as [lb|]; [|discriminate].
    cbn [option_map items_of zipn]. apply Nat.eqb_eq in Hlen.
    symmetry. apply loop_frame; try assumption; try apply frame_all.
    + clear. induction ifs; constructor; [apply frame_all | assumption].
    + apply zip2_bind_rel. assumption.
Qed.

Example zip2_partial_example :
  same_len (VList [VInt 1; VInt 2]) (VTuple [VStr 1; VNone]) = true.
Proof. reflexivity. Qed.

(* ------------------------------------------------------------------------------------------- *)
(* fixes.replace_negated_numeric_comparison *)

(* __eq__ of every opaque object answers with a bool *)
Definition bool_eq (w : world) : Prop := forall o v, exists b, eq_or w o v = VBool b.

Lemma py_eq_bool : forall w a b, bool_eq w -> exists r, py_eq w a b = VBool r.
Proof.
  intros w a b H. unfold py_eq. destruct a; destruct b; try (eexists; reflexivity); apply H.
Qed.

Lemma lt_ge : forall a b, option_map VBool (py_le b a) =
                          option_map (fun res => VBool (negb (truthy res))) (option_map VBool (py_lt a b)).
Proof.
  intros a b. unfold py_le, py_lt.
  destruct (Z.leb_spec 0 (cls a)), (Z.leb_spec 0 (cls b)), (Z.eqb_spec (cls a) (cls b)), (Z.eqb_spec (cls b) (cls a));
    cbn; try reflexivity; try lia.
  f_equal. f_equal. rewrite Z.leb_antisym. reflexivity.
Qed.

Lemma le_gt : forall a b, option_map VBool (py_lt b a) =
                          option_map (fun res => VBool (negb (truthy res))) (option_map VBool (py_le a b)).
Proof.
  intros a b. unfold py_le, py_lt.
  destruct (Z.leb_spec 0 (cls a)), (Z.leb_spec 0 (cls b)), (Z.eqb_spec (cls a) (cls b)), (Z.eqb_spec (cls b) (cls a));
    cbn; try reflexivity; try lia.
  f_equal. f_equal. rewrite Z.ltb_antisym. reflexivity.
Qed.

Lemma cmp_negate : forall w o a b, bool_eq w ->
  cmp_sem w (negate_op o) a b = option_map (fun res => VBool (negb (truthy res))) (cmp_sem w o a b).
Proof.
  intros w o a b H. destruct o; cbn [negate_op cmp_sem].
  - reflexivity.
  - cbn. destruct (py_eq_bool w a b H) as [r ->]. cbn. rewrite negb_involutive. reflexivity.
  - apply lt_ge.
  - apply le_gt.
  - apply (lt_ge b a).
  - apply (le_gt b a).
  - destruct (is_same a b); reflexivity.
  - destruct (is_same a b); cbn; [rewrite negb_involutive|]; reflexivity.
  - destruct (py_in a b); reflexivity.
  - destruct (py_in a b); cbn; [rewrite negb_involutive|]; reflexivity.
Qed.

(* `not a < 3` -> `a >= 3`, `not a == b` -> `a != b`, ... : same value (a bool), same calls, same errors *)
Theorem negated_sound : forall w e e', bool_eq w ->
  rw_negated e = Some e' -> forall en tr, eval w e' en tr = eval w e en tr.
Proof.
  intros w e e' Hw Hr en tr. destruct e; try discriminate. destruct e; try discriminate.
  destruct rest as [|it tl]; [discriminate|]. destruct it; try discriminate. destruct tl; [|discriminate].
  cbn [rw_negated] in Hr. destruct (set_like_op o || numeric_const e || numeric_const it); [|discriminate].
  injection Hr as <-. cbn [eval]. destruct (eval w e en tr) as [[lv tr0]|]; [|reflexivity].
  cbn [eval_chain]. destruct (eval w it en tr0) as [[rv tr1]|]; [|reflexivity].
  rewrite cmp_negate by assumption. destruct (cmp_sem w o lv rv); reflexivity.
Qed.

Example negated_example :
  rw_negated (ENot (ECmp (EName 1) [EOp Lt (EConst (AInt 3))])) = Some (ECmp (EName 1) [EOp GtE (EConst (AInt 3))]).
Proof. reflexivity. Qed.

(* ------------------------------------------------------------------------------------------- *)
(* comprehension loops: the non-dict kinds differ only in how the collected items are wrapped *)

Definition nondict (k : ckind) : bool := match k with CDict => false | _ => true end.

Lemma loop_nondict : forall ev k elt dval t ifs en, nondict k = true ->
  forall xs acc dacc tr,
    comp_loop ev k elt dval t ifs en xs acc dacc tr =
    match comp_loop ev CList elt dval t ifs en xs acc dacc tr with
    | Some (VList a, tr') => match finish_comp k a dacc with Some r => Some (r, tr') | None => None end
    | _ => None
    end.
Proof.
  intros ev k elt dval t ifs en Hk. induction xs as [|x xs IH]; intros acc dacc tr.
  - cbn. reflexivity.
  - cbn [comp_loop]. destruct (bind t x en) as [en'|]; [|reflexivity].
    destruct (eval_conds ev en' ifs tr) as [[[] tr1]|]; [|apply IH|reflexivity].
    destruct (ev elt en' tr1) as [[v tr2]|]; [|reflexivity].
    destruct k; try discriminate; apply IH.
Qed.

Lemma loop_list_shape : forall ev elt dval t ifs en xs acc dacc tr r tr',
  comp_loop ev CList elt dval t ifs en xs acc dacc tr = Some (r, tr') -> exists a, r = VList a.
Proof.
  intros ev elt dval t ifs en. induction xs as [|x xs IH]; intros acc dacc tr r tr' H.
  - cbn in H. injection H as <- _. eauto.
  - cbn [comp_loop] in H. destruct (bind t x en) as [en'|]; [|discriminate].
    destruct (eval_conds ev en' ifs tr) as [[[] tr1]|]; [|eapply IH; eassumption|discriminate].
    destruct (ev elt en' tr1) as [[v tr2]|]; [|discriminate]. eapply IH; eassumption.
Qed.

(* value of a non-dict comprehension in terms of the list comprehension with the same parts *)
Lemma eval_comp_nondict : forall w k elt dval t it ifs en tr, nondict k = true ->
  eval w (EComp k elt dval t it ifs) en tr =
  match eval w (EComp CList elt dval t it ifs) en tr with
  | Some (VList a, tr') => match finish_comp k a [] with Some r => Some (r, tr') | None => None end
  | _ => None
  end.
Proof.
  intros w k elt dval t it ifs en tr Hk. rewrite !eval_EComp.
  destruct (eval w it en tr) as [[itv tr0]|]; [|reflexivity].
  destruct (items_of itv) as [xs|]; [|reflexivity].
  rewrite (loop_nondict _ k) by assumption.
  destruct (comp_loop (eval w) CList elt dval t ifs en xs [] [] tr0) as [[r tr']|] eqn:E; [|reflexivity].
  destruct (loop_list_shape _ _ _ _ _ _ _ _ _ _ _ _ E) as [a ->].
  assert (Hd : forall xs acc dacc tr0 a tr', comp_loop (eval w) CList elt dval t ifs en xs acc dacc tr0 = Some (VList a, tr') -> True)
    by (intros; exact I).
  reflexivity.
Qed.

Lemma eval_bi1 : forall w b a en tr, plain a = true ->
  eval w (EBi b [a]) en tr =
  match eval w a en tr with
  | Some (v, tr1) => match bapply b [v] [] with Some r => Some (r, tr1) | None => None end
  | None => None
  end.
Proof.
  intros. rewrite eval_EBi, eval_args_plain_cons by assumption.
  destruct (eval w a en tr) as [[v tr1]|]; reflexivity.
Qed.

Lemma loop_dict_shape : forall ev elt dval t ifs en xs acc dacc tr r tr',
  comp_loop ev CDict elt dval t ifs en xs acc dacc tr = Some (r, tr') -> exists d, r = VDict d.
Proof.
  intros ev elt dval t ifs en. induction xs as [|x xs IH]; intros acc dacc tr r tr' H.
  - cbn in H. injection H as <- _. eauto.
  - cbn [comp_loop] in H. destruct (bind t x en) as [en'|]; [|discriminate].
    destruct (eval_conds ev en' ifs tr) as [[[] tr1]|]; [|eapply IH; eassumption|discriminate].
    destruct (ev elt en' tr1) as [[v tr2]|]; [|discriminate].
    destruct (ev dval en' tr2) as [[dv tr3]|]; [|discriminate].
    destruct (hashable v); [eapply IH; eassumption | discriminate].
Qed.

(* ------------------------------------------------------------------------------------------- *)
(* fixes.replace_redundant_starred: a display whose only element is a starred comprehension becomes
   list(comp) / tuple(comp) / set(comp) *)

Theorem starred_sound : forall w e e',
  rw_starred e = Some e' -> forall en tr, eval w e' en tr = eval w e en tr.
Proof.
  intros w e e' Hr en tr. destruct e; try discriminate. destruct elts as [|c [|? ?]]; try discriminate;
    cbn [rw_starred] in Hr; destruct c; try discriminate.
  - destruct c; try discriminate. destruct k0; try discriminate; injection Hr as <-;
      rewrite eval_bi1 by reflexivity; rewrite eval_ESeq; cbn [eval_elts];
      match goal with |- context [eval w ?c en tr] => destruct (eval w c en tr) as [[v tr1]|]; [|reflexivity] end;
      destruct k; cbn [bapply]; destruct (items_of v) as [vs|]; try reflexivity; cbn [option_map];
      rewrite app_nil_r; try reflexivity; destruct (mkset vs); reflexivity.
  - destruct c; discriminate.
Qed.

(* ------------------------------------------------------------------------------------------- *)
(* fixes.remove_redundant_comprehension_casts (repaired) *)

Lemma eval_comp_list_shape : forall w elt dval t it ifs en tr r tr',
  eval w (EComp CList elt dval t it ifs) en tr = Some (r, tr') -> exists a, r = VList a.
Proof.
  intros w elt dval t it ifs en tr r tr' H. rewrite eval_EComp in H.
  destruct (eval w it en tr) as [[itv tr0]|]; [|discriminate]. destruct (items_of itv) as [xs|]; [|discriminate].
  eapply loop_list_shape; eassumption.
Qed.

Ltac list_comp_cases w c1 c2 t c3 ifs en tr :=
  let r := fresh "r" in let tr1 := fresh "tr1" in let E := fresh "E" in let a := fresh "a" in
  destruct (eval w (EComp CList c1 c2 t c3 ifs) en tr) as [[r tr1]|] eqn:E;
  [destruct (eval_comp_list_shape _ _ _ _ _ _ _ _ _ _ E) as [a ->] | reflexivity].

Theorem comp_casts_sound : forall w e e',
  rw_comp_casts e = Some e' ->
  (match e with EBi BSet [EComp CDict _ _ _ _ _] => false | _ => true end) = true ->
  forall en tr, eval w e' en tr = eval w e en tr.
Proof.
  intros w e e' Hr Hg en tr. destruct e; try discriminate. destruct args as [|c [|? ?]]; try discriminate;
    destruct c; try discriminate. cbn [rw_comp_casts] in Hr.
  rewrite eval_bi1 by reflexivity.
  destruct b, k; try discriminate; injection Hr as <-.
  - (* list of a list comprehension *)
    list_comp_cases w c1 c2 t c3 ifs en tr. reflexivity.
  - (* list of a generator *) rewrite (eval_comp_nondict w CGen) by reflexivity.
    list_comp_cases w c1 c2 t c3 ifs en tr. reflexivity.
  - (* set of a list comprehension *) rewrite (eval_comp_nondict w CSet) by reflexivity.
    list_comp_cases w c1 c2 t c3 ifs en tr. cbn [bapply items_of finish_comp]. destruct (mkset a); reflexivity.
  - (* set of a set comprehension *) rewrite (eval_comp_nondict w CSet) by reflexivity.
    list_comp_cases w c1 c2 t c3 ifs en tr.
    cbn [finish_comp]. destruct (mkset a) as [s|] eqn:Es; [|reflexivity].
    assert (exists s', s = VSet s') as [s' ->].
    { unfold mkset in Es. destruct (forallb hashable a); [|discriminate]. injection Es as <-. eauto. }
    cbn [bapply items_of]. rewrite (mkset_idem _ _ Es). reflexivity.
  - (* set of a generator *) rewrite (eval_comp_nondict w CSet), (eval_comp_nondict w CGen) by reflexivity.
    list_comp_cases w c1 c2 t c3 ifs en tr. cbn [bapply items_of finish_comp]. destruct (mkset a); reflexivity.
  - (* dict of a dict comprehension *) rewrite eval_EComp.
    destruct (eval w c3 en tr) as [[itv tr0]|]; [|reflexivity]. destruct (items_of itv) as [xs|]; [|reflexivity].
    destruct (comp_loop (eval w) CDict c1 c2 t ifs en xs [] [] tr0) as [[r tr1]|] eqn:E; [|reflexivity].
    destruct (loop_dict_shape _ _ _ _ _ _ _ _ _ _ _ _ E) as [d ->]. reflexivity.
  - (* iter of a generator *) rewrite (eval_comp_nondict w CGen) by reflexivity.
    list_comp_cases w c1 c2 t c3 ifs en tr. reflexivity.
Qed.

Example comp_casts_example :
  rw_comp_casts (EBi BSet [EComp CGen (ECall 2 [EName 2]) (EConst ANone) (TName 2) (EName 3) [EName 2]])
  = Some (EComp CSet (ECall 2 [EName 2]) (EConst ANone) (TName 2) (EName 3) [EName 2]).
Proof. reflexivity. Qed.

(* ------------------------------------------------------------------------------------------- *)
(* fixes.replace_functions_with_literals *)

Lemma mkset_shape : forall l s, mkset l = Some s -> exists s', s = VSet s'.
Proof. intros l s H. unfold mkset in H. destruct (forallb hashable l); [|discriminate]. injection H as <-. eauto. Qed.

Theorem literals_sound : forall w e e',
  rw_literals e = Some e' -> forall en tr, eval w e' en tr = eval w e en tr.
Proof.
  intros w e e' Hr en tr. destruct e; try discriminate.
  destruct args as [|c [|? ?]].
  - destruct b; try discriminate; injection Hr as <-; reflexivity.
  - assert (Hp : is_display c = true \/ (exists k a b t i f, c = EComp k a b t i f) -> plain c = true).
    { intros [H | (k & a & b' & t & i & f & ->)]; [destruct c; try discriminate|]; reflexivity. }
    destruct b, c; try discriminate; cbn [rw_literals] in Hr.
    + (* list(display) *) destruct k; try discriminate; injection Hr as <-; rewrite eval_bi1 by reflexivity;
        rewrite !eval_ESeq; destruct (eval_elts (eval w) en elts tr) as [[vs tr1]|]; reflexivity.
    + (* list(comprehension) *) destruct k; try discriminate. injection Hr as <-. rewrite eval_bi1 by reflexivity.
      list_comp_cases w c1 c2 t c3 ifs en tr. reflexivity.
    + (* tuple(display) *) destruct k; try discriminate; injection Hr as <-; rewrite eval_bi1 by reflexivity;
        rewrite !eval_ESeq; destruct (eval_elts (eval w) en elts tr) as [[vs tr1]|]; reflexivity.
    + (* set(display) *) destruct k; try discriminate; injection Hr as <-; rewrite eval_bi1 by reflexivity;
        rewrite !eval_ESeq; destruct (eval_elts (eval w) en elts tr) as [[vs tr1]|]; try reflexivity;
        cbn [bapply items_of]; destruct (mkset vs) as [s|] eqn:Es; try reflexivity.
      destruct (mkset_shape _ _ Es) as [s' ->]. cbn [bapply items_of]. rewrite (mkset_idem _ _ Es). reflexivity.
    + (* set(comprehension) *) destruct k; try discriminate; injection Hr as <-; rewrite eval_bi1 by reflexivity.
      * rewrite (eval_comp_nondict w CSet) by reflexivity. list_comp_cases w c1 c2 t c3 ifs en tr.
        cbn [finish_comp]. destruct (mkset a) as [s|] eqn:Es; [|reflexivity].
        destruct (mkset_shape _ _ Es) as [s' ->]. cbn [bapply items_of]. rewrite (mkset_idem _ _ Es). reflexivity.
      * rewrite (eval_comp_nondict w CSet), (eval_comp_nondict w CGen) by reflexivity.
        list_comp_cases w c1 c2 t c3 ifs en tr. cbn [bapply items_of finish_comp]. destruct (mkset a); reflexivity.
    + (* iter(generator) *) destruct k; try discriminate. injection Hr as <-. rewrite eval_bi1 by reflexivity.
      rewrite (eval_comp_nondict w CGen) by reflexivity. list_comp_cases w c1 c2 t c3 ifs en tr. reflexivity.
  - destruct b; discriminate.
Qed.

Example literals_example :
  rw_literals (EBi BSet [ESeq KList [EConst (AInt 1); ECall 0 []]]) = Some (ESeq KSet [EConst (AInt 1); ECall 0 []]).
Proof. reflexivity. Qed.

(* ------------------------------------------------------------------------------------------- *)
(* fixes.remove_redundant_chain_casts (repaired) *)

Lemma chain_stars : forall w en args tr vals tr' ls,
  forallb plain args = true ->
  eval_args (eval w) en args tr = Some (vals, tr') ->
  all_items (fst (split_kws vals)) = Some ls ->
  snd (split_kws vals) = [] /\ eval_elts (eval w) en (map EStar args) tr = Some (concat ls, tr').
Proof.
  intros w en. induction args as [|a args IH]; intros tr vals tr' ls Hp He Hi.
  - injection He as <- <-. cbn in Hi. injection Hi as <-. split; reflexivity.
  - cbn in Hp. apply andb_true_iff in Hp as [Hpa Hp]. rewrite eval_args_plain_cons in He by assumption.
    cbn [map eval_elts]. destruct (eval w a en tr) as [[v tr1]|]; [|discriminate].
    destruct (eval_args (eval w) en args tr1) as [[rest tr2]|] eqn:Er; [|discriminate]. injection He as <- <-.
    cbn [split_kws] in *. destruct (split_kws rest) as [pos kwl] eqn:Es. cbn [fst snd all_items] in *.
    destruct (items_of v) as [l|]; [|discriminate]. destruct (all_items pos) as [ls'|] eqn:Ea; [|discriminate].
    injection Hi as <-. destruct (IH tr1 rest tr2 ls' Hp Er) as [Hk Hs]; [rewrite Es; exact Ea|].
    rewrite Es in Hk. cbn in Hk. rewrite Hs. split; [assumption | reflexivity].
Qed.

Theorem chain_casts_sound : forall w e e',
  rw_chain_casts e = Some e' ->
  forall en tr r, eval w e en tr = Some r -> eval w e' en tr = Some r.
Proof.
  intros w e e' Hr en tr r Hev. destruct e; try discriminate. destruct args as [|c tl]; [discriminate|].
  destruct c; try discriminate. destruct b0; try discriminate. destruct tl; [|discriminate].
  cbn [rw_chain_casts] in Hr.
  destruct (forallb plain args) eqn:Hp; [|discriminate].
  rewrite eval_bi1 in Hev by reflexivity. rewrite eval_EBi in Hev.
  destruct (eval_args (eval w) en args tr) as [[vals tr1]|] eqn:Ea; [|discriminate].
  destruct (snd (split_kws vals)) eqn:Ek;
    [|destruct (fst (split_kws vals)); cbn in Hev; discriminate].
  assert (Hch : bapply BChain (fst (split_kws vals)) [] =
                option_map (fun ls => VIter (concat ls)) (all_items (fst (split_kws vals))))
    by (destruct (fst (split_kws vals)); reflexivity).
  rewrite Hch in Hev. destruct (all_items (fst (split_kws vals))) as [ls|] eqn:Ei; [|discriminate].
  cbn [option_map] in Hev. destruct (chain_stars _ _ _ _ _ _ _ Hp Ea Ei) as [_ Hs].
  destruct b, args as [|a0 args']; try discriminate; injection Hr as <-;
    try change (EStar a0 :: map EStar args') with (map EStar (a0 :: args')).
  - (* list(chain()) *) cbn in *. injection Ea as <- <-. cbn in *. injection Ei as <-. cbn in Hev. exact Hev.
  - rewrite eval_ESeq, Hs. cbn [bapply items_of option_map] in Hev. exact Hev.
  - cbn in *. injection Ea as <- <-. cbn in *. injection Ei as <-. cbn in Hev. exact Hev.
  - rewrite eval_ESeq, Hs. cbn [bapply items_of option_map] in Hev. exact Hev.
  - (* set(chain()) *) cbn in *. injection Ea as <- <-. cbn in *. injection Ei as <-. cbn in Hev. exact Hev.
  - rewrite eval_ESeq, Hs. cbn [bapply items_of] in Hev. destruct (mkset (concat ls)); [exact Hev | discriminate].
  - (* iter(chain()) *) cbn in *. injection Ea as <- <-. cbn in *. injection Ei as <-. cbn in Hev. exact Hev.
  - (* iter(chain(a, ..)) -> chain(a, ..) *)
    rewrite eval_EBi, Ea, Ek, Hch. cbn [option_map bapply items_of] in *. exact Hev.
Qed.

(* ------------------------------------------------------------------------------------------- *)
(* dicts *)

Definition dict_has (d : list (val * val)) (k : val) : bool := existsb (fun kv => key_eqb (fst kv) k) d.

Lemma key_eqb_congr_r : forall a b c, key_eqb a b = true -> key_eqb c a = key_eqb c b.
Proof. intros. rewrite (key_eqb_sym c a), (key_eqb_sym c b). apply key_eqb_congr_l. assumption. Qed.

Ltac dsimpl := cbn [dict_set dict_has existsb fst snd orb] in *.

Lemma dict_has_set : forall d k v, dict_has (dict_set d k v) k = true.
Proof.
  induction d as [|[k' v'] d IH]; intros k v; dsimpl.
  - rewrite key_eqb_refl. reflexivity.
  - destruct (key_eqb k' k) eqn:E; dsimpl; rewrite E; [reflexivity|]. cbn [orb]. apply IH.
Qed.

Lemma dict_has_mono : forall d k k' v', dict_has d k = true -> dict_has (dict_set d k' v') k = true.
Proof.
  induction d as [|[k0 v0] d IH]; intros k k' v' H; [discriminate|]. dsimpl.
  destruct (key_eqb k0 k') eqn:E; dsimpl.
  - assumption.
  - destruct (key_eqb k0 k); [reflexivity|]. cbn [orb] in *. apply IH. assumption.
Qed.

Lemma dict_set_same_slot : forall d k1 k v,
  key_eqb k1 k = true -> dict_has d k = true -> dict_set d k1 v = dict_set d k v.
Proof.
  induction d as [|[k0 v0] d IH]; intros k1 k v He Hh; [discriminate|]. dsimpl.
  rewrite (key_eqb_congr_r k1 k k0 He). destruct (key_eqb k0 k); [reflexivity|]. cbn [orb] in Hh.
  f_equal. apply IH; assumption.
Qed.

Lemma dict_set_overwrite : forall d k x k1 v1,
  key_eqb k k1 = true -> dict_set (dict_set d k x) k1 v1 = dict_set d k v1.
Proof.
  induction d as [|[k0 v0] d IH]; intros k x k1 v1 He; dsimpl.
  - rewrite He. reflexivity.
  - destruct (key_eqb k0 k) eqn:E; dsimpl.
    + rewrite (key_eqb_trans _ _ _ E He). reflexivity.
    + rewrite <- (key_eqb_congr_r k k1 k0 He), E. f_equal. apply IH. assumption.
Qed.

Lemma dict_set_comm : forall d k x k1 v1,
  dict_has d k = true -> key_eqb k k1 = false ->
  dict_set (dict_set d k x) k1 v1 = dict_set (dict_set d k1 v1) k x.
Proof.
  induction d as [|[k0 v0] d IH]; intros k x k1 v1 Hh Hne; [discriminate|]. dsimpl.
  destruct (key_eqb k0 k) eqn:E; dsimpl.
  - assert (E1 : key_eqb k0 k1 = false).
    { destruct (key_eqb k0 k1) eqn:E1; [|reflexivity].
      rewrite key_eqb_sym in E. rewrite (key_eqb_trans _ _ _ E E1) in Hne. discriminate. }
    rewrite E1. dsimpl. rewrite E. reflexivity.
  - cbn [orb] in Hh. destruct (key_eqb k0 k1) eqn:E1; dsimpl; rewrite E.
    + reflexivity.
    + f_equal. apply IH; assumption.
Qed.

Fixpoint lastv (k : val) (ps : list (val * val)) : option val :=
  match ps with
  | [] => None
  | (k1, v1) :: tl => match lastv k tl with
                      | Some x => Some x
                      | None => if key_eqb k1 k then Some v1 else None
                      end
  end.

Definition filt (k : val) (ps : list (val * val)) : list (val * val) :=
  filter (fun kv => negb (key_eqb (fst kv) k)) ps.

(* writing a sequence of pairs into a dict that already has key k: the writes to k can be replaced
   by one write of the last value, done first *)
Lemma dict_update_hoist : forall k ps E, dict_has E k = true ->
  dict_update E ps = dict_update (match lastv k ps with Some x => dict_set E k x | None => E end) (filt k ps).
Proof.
  intros k. induction ps as [|[k1 v1] ps IH]; intros E Hh; [reflexivity|].
  unfold dict_update in *. cbn [fold_left fst snd lastv filt filter].
  destruct (key_eqb k1 k) eqn:E1; cbn [negb].
  - rewrite (IH (dict_set E k1 v1)) by (apply dict_has_mono; assumption).
    rewrite (dict_set_same_slot E k1 k v1 E1 Hh).
    destruct (lastv k ps) as [x|]; [|reflexivity].
    rewrite dict_set_overwrite by apply key_eqb_refl. reflexivity.
  - rewrite (IH (dict_set E k1 v1)) by (apply dict_has_mono; assumption). cbn [fold_left fst snd].
    destruct (lastv k ps) as [x|]; [|reflexivity].
    rewrite (dict_set_comm E k x k1 v1); [reflexivity | assumption | rewrite key_eqb_sym; assumption].
Qed.

(* ------------------------------------------------------------------------------------------- *)
(* fixes.remove_duplicate_dict_keys (repaired) *)

Definition atomval (e : expr) (en : env) : option val :=
  match e with
  | EConst a => Some (val_of_atom a)
  | EName x => en x
  | _ => None
  end.

Lemma simple_eval_eq : forall w e en tr, simple e = true ->
  eval w e en tr = match atomval e en with Some v => Some (v, tr) | None => None end.
Proof. intros w e en tr H. destruct e; try discriminate; reflexivity. Qed.

(* the (key, value) pairs written by a segment of constant-keyed entries with effect-free values *)
Fixpoint resolve (en : env) (seg : list expr) : option (list (val * val)) :=
  match seg with
  | [] => Some []
  | EKV (EConst a) v :: tl =>
      match atomval v en, resolve en tl with
      | Some x, Some ps => Some ((val_of_atom a, x) :: ps)
      | _, _ => None
      end
  | _ :: _ => None
  end.

Lemma eval_seg : forall w en seg rest d tr, forallb seg_item_ok seg = true ->
  eval_items (eval w) en (seg ++ rest) d tr =
  match resolve en seg with
  | Some ps => eval_items (eval w) en rest (dict_update d ps) tr
  | None => None
  end.
Proof.
  intros w en. induction seg as [|it seg IH]; intros rest d tr Hok; [reflexivity|].
  cbn [forallb] in Hok. apply andb_true_iff in Hok as [Hit Hok].
  destruct it; try discriminate. destruct it1; try discriminate. cbn [seg_item_ok] in Hit.
  cbn [app eval_items resolve eval]. rewrite (simple_eval_eq _ _ _ _ Hit).
  destruct (atomval it2 en) as [x|]; [|reflexivity]. rewrite hashable_atom, IH by assumption.
  destruct (resolve en seg); reflexivity.
Qed.

Lemma last_seg_none : forall a l, last_seg a l = None -> remove_key a l = l.
Proof.
  intros a. induction l as [|it l IH]; intros H; [reflexivity|]. cbn [last_seg] in H.
  destruct (last_seg a l) as [[seg vl]|]; [discriminate|]. unfold remove_key in *. cbn [filter].
  rewrite IH by reflexivity.
  destruct it; try reflexivity. destruct it1; try reflexivity. cbn [is_key_of].
  destruct (atom_eqb a0 a); [discriminate | reflexivity].
Qed.

Lemma last_seg_spec : forall a l seg vl, last_seg a l = Some (seg, vl) ->
  exists rest, l = seg ++ rest /\ remove_key a rest = rest /\
    forall en ps, resolve en seg = Some ps ->
      exists x, atomval vl en = Some x /\ lastv (val_of_atom a) ps = Some x.
Proof.
  intros a. induction l as [|it l IH]; intros seg vl H; [discriminate|]. cbn [last_seg] in H.
  destruct (last_seg a l) as [[seg' vl']|] eqn:El.
  - injection H as <- <-. destruct (IH _ _ eq_refl) as (rest & -> & Hrest & Hlast).
    exists rest. split; [reflexivity|]. split; [assumption|].
    intros en ps Hps. cbn [resolve] in Hps. destruct it; try discriminate. destruct it1; try discriminate.
    destruct (atomval it2 en) as [x0|]; [|discriminate]. destruct (resolve en seg') as [ps'|] eqn:Eps'; [|discriminate].
    injection Hps as <-. destruct (Hlast en ps' Eps') as (x & Hx & Hl). exists x. split; [assumption|].
    cbn [lastv]. rewrite Hl. reflexivity.
  - destruct it; try discriminate. destruct it1; try discriminate.
    destruct (atom_eqb a0 a) eqn:Ea; [|discriminate]. injection H as <- <-.
    exists l. split; [reflexivity|]. split; [apply last_seg_none; assumption|].
    intros en ps Hps. cbn [resolve] in Hps. destruct (atomval it2 en) as [x0|]; [|discriminate].
    injection Hps as <-. exists x0. split; [reflexivity|]. cbn [lastv].
    rewrite <- atom_eqb_key, Ea. reflexivity.
Qed.

Lemma resolve_remove : forall a en seg ps, resolve en seg = Some ps ->
  resolve en (remove_key a seg) = Some (filt (val_of_atom a) ps).
Proof.
  intros a en. induction seg as [|it seg IH]; intros ps H.
  - injection H as <-. reflexivity.
  - cbn [resolve] in H. destruct it; try discriminate. destruct it1; try discriminate.
    destruct (atomval it2 en) as [x0|] eqn:Ex; [|discriminate]. destruct (resolve en seg) as [ps'|] eqn:Eps'; [|discriminate].
    injection H as <-. specialize (IH _ eq_refl). unfold remove_key, filt in *. cbn [filter is_key_of fst].
    rewrite <- atom_eqb_key. destruct (atom_eqb a0 a); cbn [negb].
    + apply IH.
    + cbn [resolve]. rewrite Ex, IH. reflexivity.
Qed.

Lemma remove_key_app : forall a l1 l2, remove_key a (l1 ++ l2) = remove_key a l1 ++ remove_key a l2.
Proof. intros. unfold remove_key. apply filter_app. Qed.

Lemma seg_ok_remove : forall a seg, forallb seg_item_ok seg = true -> forallb seg_item_ok (remove_key a seg) = true.
Proof.
  intros a seg H. rewrite forallb_forall in *. intros x Hx. unfold remove_key in Hx.
  apply filter_In in Hx as [Hx _]. apply H. assumption.
Qed.

Lemma last_seg_simple : forall a l seg vl,
  last_seg a l = Some (seg, vl) -> forallb seg_item_ok seg = true -> simple vl = true.
Proof.
  intros a. induction l as [|it l IH]; intros seg vl Hls Hseg; [discriminate|].
  cbn [last_seg] in Hls. destruct (last_seg a l) as [[seg' vl']|] eqn:E.
  - injection Hls as <- <-. cbn in Hseg. apply andb_true_iff in Hseg as [_ Hseg]. eapply IH; [reflexivity|assumption].
  - destruct it; try discriminate. destruct it1; try discriminate. destruct (atom_eqb a0 a); [|discriminate].
    injection Hls as <- <-. cbn in Hseg. apply andb_true_iff in Hseg as [Hs _]. exact Hs.
Qed.

(* one group: the first entry gets the last value, the later entries with an equal key are removed *)
Lemma dup_dict_step : forall w en a v tl seg vl d tr r,
  last_seg a tl = Some (seg, vl) -> simple v = true -> forallb seg_item_ok seg = true ->
  eval_items (eval w) en (EKV (EConst a) v :: tl) d tr = Some r ->
  eval_items (eval w) en (EKV (EConst a) vl :: remove_key a tl) d tr = Some r.
Proof.
  intros w en a v tl seg vl d tr r Hls Hv Hseg Hev.
  pose proof (last_seg_simple _ _ _ _ Hls Hseg) as Hvl.
  destruct (last_seg_spec _ _ _ _ Hls) as (rest & -> & Hrest & Hlast).
  cbn [eval_items eval] in *. rewrite (simple_eval_eq _ _ _ _ Hv) in Hev.
  destruct (atomval v en) as [x0|]; [|discriminate]. rewrite hashable_atom in *.
  rewrite eval_seg in Hev by assumption. destruct (resolve en seg) as [ps|] eqn:Eps; [|discriminate].
  destruct (Hlast en ps Eps) as (xl & Hxl & Hl).
  rewrite (simple_eval_eq _ _ _ _ Hvl), Hxl. rewrite remove_key_app, Hrest.
  rewrite eval_seg by (apply seg_ok_remove; assumption). rewrite (resolve_remove _ _ _ _ Eps).
  rewrite (dict_update_hoist (val_of_atom a) ps) in Hev by apply dict_has_set.
  rewrite Hl in Hev. rewrite dict_set_overwrite in Hev by apply key_eqb_refl. exact Hev.
Qed.

Lemma items_cons_congr : forall w en it l l' d tr r,
  (forall d' tr', eval_items (eval w) en l d' tr' = Some r -> eval_items (eval w) en l' d' tr' = Some r) ->
  eval_items (eval w) en (it :: l) d tr = Some r -> eval_items (eval w) en (it :: l') d tr = Some r.
Proof.
  intros w en it l l' d tr r H Hev. destruct it; try discriminate; cbn [eval_items] in *.
  - destruct (eval w it1 en tr) as [[kv tr1]|]; [|discriminate].
    destruct (eval w it2 en tr1) as [[vv tr2]|]; [|discriminate].
    destruct (hashable kv); [apply H; assumption | discriminate].
  - destruct (eval w it en tr) as [[[] tr1]|]; try discriminate. apply H; assumption.
Qed.

Lemma dup_dict_items_sound : forall w en fuel seen items d tr r,
  eval_items (eval w) en items d tr = Some r ->
  eval_items (eval w) en (dedup_dict_items fuel seen items) d tr = Some r.
Proof.
  intros w en. induction fuel as [|fuel IH]; intros seen items d tr r Hev; [exact Hev|].
  destruct items as [|it tl]; [exact Hev|]. cbn [dedup_dict_items].
  assert (Hkeep : forall seen', eval_items (eval w) en (it :: dedup_dict_items fuel seen' tl) d tr = Some r).
  { intros seen'. eapply items_cons_congr; [|exact Hev]. intros d' tr' H. apply IH. assumption. }
  destruct it; try apply Hkeep. destruct it1; try apply Hkeep.
  destruct (existsb (atom_eqb a) seen); [apply Hkeep|].
  destruct (last_seg a tl) as [[seg vl]|] eqn:Els; [|apply Hkeep].
  destruct (simple it2 && forallb seg_item_ok seg) eqn:Eok; [|apply Hkeep].
  apply andb_true_iff in Eok as [Hv Hseg].
  eapply items_cons_congr; [|eapply dup_dict_step; eassumption].
  intros d' tr' H. apply IH. assumption.
Qed.

(* {k: v1, ..., k: vn} -> {k: vn, ...}: the first key (object and position) with the last value; only when
   the keys in between are constants and the values have no effect.  A normally terminating evaluation
   keeps its value (a dict with the same keys, order and values) and its call trace. *)
Theorem dup_dict_sound : forall w e e',
  rw_dup_dict e = Some e' ->
  forall en tr r, eval w e en tr = Some r -> eval w e' en tr = Some r.
Proof.
  intros w e e' Hr en tr r Hev. destruct e; try discriminate. cbn [rw_dup_dict] in Hr.
  destruct (length (dedup_dict_items (length items) [] items) <? length items)%nat; [|discriminate].
  injection Hr as <-. rewrite eval_EDict in *.
  destruct (eval_items (eval w) en items [] tr) as [[d tr1]|] eqn:E; [|discriminate].
  rewrite (dup_dict_items_sound _ _ _ _ _ _ _ _ E). exact Hev.
Qed.

Example dup_dict_example :
  rw_dup_dict (EDict [EKV (EConst (AInt 1)) (EConst (AStr 1)); EKV (EConst (AInt 2)) (ECall 0 []);
                      EKV (EConst (AInt 3)) (EName 2); EKV (EConst (AStr 2)) (EConst ANone);
                      EKV (EConst (AInt 3)) (EConst (AInt 5)); EKV (EConst (ABool true)) (ECall 0 [])])
  = Some (EDict [EKV (EConst (AInt 1)) (EConst (AStr 1)); EKV (EConst (AInt 2)) (ECall 0 []);
                 EKV (EConst (AInt 3)) (EConst (AInt 5)); EKV (EConst (AStr 2)) (EConst ANone);
                 EKV (EConst (ABool true)) (ECall 0 [])]).
Proof. reflexivity. Qed.

(* ------------------------------------------------------------------------------------------- *)
(* fixes.simplify_dict_unpacks *)

Fixpoint wfd (d : list (val * val)) : Prop :=
  match d with
  | [] => True
  | (k, _) :: tl => dict_has tl k = false /\ wfd tl
  end.

Lemma dict_has_congr : forall d a b, key_eqb a b = true -> dict_has d a = dict_has d b.
Proof.
  induction d as [|[k0 v0] d IH]; intros a b H; [reflexivity|]. cbn [dict_has existsb fst].
  fold (dict_has d a). fold (dict_has d b). rewrite (IH a b H), (key_eqb_congr_r a b k0 H). reflexivity.
Qed.

Lemma dict_has_set_other : forall d k v k0, key_eqb k k0 = false ->
  dict_has (dict_set d k v) k0 = dict_has d k0.
Proof.
  induction d as [|[k1 v1] d IH]; intros k v k0 H; cbn [dict_set dict_has existsb fst].
  - rewrite H. reflexivity.
  - destruct (key_eqb k1 k) eqn:E; cbn [dict_has existsb fst]; [reflexivity|].
    fold (dict_has (dict_set d k v) k0). fold (dict_has d k0). rewrite IH by assumption. reflexivity.
Qed.

Lemma wfd_set : forall d k v, wfd d -> wfd (dict_set d k v).
Proof.
  induction d as [|[k1 v1] d IH]; intros k v H; cbn [dict_set].
  - cbn. split; [reflexivity | exact I].
  - destruct H as [H1 H2]. destruct (key_eqb k1 k) eqn:E; cbn [wfd].
    + split; assumption.
    + split; [|apply IH; assumption]. rewrite dict_has_set_other; [assumption|].
      rewrite key_eqb_sym. assumption.
Qed.

Lemma wfd_update : forall ps d, wfd d -> wfd (dict_update d ps).
Proof.
  induction ps as [|[k v] ps IH]; intros d H; [assumption|]. unfold dict_update in *. cbn. apply IH, wfd_set, H.
Qed.

(* a write to a present key commutes with writes to other keys *)
Lemma update_comm : forall tl E k v, dict_has E k = true ->
  forallb (fun kv => negb (key_eqb k (fst kv))) tl = true ->
  dict_set (dict_update E tl) k v = dict_update (dict_set E k v) tl.
Proof.
  induction tl as [|[k1 v1] tl IH]; intros E k v Hh Hne; [reflexivity|].
  cbn [forallb fst] in Hne. apply andb_true_iff in Hne as [H1 Hne]. apply negb_true_iff in H1.
  unfold dict_update in *. cbn [fold_left fst snd].
  rewrite IH by (try apply dict_has_mono; assumption).
  rewrite (dict_set_comm E k v k1 v1) by assumption. reflexivity.
Qed.

Lemma wfd_tail_ne : forall tl k0, dict_has tl k0 = false ->
  forallb (fun kv => negb (key_eqb k0 (fst kv))) tl = true.
Proof.
  induction tl as [|[k1 v1] tl IH]; intros k0 H; [reflexivity|]. cbn [dict_has existsb fst] in H.
  apply orb_false_iff in H as [H1 H2]. cbn [forallb fst]. rewrite key_eqb_sym, H1. cbn. apply IH. exact H2.
Qed.

(* merging a well-formed dict after one more write = merging, then writing *)
Lemma update_set : forall acc d k v, wfd acc ->
  dict_update d (dict_set acc k v) = dict_set (dict_update d acc) k v.
Proof.
  induction acc as [|[k0 v0] acc IH]; intros d k v Hwf; [reflexivity|].
  destruct Hwf as [Hno Hwf]. cbn [dict_set].
  destruct (key_eqb k0 k) eqn:E.
  - unfold dict_update. cbn [fold_left fst snd]. fold (dict_update (dict_set d k0 v) acc).
    fold (dict_update (dict_set d k0 v0) acc).
    rewrite (update_comm acc (dict_set d k0 v0) k v).
    + rewrite <- (dict_set_same_slot (dict_set d k0 v0) k0 k v E) by (rewrite <- (dict_has_congr _ k0 k E); apply dict_has_set).
      rewrite dict_set_overwrite by apply key_eqb_refl. reflexivity.
    + rewrite <- (dict_has_congr _ k0 k E). apply dict_has_set.
    + rewrite (dict_has_congr acc k0 k E) in Hno. apply wfd_tail_ne. assumption.
  - unfold dict_update. cbn [fold_left fst snd]. apply IH. assumption.
Qed.

Lemma update_update : forall d'' d d0, wfd d0 ->
  dict_update d (dict_update d0 d'') = dict_update (dict_update d d0) d''.
Proof.
  induction d'' as [|[k v] d'' IH]; intros d d0 Hwf; [reflexivity|].
  unfold dict_update at 2 4. cbn [fold_left fst snd].
  fold (dict_update (dict_set d0 k v) d''). fold (dict_update (dict_set (dict_update d d0) k v) d'').
  rewrite IH by (apply wfd_set; assumption). rewrite update_set by assumption. reflexivity.
Qed.

(* building a display onto d  =  building it onto d0 and merging the result into d *)
Lemma build_merge : forall w en inner d d0 tr dA tr1, wfd d0 ->
  eval_items (eval w) en inner d0 tr = Some (dA, tr1) ->
  eval_items (eval w) en inner (dict_update d d0) tr = Some (dict_update d dA, tr1).
Proof.
  intros w en. induction inner as [|it inner IH]; intros d d0 tr dA tr1 Hwf Hev.
  - injection Hev as <- <-. reflexivity.
  - destruct it; try discriminate; cbn [eval_items] in *.
    + destruct (eval w it1 en tr) as [[kv tr2]|]; [|discriminate].
      destruct (eval w it2 en tr2) as [[vv tr3]|]; [|discriminate].
      destruct (hashable kv); [|discriminate]. rewrite <- update_set by assumption.
      apply IH; [apply wfd_set; assumption | assumption].
    + destruct (eval w it en tr) as [[[] tr2]|]; try discriminate.
      rewrite <- update_update by assumption. apply IH; [apply wfd_update; assumption | assumption].
Qed.

Lemma eval_items_app : forall w en l1 l2 d tr,
  eval_items (eval w) en (l1 ++ l2) d tr =
  match eval_items (eval w) en l1 d tr with
  | Some (d1, tr1) => eval_items (eval w) en l2 d1 tr1
  | None => None
  end.
Proof.
  intros w en. induction l1 as [|it l1 IH]; intros l2 d tr; [reflexivity|].
  destruct it; try reflexivity; cbn [app eval_items].
  - destruct (eval w it1 en tr) as [[kv tr2]|]; [|reflexivity].
    destruct (eval w it2 en tr2) as [[vv tr3]|]; [|reflexivity]. destruct (hashable kv); [apply IH | reflexivity].
  - destruct (eval w it en tr) as [[[] tr2]|]; try reflexivity. apply IH.
Qed.

Lemma dict_unpacks_items : forall w en items d tr r,
  eval_items (eval w) en items d tr = Some r ->
  eval_items (eval w) en (fst (unpack_items items)) d tr = Some r.
Proof.
  intros w en. induction items as [|it items IH]; intros d tr r Hev; [exact Hev|].
  cbn [unpack_items]. destruct (unpack_items items) as [r0 ch] eqn:Eu. cbn [fst] in IH.
  assert (Hkeep : eval_items (eval w) en (it :: r0) d tr = Some r).
  { eapply items_cons_congr; [|exact Hev]. intros d' tr' H. apply IH. assumption. }
  destruct it; try exact Hkeep. destruct it; try exact Hkeep. cbn [fst].
  cbn [eval_items] in Hev. rewrite eval_EDict in Hev.
  destruct (eval_items (eval w) en items0 [] tr) as [[d' tr1]|] eqn:Ei; [|discriminate].
  rewrite eval_items_app. pose proof (build_merge w en items0 d [] tr d' tr1 I Ei) as Hb.
  change (dict_update d []) with d in Hb. rewrite Hb. apply IH. exact Hev.
Qed.

(* {**{k: v, ...}, ...} -> {k: v, ..., ...} *)
Theorem dict_unpacks_sound : forall w e e',
  rw_dict_unpacks e = Some e' ->
  forall en tr r, eval w e en tr = Some r -> eval w e' en tr = Some r.
Proof.
  intros w e e' Hr en tr r Hev. destruct e; try discriminate. cbn [rw_dict_unpacks] in Hr.
  destruct (unpack_items items) as [r0 ch] eqn:Eu. destruct ch; [|discriminate]. injection Hr as <-.
  rewrite eval_EDict in *. destruct (eval_items (eval w) en items [] tr) as [[d tr1]|] eqn:E; [|discriminate].
  pose proof (dict_unpacks_items _ _ _ _ _ _ E) as H. rewrite Eu in H. cbn [fst] in H. rewrite H. exact Hev.
Qed.

(* ------------------------------------------------------------------------------------------- *)
(* fixes.simplify_collection_unpacks (repaired) *)

Lemma eval_elts_app : forall w en l1 l2 tr,
  eval_elts (eval w) en (l1 ++ l2) tr =
  match eval_elts (eval w) en l1 tr with
  | Some (v1, tr1) => match eval_elts (eval w) en l2 tr1 with
                      | Some (v2, tr2) => Some (v1 ++ v2, tr2)
                      | None => None
                      end
  | None => None
  end.
Proof.
  intros w en. induction l1 as [|a l1 IH]; intros l2 tr.
  - cbn. destruct (eval_elts (eval w) en l2 tr) as [[v2 tr2]|]; reflexivity.
  - assert (Hgen : forall (f : val -> list val),
      match eval w a en tr with
      | Some (v, tr1) => match eval_elts (eval w) en (l1 ++ l2) tr1 with
                         | Some (rest, tr2) => Some (f v ++ rest, tr2) | None => None end
      | None => None end =
      match (match eval w a en tr with
             | Some (v, tr1) => match eval_elts (eval w) en l1 tr1 with
                                | Some (rest, tr2) => Some (f v ++ rest, tr2) | None => None end
             | None => None end) with
      | Some (v1, tr1) => match eval_elts (eval w) en l2 tr1 with
                          | Some (v2, tr2) => Some (v1 ++ v2, tr2) | None => None end
      | None => None end).
    { intros f. destruct (eval w a en tr) as [[v tr1]|]; [|reflexivity]. rewrite IH.
      destruct (eval_elts (eval w) en l1 tr1) as [[r1 t1]|]; [|reflexivity].
      destruct (eval_elts (eval w) en l2 t1) as [[r2 t2]|]; [|reflexivity]. rewrite app_assoc. reflexivity. }
    destruct a; try exact (Hgen (fun v => [v])).
    cbn [app eval_elts]. destruct (eval w a en tr) as [[v tr1]|]; [|reflexivity].
    destruct (items_of v) as [vs|]; [|reflexivity]. rewrite IH.
    destruct (eval_elts (eval w) en l1 tr1) as [[r1 t1]|]; [|reflexivity].
    destruct (eval_elts (eval w) en l2 t1) as [[r2 t2]|]; [|reflexivity]. rewrite app_assoc. reflexivity.
Qed.

Lemma key_in_fold : forall acc s y, key_in y acc = true -> key_in y (fold_left set_add acc s) = true.
Proof.
  induction acc as [|a acc IH]; intros s y H; [discriminate|]. cbn [fold_left].
  unfold key_in in H. cbn [existsb] in H. apply orb_true_iff in H as [H|H].
  - apply fold_set_add_mono. rewrite (key_in_congr y a _ H). apply set_add_in.
  - apply IH. exact H.
Qed.

Lemma fold_set_add_step : forall acc x s,
  fold_left set_add (set_add acc x) s = set_add (fold_left set_add acc s) x.
Proof.
  intros acc x s.
  assert (H : set_add acc x = if key_in x acc then acc else acc ++ [x]) by reflexivity.
  rewrite H. destruct (key_in x acc) eqn:E.
  - symmetry. apply set_add_absorb. apply key_in_fold. exact E.
  - rewrite fold_left_app. reflexivity.
Qed.

(* adding the members of a set built from l is the same as adding the items of l *)
Lemma set_absorb : forall l acc s,
  fold_left set_add (fold_left set_add l acc) s = fold_left set_add l (fold_left set_add acc s).
Proof.
  induction l as [|x l IH]; intros acc s; [reflexivity|]. cbn [fold_left].
  rewrite IH, fold_set_add_step. reflexivity.
Qed.

Lemma keys_of_set : forall d k v, map fst (dict_set d k v) = set_add (map fst d) k.
Proof.
  induction d as [|[k0 v0] d IH]; intros k v; [reflexivity|]. cbn [dict_set map fst].
  unfold set_add. cbn [existsb]. rewrite (key_eqb_sym k k0). destruct (key_eqb k0 k) eqn:E; cbn [orb map fst].
  - reflexivity.
  - rewrite IH. unfold set_add. destruct (existsb (key_eqb k) (map fst d)); reflexivity.
Qed.

(* the relation between the values of a display and of the display with unpacked literals *)
Definition unpack_rel (exact : bool) (r r' : option (list val * trace)) : Prop :=
  match r with
  | Some (vs, t1) =>
      match r' with
      | Some (vs', t2) =>
          t1 = t2 /\ (if exact then vs' = vs
                      else (forallb hashable vs = true -> forallb hashable vs' = true) /\
                           forall s, fold_left set_add vs' s = fold_left set_add vs s)
      | None => False
      end
  | None => True
  end.

Lemma eval_elts_nostar_cons : forall w en a tl tr, is_star a = false ->
  eval_elts (eval w) en (a :: tl) tr =
  match eval w a en tr with
  | Some (v, tr1) => match eval_elts (eval w) en tl tr1 with
                     | Some (rest, tr2) => Some (v :: rest, tr2)
                     | None => None
                     end
  | None => None
  end.
Proof. intros w en a tl tr H. destruct a; try reflexivity; discriminate. Qed.

Lemma elts_len_nostar : forall w en elts tr vs tr1,
  forallb (fun x => negb (is_star x)) elts = true ->
  eval_elts (eval w) en elts tr = Some (vs, tr1) -> length vs = length elts.
Proof.
  intros w en. induction elts as [|a elts IH]; intros tr vs tr1 Hn Hev.
  - injection Hev as <- _. reflexivity.
  - cbn [forallb] in Hn. apply andb_true_iff in Hn as [Ha Hn]. apply negb_true_iff in Ha.
    rewrite eval_elts_nostar_cons in Hev by assumption.
    destruct (eval w a en tr) as [[v t1]|]; [|discriminate].
    destruct (eval_elts (eval w) en elts t1) as [[rest t2]|] eqn:E; [|discriminate].
    injection Hev as <- _. cbn [length]. f_equal. eapply IH; eassumption.
Qed.

Lemma small_set : forall vs, (length vs <= 1)%nat -> fold_left set_add vs [] = vs.
Proof. intros [|v [|? ?]] H; try reflexivity. cbn in H. lia. Qed.

(* a dict display whose values are effect-free: its keys, evaluated alone *)
Lemma dict_keys_eval : forall w en items d tr dA tr1,
  forallb kv_ok items = true ->
  eval_items (eval w) en items d tr = Some (dA, tr1) ->
  exists kvs, eval_elts (eval w) en (map kv_key items) tr = Some (kvs, tr1) /\
              forallb hashable kvs = true /\ length kvs = length items /\
              map fst dA = fold_left set_add kvs (map fst d).
Proof.
  intros w en. induction items as [|it items IH]; intros d tr dA tr1 Hok Hev.
  - injection Hev as <- <-. exists []. repeat split; reflexivity.
  - cbn [forallb] in Hok. apply andb_true_iff in Hok as [Hit Hok]. destruct it; try discriminate.
    cbn [kv_ok] in Hit. cbn [eval_items] in Hev.
    destruct (eval w it1 en tr) as [[kv tr2]|] eqn:Ek; [|discriminate].
    rewrite (simple_eval_eq _ _ _ _ Hit) in Hev. destruct (atomval it2 en) as [vv|]; [|discriminate].
    destruct (hashable kv) eqn:Hh; [|discriminate].
    destruct (IH _ _ _ _ Hok Hev) as (kvs & He & Hhs & Hlen & Hm).
    exists (kv :: kvs). cbn [map kv_key].
    assert (Hel : eval_elts (eval w) en (it1 :: map kv_key items) tr = Some (kv :: kvs, tr1)).
    { destruct it1; try (cbn [eval_elts]; rewrite Ek, He; reflexivity). cbn in Ek. discriminate. }
    repeat split; [exact Hel | cbn; rewrite Hh; exact Hhs | cbn; rewrite Hlen; reflexivity |].
    rewrite Hm, keys_of_set. reflexivity.
Qed.

(* splicing the values vs of a literal where the display saw `its` *)
Lemma splice_rel : forall (b : bool) (rl rr : option (list val * trace)) vs its,
  unpack_rel b rl rr ->
  (if b then its = vs else forallb hashable vs = true /\ its = fold_left set_add vs []) ->
  unpack_rel b
    (match rl with Some (rest, tr2) => Some (its ++ rest, tr2) | None => None end)
    (match rr with Some (v2, tr2) => Some (vs ++ v2, tr2) | None => None end).
Proof.
  intros b rl rr vs its IH Hits. unfold unpack_rel in *.
  destruct rl as [[rest t1]|]; [|exact I]. destruct rr as [[rest' t2]|]; [|contradiction].
  destruct IH as [-> IH]. split; [reflexivity|]. destruct b.
  - subst. reflexivity.
  - destruct Hits as [Hhv ->]. destruct IH as [Hh Hf]. split.
    + rewrite !forallb_app. intros H. apply andb_true_iff in H as [_ H2]. rewrite Hhv, (Hh H2). reflexivity.
    + intros s. rewrite !fold_left_app, Hf. f_equal. symmetry. rewrite set_absorb. reflexivity.
Qed.

(* splicing the same values (a list or tuple literal) *)
Lemma splice_same : forall (b : bool) (rl rr : option (list val * trace)) vs,
  unpack_rel b rl rr ->
  unpack_rel b
    (match rl with Some (rest, tr2) => Some (vs ++ rest, tr2) | None => None end)
    (match rr with Some (v2, tr2) => Some (vs ++ v2, tr2) | None => None end).
Proof.
  intros b rl rr vs IH. unfold unpack_rel in *.
  destruct rl as [[rest t1]|]; [|exact I]. destruct rr as [[rest' t2]|]; [|contradiction].
  destruct IH as [-> IH]. split; [reflexivity|]. destruct b.
  - rewrite IH. reflexivity.
  - destruct IH as [Hh Hf]. split.
    + rewrite !forallb_app. intros H. apply andb_true_iff in H as [H1 H2]. rewrite H1, (Hh H2). reflexivity.
    + intros s. rewrite !fold_left_app. apply Hf.
Qed.

Lemma unpack_elts_rel : forall w en k l tr,
  unpack_rel (negb (is_kset k)) (eval_elts (eval w) en l tr)
             (eval_elts (eval w) en (fst (unpack_elts k l)) tr).
Proof.
  intros w en k. induction l as [|e l IH]; intros tr.
  - cbn. destruct (is_kset k); cbn; repeat split; auto.
  - cbn [unpack_elts]. destruct (unpack_elts k l) as [r ch] eqn:Eu. cbn [fst] in IH.
    assert (Hgen : forall a (f : val -> option (list val)),
         unpack_rel (negb (is_kset k))
           (match eval w a en tr with
            | Some (v, tr1) => match f v with
                               | Some vs => match eval_elts (eval w) en l tr1 with
                                            | Some (rest, tr2) => Some (vs ++ rest, tr2) | None => None end
                               | None => None end
            | None => None end)
           (match eval w a en tr with
            | Some (v, tr1) => match f v with
                               | Some vs => match eval_elts (eval w) en r tr1 with
                                            | Some (rest, tr2) => Some (vs ++ rest, tr2) | None => None end
                               | None => None end
            | None => None end)).
    { intros a f. destruct (eval w a en tr) as [[v tr1]|]; [|exact I]. destruct (f v) as [vs|]; [|exact I].
      apply splice_same. apply IH. }
    assert (Hkeep : unpack_rel (negb (is_kset k)) (eval_elts (eval w) en (e :: l) tr)
                               (eval_elts (eval w) en (e :: r) tr)).
    { destruct e;
        try (match goal with |- unpack_rel _ (eval_elts _ _ (?x :: _) _) _ => exact (Hgen x (fun v => Some [v])) end).
      match goal with |- unpack_rel _ (eval_elts _ _ (EStar ?x :: _) _) _ => exact (Hgen x items_of) end. }
    destruct e; try exact Hkeep. destruct e; try exact Hkeep.
    + (* a starred list / tuple / set display *)
      assert (Hsplice : (k0 = KList \/ k0 = KTuple \/
                         (k0 = KSet /\ (is_kset k = true \/
                            ((length elts <= 1)%nat /\ forallb (fun x => negb (is_star x)) elts = true)))) ->
                unpack_rel (negb (is_kset k)) (eval_elts (eval w) en (EStar (ESeq k0 elts) :: l) tr)
                           (eval_elts (eval w) en (elts ++ r) tr)).
      { intros Hk. cbn [eval_elts]. rewrite eval_ESeq, eval_elts_app.
        destruct (eval_elts (eval w) en elts tr) as [[vs tr1]|] eqn:Ee; [|destruct k0; exact I].
        destruct Hk as [-> | [-> | [-> Hk]]].
        - cbn [items_of]. apply splice_same. apply IH.
        - cbn [items_of]. apply splice_same. apply IH.
        - unfold mkset. destruct (forallb hashable vs) eqn:Hhv; [|exact I]. cbn [items_of].
          apply splice_rel; [apply IH|]. destruct Hk as [Ks | [Hlen Hns]].
          + rewrite Ks. cbn [negb]. split; [assumption | reflexivity].
          + assert (Hone : fold_left set_add vs [] = vs).
            { apply small_set. rewrite (elts_len_nostar _ _ _ _ _ _ Hns Ee). exact Hlen. }
            rewrite Hone. destruct (negb (is_kset k)); [reflexivity | split; [assumption | reflexivity]]. }
      destruct k0.
      * apply Hsplice. tauto.
      * apply Hsplice. tauto.
      * destruct (is_kset k || ((length elts <=? 1)%nat && forallb (fun x => negb (is_star x)) elts)) eqn:Ec;
          [|exact Hkeep]. apply Hsplice. right. right. split; [reflexivity|].
        apply orb_true_iff in Ec as [Ec|Ec]; [left; assumption|]. right.
        apply andb_true_iff in Ec as [E1 E2]. apply Nat.leb_le in E1. split; assumption.
    + (* a starred dict display *)
      destruct ((is_kset k || (length items <=? 1)%nat) && forallb kv_ok items) eqn:Ec; [|exact Hkeep].
      apply andb_true_iff in Ec as [Ec Hok]. cbn [fst eval_elts]. rewrite eval_EDict, eval_elts_app.
      destruct (eval_items (eval w) en items [] tr) as [[dA tr1]|] eqn:Ei; [|exact I].
      destruct (dict_keys_eval _ _ _ _ _ _ _ Hok Ei) as (kvs & He & Hhs & Hlen & Hm). rewrite He.
      cbn [items_of]. apply splice_rel; [apply IH|]. rewrite Hm. cbn [map].
      apply orb_true_iff in Ec as [Ks | Hl].
      * rewrite Ks. cbn [negb]. split; [assumption | reflexivity].
      * apply Nat.leb_le in Hl. rewrite small_set by (rewrite Hlen; exact Hl).
        destruct (negb (is_kset k)); [reflexivity | split; [assumption | reflexivity]].
Qed.

(* a starred list / tuple / set / dict literal inside a display is replaced by its elements (keys):
   a normally terminating evaluation keeps its value (same list / tuple; same set, first element wins)
   and its call trace *)
Theorem unpacks_sound : forall w e e',
  rw_unpacks e = Some e' ->
  forall en tr r, eval w e en tr = Some r -> eval w e' en tr = Some r.
Proof.
  intros w e e' Hr en tr r Hev. destruct e; try discriminate. cbn [rw_unpacks] in Hr.
  destruct (unpack_elts k elts) as [r0 ch] eqn:Eu. destruct ch; [|discriminate].
  pose proof (unpack_elts_rel w en k elts tr) as H. rewrite Eu in H. cbn [fst] in H.
  rewrite eval_ESeq in Hev. unfold unpack_rel in H.
  destruct (eval_elts (eval w) en elts tr) as [[vs t1]|]; [|discriminate].
  destruct (eval_elts (eval w) en r0 tr) as [[vs' t2]|] eqn:E0; [|contradiction].
  destruct H as [-> H].
  assert (Hseq : eval w (ESeq k r0) en tr = Some r).
  { rewrite eval_ESeq, E0. destruct k; cbn [is_kset negb] in H.
    - subst. exact Hev.
    - subst. exact Hev.
    - destruct H as [Hh Hf]. unfold mkset in *. destruct (forallb hashable vs) eqn:Ehv; [|discriminate].
      rewrite (Hh eq_refl), Hf. exact Hev. }
  destruct k; try (injection Hr as <-; exact Hseq).
  destruct r0; [|injection Hr as <-; exact Hseq].
  injection Hr as <-. rewrite <- Hseq. reflexivity.
Qed.

(* set({k: v for ...}) -> {k for ...} when v has no effect *)
Lemma dict_loop_keys : forall w elt dval t ifs en, simple dval = true ->
  forall xs acc dacc tr r tr',
    comp_loop (eval w) CDict elt dval t ifs en xs acc dacc tr = Some (r, tr') ->
    exists dA kvs, r = VDict dA /\ forallb hashable kvs = true /\
      map fst dA = fold_left set_add kvs (map fst dacc) /\
      forall acc', comp_loop (eval w) CList elt (EConst ANone) t ifs en xs acc' [] tr = Some (VList (acc' ++ kvs), tr').
Proof.
  intros w elt dval t ifs en Hd. induction xs as [|x xs IH]; intros acc dacc tr r tr' Hev.
  - cbn in Hev. injection Hev as <- <-. exists dacc, []. repeat split; try reflexivity.
    intros acc'. cbn. rewrite app_nil_r. reflexivity.
  - cbn [comp_loop] in *. destruct (bind t x en) as [en'|]; [|discriminate].
    destruct (eval_conds (eval w) en' ifs tr) as [[[] tr1]|]; [| |discriminate].
    + destruct (eval w elt en' tr1) as [[v tr2]|]; [|discriminate].
      rewrite (simple_eval_eq _ _ _ _ Hd) in Hev. destruct (atomval dval en') as [dv|]; [|discriminate].
      destruct (hashable v) eqn:Hh; [|discriminate].
      destruct (IH _ _ _ _ _ Hev) as (dA & kvs & -> & Hhs & Hm & Hl).
      exists dA, (v :: kvs). repeat split.
      * cbn. rewrite Hh. exact Hhs.
      * rewrite Hm, keys_of_set. reflexivity.
      * intros acc'. rewrite Hl, <- app_assoc. reflexivity.
    + destruct (IH _ _ _ _ _ Hev) as (dA & kvs & -> & Hhs & Hm & Hl).
      exists dA, kvs. repeat split; assumption.
Qed.

Theorem comp_casts_set_dict : forall w elt dval t it ifs,
  simple dval = true ->
  rw_comp_casts (EBi BSet [EComp CDict elt dval t it ifs]) = Some (EComp CSet elt (EConst ANone) t it ifs) /\
  forall en tr r, eval w (EBi BSet [EComp CDict elt dval t it ifs]) en tr = Some r ->
                  eval w (EComp CSet elt (EConst ANone) t it ifs) en tr = Some r.
Proof.
  intros w elt dval t it ifs Hd. split; [cbn; rewrite Hd; reflexivity|].
  intros en tr r Hev. rewrite eval_bi1 in Hev by reflexivity.
  rewrite (eval_comp_nondict w CSet) by reflexivity. rewrite eval_EComp in *.
  destruct (eval w it en tr) as [[itv tr0]|]; [|discriminate]. destruct (items_of itv) as [xs|]; [|discriminate].
  destruct (comp_loop (eval w) CDict elt dval t ifs en xs [] [] tr0) as [[v tr1]|] eqn:E; [|discriminate].
  destruct (dict_loop_keys _ _ _ _ _ _ Hd _ _ _ _ _ _ E) as (dA & kvs & -> & Hhs & Hm & Hl).
  rewrite (Hl []). cbn [app finish_comp]. cbn [bapply items_of] in Hev. rewrite Hm in Hev. cbn [map] in Hev.
  assert (Hk : mkset kvs = Some (VSet (fold_left set_add kvs []))) by (unfold mkset; rewrite Hhs; reflexivity).
  rewrite Hk. rewrite (mkset_idem _ _ Hk) in Hev. exact Hev.
Qed.

(* ------------------------------------------------------------------------------------------- *)
(* congruence: a rewrite that is right at the root is right at every node of an expression *)

Definition wrapper (e : expr) : bool :=
  match e with EStar _ | EKw _ _ | EKV _ _ | EDStar _ | EOp _ _ => true | _ => false end.

(* apply f bottom-up at every proper expression node *)
Fixpoint rw_all (f : expr -> expr) (e : expr) : expr :=
  match e with
  | EConst _ | EName _ => f e
  | ECall g args => f (ECall g (map (rw_all f) args))
  | EBi b args => f (EBi b (map (rw_all f) args))
  | ESeq k l => f (ESeq k (map (rw_all f) l))
  | EDict l => f (EDict (map (rw_all f) l))
  | ECmp l r => f (ECmp (rw_all f l) (map (rw_all f) r))
  | ENot a => f (ENot (rw_all f a))
  | EComp k elt dval t it ifs =>
      f (EComp k (rw_all f elt) (rw_all f dval) t (rw_all f it) (map (rw_all f) ifs))
  | EStar a => EStar (rw_all f a)
  | EKw k a => EKw k (rw_all f a)
  | EKV k v => EKV (rw_all f k) (rw_all f v)
  | EDStar a => EDStar (rw_all f a)
  | EOp o a => EOp o (rw_all f a)
  end.

Section Congruence.
  Variable w : world.
  Variable f : expr -> expr.

  Definition refines (a a' : expr) : Prop :=
    forall en tr r, eval w a en tr = Some r -> eval w a' en tr = Some r.

  Hypothesis f_refines : forall a, refines a (f a).
  Hypothesis f_proper : forall a, wrapper a = false -> wrapper (f a) = false.

  Definition cong_sub (e : expr) : Prop :=
    match e with
    | EStar a | EKw _ a | EDStar a | EOp _ a => refines a (rw_all f a)
    | EKV k v => refines k (rw_all f k) /\ refines v (rw_all f v)
    | _ => True
    end.

  Definition cong_P (e : expr) : Prop :=
    refines e (rw_all f e) /\ cong_sub e /\ (wrapper e = false -> wrapper (rw_all f e) = false).

  Lemma refines_trans : forall a b c, refines a b -> refines b c -> refines a c.
  Proof. intros a b c H1 H2 en tr r H. apply H2, H1, H. Qed.

  Lemma wrapper_star : forall a, wrapper a = false -> is_star a = false.
  Proof. destruct a; try reflexivity; discriminate. Qed.

  Lemma wrapper_plain : forall a, wrapper a = false -> plain a = true.
  Proof. destruct a; try reflexivity; discriminate. Qed.

  Lemma elts_cong : forall l, Forall cong_P l -> forall en tr r,
    eval_elts (eval w) en l tr = Some r -> eval_elts (eval w) en (map (rw_all f) l) tr = Some r.
  Proof.
    induction 1 as [|a l [Ha [Hs Hw]] Hl IH]; intros en tr r Hev; [exact Hev|]. cbn [map].
    destruct (wrapper a) eqn:Wa.
    - destruct a; try discriminate; cbn [rw_all eval_elts] in *; try discriminate.
      cbn [cong_sub] in Hs. destruct (eval w a en tr) as [[v tr1]|] eqn:Ea; [|discriminate].
      rewrite (Hs _ _ _ Ea). destruct (items_of v); [|discriminate].
      destruct (eval_elts (eval w) en l tr1) as [[rest tr2]|] eqn:El; [|discriminate].
      rewrite (IH _ _ _ El). exact Hev.
    - rewrite eval_elts_nostar_cons in Hev by (apply wrapper_star; assumption).
      rewrite eval_elts_nostar_cons by (apply wrapper_star, Hw; reflexivity).
      destruct (eval w a en tr) as [[v tr1]|] eqn:Ea; [|discriminate]. rewrite (Ha _ _ _ Ea).
      destruct (eval_elts (eval w) en l tr1) as [[rest tr2]|] eqn:El; [|discriminate].
      rewrite (IH _ _ _ El). exact Hev.
  Qed.

  Lemma args_cong : forall l, Forall cong_P l -> forall en tr r,
    eval_args (eval w) en l tr = Some r -> eval_args (eval w) en (map (rw_all f) l) tr = Some r.
  Proof.
    induction 1 as [|a l [Ha [Hs Hw]] Hl IH]; intros en tr r Hev; [exact Hev|]. cbn [map].
    destruct (wrapper a) eqn:Wa.
    - destruct a; try discriminate; cbn [rw_all eval_args] in *; try discriminate; cbn [cong_sub] in Hs;
        (destruct (eval w a en tr) as [[v tr1]|] eqn:Ea; [|discriminate]); rewrite (Hs _ _ _ Ea).
      + destruct (items_of v); [|discriminate].
        destruct (eval_args (eval w) en l tr1) as [[rest tr2]|] eqn:El; [|discriminate].
        rewrite (IH _ _ _ El). exact Hev.
      + destruct (eval_args (eval w) en l tr1) as [[rest tr2]|] eqn:El; [|discriminate].
        rewrite (IH _ _ _ El). exact Hev.
    - rewrite eval_args_plain_cons in Hev by (apply wrapper_plain; assumption).
      rewrite eval_args_plain_cons by (apply wrapper_plain, Hw; reflexivity).
      destruct (eval w a en tr) as [[v tr1]|] eqn:Ea; [|discriminate]. rewrite (Ha _ _ _ Ea).
      destruct (eval_args (eval w) en l tr1) as [[rest tr2]|] eqn:El; [|discriminate].
      rewrite (IH _ _ _ El). exact Hev.
  Qed.

  Lemma items_cong : forall l, Forall cong_P l -> forall en d tr r,
    eval_items (eval w) en l d tr = Some r -> eval_items (eval w) en (map (rw_all f) l) d tr = Some r.
  Proof.
    induction 1 as [|a l [Ha [Hs Hw]] Hl IH]; intros en d tr r Hev; [exact Hev|]. cbn [map].
    destruct a; try discriminate; cbn [rw_all eval_items] in *; cbn [cong_sub] in Hs.
    - destruct Hs as [Hk Hv]. destruct (eval w a1 en tr) as [[kv tr1]|] eqn:E1; [|discriminate].
      rewrite (Hk _ _ _ E1). destruct (eval w a2 en tr1) as [[vv tr2]|] eqn:E2; [|discriminate].
      rewrite (Hv _ _ _ E2). destruct (hashable kv); [apply IH; assumption | discriminate].
    - destruct (eval w a en tr) as [[v tr1]|] eqn:Ea; [|discriminate]. rewrite (Hs _ _ _ Ea).
      destruct v; try discriminate. apply IH; assumption.
  Qed.

  Lemma chain_cong : forall l, Forall cong_P l -> forall en lv tr r,
    eval_chain (eval w) w en l lv tr = Some r -> eval_chain (eval w) w en (map (rw_all f) l) lv tr = Some r.
  Proof.
    induction 1 as [|a l [Ha [Hs Hw]] Hl IH]; intros en lv tr r Hev; [exact Hev|]. cbn [map].
    destruct a; try discriminate; cbn [rw_all eval_chain] in *; cbn [cong_sub] in Hs.
    destruct (eval w a en tr) as [[rv tr1]|] eqn:Ea; [|discriminate]. rewrite (Hs _ _ _ Ea).
    destruct (cmp_sem w o lv rv); [|discriminate]. destruct l; [exact Hev|]. cbn [map] in *.
    destruct (truthy v); [apply IH; assumption | exact Hev].
  Qed.

  Lemma conds_cong : forall l, Forall cong_P l -> forall en tr r,
    eval_conds (eval w) en l tr = Some r -> eval_conds (eval w) en (map (rw_all f) l) tr = Some r.
  Proof.
    induction 1 as [|a l [Ha [Hs Hw]] Hl IH]; intros en tr r Hev; [exact Hev|]. cbn [map eval_conds] in *.
    destruct (eval w a en tr) as [[cv tr1]|] eqn:Ea; [|discriminate]. rewrite (Ha _ _ _ Ea).
    destruct (truthy cv); [apply IH; assumption | exact Hev].
  Qed.

  Lemma loop_cong : forall k elt dval t ifs en,
    refines elt (rw_all f elt) -> refines dval (rw_all f dval) -> Forall cong_P ifs ->
    forall xs acc dacc tr r,
      comp_loop (eval w) k elt dval t ifs en xs acc dacc tr = Some r ->
      comp_loop (eval w) k (rw_all f elt) (rw_all f dval) t (map (rw_all f) ifs) en xs acc dacc tr = Some r.
  Proof.
    intros k elt dval t ifs en He Hd Hi. induction xs as [|x xs IH]; intros acc dacc tr r Hev; [exact Hev|].
    cbn [comp_loop] in *. destruct (bind t x en) as [en'|]; [|discriminate].
    destruct (eval_conds (eval w) en' ifs tr) as [[c tr1]|] eqn:Ec; [|discriminate].
    rewrite (conds_cong _ Hi _ _ _ Ec). destruct c; [|apply IH; assumption].
    destruct (eval w elt en' tr1) as [[v tr2]|] eqn:Ee; [|discriminate]. rewrite (He _ _ _ Ee).
    destruct k; try (apply IH; assumption).
    destruct (eval w dval en' tr2) as [[dv tr3]|] eqn:Ed; [|discriminate]. rewrite (Hd _ _ _ Ed).
    destruct (hashable v); [apply IH; assumption | discriminate].
  Qed.

  Lemma cong_all : forall e, cong_P e.
  Proof.
    induction e using expr_ind'; unfold cong_P; cbn [rw_all cong_sub wrapper].
    - split; [apply f_refines | split; [exact I | intros _; apply f_proper; reflexivity]].
    - split; [apply f_refines | split; [exact I | intros _; apply f_proper; reflexivity]].
    - split; [|split; [exact I | intros _; apply f_proper; reflexivity]].
      eapply refines_trans; [|apply f_refines]. intros en tr r Hev. cbn [eval] in *.
      destruct (eval_elts (eval w) en args tr) as [[vs tr1]|] eqn:E; [|discriminate].
      rewrite (elts_cong _ H _ _ _ E). exact Hev.
    - split; [|split; [exact I | intros _; apply f_proper; reflexivity]].
      eapply refines_trans; [|apply f_refines]. intros en tr r Hev. rewrite eval_EBi in *.
      destruct (eval_args (eval w) en args tr) as [[vs tr1]|] eqn:E; [|discriminate].
      rewrite (args_cong _ H _ _ _ E). exact Hev.
    - split; [|split; [exact I | intros _; apply f_proper; reflexivity]].
      eapply refines_trans; [|apply f_refines]. intros en tr r Hev. rewrite eval_ESeq in *.
      destruct (eval_elts (eval w) en elts tr) as [[vs tr1]|] eqn:E; [|discriminate].
      rewrite (elts_cong _ H _ _ _ E). exact Hev.
    - split; [|split; [exact I | intros _; apply f_proper; reflexivity]].
      eapply refines_trans; [|apply f_refines]. intros en tr r Hev. rewrite eval_EDict in *.
      destruct (eval_items (eval w) en items [] tr) as [[d tr1]|] eqn:E; [|discriminate].
      rewrite (items_cong _ H _ _ _ _ E). exact Hev.
    - split; [|split; [exact I | intros _; apply f_proper; reflexivity]].
      eapply refines_trans; [|apply f_refines]. intros en tr r Hev. rewrite eval_ECmp in *.
      destruct IHe as [He _]. destruct (eval w e en tr) as [[lv tr0]|] eqn:E; [|discriminate].
      rewrite (He _ _ _ E). apply chain_cong; assumption.
    - split; [|split; [exact I | intros _; apply f_proper; reflexivity]].
      eapply refines_trans; [|apply f_refines]. intros en tr r Hev. cbn [eval] in *.
      destruct IHe as [He _]. destruct (eval w e en tr) as [[v tr1]|] eqn:E; [|discriminate].
      rewrite (He _ _ _ E). exact Hev.
    - split; [|split; [exact I | intros _; apply f_proper; reflexivity]].
      eapply refines_trans; [|apply f_refines]. intros en tr r Hev. rewrite eval_EComp in *.
      destruct IHe1 as [H1 _], IHe2 as [H2 _], IHe3 as [H3 _].
      destruct (eval w e3 en tr) as [[itv tr0]|] eqn:E; [|discriminate]. rewrite (H3 _ _ _ E).
      destruct (items_of itv) as [xs|]; [|discriminate]. apply loop_cong; assumption.
    - destruct IHe as [He _]. split; [intros en tr r Hev; discriminate | split; [exact He | intros Hd; discriminate]].
    - destruct IHe as [He _]. split; [intros en tr r Hev; discriminate | split; [exact He | intros Hd; discriminate]].
    - destruct IHe1 as [H1 _], IHe2 as [H2 _]. split; [intros en tr r Hev; discriminate | split; [split; assumption | intros Hd; discriminate]].
    - destruct IHe as [He _]. split; [intros en tr r Hev; discriminate | split; [exact He | intros Hd; discriminate]].
    - destruct IHe as [He _]. split; [intros en tr r Hev; discriminate | split; [exact He | intros Hd; discriminate]].
  Qed.

  (* applying f at any set of nodes, bottom-up: a normally terminating evaluation keeps value and trace *)
  Theorem rw_all_sound : forall e en tr r, eval w e en tr = Some r -> eval w (rw_all f e) en tr = Some r.
  Proof. intros e. apply cong_all. Qed.
End Congruence.

Definition lift (rw : expr -> option expr) (a : expr) : expr :=
  match rw a with Some a' => a' | None => a end.

(* a rule that is right at the root and yields proper expressions is right when applied bottom-up at
   every node (the walker of the real rule visits every node) *)
Theorem lift_sound : forall w (rw : expr -> option expr),
  (forall a a', rw a = Some a' ->
     wrapper a' = false /\ forall en tr r, eval w a en tr = Some r -> eval w a' en tr = Some r) ->
  forall e en tr r, eval w e en tr = Some r -> eval w (rw_all (lift rw) e) en tr = Some r.
Proof.
  intros w rw H. apply rw_all_sound.
  - intros a en tr r Hev. unfold lift. destruct (rw a) as [a'|] eqn:E; [|exact Hev].
    destruct (H _ _ E) as [_ Hr]. apply Hr. exact Hev.
  - intros a Ha. unfold lift. destruct (rw a) as [a'|] eqn:E; [|exact Ha]. apply (H _ _ E).
Qed.

Lemma rw_dup_set_proper : forall a a', rw_dup_set a = Some a' -> wrapper a' = false.
Proof.
  intros a a' H. destruct a; try discriminate. destruct k; try discriminate. cbn [rw_dup_set] in H.
  destruct (length (dedup_set_elts [] elts) <? length elts)%nat; [|discriminate]. injection H as <-. reflexivity.
Qed.

Lemma rw_dup_dict_proper : forall a a', rw_dup_dict a = Some a' -> wrapper a' = false.
Proof.
  intros a a' H. destruct a; try discriminate. cbn [rw_dup_dict] in H.
  destruct (length (dedup_dict_items (length items) [] items) <? length items)%nat; [|discriminate].
  injection H as <-. reflexivity.
Qed.

Lemma rw_unpacks_proper : forall a a', rw_unpacks a = Some a' -> wrapper a' = false.
Proof.
  intros a a' H. destruct a; try discriminate. cbn [rw_unpacks] in H. destruct (unpack_elts k elts) as [r ch].
  destruct ch; [|discriminate]. destruct k, r; injection H as <-; reflexivity.
Qed.

Lemma rw_dict_unpacks_proper : forall a a', rw_dict_unpacks a = Some a' -> wrapper a' = false.
Proof.
  intros a a' H. destruct a; try discriminate. cbn [rw_dict_unpacks] in H. destruct (unpack_items items) as [r ch].
  destruct ch; [|discriminate]. injection H as <-. reflexivity.
Qed.

Theorem dup_set_everywhere : forall w e en tr r,
  eval w e en tr = Some r -> eval w (rw_all (lift rw_dup_set) e) en tr = Some r.
Proof.
  intros w. apply lift_sound. intros a a' H. split; [eapply rw_dup_set_proper; eassumption|].
  intros en tr r Hev. rewrite (dup_set_sound w a a' H). exact Hev.
Qed.

Theorem dup_dict_everywhere : forall w e en tr r,
  eval w e en tr = Some r -> eval w (rw_all (lift rw_dup_dict) e) en tr = Some r.
Proof.
  intros w. apply lift_sound. intros a a' H. split; [eapply rw_dup_dict_proper; eassumption|].
  apply dup_dict_sound. assumption.
Qed.

Theorem unpacks_everywhere : forall w e en tr r,
  eval w e en tr = Some r -> eval w (rw_all (lift rw_unpacks) e) en tr = Some r.
Proof.
  intros w. apply lift_sound. intros a a' H. split; [eapply rw_unpacks_proper; eassumption|].
  apply unpacks_sound. assumption.
Qed.

Theorem dict_unpacks_everywhere : forall w e en tr r,
  eval w e en tr = Some r -> eval w (rw_all (lift rw_dict_unpacks) e) en tr = Some r.
Proof.
  intros w. apply lift_sound. intros a a' H. split; [eapply rw_dict_unpacks_proper; eassumption|].
  apply dict_unpacks_sound. assumption.
Qed.

Example everywhere_example :
  rw_all (lift rw_dup_set)
    (ECall 0 [ESeq KList [ESeq KSet [EConst (AInt 1); EConst (ABool true)]; EStar (ESeq KSet [EName 1; EConst (AStr 1); EConst (AStr 1)])]])
  = ECall 0 [ESeq KList [ESeq KSet [EConst (AInt 1)]; EStar (ESeq KSet [EName 1; EConst (AStr 1)])]].
Proof. reflexivity. Qed.
