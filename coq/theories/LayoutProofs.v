(* K12 -- theorems about LayoutModel.v (all texts, all masks, no size bound). *)
From Coq Require Import List NArith Arith Bool Lia.
Import ListNotations.
Require Import Pyrefact.LayoutModel.

Arguments is_space : simpl never.
Arguments is_blank : simpl never.
Arguments is_tab : simpl never.
Arguments is_nl : simpl never.

(* ---------------------------------------------------------------------------------------------- *)
(* character classes *)

Lemma blank_is_space : forall c, is_blank c = true -> is_space c = true.
Proof.
  intros c H. unfold is_blank, SP, TAB in H.
  apply orb_true_iff in H. destruct H as [H | H]; apply N.eqb_eq in H; subst; reflexivity.
Qed.

Lemma nl_is_space : forall c, is_nl c = true -> is_space c = true.
Proof. intros c H. unfold is_nl, NL in H. apply N.eqb_eq in H. subst. reflexivity. Qed.

Lemma nl_not_blank : forall c, is_nl c = true -> is_blank c = false.
Proof. intros c H. unfold is_nl, NL in H. apply N.eqb_eq in H. subst. reflexivity. Qed.

Lemma tab_is_blank : forall c, is_tab c = true -> is_blank c = true.
Proof. intros c H. unfold is_tab in H. apply N.eqb_eq in H. subst. reflexivity. Qed.

(* ---------------------------------------------------------------------------------------------- *)
(* projections *)

Definition keep_nb (c : N) : bool := negb (is_blank c).
Definition keep_nw (c : N) : bool := negb (is_space c).

Lemma nonblank_chars_app : forall a b, nonblank_chars (a ++ b) = nonblank_chars a ++ nonblank_chars b.
Proof. intros. unfold nonblank_chars. rewrite map_app, filter_app. reflexivity. Qed.

Lemma nonws_app : forall a b, nonws (a ++ b) = nonws a ++ nonws b.
Proof. intros. unfold nonws. rewrite map_app, filter_app. reflexivity. Qed.

Lemma lit_app : forall a b, lit (a ++ b) = lit a ++ lit b.
Proof. intros. unfold lit. rewrite filter_app, map_app. reflexivity. Qed.

Lemma plain_app : forall a b, plain (a ++ b) = plain a ++ plain b.
Proof. intros. unfold plain. apply map_app. Qed.

Lemma nonblank_chars_repeat_sp : forall m n, nonblank_chars (repeat (SP, m) n) = [].
Proof. induction n as [| n IH]; [reflexivity |]. cbn. exact IH. Qed.

Lemma lit_repeat_false : forall c n, lit (repeat (c, false) n) = [].
Proof. induction n as [| n IH]; [reflexivity |]. cbn. exact IH. Qed.

(* filtering the non-whitespace characters factors through filtering the non-blank ones *)
Lemma nonws_of_nonblank : forall l : list N,
  filter (fun c => negb (is_space c)) (filter (fun c => negb (is_blank c)) l) =
  filter (fun c => negb (is_space c)) l.
Proof.
  induction l as [| c l IH]; [reflexivity |]. cbn.
  destruct (is_blank c) eqn:Hb; cbn.
  - rewrite (blank_is_space _ Hb). cbn. exact IH.
  - destruct (is_space c); cbn; rewrite IH; reflexivity.
Qed.

Lemma nonblank_to_nonws : forall a b, nonblank_chars a = nonblank_chars b -> nonws a = nonws b.
Proof.
  intros a b H. unfold nonws, nonblank_chars in *.
  rewrite <- (nonws_of_nonblank (map fst a)), <- (nonws_of_nonblank (map fst b)), H. reflexivity.
Qed.

(* ---------------------------------------------------------------------------------------------- *)
(* expandtabs *)

(* T11.1 (expandtabs): only blanks are touched -- for every tab size, start column and text *)
Theorem expandtabs_nonblank : forall ts s col,
  nonblank_chars (expandtabs_from ts col s) = nonblank_chars s.
Proof.
  intros ts. induction s as [| [c m] tl IH]; intros col; [reflexivity |].
  cbn [expandtabs_from].
  destruct (is_tab c) eqn:Ht.
  - rewrite nonblank_chars_app, nonblank_chars_repeat_sp, IH. cbn [app].
    unfold nonblank_chars. cbn. rewrite (tab_is_blank _ Ht). reflexivity.
  - destruct (N.eqb c NL || N.eqb c CR); unfold nonblank_chars in *; cbn; rewrite IH; reflexivity.
Qed.

Theorem expandtabs_nonws : forall ts s col, nonws (expandtabs_from ts col s) = nonws s.
Proof. intros. apply nonblank_to_nonws, expandtabs_nonblank. Qed.

(* a text without tabs is returned unchanged *)
Theorem expandtabs_notab : forall ts s col,
  forallb (fun c => negb (is_tab (fst c))) s = true -> expandtabs_from ts col s = s.
Proof.
  intros ts. induction s as [| [c m] tl IH]; intros col H; [reflexivity |].
  cbn in H. apply andb_true_iff in H. destruct H as [Hc Htl].
  cbn [expandtabs_from]. apply negb_true_iff in Hc. rewrite Hc.
  destruct (N.eqb c NL || N.eqb c CR); rewrite IH by exact Htl; reflexivity.
Qed.

(* T11.2 (expandtabs): if no masked character is a tab, the literals are untouched *)
Theorem expandtabs_lit : forall ts s col,
  g_tab s = true -> lit (expandtabs_from ts col s) = lit s.
Proof.
  intros ts. induction s as [| [c m] tl IH]; intros col H; [reflexivity |].
  unfold g_tab in H. cbn in H. apply andb_true_iff in H. destruct H as [Hc Htl].
  cbn [expandtabs_from].
  destruct (is_tab c) eqn:Ht.
  - rewrite andb_true_r in Hc. apply negb_true_iff in Hc. subst m.
    rewrite lit_app, lit_repeat_false, (IH _ Htl). reflexivity.
  - destruct (N.eqb c NL || N.eqb c CR); unfold lit in *; cbn; destruct m; cbn;
      rewrite (IH _ Htl); reflexivity.
Qed.

(* R11.3 (expandtabs): x = "a<TAB>b" *)
Definition w_tab : text :=
  [(120, false); (32, false); (61, false); (32, false); (34, true); (97, true); (9, true); (98, true);
   (34, true); (10, false)]%N.
Theorem expandtabs_lit_refuted : exists s, lit (expandtabs4 s) <> lit s.
Proof. exists w_tab. vm_compute. discriminate. Qed.

(* ---------------------------------------------------------------------------------------------- *)
(* rmspace *)

Theorem rmspace_nonblank : forall s, nonblank_chars (rmspace s) = nonblank_chars s.
Proof.
  induction s as [| [c m] tl IH]; [reflexivity |].
  cbn [rmspace fst].
  destruct (is_blank c) eqn:Hb; cbn [andb].
  - destruct (trailing tl); unfold nonblank_chars in *; cbn; rewrite Hb; cbn; exact IH.
  - unfold nonblank_chars in *. cbn. rewrite Hb. cbn. rewrite IH. reflexivity.
Qed.

Theorem rmspace_nonws : forall s, nonws (rmspace s) = nonws s.
Proof. intros. apply nonblank_to_nonws, rmspace_nonblank. Qed.

Theorem rmspace_lit : forall s, g_trail s = true -> lit (rmspace s) = lit s.
Proof.
  induction s as [| [c m] tl IH]; intros H; [reflexivity |].
  cbn [g_trail fst snd] in H. apply andb_true_iff in H. destruct H as [Hc Htl].
  cbn [rmspace fst].
  destruct (is_blank c && trailing tl) eqn:Hd.
  - rewrite <- andb_assoc, Hd, andb_true_r in Hc. apply negb_true_iff in Hc. subst m.
    unfold lit in *. cbn. exact (IH Htl).
  - unfold lit in *. cbn. destruct m; cbn; rewrite (IH Htl); reflexivity.
Qed.

(* R11.3 (rmspace): x = """a<SP><NL>b""" *)
Definition w_trail : text :=
  [(120, false); (32, false); (61, false); (32, false); (34, true); (34, true); (34, true); (97, true);
   (32, true); (10, true); (98, true); (34, true); (34, true); (34, true); (10, false)]%N.
Theorem rmspace_lit_refuted : exists s, lit (rmspace s) <> lit s.
Proof. exists w_trail. vm_compute. discriminate. Qed.

(* rmspace is idempotent-free of tabs: it never creates characters (the output is a subsequence) *)
Inductive subseq {A} : list A -> list A -> Prop :=
| sub_nil : subseq [] []
| sub_keep : forall x a b, subseq a b -> subseq (x :: a) (x :: b)
| sub_drop : forall x a b, subseq a b -> subseq a (x :: b).

Theorem rmspace_subseq : forall s, subseq (rmspace s) s.
Proof.
  induction s as [| c tl IH]; [constructor |].
  cbn [rmspace]. destruct (is_blank (fst c) && trailing tl); constructor; exact IH.
Qed.

(* ---------------------------------------------------------------------------------------------- *)
(* fix_too_many_blank_lines *)

Definition all_ws (s : text) : bool := forallb (fun c => is_space (fst c)) s.

Lemma all_ws_app : forall a b, all_ws (a ++ b) = all_ws a && all_ws b.
Proof. intros. apply forallb_app. Qed.

Lemma all_ws_rev : forall a, all_ws (rev a) = all_ws a.
Proof.
  induction a as [| c a IH]; [reflexivity |].
  cbn [rev]. rewrite all_ws_app, IH. cbn. rewrite andb_true_r. apply andb_comm.
Qed.

Lemma all_ws_nonws : forall s, all_ws s = true -> nonws s = [].
Proof.
  induction s as [| c s IH]; intros H; [reflexivity |].
  cbn in H. apply andb_true_iff in H. destruct H as [Hc Hs].
  unfold nonws in *. cbn. rewrite Hc. cbn. exact (IH Hs).
Qed.

Section Scan.
Variable f : bool -> text -> text.
Hypothesis f_ws : forall e run, all_ws run = true -> all_ws (f e run) = true.

Lemma scan_nonws_gen : forall s run, all_ws run = true -> nonws (scan f run s) = nonws s.
Proof.
  induction s as [| c tl IH]; intros run Hr.
  - cbn. apply all_ws_nonws, f_ws. rewrite all_ws_rev. exact Hr.
  - cbn [scan]. destruct (is_space (fst c)) eqn:Hc.
    + rewrite IH by (cbn; rewrite Hc; exact Hr).
      unfold nonws. cbn. rewrite Hc. reflexivity.
    + rewrite nonws_app, all_ws_nonws by (apply f_ws; rewrite all_ws_rev; exact Hr).
      cbn [app]. unfold nonws in *. cbn. rewrite Hc. cbn. rewrite (IH [] eq_refl). reflexivity.
Qed.

Lemma scan_ws_prefix : forall g w s run,
  all_ws w = true -> scan g run (w ++ s) = scan g (rev w ++ run) s.
Proof.
  intros g. induction w as [| c w IH]; intros s run H; [reflexivity |].
  cbn in H. apply andb_true_iff in H. destruct H as [Hc Hw].
  cbn [app scan]. rewrite Hc, IH by exact Hw. cbn [rev]. rewrite <- app_assoc. reflexivity.
Qed.

(* two passes = one pass with the composed run function *)
Lemma scan_compose : forall g s run,
  all_ws run = true ->
  scan g [] (scan f run s) = scan (fun e r => g e (f e r)) run s.
Proof.
  intros g. induction s as [| c tl IH]; intros run Hr.
  - cbn [scan]. rewrite <- (app_nil_r (f true (rev run))) at 1.
    rewrite scan_ws_prefix by (apply f_ws; rewrite all_ws_rev; exact Hr).
    cbn [scan]. rewrite app_nil_r, rev_involutive. reflexivity.
  - cbn [scan]. destruct (is_space (fst c)) eqn:Hc.
    + apply IH. cbn. rewrite Hc. exact Hr.
    + rewrite scan_ws_prefix by (apply f_ws; rewrite all_ws_rev; exact Hr).
      cbn [scan]. rewrite Hc, app_nil_r, rev_involutive, (IH [] eq_refl). reflexivity.
Qed.

Variable g : bool -> text -> bool.
Hypothesis f_lit : forall e run, g e run = true -> lit (f e run) = lit run.

Lemma scan_lit_gen : forall s run,
  runs_forall g run s = true -> lit (scan f run s) = lit (rev run ++ s).
Proof.
  induction s as [| c tl IH]; intros run H.
  - cbn in *. rewrite app_nil_r. apply f_lit. exact H.
  - cbn [scan runs_forall] in *. destruct (is_space (fst c)) eqn:Hc.
    + rewrite (IH _ H). cbn [rev]. rewrite <- app_assoc. reflexivity.
    + apply andb_true_iff in H. destruct H as [H1 H2].
      rewrite !lit_app, (f_lit _ _ H1). f_equal.
      specialize (IH [] H2). cbn [rev app] in IH.
      unfold lit in *. cbn. destruct (snd c); cbn; rewrite IH; reflexivity.
Qed.
End Scan.

(* --- runs split at their newlines --- *)

Lemma split_nl_spec : forall s pre segs, split_nl s = (pre, segs) -> s = unsplit pre segs.
Proof.
  induction s as [| c tl IH]; intros pre segs H.
  - cbn in H. inversion H. reflexivity.
  - cbn [split_nl] in H. destruct (split_nl tl) as [p0 g0] eqn:E.
    specialize (IH _ _ eq_refl). destruct (is_nl (fst c)); inversion H; subst; unfold unsplit in *; cbn; reflexivity.
Qed.

Lemma split_nl_count : forall s pre segs, split_nl s = (pre, segs) -> count_nl s = length segs.
Proof.
  induction s as [| c tl IH]; intros pre segs H.
  - cbn in H. inversion H. reflexivity.
  - cbn [split_nl] in H. destruct (split_nl tl) as [p0 g0] eqn:E.
    specialize (IH _ _ eq_refl). unfold count_nl in *. cbn [filter].
    destruct (is_nl (fst c)); inversion H; subst; cbn; rewrite IH; reflexivity.
Qed.

Lemma in_unsplit_nl : forall pre segs g0, In g0 segs -> In (fst g0) (unsplit pre segs).
Proof.
  intros pre segs g0 H. unfold unsplit. apply in_or_app. right.
  apply in_flat_map. exists g0. split; [exact H | left; reflexivity].
Qed.

Lemma in_unsplit_tail : forall pre segs g0 x, In g0 segs -> In x (snd g0) -> In x (unsplit pre segs).
Proof.
  intros pre segs g0 x H Hx. unfold unsplit. apply in_or_app. right.
  apply in_flat_map. exists g0. split; [exact H | right; exact Hx].
Qed.

Lemma in_unsplit_seg : forall pre segs g0 x, In g0 segs -> In x (seg_text g0) -> In x (unsplit pre segs).
Proof.
  intros pre segs g0 x H [Hx | Hx].
  - subst x. apply in_unsplit_nl. exact H.
  - eapply in_unsplit_tail; eassumption.
Qed.

Lemma last_in : forall {A} (l : list A) d, l <> [] -> In (last l d) l.
Proof.
  induction l as [| a l IH]; intros d H; [congruence |].
  destruct l as [| b l]; [left; reflexivity |].
  right. apply IH. discriminate.
Qed.

(* every character of the rewritten run is a character of the run, or a newline carrying the mask of
   a character of the run *)
Definition from_run (run : text) (x : tchar) : Prop :=
  In x run \/ exists c, In c run /\ x = (NL, snd c).

Lemma r1_from : forall e run x, In x (r1 e run) -> from_run run x.
Proof.
  intros e run x. unfold r1. destruct (split_nl run) as [pre segs] eqn:E.
  pose proof (split_nl_spec _ _ _ E) as Hs.
  destruct segs as [| g0 segs']; [left; assumption |].
  destruct (4 <=? length (g0 :: segs')); [| left; assumption].
  intros H. apply in_app_or in H. destruct H as [H | H].
  - left. rewrite Hs. unfold unsplit. apply in_or_app. left. exact H.
  - apply in_app_or in H. destruct H as [H | H].
    + right. exists (fst g0). split.
      * rewrite Hs. apply in_unsplit_nl. left. reflexivity.
      * cbn in H. unfold nl_like in H. intuition congruence.
    + left. rewrite Hs. eapply in_unsplit_tail; [| exact H]. apply last_in. discriminate.
Qed.

Lemma r2_from : forall e run x, In x (r2 e run) -> from_run run x.
Proof.
  intros e run x. unfold r2. destruct (split_nl run) as [pre segs] eqn:E.
  pose proof (split_nl_spec _ _ _ E) as Hs.
  destruct segs as [| g0 segs']; [left; assumption |].
  destruct (e && (2 <=? length (g0 :: segs'))); [| left; assumption].
  intros H. apply in_app_or in H. destruct H as [H | H].
  - left. rewrite Hs. unfold unsplit. apply in_or_app. left. exact H.
  - right. exists (fst g0). split.
    + rewrite Hs. apply in_unsplit_nl. left. reflexivity.
    + cbn in H. unfold nl_like in H. intuition congruence.
Qed.

Lemma r3_from : forall e run x, In x (r3 e run) -> from_run run x.
Proof.
  intros e run x. unfold r3. destruct e; [left; assumption |].
  destruct (split_nl run) as [pre segs] eqn:E.
  pose proof (split_nl_spec _ _ _ E) as Hs.
  destruct segs as [| g0 segs']; [left; assumption |].
  set (segs := g0 :: segs') in *.
  assert (Hl : In (last segs g0) segs) by (apply last_in; discriminate).
  assert (Hnl : from_run run (nl_like g0)).
  { right. exists (fst g0). split; [| reflexivity]. rewrite Hs. apply in_unsplit_nl. left. reflexivity. }
  destruct (snd (last segs g0)) eqn:El.
  - destruct (4 <=? length segs) eqn:E4; [| left; assumption].
    intros H. apply in_app_or in H. destruct H as [H | H].
    + left. rewrite Hs. unfold unsplit. apply in_or_app. left. exact H.
    + destruct H as [H | H]; [subst x; exact Hnl |].
      apply in_app_or in H. destruct H as [H | H].
      * left. rewrite Hs. eapply in_unsplit_seg; [| exact H].
        apply nth_In. apply Nat.leb_le in E4. lia.
      * left. rewrite Hs. eapply in_unsplit_seg; [exact Hl | exact H].
  - destruct (3 <=? length segs); [| left; assumption].
    intros H. apply in_app_or in H. destruct H as [H | H].
    + left. rewrite Hs. unfold unsplit. apply in_or_app. left. exact H.
    + destruct H as [H | H]; [subst x; exact Hnl |].
      left. rewrite Hs. eapply in_unsplit_seg; [exact Hl | exact H].
Qed.

Lemma from_run_forallb : forall (P : tchar -> bool) run out,
  (forall c, P c = true -> P (NL, snd c) = true) ->
  (forall x, In x out -> from_run run x) ->
  forallb P run = true -> forallb P out = true.
Proof.
  intros P run out HP Hout Hr. apply forallb_forall. intros x Hx.
  rewrite forallb_forall in Hr.
  destruct (Hout x Hx) as [H | [c [Hc Heq]]].
  - apply Hr. exact H.
  - subst x. apply HP, Hr. exact Hc.
Qed.

Lemma ws_nl_closed : forall c : tchar, is_space (fst c) = true -> is_space (fst (NL, snd c)) = true.
Proof. intros. reflexivity. Qed.

Lemma r1_ws : forall e run, all_ws run = true -> all_ws (r1 e run) = true.
Proof. intros e run. apply from_run_forallb; [apply ws_nl_closed | apply r1_from]. Qed.
Lemma r2_ws : forall e run, all_ws run = true -> all_ws (r2 e run) = true.
Proof. intros e run. apply from_run_forallb; [apply ws_nl_closed | apply r2_from]. Qed.
Lemma r3_ws : forall e run, all_ws run = true -> all_ws (r3 e run) = true.
Proof. intros e run. apply from_run_forallb; [apply ws_nl_closed | apply r3_from]. Qed.

(* T11.1 (blank lines): each substitution, and the whole function, keeps the non-whitespace characters *)
Theorem sub1_nonws : forall s, nonws (sub1 s) = nonws s.
Proof. intros. apply scan_nonws_gen; [apply r1_ws | reflexivity]. Qed.
Theorem sub2_nonws : forall s, nonws (sub2 s) = nonws s.
Proof. intros. apply scan_nonws_gen; [apply r2_ws | reflexivity]. Qed.
Theorem sub3_nonws : forall s, nonws (sub3 s) = nonws s.
Proof. intros. apply scan_nonws_gen; [apply r3_ws | reflexivity]. Qed.
Theorem blank_lines_nonws : forall s, nonws (blank_lines s) = nonws s.
Proof. intros. unfold blank_lines. rewrite sub3_nonws, sub2_nonws, sub1_nonws. reflexivity. Qed.

(* the three passes act run by run *)
Definition r123 (e : bool) (run : text) : text := r3 e (r2 e (r1 e run)).
Theorem blank_lines_runwise : forall s, blank_lines s = scan r123 [] s.
Proof.
  intros s. unfold blank_lines, sub3, sub2, sub1.
  rewrite (scan_compose r1 r1_ws r2 s []) by reflexivity.
  rewrite (scan_compose (fun e r => r2 e (r1 e r))) by
    (first [ intros e run H; apply r2_ws, r1_ws; exact H | reflexivity ]).
  reflexivity.
Qed.

Definition unmasked (s : text) : bool := forallb (fun c => negb (snd c)) s.
Lemma unmasked_lit : forall s, unmasked s = true -> lit s = [].
Proof.
  induction s as [| c s IH]; intros H; [reflexivity |].
  cbn in H. apply andb_true_iff in H. destruct H as [Hc Hs]. apply negb_true_iff in Hc.
  unfold lit in *. cbn. rewrite Hc. exact (IH Hs).
Qed.
Lemma unmasked_existsb : forall s, existsb snd s = false -> unmasked s = true.
Proof.
  induction s as [| c s IH]; intros H; [reflexivity |].
  cbn in H. apply orb_false_iff in H. destruct H as [Hc Hs].
  cbn. rewrite Hc. cbn. exact (IH Hs).
Qed.
Lemma unm_nl_closed : forall c : tchar, negb (snd c) = true -> negb (snd (NL, snd c)) = true.
Proof. intros c H. exact H. Qed.

Lemma r1_noop : forall e run, count_nl run < 4 -> r1 e run = run.
Proof.
  intros e run H. unfold r1. destruct (split_nl run) as [pre segs] eqn:E.
  rewrite (split_nl_count _ _ _ E) in H. destruct segs as [| g0 segs']; [reflexivity |].
  destruct (4 <=? length (g0 :: segs')) eqn:E4; [| reflexivity]. apply Nat.leb_le in E4. lia.
Qed.
Lemma r2_noop : forall e run, e = false \/ count_nl run < 2 -> r2 e run = run.
Proof.
  intros e run H. unfold r2. destruct (split_nl run) as [pre segs] eqn:E.
  rewrite (split_nl_count _ _ _ E) in H. destruct segs as [| g0 segs']; [reflexivity |].
  destruct (e && (2 <=? length (g0 :: segs'))) eqn:E2; [| reflexivity].
  apply andb_true_iff in E2. destruct E2 as [He E2]. apply Nat.leb_le in E2.
  destruct H as [H | H]; [congruence | lia].
Qed.
Lemma r3_noop : forall e run, e = true \/ count_nl run < 3 -> r3 e run = run.
Proof.
  intros e run H. unfold r3. destruct e; [reflexivity |].
  destruct H as [H | H]; [discriminate |].
  destruct (split_nl run) as [pre segs] eqn:E.
  rewrite (split_nl_count _ _ _ E) in H. destruct segs as [| g0 segs']; [reflexivity |].
  cbv zeta.
  destruct (snd (last (g0 :: segs') g0)).
  - destruct (4 <=? length (g0 :: segs')) eqn:E4; [| reflexivity]. apply Nat.leb_le in E4. lia.
  - destruct (3 <=? length (g0 :: segs')) eqn:E3; [| reflexivity]. apply Nat.leb_le in E3. lia.
Qed.

Lemma r123_lit : forall e run, run_ok e run = true -> lit (r123 e run) = lit run.
Proof.
  intros e run H. unfold run_ok in H. apply orb_true_iff in H. destruct H as [H | H].
  - apply negb_true_iff, unmasked_existsb in H.
    rewrite (unmasked_lit run H). apply unmasked_lit. unfold r123.
    apply (from_run_forallb _ (r2 e (r1 e run))); [apply unm_nl_closed | apply r3_from |].
    apply (from_run_forallb _ (r1 e run)); [apply unm_nl_closed | apply r2_from |].
    apply (from_run_forallb _ run); [apply unm_nl_closed | apply r1_from | exact H].
  - apply andb_true_iff in H. destruct H as [H3 H2]. apply Nat.ltb_lt in H3.
    unfold r123. rewrite (r1_noop e run) by lia.
    rewrite (r2_noop e run).
    + apply f_equal. apply r3_noop. right. exact H3.
    + destruct e; [right | left; reflexivity]. cbn [negb orb] in H2. apply Nat.ltb_lt in H2. exact H2.
Qed.

(* T11.2 (blank lines) *)
Theorem blank_lines_lit : forall s, g_blank s = true -> lit (blank_lines s) = lit s.
Proof.
  intros s H. rewrite blank_lines_runwise.
  exact (scan_lit_gen r123 run_ok r123_lit s [] H).
Qed.

(* R11.3 (blank lines): x = """a<NL><NL><NL><NL>b""" *)
Definition w_blank : text :=
  [(120, false); (32, false); (61, false); (32, false); (34, true); (34, true); (34, true); (97, true);
   (10, true); (10, true); (10, true); (10, true); (98, true); (34, true); (34, true); (34, true);
   (10, false)]%N.
Theorem blank_lines_lit_refuted : exists s, lit (blank_lines s) <> lit s.
Proof. exists w_blank. vm_compute. discriminate. Qed.

(* ---------------------------------------------------------------------------------------------- *)
(* the raw-text pre-pass of format_code *)

Theorem prepass_nonws : forall s, nonws (prepass s) = nonws s.
Proof.
  intros s. unfold prepass, expandtabs4.
  rewrite blank_lines_nonws, rmspace_nonws, expandtabs_nonws. reflexivity.
Qed.

Theorem prepass_lit : forall s,
  g_tab s = true -> g_trail (expandtabs4 s) = true -> g_blank (rmspace (expandtabs4 s)) = true ->
  lit (prepass s) = lit s.
Proof.
  intros s H1 H2 H3. unfold prepass.
  rewrite (blank_lines_lit _ H3), (rmspace_lit _ H2). apply expandtabs_lit. exact H1.
Qed.

(* ---------------------------------------------------------------------------------------------- *)
(* minimize_whitespace_line_differences *)

Definition new_seg (seg : tag * list line) : list line :=
  match fst seg with Keep | Add => snd seg | _ => [] end.

Lemma new_of_segments : forall sc, new_of sc = flat_map new_seg (segments sc).
Proof.
  induction sc as [| [t l] tl IH]; [reflexivity |].
  unfold new_of in *. cbn [flat_map segments]. rewrite IH.
  destruct (segments tl) as [| [t' ls] rest].
  - destruct t; reflexivity.
  - destruct (tag_eqb t t') eqn:E.
    + destruct t, t'; try discriminate E; reflexivity.
    + destruct t; reflexivity.
Qed.

Lemma has_ink_app : forall a b, has_ink (a ++ b) = has_ink a || has_ink b.
Proof. intros. apply existsb_app. Qed.

Lemma has_ink_concat : forall ls, has_ink (concat ls) = existsb has_ink ls.
Proof.
  induction ls as [| l ls IH]; [reflexivity |].
  cbn [concat existsb]. rewrite has_ink_app, IH. reflexivity.
Qed.

Lemma no_ink_filter : forall ls, has_ink (concat ls) = false -> filter has_ink ls = [].
Proof.
  intros ls. rewrite has_ink_concat.
  induction ls as [| l ls IH]; intros H; [reflexivity |].
  cbn in H. apply orb_false_iff in H. destruct H as [Hl Hls].
  cbn. rewrite Hl. exact (IH Hls).
Qed.

Lemma no_ink_nonws : forall s, has_ink s = false -> nonws s = [].
Proof.
  induction s as [| c s IH]; intros H; [reflexivity |].
  cbn in H. apply orb_false_iff in H. destruct H as [Hc Hs].
  unfold nonws in *. cbn. rewrite Hc. exact (IH Hs).
Qed.

Lemma filter_flat_map' : forall {A B} (p : B -> bool) (f : A -> list B) l,
  filter p (flat_map f l) = flat_map (fun x => filter p (f x)) l.
Proof.
  induction l as [| a l IH]; [reflexivity |].
  cbn. rewrite filter_app, IH. reflexivity.
Qed.

Lemma flat_map_ext_in : forall {A B} (f g : A -> list B) l,
  (forall x, In x l -> f x = g x) -> flat_map f l = flat_map g l.
Proof.
  induction l as [| a l IH]; intros H; [reflexivity |].
  cbn. rewrite (H a (or_introl eq_refl)), IH; [reflexivity |].
  intros x Hx. apply H. right. exact Hx.
Qed.

Lemma concat_flat_map' : forall {A B} (f : A -> list (list B)) l,
  concat (flat_map f l) = flat_map (fun x => concat (f x)) l.
Proof.
  induction l as [| a l IH]; [reflexivity |].
  cbn. rewrite concat_app, IH. reflexivity.
Qed.

(* T11.4: for EVERY script (whatever difflib produced), the non-blank lines of the result are exactly
   the non-blank lines of the new text, in order *)
Theorem minimize_ws_lines : forall sc,
  filter has_ink (minimize_ws sc) = filter has_ink (new_of sc).
Proof.
  intros sc. unfold minimize_ws. rewrite new_of_segments, !filter_flat_map'.
  apply flat_map_ext_in. intros [t ls] _.
  unfold keep_segment, new_seg. cbn [fst snd].
  destruct t; try reflexivity.
  - destruct (has_ink (concat ls)) eqn:E; [reflexivity |]. rewrite (no_ink_filter _ E). reflexivity.
  - destruct (has_ink (concat ls)) eqn:E; [reflexivity |]. apply no_ink_filter. exact E.
Qed.

Section MinProj.
Variable h : text -> list N.
Hypothesis h_app : forall a b, h (a ++ b) = h a ++ h b.
Hypothesis h_nil : h [] = [].

Lemma h_flat_map : forall {A} (f : A -> text) l, h (flat_map f l) = flat_map (fun x => h (f x)) l.
Proof.
  induction l as [| a l IH]; [exact h_nil |].
  cbn. rewrite h_app, IH. reflexivity.
Qed.

Lemma minimize_proj : forall sc,
  (forall seg, In seg (segments sc) -> h (concat (keep_segment seg)) = h (concat (new_seg seg))) ->
  h (concat (minimize_ws sc)) = h (concat (new_of sc)).
Proof.
  intros sc H. unfold minimize_ws. rewrite new_of_segments.
  rewrite (concat_flat_map' (B:=tchar) keep_segment), (concat_flat_map' (B:=tchar) new_seg), !h_flat_map.
  apply flat_map_ext_in. exact H.
Qed.
End MinProj.

(* T11.1 (minimize_ws): same non-whitespace characters as the new text *)
Theorem minimize_ws_nonws : forall sc,
  nonws (concat (minimize_ws sc)) = nonws (concat (new_of sc)).
Proof.
  intros sc. apply (minimize_proj nonws nonws_app eq_refl). intros [t ls] _.
  unfold keep_segment, new_seg. cbn [fst snd].
  destruct t; try reflexivity.
  - destruct (has_ink (concat ls)) eqn:E; [reflexivity |]. rewrite (no_ink_nonws _ E). reflexivity.
  - destruct (has_ink (concat ls)) eqn:E; [reflexivity |]. apply no_ink_nonws. exact E.
Qed.

(* T11.2 (minimize_ws): literals as in the new text when no masked character sits in a whitespace-only
   inserted or deleted segment *)
Theorem minimize_ws_lit : forall sc,
  g_script sc = true -> lit (concat (minimize_ws sc)) = lit (concat (new_of sc)).
Proof.
  intros sc G. apply (minimize_proj lit lit_app eq_refl). intros [t ls] Hin.
  unfold g_script in G. rewrite forallb_forall in G. specialize (G _ Hin).
  unfold seg_ok, keep_segment, new_seg in *. cbn [fst snd] in *.
  destruct t; try reflexivity.
  - destruct (has_ink (concat ls)) eqn:E; [reflexivity |]. cbn [orb] in G.
    apply negb_true_iff, unmasked_existsb, unmasked_lit in G. rewrite G. reflexivity.
  - destruct (has_ink (concat ls)) eqn:E; [reflexivity |]. cbn [orb] in G.
    apply negb_true_iff, unmasked_existsb, unmasked_lit in G. exact G.
Qed.

(* without the guard: a blank line inside a literal of the new text can disappear *)
Definition w_script : script :=
  [(Keep, [(34, true); (34, true); (34, true); (10, true)]); (Add, [(10, true)]);
   (Keep, [(34, true); (34, true); (34, true); (10, false)])]%N.
Theorem minimize_ws_lit_refuted :
  exists sc, lit (concat (minimize_ws sc)) <> lit (concat (new_of sc)).
Proof. exists w_script. vm_compute. discriminate. Qed.

(* ---------------------------------------------------------------------------------------------- *)
(* indentation columns under expandtabs *)

Lemma col_after_spaces : forall ts b col, col_after ts col (repeat SP b) = col + b.
Proof.
  intros ts. induction b as [| b IH]; intros col; cbn [repeat col_after].
  - lia.
  - change (is_tab SP) with false. cbv iota. rewrite IH. lia.
Qed.

Lemma col_after_app : forall ts a b col, col_after ts col (a ++ b) = col_after ts (col_after ts col a) b.
Proof.
  intros ts. induction a as [| c a IH]; intros b col; [reflexivity |].
  cbn [app col_after]. destruct (is_tab c); apply IH.
Qed.

Lemma col_after_tabs : forall ts a k, ts <> 0 -> col_after ts (k * ts) (repeat TAB a) = (k + a) * ts.
Proof.
  intros ts. induction a as [| a IH]; intros k Hts; cbn [repeat col_after].
  - f_equal. lia.
  - change (is_tab TAB) with true. cbv iota.
    rewrite Nat.div_mul by exact Hts. rewrite (IH (k + 1) Hts). f_equal. lia.
Qed.

Lemma col_indent_ts : forall ts a b, ts <> 0 -> col_after ts 0 (indent_ts a b) = a * ts + b.
Proof.
  intros ts a b Hts. unfold indent_ts. rewrite col_after_app.
  change 0 with (0 * ts) at 1. rewrite (col_after_tabs ts a 0 Hts), col_after_spaces. lia.
Qed.

Lemma tab_stop : forall ts col, ts <> 0 -> col + (ts - col mod ts) = (col / ts + 1) * ts.
Proof.
  intros ts col Hts.
  pose proof (Nat.div_mod col ts Hts) as H1.
  pose proof (Nat.mod_upper_bound col ts Hts) as H2. nia.
Qed.

Definition blanks_only (s : list N) : bool := forallb (fun c => N.eqb c SP || N.eqb c TAB) s.

Lemma plain_repeat : forall c m n, plain (repeat (c, m) n) = repeat c n.
Proof. induction n as [| n IH]; [reflexivity |]. cbn. f_equal. exact IH. Qed.

(* expanding an indentation string gives exactly (its column) spaces *)
Lemma expand_blanks : forall ts s col, ts <> 0 -> blanks_only s = true ->
  col <= col_after ts col s /\
  plain (expandtabs_from ts col (untagged s)) = repeat SP (col_after ts col s - col).
Proof.
  intros ts. induction s as [| c s IH]; intros col Hts Hb.
  - cbn. split; [lia |]. rewrite Nat.sub_diag. reflexivity.
  - cbn in Hb. apply andb_true_iff in Hb. destruct Hb as [Hc Hs].
    cbn [untagged map expandtabs_from col_after].
    destruct (is_tab c) eqn:Ht.
    + destruct (IH (col + (ts - col mod ts)) Hts Hs) as [Hle Heq].
      rewrite <- (tab_stop ts col Hts). split; [lia |].
      rewrite plain_app. fold (untagged s). rewrite Heq.
      rewrite plain_repeat.
      rewrite <- repeat_app. f_equal. lia.
    + assert (c = SP) as ->.
      { apply orb_true_iff in Hc. destruct Hc as [Hc | Hc]; apply N.eqb_eq in Hc; [exact Hc |].
        subst c. discriminate Ht. }
      change (N.eqb SP NL || N.eqb SP CR) with false. cbv iota.
      destruct (IH (S col) Hts Hs) as [Hle Heq]. split; [lia |].
      fold (untagged s). cbn [plain map fst]. fold (plain (expandtabs_from ts (S col) (untagged s))).
      rewrite Heq. replace (col_after ts (S col) s - col) with (S (col_after ts (S col) s - S col)) by lia.
      reflexivity.
Qed.

Lemma blanks_indent_ts : forall a b, blanks_only (indent_ts a b) = true.
Proof.
  intros a b. unfold blanks_only, indent_ts. rewrite forallb_app. apply andb_true_iff. split.
  - induction a; [reflexivity | exact IHa].
  - induction b; [reflexivity | exact IHb].
Qed.

Lemma expand_indent_ts : forall a b, expandtabs_plain 4 (indent_ts a b) = repeat SP (a * 4 + b).
Proof.
  intros a b. unfold expandtabs_plain.
  destruct (expand_blanks 4 (indent_ts a b) 0 (ltac:(discriminate)) (blanks_indent_ts a b)) as [_ H].
  rewrite H, col_indent_ts by discriminate. f_equal. lia.
Qed.

Lemma col_spaces : forall ts n, col_after ts 0 (repeat SP n) = n.
Proof. intros. rewrite col_after_spaces. reflexivity. Qed.

(* T11.6: for indentation strings of the form TAB* SP*, the order CPython sees (tab size 8, checked against
   tab size 1) is the order after expandtabs(4) -- under every tab size, since no tab is left *)
Theorem indent_order_preserved : forall a b a' b' c ts,
  indent_cmp (indent_ts a b) (indent_ts a' b') = Some c ->
  Nat.compare (col_after ts 0 (expandtabs_plain 4 (indent_ts a b)))
              (col_after ts 0 (expandtabs_plain 4 (indent_ts a' b'))) = c.
Proof.
  intros a b a' b' c ts H. rewrite !expand_indent_ts, !col_spaces.
  unfold indent_cmp in H. rewrite !col_indent_ts in H by discriminate.
  destruct (Nat.compare_spec (a * 8 + b) (a' * 8 + b')) as [E8 | E8 | E8];
    destruct (Nat.compare_spec (a * 1 + b) (a' * 1 + b')) as [E1 | E1 | E1];
    cbn in H; try discriminate H; inversion H; subst c.
  - apply Nat.compare_eq_iff. lia.
  - apply Nat.compare_lt_iff. lia.
  - apply Nat.compare_gt_iff. lia.
Qed.

Corollary indent_cmp_preserved : forall a b a' b' c,
  indent_cmp (indent_ts a b) (indent_ts a' b') = Some c ->
  indent_cmp (expandtabs_plain 4 (indent_ts a b)) (expandtabs_plain 4 (indent_ts a' b')) = Some c.
Proof.
  intros a b a' b' c H. unfold indent_cmp at 1.
  rewrite (indent_order_preserved _ _ _ _ _ 8 H), (indent_order_preserved _ _ _ _ _ 1 H).
  destruct c; reflexivity.
Qed.

(* R11.5: in general the order is NOT preserved: 4 spaces + tab (columns 8/5) is consistently shallower
   than 3 spaces + tab + 2 spaces (10/6); after expandtabs(4) they are 8 and 6 *)
Definition w_ind1 : list N := [32; 32; 32; 32; 9]%N.
Definition w_ind2 : list N := [32; 32; 32; 9; 32; 32]%N.
Theorem indent_order_refuted : exists s1 s2,
  blanks_only s1 = true /\ blanks_only s2 = true /\
  indent_cmp s1 s2 = Some Lt /\
  indent_cmp (expandtabs_plain 4 s1) (expandtabs_plain 4 s2) = Some Gt.
Proof. exists w_ind1, w_ind2. vm_compute. repeat split. Qed.

(* ---------------------------------------------------------------------------------------------- *)
(* fix_import_spacing *)

Lemma skipn_skipn' : forall {A} (l : list A) x y, skipn x (skipn y l) = skipn (y + x) l.
Proof.
  intros A l x y. revert l. induction y as [| y IH]; intros l; [reflexivity |].
  destruct l as [| a l]; [destruct x; reflexivity |]. cbn. apply IH.
Qed.

Lemma split_three : forall {A} (t : list A) a b, a <= b ->
  t = firstn a t ++ firstn (b - a) (skipn a t) ++ skipn b t.
Proof.
  intros A t a b H.
  rewrite <- (firstn_skipn a t) at 1. f_equal.
  rewrite <- (firstn_skipn (b - a) (skipn a t)) at 1. f_equal.
  rewrite skipn_skipn'. f_equal. lia.
Qed.

Lemma firstn_skipn_swap : forall {A} (l : list A) n m, firstn m (skipn n l) = skipn n (firstn (n + m) l).
Proof.
  intros A l n. revert l. induction n as [| n IH]; intros l m; [reflexivity |].
  destruct l as [| a l]; [destruct m; reflexivity |]. cbn. apply IH.
Qed.

Lemma slice_agree : forall (t s : text) a b hi,
  a <= b -> b <= hi -> firstn hi t = firstn hi s -> slice t a b = slice s a b.
Proof.
  intros t s a b hi Hab Hb H. unfold slice. rewrite !firstn_skipn_swap.
  replace (a + (b - a)) with b by lia.
  assert (E : forall l : text, firstn b l = firstn b (firstn hi l)).
  { intros l. rewrite firstn_firstn. f_equal. lia. }
  rewrite (E t), (E s), H. reflexivity.
Qed.

Section ApplyAll.
Variable h : text -> list N.
Hypothesis h_app : forall a b, h (a ++ b) = h a ++ h b.
Variable P : text -> bool.
Hypothesis P_h : forall x, P x = true -> h x = [].
Variable s : text.

Definition okrepl (kr : repl) : Prop :=
  P (slice s (fst (fst kr)) (snd (fst kr))) = true /\ P (snd kr) = true.

Lemma apply_all_proj : forall rs t hi,
  desc_disjoint hi rs = true -> hi <= length t -> firstn hi t = firstn hi s ->
  Forall okrepl rs -> h (apply_all t rs) = h t.
Proof.
  induction rs as [| [[a b] r] tl IH]; intros t hi Hd Hlen Hag Hok; [reflexivity |].
  cbn [apply_all desc_disjoint fst snd] in *.
  apply andb_true_iff in Hd. destruct Hd as [Hd Hd3]. apply andb_true_iff in Hd. destruct Hd as [Hd1 Hd2].
  apply Nat.leb_le in Hd1. apply Nat.leb_le in Hd2.
  inversion Hok as [| x l [Hs Hr] Htl]; subst. cbn [fst snd] in *.
  rewrite (IH _ a Hd3).
  - unfold replace_range. rewrite (split_three t a b Hd1) at 3.
    rewrite !h_app. f_equal. f_equal.
    rewrite (P_h _ Hr). fold (slice t a b). rewrite (slice_agree t s a b hi Hd1 Hd2 Hag).
    rewrite (P_h _ Hs). reflexivity.
  - unfold replace_range. rewrite app_length, firstn_length. lia.
  - unfold replace_range. rewrite firstn_app, firstn_firstn, firstn_length.
    replace (a - Nat.min a (length t)) with 0 by lia. cbn [firstn]. rewrite app_nil_r.
    replace (Nat.min a a) with a by lia.
    assert (E : forall l : text, firstn a l = firstn a (firstn hi l)).
    { intros l. rewrite firstn_firstn. f_equal. lia. }
    rewrite (E t), (E s), Hag. reflexivity.
  - exact Htl.
Qed.
End ApplyAll.

Lemma insert_desc_Forall : forall (Q : repl -> Prop) x l, Q x -> Forall Q l -> Forall Q (insert_desc x l).
Proof.
  intros Q x. induction l as [| y l IH]; intros Hx Hl; cbn.
  - constructor; [exact Hx | constructor].
  - inversion Hl; subst. destruct (range_ltb (fst x) (fst y)).
    + constructor; [assumption | apply IH; assumption].
    + constructor; assumption.
Qed.

Lemma sort_desc_Forall : forall (Q : repl -> Prop) l, Forall Q l -> Forall Q (sort_desc l).
Proof.
  intros Q. induction l as [| x l IH]; intros H; [constructor |].
  inversion H; subst. cbn. apply insert_desc_Forall; [assumption | apply IH; assumption].
Qed.

Lemma all_ws_repeat : forall c m n, is_space c = true -> all_ws (repeat (c, m) n) = true.
Proof. intros c m n H. induction n as [| n IH]; [reflexivity |]. cbn. rewrite H. exact IH. Qed.

Lemma unmasked_repeat : forall c n, unmasked (repeat (c, false) n) = true.
Proof. intros c n. induction n as [| n IH]; [reflexivity | exact IH]. Qed.

Lemma unmasked_app : forall a b, unmasked (a ++ b) = unmasked a && unmasked b.
Proof. intros. apply forallb_app. Qed.

(* what fix_import_spacing decides to write is whitespace, over whitespace, and unmasked over unmasked *)
Definition fine (s : text) (kr : repl) : Prop :=
  let old := slice s (fst (fst kr)) (snd (fst kr)) in
  all_ws old = true /\ all_ws (snd kr) = true /\ (unmasked old = true -> unmasked (snd kr) = true).

Lemma decide_fine : forall a b btw indent r, decide a b btw indent = Some r ->
  all_ws btw = true /\ all_ws r = true /\ (unmasked btw = true -> unmasked r = true).
Proof.
  intros a b btw indent r H. unfold decide in H.
  destruct (existsb (fun c => negb (is_nl (fst c) || N.eqb (fst c) SP)) btw) eqn:E; [discriminate |].
  assert (Hws : all_ws btw = true).
  { apply forallb_forall. intros x Hx.
    pose proof (existsb_exists (fun c => negb (is_nl (fst c) || N.eqb (fst c) SP)) btw) as EE.
    destruct (negb (is_nl (fst x) || N.eqb (fst x) SP)) eqn:Ex.
    - assert (existsb (fun c => negb (is_nl (fst c) || N.eqb (fst c) SP)) btw = true) as C
        by (apply EE; exists x; split; assumption). congruence.
    - apply negb_false_iff, orb_true_iff in Ex. destruct Ex as [Ex | Ex].
      + apply nl_is_space. exact Ex.
      + apply N.eqb_eq in Ex. rewrite Ex. reflexivity. }
  assert (Hsp : forall m n, all_ws (spacing m n indent) = true).
  { intros m n. unfold spacing. rewrite all_ws_app, !all_ws_repeat by reflexivity. reflexivity. }
  assert (Hun : forall n, unmasked btw = true ->
                unmasked (spacing (match btw with c :: _ => snd c | [] => false end) n indent) = true).
  { intros n Hu. destruct btw as [| c btw'].
    - unfold spacing. rewrite unmasked_app, !unmasked_repeat. reflexivity.
    - cbn in Hu. apply andb_true_iff in Hu. destruct Hu as [Hc _]. apply negb_true_iff in Hc.
      rewrite Hc. unfold spacing. rewrite unmasked_app, !unmasked_repeat. reflexivity. }
  destruct (correct_newlines a b) as [n |]; [| discriminate].
  destruct ((n =? 1) && (1 <? count_nl btw)).
  - inversion H; subst. split; [exact Hws | split; [apply Hsp | apply Hun]].
  - destruct (negb (n =? count_nl btw) && (0 <? count_nl btw)); [| discriminate].
    inversion H; subst. split; [exact Hws | split; [apply Hsp | apply Hun]].
Qed.

Lemma dict_set_Forall : forall s k v d,
  fine s (k, v) -> Forall (fine s) d -> Forall (fine s) (dict_set k v d).
Proof.
  intros s k v. induction d as [| [k' v'] d IH]; intros Hk Hd; cbn.
  - constructor; [exact Hk | constructor].
  - inversion Hd; subst.
    destruct ((fst k =? fst k') && (snd k =? snd k')) eqn:E.
    + apply andb_true_iff in E. destruct E as [E1 E2]. apply Nat.eqb_eq in E1. apply Nat.eqb_eq in E2.
      constructor; [| assumption]. unfold fine in *. cbn [fst snd] in *. rewrite <- E1, <- E2. exact Hk.
    + constructor; [assumption | apply IH; assumption].
Qed.

Lemma collect_fine : forall s ps, Forall (fine s) (collect s ps).
Proof.
  intros s ps. unfold collect.
  assert (G : forall d, Forall (fine s) d ->
    Forall (fine s) (fold_left (fun d p =>
      match decide (p_a p) (p_b p) (slice s (p_start p) (p_end p)) (p_indent p) with
      | Some r => dict_set (p_start p, p_end p) r d
      | None => d
      end) ps d)).
  { induction ps as [| p ps IH]; intros d Hd; [exact Hd |].
    cbn [fold_left]. apply IH.
    destruct (decide (p_a p) (p_b p) (slice s (p_start p) (p_end p)) (p_indent p)) as [r |] eqn:E; [| exact Hd].
    apply dict_set_Forall; [| exact Hd]. unfold fine. cbn [fst snd]. exact (decide_fine _ _ _ _ _ E). }
  apply G. constructor.
Qed.

(* T11.1 (import spacing): when the replaced ranges are in bounds and disjoint, only whitespace changes *)
Theorem import_spacing_nonws : forall s ps,
  g_ranges s ps = true -> nonws (import_spacing s ps) = nonws s.
Proof.
  intros s ps G. unfold import_spacing, g_ranges in *.
  apply (apply_all_proj nonws nonws_app all_ws all_ws_nonws s _ s (length s) G (le_n _) eq_refl).
  apply sort_desc_Forall. eapply Forall_impl; [| apply collect_fine].
  intros kr [H1 [H2 _]]. split; assumption.
Qed.

(* T11.2 (import spacing) *)
Theorem import_spacing_lit : forall s ps,
  g_ranges s ps = true -> g_ranges_lit s ps = true -> lit (import_spacing s ps) = lit s.
Proof.
  intros s ps G GL. unfold import_spacing, g_ranges, g_ranges_lit in *.
  apply (apply_all_proj lit lit_app unmasked unmasked_lit s _ s (length s) G (le_n _) eq_refl).
  apply sort_desc_Forall.
  rewrite forallb_forall in GL.
  pose proof (collect_fine s ps) as F. rewrite Forall_forall in *.
  intros kr Hin. destruct (F kr Hin) as [_ [_ H3]].
  specialize (GL kr Hin). apply negb_true_iff, unmasked_existsb in GL.
  split; [exact GL | exact (H3 GL)].
Qed.

(* without the range guard the sequential replacement can eat code: `x NL NL NL y` with the (never
   observed) overlapping ranges [2,4) and [1,4) between imports of the same group *)
Definition w_imp_text : text := untagged [120; 10; 10; 10; 121]%N.
Definition k_imp : kind := mkKind true true false false.
Definition w_imp_pairs : list pair_info := [mkPair k_imp k_imp 2 4 0; mkPair k_imp k_imp 1 4 0].
Theorem import_spacing_nonws_refuted : exists s ps, nonws (import_spacing s ps) <> nonws s.
Proof. exists w_imp_text, w_imp_pairs. vm_compute. discriminate. Qed.

(* ---------------------------------------------------------------------------------------------- *)
(* the guards of the whole pre-pass can be checked on the INPUT text *)

Lemma trailing_spaces : forall m n rest, trailing (repeat (SP, m) n ++ rest) = trailing rest.
Proof. induction n as [| n IH]; intros rest; [reflexivity |]. cbn. apply IH. Qed.

Lemma trailing_expandtabs : forall ts s col, trailing (expandtabs_from ts col s) = trailing s.
Proof.
  intros ts. induction s as [| [c m] tl IH]; intros col; [reflexivity |].
  cbn [expandtabs_from]. destruct (is_tab c) eqn:Ht.
  - rewrite trailing_spaces, IH. cbn. rewrite (tab_is_blank _ Ht). reflexivity.
  - destruct (N.eqb c NL || N.eqb c CR); cbn; rewrite IH; reflexivity.
Qed.

Lemma g_trail_spaces : forall n rest, g_trail (repeat (SP, false) n ++ rest) = g_trail rest.
Proof. induction n as [| n IH]; intros rest; [reflexivity |]. cbn. apply IH. Qed.

Lemma g_trail_expandtabs : forall ts s col,
  g_tab s = true -> g_trail (expandtabs_from ts col s) = g_trail s.
Proof.
  intros ts. induction s as [| [c m] tl IH]; intros col H; [reflexivity |].
  unfold g_tab in H. cbn in H. apply andb_true_iff in H. destruct H as [Hc Htl].
  cbn [expandtabs_from]. destruct (is_tab c) eqn:Ht.
  - rewrite andb_true_r in Hc. apply negb_true_iff in Hc. subst m.
    rewrite g_trail_spaces, (IH _ Htl). reflexivity.
  - destruct (N.eqb c NL || N.eqb c CR); cbn [g_trail fst snd];
      rewrite trailing_expandtabs, (IH _ Htl); reflexivity.
Qed.

(* run_ok only looks at the number of newlines of the run and at whether it holds a masked character *)
Definition ok (e : bool) (k : nat) (m : bool) : bool := negb m || ((k <? 3) && (negb e || (k <? 2))).

Fixpoint rf (k : nat) (m : bool) (s : text) : bool :=
  match s with
  | [] => ok true k m
  | c :: tl => if is_space (fst c) then rf (if is_nl (fst c) then S k else k) (m || snd c) tl
               else ok false k m && rf 0 false tl
  end.

Lemma count_nl_rev : forall run, count_nl (rev run) = count_nl run.
Proof.
  intros run. unfold count_nl. induction run as [| c run IH]; [reflexivity |].
  cbn [rev]. rewrite filter_app, app_length. cbn [filter].
  destruct (is_nl (fst c)); cbn [length]; unfold tchar in *; lia.
Qed.

Lemma existsb_rev' : forall {A} (f : A -> bool) l, existsb f (rev l) = existsb f l.
Proof.
  intros A f. induction l as [| a l IH]; [reflexivity |].
  cbn [rev]. rewrite existsb_app, IH. cbn. rewrite orb_false_r. apply orb_comm.
Qed.

Lemma run_ok_state : forall e run, run_ok e (rev run) = ok e (count_nl run) (existsb snd run).
Proof. intros. unfold run_ok, ok. rewrite count_nl_rev, existsb_rev'. reflexivity. Qed.

Lemma runs_forall_rf : forall s run,
  runs_forall run_ok run s = rf (count_nl run) (existsb snd run) s.
Proof.
  induction s as [| c tl IH]; intros run.
  - cbn. apply run_ok_state.
  - cbn [runs_forall rf]. destruct (is_space (fst c)) eqn:Hs.
    + rewrite IH. unfold count_nl. cbn [filter existsb].
      destruct (is_nl (fst c)); cbn [length]; f_equal. apply orb_comm. apply orb_comm.
    + rewrite run_ok_state, IH. reflexivity.
Qed.

Lemma g_blank_rf : forall s, g_blank s = rf 0 false s.
Proof. intros. unfold g_blank. rewrite runs_forall_rf. reflexivity. Qed.

Lemma rf_spaces : forall n k m rest, rf k m (repeat (SP, false) n ++ rest) = rf k m rest.
Proof.
  induction n as [| n IH]; intros k m rest; [reflexivity |].
  cbn [repeat app rf fst snd]. change (is_space SP) with true. change (is_nl SP) with false.
  cbv iota. rewrite orb_false_r. apply IH.
Qed.

Lemma tab_space_not_nl : forall c, is_tab c = true -> is_space c = true /\ is_nl c = false.
Proof. intros c H. unfold is_tab in H. apply N.eqb_eq in H. subst. split; reflexivity. Qed.

Lemma rf_expandtabs : forall ts s col k m,
  g_tab s = true -> rf k m (expandtabs_from ts col s) = rf k m s.
Proof.
  intros ts. induction s as [| [c b] tl IH]; intros col k m H; [reflexivity |].
  unfold g_tab in H. cbn in H. apply andb_true_iff in H. destruct H as [Hc Htl].
  cbn [expandtabs_from]. destruct (is_tab c) eqn:Ht.
  - rewrite andb_true_r in Hc. apply negb_true_iff in Hc. subst b.
    rewrite rf_spaces, (IH _ _ _ Htl). cbn [rf fst snd].
    destruct (tab_space_not_nl _ Ht) as [H1 H2]. rewrite H1, H2, orb_false_r. reflexivity.
  - destruct (N.eqb c NL || N.eqb c CR); cbn [rf fst snd];
      destruct (is_space c); rewrite ?(IH _ _ _ Htl); reflexivity.
Qed.

Lemma blank_space_not_nl : forall c, is_blank c = true -> is_space c = true /\ is_nl c = false.
Proof.
  intros c H. split; [apply blank_is_space; exact H |].
  destruct (is_nl c) eqn:E; [| reflexivity]. rewrite (nl_not_blank _ E) in H. discriminate.
Qed.

Lemma rf_rmspace : forall s k m, g_trail s = true -> rf k m (rmspace s) = rf k m s.
Proof.
  induction s as [| [c b] tl IH]; intros k m H; [reflexivity |].
  cbn [g_trail fst snd] in H. apply andb_true_iff in H. destruct H as [Hc Htl].
  cbn [rmspace fst]. destruct (is_blank c && trailing tl) eqn:Hd.
  - rewrite <- andb_assoc, Hd, andb_true_r in Hc. apply negb_true_iff in Hc. subst b.
    apply andb_true_iff in Hd. destruct Hd as [Hb _].
    destruct (blank_space_not_nl _ Hb) as [H1 H2].
    rewrite (IH _ _ Htl). cbn [rf fst snd]. rewrite H1, H2, orb_false_r. reflexivity.
  - cbn [rf fst snd]. destruct (is_space c); rewrite ?(IH _ _ Htl); reflexivity.
Qed.

(* T11.2 for the whole pre-pass, with the three guards evaluated on the input *)
Theorem prepass_lit_input : forall s,
  g_tab s = true -> g_trail s = true -> g_blank s = true -> lit (prepass s) = lit s.
Proof.
  intros s H1 H2 H3. apply prepass_lit; [exact H1 | |].
  - unfold expandtabs4. rewrite (g_trail_expandtabs _ _ _ H1). exact H2.
  - rewrite g_blank_rf, rf_rmspace.
    + unfold expandtabs4. rewrite (rf_expandtabs _ _ _ _ _ H1), <- g_blank_rf. exact H3.
    + unfold expandtabs4. rewrite (g_trail_expandtabs _ _ _ H1). exact H2.
Qed.
