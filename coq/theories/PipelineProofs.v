(* K7/C01 -- theorems about the orchestration model PipelineModel.v.  All statements are parametric in the
   text type, the stage functions, the guards, the number of rules in _multi_run_fixes and the pass bound. *)
From Coq Require Import List Arith Bool Lia.
Import ListNotations.
Require Import Pyrefact.PipelineModel.

Section Proofs.
  Variables src P : Type.
  Variable src_eqb : src -> src -> bool.
  Variable stage : kind -> option (ctx src P) -> src -> src.
  Variables is_skip is_blank valid : src -> bool.
  Variable indent_level : src -> nat.
  Variable safe_preserve : P -> src -> P.
  Variable n_multi : nat.
  Variable max_passes : nat.

  Notation state := (state src).
  Notation run := (run src P stage).
  Notation run_if := (run_if src P stage).
  Notation multi_pass := (multi_pass src P stage n_multi).
  Notation multi_kinds := (multi_kinds n_multi).
  Notation loop := (loop src P src_eqb stage n_multi).
  Notation prepass := (prepass src P stage).
  Notation dedented := (dedented src P stage valid).
  Notation min_indent := (min_indent src valid indent_level).
  Notation the_ctx := (the_ctx src P valid indent_level safe_preserve).
  Notation body := (body src P src_eqb stage valid indent_level safe_preserve n_multi max_passes).
  Notation traced := (format_code_traced src P src_eqb stage is_skip is_blank valid indent_level safe_preserve n_multi max_passes).
  Notation model := (format_code_model src P src_eqb stage is_skip is_blank valid indent_level safe_preserve n_multi max_passes).
  Notation trace := (format_code_trace src P src_eqb stage is_skip is_blank valid indent_level safe_preserve n_multi max_passes).
  Notation exit_of := (exit_of src P stage is_skip is_blank valid).
  Notation reachable := (reachable n_multi).
  Notation reachable_for := (reachable_for src P stage valid indent_level n_multi).

  (* ------------------------------------------------------------------ trace shape *)
  Lemma run_snd c k st : snd (run c k st) = snd st ++ [k].
  Proof. reflexivity. Qed.
  Lemma run_fst c k st : fst (run c k st) = stage k c (fst st).
  Proof. reflexivity. Qed.
  Lemma run_if_snd b c k st : snd (run_if b c k st) = snd st ++ (if b then [k] else []).
  Proof. destruct b; cbn; [reflexivity | now rewrite app_nil_r]. Qed.

  Lemma fold_run_snd c l : forall st,
    snd (fold_left (fun st k => run c k st) l st) = snd st ++ l.
  Proof.
    induction l as [|k l IH]; intros st; cbn [fold_left].
    - now rewrite app_nil_r.
    - rewrite IH, run_snd, <- app_assoc. reflexivity.
  Qed.
  Lemma multi_pass_snd c st : snd (multi_pass c st) = snd st ++ multi_kinds.
  Proof. apply fold_run_snd. Qed.

  Fixpoint passes (n : nat) : list kind :=
    match n with O => [] | S m => multi_kinds ++ passes m end.

  Lemma loop_snd c : forall fuel hist st,
    exists n, n <= fuel /\ (1 <= fuel -> 1 <= n) /\
              snd (snd (loop fuel c hist st)) = snd st ++ passes n.
  Proof.
    induction fuel as [|f IH]; intros hist st; cbn [PipelineModel.loop].
    - exists 0. cbn. rewrite app_nil_r. repeat split; lia.
    - destruct (mem src src_eqb (fst (multi_pass c st)) hist).
      + exists 1. cbn [snd passes]. rewrite multi_pass_snd, app_nil_r. repeat split; lia.
      + destruct (IH (fst (multi_pass c st) :: hist) (multi_pass c st)) as (n & Hn & _ & E).
        exists (S n). rewrite E, multi_pass_snd. cbn [passes]. rewrite <- app_assoc.
        repeat split; lia.
  Qed.

  (* the exact shape of the trace of the main body: pre ; >=1 passes ; abstractions ; >=0 passes ; post *)
  Definition body_pre (keep top : bool) : list kind :=
    (if top then [KAddImports] else []) ++ [KSingleRun keep].
  Definition body_post (keep top : bool) : list kind :=
    (if top then [KAlign] else []) ++ (if top then [KAddImports] else [])
    ++ (if top && negb keep then [KRemoveUnused] else [])
    ++ [KSortImports; KLineLengths; KRmspace] ++ (if negb top then [KIndent] else []) ++ [KMinWs].

  Lemma body_trace o orig st :
    exists n1 n2, n1 <= max_passes /\ (1 <= max_passes -> 1 <= n1) /\ n2 <= max_passes /\
      snd (body o orig st) =
        snd st ++ body_pre (o_keep P o) (Nat.eqb (min_indent orig) 0) ++ passes n1
               ++ [KOverused; KSimplifyAssign] ++ passes n2
               ++ body_post (o_keep P o) (Nat.eqb (min_indent orig) 0).
  Proof.
    unfold PipelineModel.body.
    set (c := Some (the_ctx o orig (fst st))).
    set (top := Nat.eqb (min_indent orig) 0).
    set (st1 := run c (KSingleRun (o_keep P o)) (run_if top c KAddImports st)).
    destruct (loop_snd c max_passes [fst st1] st1) as (n1 & Hn1 & Hn1' & E1).
    destruct (loop max_passes c [fst st1] st1) as [h1 st2] eqn:L1. cbn [snd] in E1.
    set (st3 := run c KSimplifyAssign (run c KOverused st2)).
    assert (E3 : snd st3 = snd st ++ body_pre (o_keep P o) top ++ passes n1 ++ [KOverused; KSimplifyAssign]).
    { unfold st3. rewrite !run_snd, E1. unfold st1. rewrite run_snd, run_if_snd.
      unfold body_pre. rewrite <- !app_assoc. reflexivity. }
    assert (exists n2, n2 <= max_passes /\
              snd (snd (if mem src src_eqb (fst st3) h1 then (h1, st3) else loop max_passes c h1 st3))
              = snd st3 ++ passes n2) as (n2 & Hn2 & E4).
    { destruct (mem src src_eqb (fst st3) h1).
      - exists 0. cbn. rewrite app_nil_r. split; [lia | reflexivity].
      - destruct (loop_snd c max_passes h1 st3) as (n & Hn & _ & E). exists n. split; assumption. }
    destruct (if mem src src_eqb (fst st3) h1 then (h1, st3) else loop max_passes c h1 st3) as [h2 st4].
    cbn [snd] in E4.
    exists n1, n2. repeat split; try assumption.
    rewrite !run_snd, !run_if_snd, !run_snd, !run_if_snd, E4, E3. unfold body_post.
    rewrite <- !app_assoc. reflexivity.
  Qed.

  (* ------------------------------------------------------------------ early returns, exactly *)
  Lemma prepass_eq s :
    prepass s = (stage KBlankLines None (stage KRmspace None (stage KExpandTabs None s)),
                 [KExpandTabs; KRmspace; KBlankLines]).
  Proof. reflexivity. Qed.

  Lemma exit_skip o s : is_skip s = true -> traced o s = (s, []).
  Proof. intros H. unfold format_code_traced. now rewrite H. Qed.

  Lemma exit_blank o s :
    is_skip s = false -> is_blank (fst (prepass s)) = true -> traced o s = prepass s.
  Proof. intros H1 H2. unfold format_code_traced. now rewrite H1, H2. Qed.

  Lemma exit_invalid o s :
    is_skip s = false -> is_blank (fst (prepass s)) = false ->
    valid (fst (dedented (prepass s))) = false ->
    traced o s = run None KDedent (prepass s) /\ valid (fst (prepass s)) = false.
  Proof.
    intros H1 H2 H3. unfold format_code_traced. rewrite H1, H2, H3. cbn [negb].
    unfold PipelineModel.dedented, PipelineModel.run_if in *.
    destruct (valid (fst (prepass s))) eqn:V; cbn [negb] in *.
    - congruence.
    - split; reflexivity.
  Qed.

  Lemma no_exit o s :
    exit_of s = NoExit -> traced o s = body o (fst (prepass s)) (dedented (prepass s)).
  Proof.
    unfold PipelineModel.exit_of, format_code_traced.
    destruct (is_skip s); [discriminate|].
    destruct (is_blank (fst (prepass s))); [discriminate|].
    destruct (negb (valid (fst (dedented (prepass s))))); [discriminate|]. reflexivity.
  Qed.

  Lemma exit_cases s :
    match exit_of s with
    | ExitSkip => is_skip s = true
    | ExitBlank => is_skip s = false /\ is_blank (fst (prepass s)) = true
    | ExitInvalid => is_skip s = false /\ is_blank (fst (prepass s)) = false
                     /\ valid (fst (dedented (prepass s))) = false
    | NoExit => is_skip s = false /\ is_blank (fst (prepass s)) = false
                /\ valid (fst (dedented (prepass s))) = true
    end.
  Proof.
    unfold PipelineModel.exit_of.
    destruct (is_skip s); [reflexivity|].
    destruct (is_blank (fst (prepass s))); [now split|].
    destruct (valid (fst (dedented (prepass s)))); cbn [negb]; repeat split.
  Qed.

  Lemma dedented_snd st :
    snd (dedented st) = snd st ++ (if negb (valid (fst st)) then [KDedent] else []).
  Proof. unfold PipelineModel.dedented. apply run_if_snd. Qed.

  (* ------------------------------------------------------------------ T01.2 reachable set is exact *)
  Lemma in_passes k : forall n, In k (passes n) -> In k multi_kinds.
  Proof.
    induction n as [|n IH]; cbn [passes]; intros H; [contradiction|].
    apply in_app_iff in H. tauto.
  Qed.
  Lemma passes_ge1 k n : 1 <= n -> In k multi_kinds -> In k (passes n).
  Proof. destruct n; [lia|]. intros _ H. cbn [passes]. apply in_app_iff. now left. Qed.

  Lemma trace_no_exit o s :
    exit_of s = NoExit ->
    exists n1 n2, n1 <= max_passes /\ (1 <= max_passes -> 1 <= n1) /\ n2 <= max_passes /\
      trace o s =
        [KExpandTabs; KRmspace; KBlankLines]
        ++ (if negb (valid (fst (prepass s))) then [KDedent] else [])
        ++ body_pre (o_keep P o) (Nat.eqb (min_indent (fst (prepass s))) 0) ++ passes n1
        ++ [KOverused; KSimplifyAssign] ++ passes n2
        ++ body_post (o_keep P o) (Nat.eqb (min_indent (fst (prepass s))) 0).
  Proof.
    intros E. unfold format_code_trace. rewrite (no_exit o s E).
    destruct (body_trace o (fst (prepass s)) (dedented (prepass s))) as (n1 & n2 & A & B & C & D).
    exists n1, n2. repeat split; try assumption.
    rewrite D, dedented_snd. cbn [snd PipelineModel.prepass].
    rewrite <- !app_assoc. reflexivity.
  Qed.

  Ltac inapp := repeat (first [rewrite in_app_iff in * | progress cbn [In] in * ]).

  (* soundness: whatever the stages do, on every input, only reachable stages run *)
  Theorem trace_sound o s : incl (trace o s) (reachable_for o s).
  Proof.
    intros k Hk. unfold PipelineModel.reachable_for, PipelineModel.reachable.
    destruct (exit_of s) eqn:E; pose proof (exit_cases s) as X; rewrite E in X.
    - unfold format_code_trace in Hk. rewrite (exit_skip o s X) in Hk. contradiction.
    - destruct X as [X1 X2]. unfold format_code_trace in Hk. rewrite (exit_blank o s X1 X2) in Hk.
      cbn in Hk. inapp. tauto.
    - destruct X as (X1 & X2 & X3). unfold format_code_trace in Hk.
      destruct (exit_invalid o s X1 X2 X3) as [Y V]. rewrite Y in Hk. rewrite V.
      cbn in Hk. cbn [negb]. inapp. tauto.
    - destruct (trace_no_exit o s E) as (n1 & n2 & _ & _ & _ & T). rewrite T in Hk. clear T.
      unfold body_pre, body_post in Hk.
      destruct (Nat.eqb (min_indent (fst (prepass s))) 0), (o_keep P o), (negb (valid (fst (prepass s))));
        cbn [negb andb app] in *; inapp;
        repeat match goal with H : _ \/ _ |- _ => destruct H end; subst; try contradiction;
        try (match goal with H : In _ (passes _) |- _ => apply in_passes in H end); tauto.
  Qed.

  (* completeness: when no early return fires, every reachable stage does run, whatever the stages do *)
  Theorem trace_complete o s :
    1 <= max_passes -> exit_of s = NoExit -> incl (reachable_for o s) (trace o s).
  Proof.
    intros M E k Hk. destruct (trace_no_exit o s E) as (n1 & n2 & _ & N1 & _ & T). rewrite T. clear T.
    specialize (N1 M). unfold PipelineModel.reachable_for, PipelineModel.reachable in Hk.
    unfold body_pre, body_post.
    destruct (Nat.eqb (min_indent (fst (prepass s))) 0), (o_keep P o), (negb (valid (fst (prepass s))));
      cbn [negb andb app] in *; inapp;
      repeat match goal with H : _ \/ _ |- _ => destruct H end; subst; try contradiction;
      try (match goal with H : In _ multi_kinds |- _ => apply (passes_ge1 _ n1 N1) in H end); tauto.
  Qed.

  (* ------------------------------------------------------------------ T01.1 *)
  Section Preservation.
    Variable R : src -> src -> Prop.
    Hypothesis R_refl : forall a, R a a.
    Hypothesis R_trans : forall a b c, R a b -> R b c -> R a c.

    (* a stage kind is fine in the contexts cs if it is R-preserving on every text *)
    Definition okk (cs : option (ctx src P) -> Prop) (k : kind) : Prop :=
      forall c, cs c -> forall t, R t (stage k c t).

    (* invariant: IF every kind applied so far is fine THEN the current text is R-related to the start *)
    Definition Inv (cs : option (ctx src P) -> Prop) (s0 : src) (st : state) : Prop :=
      (forall k, In k (snd st) -> okk cs k) -> R s0 (fst st).

    Lemma inv_run (cs : option (ctx src P) -> Prop) s0 c k st : cs c -> Inv cs s0 st -> Inv cs s0 (run c k st).
    Proof.
      intros Hc I H. rewrite run_fst. rewrite run_snd in H.
      apply R_trans with (fst st).
      - apply I. intros k' Hk'. apply H. apply in_app_iff. now left.
      - apply (H k); [apply in_app_iff; right; now left | assumption].
    Qed.
    Lemma inv_run_if (cs : option (ctx src P) -> Prop) s0 b c k st : cs c -> Inv cs s0 st -> Inv cs s0 (run_if b c k st).
    Proof. destruct b; [apply inv_run | intros _ I; exact I]. Qed.
    Lemma inv_fold (cs : option (ctx src P) -> Prop) s0 c l : cs c -> forall st,
      Inv cs s0 st -> Inv cs s0 (fold_left (fun st k => run c k st) l st).
    Proof.
      intros Hc. induction l as [|k l IH]; intros st I; cbn [fold_left]; [exact I|].
      apply IH. now apply inv_run.
    Qed.
    Lemma inv_loop (cs : option (ctx src P) -> Prop) s0 c : cs c -> forall fuel hist st,
      Inv cs s0 st -> Inv cs s0 (snd (loop fuel c hist st)).
    Proof.
      intros Hc. induction fuel as [|f IH]; intros hist st I; cbn [PipelineModel.loop]; [exact I|].
      assert (I' : Inv cs s0 (multi_pass c st)) by (now apply inv_fold).
      destruct (mem src src_eqb (fst (multi_pass c st)) hist); [exact I'|]. now apply IH.
    Qed.

    Lemma inv_body (cs : option (ctx src P) -> Prop) s0 o orig st :
      cs (Some (the_ctx o orig (fst st))) -> Inv cs s0 st -> Inv cs s0 (body o orig st).
    Proof.
      intros Hc I. unfold PipelineModel.body.
      set (c := Some (the_ctx o orig (fst st))) in *.
      set (top := Nat.eqb (min_indent orig) 0).
      set (st1 := run c (KSingleRun (o_keep P o)) (run_if top c KAddImports st)).
      assert (I1 : Inv cs s0 st1) by (apply inv_run, inv_run_if; assumption).
      pose proof (inv_loop cs s0 c Hc max_passes [fst st1] st1 I1) as I2.
      destruct (loop max_passes c [fst st1] st1) as [h1 st2]. cbn [snd] in I2.
      set (st3 := run c KSimplifyAssign (run c KOverused st2)).
      assert (I3 : Inv cs s0 st3) by (apply inv_run, inv_run; assumption).
      assert (I4 : Inv cs s0 (snd (if mem src src_eqb (fst st3) h1 then (h1, st3) else loop max_passes c h1 st3))).
      { destruct (mem src src_eqb (fst st3) h1); [exact I3 | now apply inv_loop]. }
      destruct (if mem src src_eqb (fst st3) h1 then (h1, st3) else loop max_passes c h1 st3) as [h2 st4].
      cbn [snd] in I4.
      repeat first [apply inv_run | apply inv_run_if]; assumption.
    Qed.

    (* the contexts a stage is actually called with on input s under options o *)
    Definition ctxs (o : opts P) (s : src) (c : option (ctx src P)) : Prop :=
      c = None \/ c = Some (the_ctx o (fst (prepass s)) (fst (dedented (prepass s)))).

    Lemma inv_traced o s : Inv (ctxs o s) s (traced o s).
    Proof.
      assert (I0 : Inv (ctxs o s) s (prepass s)).
      { unfold PipelineModel.prepass. repeat apply inv_run; try (now left). intros _. apply R_refl. }
      unfold format_code_traced.
      destruct (is_skip s); [intros _; apply R_refl|].
      destruct (is_blank (fst (prepass s))); [exact I0|].
      assert (I1 : Inv (ctxs o s) s (dedented (prepass s))).
      { unfold PipelineModel.dedented. apply inv_run_if; [now left | exact I0]. }
      destruct (negb (valid (fst (dedented (prepass s))))); [exact I1|].
      apply inv_body; [now right | exact I1].
    Qed.

    (* T01.1, tightest form: only the kinds that actually ran, only in the contexts they ran in *)
    Theorem preserved_if_trace_ok o s :
      (forall k, In k (trace o s) -> okk (ctxs o s) k) -> R s (model o s).
    Proof. intros H. exact (inv_traced o s H). Qed.

    (* T01.1: every reachable stage preserves R  ==>  format_code preserves R (all inputs, all options) *)
    Theorem orchestration_preserves o s :
      (forall k, In k (reachable_for o s) -> okk (ctxs o s) k) -> R s (model o s).
    Proof.
      intros H. apply preserved_if_trace_ok. intros k Hk. apply H. now apply trace_sound.
    Qed.
  End Preservation.

  (* the instance the property is about: an observable behaviour  beh : src -> B *)
  Corollary behaviour_preserved (B : Type) (beh : src -> B) o s :
    (forall k, In k (reachable_for o s) ->
       forall c, ctxs o s c -> forall t, beh (stage k c t) = beh t) ->
    beh (model o s) = beh s.
  Proof.
    intros H.
    apply (orchestration_preserves (fun a b => beh b = beh a)); try congruence.
    intros k Hk c Hc t. now apply H.
  Qed.

  (* top-level (unindented, valid) input: no Dedent / Indent premise is needed *)
  Lemma reachable_top o s :
    valid (fst (prepass s)) = true ->
    reachable_for o s = reachable (o_keep P o) false true.
  Proof.
    intros V. unfold PipelineModel.reachable_for, PipelineModel.min_indent. now rewrite V.
  Qed.

  (* ------------------------------------------------------------------ the wrapper main.format_code *)
  Variable needs_nl : src -> bool.
  Variables add_nl strip_nl : src -> src.
  Notation inner_input := (inner_input src needs_nl add_nl).
  Notation outer_traced := (format_code_outer_traced src P src_eqb stage is_skip is_blank valid indent_level safe_preserve n_multi max_passes needs_nl add_nl strip_nl).
  Notation outer := (format_code_outer src P src_eqb stage is_skip is_blank valid indent_level safe_preserve n_multi max_passes needs_nl add_nl strip_nl).
  Notation outer_trace := (format_code_outer_trace src P src_eqb stage is_skip is_blank valid indent_level safe_preserve n_multi max_passes needs_nl add_nl strip_nl).

  (* the wrapper runs exactly the stages _format_code runs on the (possibly terminated) text *)
  Lemma outer_trace_eq o s : outer_trace o s = trace o (inner_input s).
  Proof.
    unfold format_code_outer_trace, format_code_outer_traced, format_code_trace.
    destruct (needs_nl s); reflexivity.
  Qed.

  Lemma outer_result_eq o s :
    outer o s = if needs_nl s then strip_nl (model o (add_nl s)) else model o s.
  Proof.
    unfold format_code_outer, format_code_outer_traced, format_code_model, PipelineModel.inner_input.
    destruct (needs_nl s); reflexivity.
  Qed.

  Theorem outer_trace_sound o s : incl (outer_trace o s) (reachable_for o (inner_input s)).
  Proof. rewrite outer_trace_eq. apply trace_sound. Qed.

  Theorem outer_trace_complete o s :
    1 <= max_passes -> exit_of (inner_input s) = NoExit ->
    incl (reachable_for o (inner_input s)) (outer_trace o s).
  Proof. intros M E. rewrite outer_trace_eq. now apply trace_complete. Qed.

  (* skip_file through the wrapper: the input comes back as it was, provided stripping undoes the termination *)
  Lemma outer_exit_skip o s :
    is_skip (inner_input s) = true -> (needs_nl s = true -> strip_nl (add_nl s) = s) ->
    outer_traced o s = (s, []).
  Proof.
    intros K U. unfold format_code_outer_traced. rewrite (exit_skip o _ K).
    unfold PipelineModel.inner_input in *. destruct (needs_nl s); cbn [fst snd]; [now rewrite U | reflexivity].
  Qed.

  Section PreservationOuter.
    Variable R : src -> src -> Prop.
    Hypothesis R_refl : forall a, R a a.
    Hypothesis R_trans : forall a b c, R a b -> R b c -> R a c.

    (* T01.1 through the wrapper: besides the stage premises (now about the terminated text), appending the final
       line terminator and removing one trailing LF must themselves preserve R *)
    Theorem outer_preserves o s :
      (needs_nl s = true -> R s (add_nl s)) ->
      (needs_nl s = true -> forall t, R t (strip_nl t)) ->
      (forall k, In k (reachable_for o (inner_input s)) ->
         okk R (ctxs o (inner_input s)) k) ->
      R s (outer o s).
    Proof.
      intros HA HS H. rewrite outer_result_eq.
      pose proof (orchestration_preserves R R_refl R_trans o (inner_input s) H) as I.
      unfold PipelineModel.inner_input in *.
      destruct (needs_nl s).
      - apply R_trans with (add_nl s); [now apply HA|].
        apply R_trans with (model o (add_nl s)); [exact I | now apply HS].
      - exact I.
    Qed.
  End PreservationOuter.

  Corollary outer_behaviour_preserved (B : Type) (beh : src -> B) o s :
    (needs_nl s = true -> beh (add_nl s) = beh s) ->
    (needs_nl s = true -> forall t, beh (strip_nl t) = beh t) ->
    (forall k, In k (reachable_for o (inner_input s)) ->
       forall c, ctxs o (inner_input s) c -> forall t, beh (stage k c t) = beh t) ->
    beh (outer o s) = beh s.
  Proof.
    intros HA HS H.
    apply (outer_preserves (fun a b => beh b = beh a)).
    - congruence.
    - congruence.
    - exact HA.
    - intros N t. now apply HS.
    - intros k Hk c Hc t. now apply H.
  Qed.
End Proofs.

(* ------------------------------------------------------------------ not vacuous *)
(* a non-trivial instance: texts = nat, one rule (i = 1 of 3) halves the text until it is <= 1, the abstraction
   stage adds 7 once: 20 -> 10 -> 5 -> 2 -> 1 -> 1 (history hit, 5 passes), +7 = 8 (not in the history),
   8 -> 4 -> 2 (history hit after 2 passes: the second loop stops at a text that is NOT a fixpoint of the rules). *)
Definition ex_stage (k : kind) (c : option (ctx nat nat)) (s : nat) : nat :=
  match k with
  | KMulti 1 => if Nat.leb s 1 then s else Nat.div2 s
  | KOverused => if Nat.leb s 1 then s + 7 else s
  | _ => s
  end.
Definition ex_run (s : nat) :=
  format_code_traced nat nat Nat.eqb ex_stage (fun _ => false) (fun _ => false) (fun _ => true) (fun _ => 0)
    (fun p _ => p) 3 25 (mkOpts nat false false 0 100) s.
Example ex_run_20 :
  ex_run 20 = (2, [KExpandTabs; KRmspace; KBlankLines; KAddImports; KSingleRun false]
                  ++ concat (repeat [KMulti 0; KMulti 1; KMulti 2] 5) ++ [KOverused; KSimplifyAssign]
                  ++ concat (repeat [KMulti 0; KMulti 1; KMulti 2] 2)
                  ++ [KAlign; KAddImports; KRemoveUnused; KSortImports; KLineLengths; KRmspace; KMinWs]).
Proof. vm_compute. reflexivity. Qed.

(* ------------------------------------------------------------------ with the live pass bound *)
Require Import PyrefactGen.Tables.
Lemma max_file_passes_pos : 1 <= MAX_FILE_PASSES.
Proof. unfold MAX_FILE_PASSES. lia. Qed.

Theorem outer_trace_exact_tables :
  forall (src P : Type) (src_eqb : src -> src -> bool) (stage : kind -> option (ctx src P) -> src -> src)
         (is_skip is_blank valid : src -> bool) (indent_level : src -> nat) (safe_preserve : P -> src -> P)
         (n_multi : nat) (needs_nl : src -> bool) (add_nl strip_nl : src -> src) (o : opts P) (s : src),
    exit_of src P stage is_skip is_blank valid (inner_input src needs_nl add_nl s) = NoExit ->
    forall k, In k (format_code_outer_trace src P src_eqb stage is_skip is_blank valid indent_level safe_preserve
                      n_multi MAX_FILE_PASSES needs_nl add_nl strip_nl o s)
              <-> In k (reachable_for src P stage valid indent_level n_multi o (inner_input src needs_nl add_nl s)).
Proof.
  intros. split.
  - apply outer_trace_sound.
  - apply outer_trace_complete; [apply max_file_passes_pos | assumption].
Qed.

Theorem trace_exact_tables :
  forall (src P : Type) (src_eqb : src -> src -> bool) (stage : kind -> option (ctx src P) -> src -> src)
         (is_skip is_blank valid : src -> bool) (indent_level : src -> nat) (safe_preserve : P -> src -> P)
         (n_multi : nat) (o : opts P) (s : src),
    exit_of src P stage is_skip is_blank valid s = NoExit ->
    forall k, In k (format_code_trace src P src_eqb stage is_skip is_blank valid indent_level safe_preserve
                      n_multi MAX_FILE_PASSES o s)
              <-> In k (reachable_for src P stage valid indent_level n_multi o s).
Proof.
  intros. split.
  - apply trace_sound.
  - apply trace_complete; [apply max_file_passes_pos | assumption].
Qed.
