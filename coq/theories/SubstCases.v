(* Runner-only helpers for the C14 correspondence: reading texts packed into primitive-integer literals.
   Kept out of SubstModel.v so that the closure of the property theorems does not load Uint63 (whose
   specification axioms coqchk -o would then list).  No theorem depends on this file. *)
From Coq Require Import List ZArith Bool.
From Coq Require Import Uint63.
Import ListNotations.
Require Import Pyrefact.SubstModel.
Open Scope Z_scope.

(* bulk case files pack 8 characters (7 bits each, never 0) into one primitive integer literal:
   reading 9 constructors per character dominated the cost of a correspondence run *)
Definition bitw (c k : Uint63.int) (w : Z) : Z :=
  if Uint63.eqb (Uint63.land c k) 0%uint63 then 0 else w.
Definition z_of_char (c : Uint63.int) : Z :=
  bitw c 1%uint63 1 + bitw c 2%uint63 2 + bitw c 4%uint63 4 + bitw c 8%uint63 8
  + bitw c 16%uint63 16 + bitw c 32%uint63 32 + bitw c 64%uint63 64.
Fixpoint unpack_chunk (n : nat) (i : Uint63.int) : text :=
  match n with
  | O => []
  | S k => let c := Uint63.land i 127%uint63 in
           if Uint63.eqb c 0%uint63 then [] else z_of_char c :: unpack_chunk k (Uint63.lsr i 7%uint63)
  end.
Definition text_of_packed (l : list Uint63.int) : text := flat_map (unpack_chunk 8) l.
Arguments text_of_packed l%uint63_scope.
