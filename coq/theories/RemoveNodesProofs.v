(* T03.4 -- theorems about RemoveNodesModel.v (character loop of processing.remove_nodes) *)
From Coq Require Import List Arith Bool Lia.
Import ListNotations.
Require Import Pyrefact.RemoveNodesModel.

Section RNP.
Variable A : Type.
Variable PASS : list A.

Notation rn_loop := (rn_loop A PASS).
Notation rn_ideal := (rn_ideal A PASS).

(* the heap content from [next] on: strictly increasing, consecutive pass positions at least 2
   apart unless the later one lies beyond the text (the sentinel); last element beyond the text *)
Fixpoint chainL (L : nat) (l : list nat) : Prop :=
  match l with
  | [] => False
  | a :: tl => match tl with
               | [] => L <= a
               | b :: _ => a < b /\ (a + 2 <= b \/ L <= b) /\ chainL L tl
               end
  end.

Lemma chainL_gt L a l : chainL L (a :: l) -> forall x, In x l -> a < x.
Proof.
  revert a. induction l as [|b l IH]; intros a H x Hx; [destruct Hx|].
  simpl in H. destruct H as (Hab & _ & Hc). destruct Hx as [<-|Hx]; [exact Hab|].
  specialize (IH b Hc x Hx). lia.
Qed.

Lemma chainL_far L a l : chainL L (a :: l) -> forall x, In x l -> a + 2 <= x \/ L <= x.
Proof.
  intros H x Hx. destruct l as [|b l]; [destruct Hx|].
  simpl in H. destruct H as (Hab & Hgap & Hc). destruct Hx as [<-|Hx]; [exact Hgap|].
  pose proof (chainL_gt L b l Hc x Hx). destruct Hgap; [left|right]; lia.
Qed.

Lemma chainL_tail L a b l : chainL L (a :: b :: l) -> chainL L (b :: l).
Proof. simpl. intros (_ & _ & H). exact H. Qed.

Lemma in_list_cons a l i : in_list (a :: l) i = (i =? a) || in_list l i.
Proof. reflexivity. Qed.

Lemma in_list_false l i : (forall x, In x l -> x <> i) -> in_list l i = false.
Proof.
  intros H. unfold in_list. destruct (existsb (Nat.eqb i) l) eqn:E; [|reflexivity].
  apply existsb_exists in E as (x & Hx & Ex). apply Nat.eqb_eq in Ex. subst. exfalso. eapply H; eauto.
Qed.

Lemma rn_ideal_ext P P' : forall src keep i,
  (forall x, i <= x -> x < i + length src -> P x = P' x) ->
  rn_ideal P i src keep = rn_ideal P' i src keep.
Proof.
  induction src as [|c src IH]; intros keep i H; [reflexivity|].
  destruct keep as [|k keep]; [reflexivity|]. simpl in H. simpl. f_equal.
  - unfold emit_ideal. rewrite (H i) by lia. reflexivity.
  - apply IH. intros x Hx Hx2. apply H; lia.
Qed.

(* the loop computes the reference reading for the pass positions still in the heap, provided
   the characters at those positions are removed ones *)
Lemma rn_loop_ideal L : forall src keep i next rest,
  L = i + length src -> length keep = length src ->
  chainL L (next :: rest) -> i <= next + 1 ->
  (forall p, In p (next :: rest) -> i <= p -> nth (p - i) keep false = false) ->
  rn_loop i src keep next rest = rn_ideal (in_list (next :: rest)) i src keep.
Proof.
  induction src as [|c src IH]; intros keep i next rest HL Hk Hc Hi Hrem; [reflexivity|].
  destruct keep as [|k keep]; [discriminate|]. simpl in HL, Hk.
  assert (Hfar := chainL_far L next rest Hc).
  assert (Hrem' : forall next' rest', (forall p, In p (next' :: rest') -> In p (next :: rest)) ->
            forall p, In p (next' :: rest') -> S i <= p -> nth (p - S i) keep false = false).
  { intros next' rest' Hsub p Hp Hpi. specialize (Hrem p (Hsub p Hp) ltac:(lia)).
    replace (p - i) with (S (p - S i)) in Hrem by lia. exact Hrem. }
  cbn [RemoveNodesModel.rn_loop RemoveNodesModel.rn_ideal].
  destruct (i =? next) eqn:E1.
  - (* a pass is emitted; the character there is a removed one *)
    apply Nat.eqb_eq in E1. subst next.
    unfold emit_ideal. rewrite in_list_cons, Nat.eqb_refl. simpl.
    specialize (Hrem i (or_introl eq_refl) (le_n i)). rewrite Nat.sub_diag in Hrem. simpl in Hrem. subst k.
    rewrite app_nil_r. f_equal.
    apply IH; [lia|lia|exact Hc|lia|]. apply Hrem'. auto.
  - apply Nat.eqb_neq in E1.
    assert (Pi : in_list (next :: rest) i = false).
    { apply in_list_false. intros x [<-|Hx] E; [lia|]. destruct (Hfar x Hx); lia. }
    unfold emit_ideal at 1. rewrite Pi. simpl app at 1.
    destruct (next <? i) eqn:E3.
    + (* heappop *)
      apply Nat.ltb_lt in E3. assert (i = next + 1) by lia. subst i.
      destruct rest as [|n r].
      { simpl in Hc. lia. }
      f_equal. rewrite (IH keep (S (next + 1)) n r); [|lia|lia|eapply chainL_tail; exact Hc| |].
      * apply rn_ideal_ext. intros x Hx _. rewrite (in_list_cons next (n :: r) x).
        replace (x =? next) with false by (symmetry; apply Nat.eqb_neq; lia). reflexivity.
      * destruct (Hfar n (or_introl eq_refl)); lia.
      * apply Hrem'. intros p Hp. right. exact Hp.
    + apply Nat.ltb_ge in E3. f_equal. apply IH; [lia|lia|exact Hc|lia|]. apply Hrem'. auto.
Qed.

(* heap order of an ascending list with the sentinel *)
Lemma insert_sorted_last x l : (forall y, In y l -> y < x) -> insert_sorted x l = l ++ [x].
Proof.
  induction l as [|y l IH]; intros H; [reflexivity|]. simpl.
  assert (y < x) by (apply H; now left).
  replace (x <=? y) with false by (symmetry; apply Nat.leb_gt; lia).
  rewrite IH; [reflexivity|]. intros z Hz. apply H. now right.
Qed.

Lemma gaps_ok_cons a l : gaps_ok (a :: l) = true -> gaps_ok l = true /\ forall x, In x l -> a + 2 <= x.
Proof.
  revert a. induction l as [|b l IH]; intros a H; [split; [reflexivity|intros x []]|].
  simpl in H. apply andb_true_iff in H as [Hab Hl]. apply Nat.leb_le in Hab.
  split; [exact Hl|]. intros x [<-|Hx]; [exact Hab|].
  destruct (IH b Hl) as [_ Hb]. specialize (Hb x Hx). lia.
Qed.

Lemma heap_order_sorted l : gaps_ok l = true -> heap_order l = l.
Proof.
  induction l as [|a l IH]; intros H; [reflexivity|].
  destruct (gaps_ok_cons a l H) as [Hl Ha]. unfold heap_order in *. simpl. rewrite (IH Hl).
  destruct l as [|b l]; [reflexivity|]. simpl.
  assert (a + 2 <= b) by (apply Ha; now left).
  replace (a <=? b) with true by (symmetry; apply Nat.leb_le; lia). reflexivity.
Qed.

Lemma chainL_of_gaps L : forall ps,
  gaps_ok ps = true -> (forall p, In p ps -> p < L) -> chainL L (ps ++ [L + 1]).
Proof.
  induction ps as [|a ps IH]; intros Hg Hr; [simpl; lia|].
  destruct (gaps_ok_cons a ps Hg) as [Hl Ha].
  specialize (IH Hl (fun p Hp => Hr p (or_intror Hp))).
  destruct ps as [|b ps].
  - simpl. assert (a < L) by (apply Hr; now left). split; [lia|]. split; [right; lia|lia].
  - change ((a :: b :: ps) ++ [L + 1]) with (a :: (b :: ps) ++ [L + 1]).
    assert (a + 2 <= b) by (apply Ha; now left).
    simpl. simpl in IH. split; [lia|]. split; [left; lia|exact IH].
Qed.

(* T03.4: every character that was to be kept is emitted, in order, and exactly one "pass\n" is
   emitted at the first-child position of every emptied body -- for every text, keep mask and set
   of pass positions satisfying the three structural facts *)
Theorem remove_nodes_exact src keep ps :
  length keep = length src -> gaps_ok ps = true -> in_range (length src) ps = true ->
  on_removed keep ps = true ->
  remove_nodes_model A PASS src keep ps = rn_ideal (in_list ps) 0 src keep.
Proof.
  intros Hk Hg Hr Hrem. unfold remove_nodes_model.
  assert (Hr' : forall p, In p ps -> p < length src).
  { intros p Hp. unfold in_range in Hr. rewrite forallb_forall in Hr. apply Nat.ltb_lt. apply Hr. exact Hp. }
  assert (E : heap_order ((length src + 1) :: ps) = ps ++ [length src + 1]).
  { unfold heap_order. simpl. fold (heap_order ps). rewrite (heap_order_sorted ps Hg).
    apply insert_sorted_last. intros y Hy. specialize (Hr' y Hy). lia. }
  rewrite E.
  pose proof (chainL_of_gaps (length src) ps Hg Hr') as Hc.
  destruct (ps ++ [length src + 1]) as [|n r] eqn:El.
  { destruct ps; discriminate. }
  rewrite (rn_loop_ideal (length src) src keep 0 n r); [|reflexivity|exact Hk|exact Hc|lia|].
  - rewrite <- El. apply rn_ideal_ext. intros x _ Hx. simpl in Hx.
    unfold in_list. rewrite existsb_app. simpl. rewrite orb_false_r.
    replace (x =? length src + 1) with false by (symmetry; apply Nat.eqb_neq; lia).
    apply orb_false_r.
  - intros p Hp _. rewrite Nat.sub_0_r. rewrite <- El in Hp. apply in_app_or in Hp as [Hp|[<-|[]]].
    + unfold on_removed in Hrem. rewrite forallb_forall in Hrem. specialize (Hrem p Hp).
      apply negb_true_iff in Hrem. exact Hrem.
    + apply nth_overflow. lia.
Qed.

End RNP.

(* "if a:\n    x\ny = 1\n" with the one-character body statement removed: before the repair the
   two characters after the pass position were skipped ("...pass\n = 1\n"); now *)
Example remove_nodes_short_statement :
  remove_nodes_model nat PASS_TEXT
    [105; 102; 32; 97; 58; 10; 32; 32; 32; 32; 120; 10; 121; 32; 61; 32; 49; 10]
    [true; true; true; true; true; true; true; true; true; true; false; true; true; true; true; true; true; true]
    [10]
  = [105; 102; 32; 97; 58; 10; 32; 32; 32; 32; 112; 97; 115; 115; 10; 10; 121; 32; 61; 32; 49; 10].
Proof. vm_compute. reflexivity. Qed.
