(* K5 (second half) -- theorems about EffectModel.v: every expression / statement tree of every depth,
   every oracle (truth values of tests, lengths of iterables). *)
From Coq Require Import List Bool String Lia.
Import ListNotations.
Require Import Pyrefact.EffectModel.

Scheme expr_mut := Induction for expr Sort Prop
with exprs_mut := Induction for exprs Sort Prop
with gens_mut := Induction for gens Sort Prop.
Combined Scheme expr_mutind from expr_mut, exprs_mut, gens_mut.

Scheme target_mut := Induction for target Sort Prop
with targets_mut := Induction for targets Sort Prop.
Combined Scheme target_mutind from target_mut, targets_mut.

Scheme stmt_mut := Induction for stmt Sort Prop
with stmts_mut := Induction for stmts Sort Prop.
Combined Scheme stmt_mutind from stmt_mut, stmts_mut.

(* ---------------- whitelists ---------------- *)
Definition wl_incl (a b : list name) : Prop := forall x, mem x a = true -> mem x b = true.

Lemma wl_incl_refl : forall a, wl_incl a a.
Proof. intros a x H. exact H. Qed.

Lemma wl_incl_nil : forall a, wl_incl [] a.
Proof. intros a x H. discriminate. Qed.

Lemma wl_incl_cons : forall a b x, wl_incl a b -> wl_incl (x :: a) (x :: b).
Proof.
  intros a b x H y. unfold mem. cbn [existsb]. intro Hy.
  apply orb_true_iff in Hy. apply orb_true_iff. destruct Hy as [Hy | Hy]; [left; exact Hy | right; exact (H y Hy)].
Qed.

Lemma func_whitelist_incl : forall f a b, wl_incl a b -> wl_incl (func_whitelist f a) (func_whitelist f b).
Proof.
  intros f a b H. destruct f; try exact H. cbn [func_whitelist].
  destruct f; try exact H. apply wl_incl_cons. exact H.
Qed.

Lemma forallb_impl : forall (A : Type) (p q : A -> bool) l,
  (forall x, p x = true -> q x = true) -> forallb p l = true -> forallb q l = true.
Proof.
  intros A p q l H. induction l as [| x tl IH]; [reflexivity |].
  cbn [forallb]. intro Hl. apply andb_true_iff in Hl. destruct Hl as [H1 H2].
  rewrite (H x H1), (IH H2). reflexivity.
Qed.

(* has_side_effect is monotone: a larger whitelist never creates a side effect *)
Lemma hse_mono_all :
  (forall e a b, wl_incl a b -> hse e a = false -> hse e b = false) /\
  (forall es a b, wl_incl a b -> hse_l es a = false -> hse_l es b = false) /\
  (forall gs a b, wl_incl a b -> hse_g gs a = false -> hse_g gs b = false).
Proof.
  apply expr_mutind; intros; cbn [hse hse_l hse_g] in *;
    repeat match goal with
           | H : _ || _ = false |- _ => apply orb_false_iff in H; destruct H
           end;
    repeat match goal with
           | IH : forall a b, wl_incl a b -> ?h a = false -> ?h b = false, Hi : wl_incl ?a ?b, H : ?h ?a = false |- _ =>
               rewrite (IH a b Hi H); clear H
           end;
    repeat match goal with
           | H : ?x = false |- context [?x] => rewrite H
           end; try reflexivity; try assumption.
  - (* ECall *)
    match goal with
    | H1 : negb (forallb _ (names_of _)) = false, H2 : negb (forallb _ (attrs_of _)) = false |- _ =>
        apply negb_false_iff in H1; apply negb_false_iff in H2;
        rename H1 into Hn; rename H2 into Ha
    end.
    assert (Hi : wl_incl (func_whitelist f a) (func_whitelist f b)) by (apply func_whitelist_incl; assumption).
    rewrite (forallb_impl _ _ (fun x => mem x (func_whitelist f b) || String.eqb x underscore) _ ) with (2 := Hn).
    2:{ intros x Hx. apply orb_true_iff in Hx. apply orb_true_iff.
        destruct Hx as [Hx | Hx]; [left; exact (Hi x Hx) | right; exact Hx]. }
    rewrite (forallb_impl _ _ (fun x => mem x (func_whitelist f b)) _) with (2 := Ha).
    2:{ intros x Hx. exact (Hi x Hx). }
    reflexivity.
  - (* GCons *)
    match goal with Hx : negb _ = false |- _ => apply negb_false_iff in Hx; rename Hx into Hc end.
    apply andb_true_iff in Hc. destruct Hc as [Hc HC]. apply andb_true_iff in Hc. destruct Hc as [HA HB].
    apply negb_true_iff in HB. apply negb_true_iff in HC.
    rewrite HA.
    match goal with IH : forall a b, wl_incl a b -> hse it a = false -> hse it b = false |- _ =>
      rewrite (IH a b ltac:(assumption) HB) end.
    match goal with IH : forall a b, wl_incl a b -> hse_l ifs a = false -> hse_l ifs b = false |- _ =>
      rewrite (IH a b ltac:(assumption) HC) end.
    reflexivity.
Qed.

Definition hse_mono := proj1 hse_mono_all.
Definition hse_l_mono := proj1 (proj2 hse_mono_all).
Definition hse_g_mono := proj2 (proj2 hse_mono_all).

(* ---------------- benign traces ---------------- *)
Definition all_benign (wl : list name) (t : list event) : bool := forallb (benign wl) t.
Definition ok (wl : list name) (r : res) : Prop := all_benign wl (fst r) = true.

Lemma ab_app : forall wl a b, all_benign wl (a ++ b) = all_benign wl a && all_benign wl b.
Proof. intros. unfold all_benign. apply forallb_app. Qed.

Lemma ab_nil : forall wl, all_benign wl [] = true.
Proof. reflexivity. Qed.

Lemma repeat_run_ok : forall wl f, (forall o, ok wl (f o)) -> forall n o, ok wl (repeat_run n f o).
Proof.
  intros wl f Hf n. induction n as [| m IH]; intro o; [reflexivity |].
  cbn [repeat_run]. pose proof (Hf o) as B1. destruct (f o) as [t1 o1].
  pose proof (IH o1) as B2. destruct (repeat_run m f o1) as [t2 o2].
  unfold ok in *. cbn [fst] in *. rewrite ab_app, B1, B2. reflexivity.
Qed.

Ltac split_hyps :=
  repeat match goal with
         | H : _ && _ = true |- _ => apply andb_true_iff in H; destruct H
         | H : _ || _ = false |- _ => apply orb_false_iff in H; destruct H
         end.

(* take one evaluation step whose result is described by the fact [F] *)
Ltac bind F :=
  let B := fresh "B" in
  pose proof F as B; unfold ok in B;
  match type of B with context [fst ?X] => destruct X as [? ?] end; cbn [fst] in B.

Ltac finish := unfold ok; cbn [fst]; rewrite ?ab_app; cbn [all_benign forallb];
  repeat match goal with B : all_benign _ _ = true |- _ => rewrite B; clear B end; try reflexivity.

Definition exprs_ok (wl : list name) (es : exprs) : Prop :=
  (forall o, ok wl (eval_l es o)) /\ (forall o, ok wl (eval_chain es o)) /\
  (forall k, (forall o, ok wl (k o)) -> forall o, ok wl (eval_ifs es k o)).

Lemma ho_calls_nil : forall f args kws o,
  call_ok f args kws = true -> ho_calls f args kws o = ([], o).
Proof.
  intros f args kws o H. destruct f; try reflexivity. cbn [call_ok] in H. cbn [ho_calls].
  apply andb_true_iff in H. destruct H as [_ H]. apply orb_true_iff in H. destruct H as [H | H].
  - apply negb_true_iff in H. rewrite H. reflexivity.
  - unfold no_bare in H. destruct (bare_names args ++ bare_names kws); [| discriminate].
    destruct (mem x higher_order); reflexivity.
Qed.

Lemma callee_benign : forall f args kws wl,
  call_ok f args kws = true ->
  forallb (fun x => mem x (func_whitelist f wl) || String.eqb x underscore) (names_of f) = true ->
  benign wl (EvCall (callee_of f)) = true.
Proof.
  intros f args kws wl Hc Hn. destruct f; try discriminate.
  - (* EName *) cbn [call_ok] in Hc. apply andb_true_iff in Hc. destruct Hc as [Hu _].
    apply negb_true_iff in Hu. cbn [names_of forallb func_whitelist] in Hn. rewrite Hu in Hn.
    rewrite orb_false_r, andb_true_r in Hn. exact Hn.
  - (* EAttr *) cbn [call_ok] in Hc. cbn [callee_of]. rewrite Hc. reflexivity.
Qed.

Ltac lift_nil wl :=
  repeat match goal with
         | H : hse ?e [] = false |- _ => apply (hse_mono e [] wl (wl_incl_nil wl)) in H
         | H : hse_l ?e [] = false |- _ => apply (hse_l_mono e [] wl (wl_incl_nil wl)) in H
         end.

Ltac bindE IH o :=
  match type of IH with
  | plain ?e = true -> _ =>
      match goal with
      | P : plain e = true, H : hse e ?wl = false |- _ => bind (IH P wl H o)
      end
  end.

Ltac getL IH :=
  match type of IH with
  | plain_l ?es = true -> _ =>
      match goal with
      | P : plain_l es = true, H : hse_l es ?wl = false |- _ =>
          let Tl := fresh "Tl" in let Tc := fresh "Tc" in let Ti := fresh "Ti" in
          destruct (IH P wl H) as [Tl [Tc Ti]]
      end
  end.

(* T16.4 for expressions, under the guard *)
Lemma eval_sound_all :
  (forall e, plain e = true -> forall wl, hse e wl = false -> forall o, ok wl (eval e o)) /\
  (forall es, plain_l es = true -> forall wl, hse_l es wl = false -> exprs_ok wl es) /\
  (forall gs, plain_g gs = true -> forall wl, hse_g gs wl = false ->
     forall k, (forall o, ok wl (k o)) -> forall o, ok wl (eval_g gs k o)).
Proof.
  apply expr_mutind.
  - (* EConst *) intros; reflexivity.
  - (* EName *) intros; reflexivity.
  - (* EUnary *) intros e IH P wl H o. cbn [plain hse eval] in *. exact (IH P wl H o).
  - (* EBin *) intros l IHl r IHr P wl H o. cbn [plain hse eval] in *. split_hyps.
    bindE IHl o. bindE IHr o0. finish.
  - (* ECompare *) intros l IHl rs IHrs P wl H o. cbn [plain hse eval] in *. split_hyps.
    getL IHrs. bindE IHl o. bind (Tc o0). finish.
  - (* EBoolOp *) intros vs IH P wl H o. cbn [plain hse eval] in *. getL IH. exact (Tc o).
  - (* EIfExp *) intros t IHt b IHb e' IHe P wl H o. cbn [plain hse eval] in *. split_hyps.
    bindE IHt o. destruct (draw o0) as [d o2]. destruct (truthy d).
    + bindE IHb o2. finish.
    + bindE IHe o2. finish.
  - (* ESeq *) intros es IH P wl H o. cbn [plain hse eval] in *. getL IH. exact (Tl o).
  - (* EDict *) intros es IH P wl H o. cbn [plain hse eval] in *. getL IH. exact (Tl o).
  - (* EAttr *) intros e IH a P wl H o. cbn [plain hse eval] in *. lift_nil wl. exact (IH P wl H o).
  - (* ESub *) intros e IHe i IHi P wl H o. cbn [plain hse eval] in *. split_hyps.
    bindE IHe o. bindE IHi o0. finish.
  - (* ESlice *) intros lo IHlo hi IHhi st IHst P wl H o. cbn [plain hse eval] in *. split_hyps.
    bindE IHlo o. bindE IHhi o0. bindE IHst o1. finish.
  - (* ECall *) intros f IHf args IHa kws IHk P wl H o. cbn [plain hse] in *. split_hyps.
    repeat match goal with Hx : negb _ = false |- _ => apply negb_false_iff in Hx end.
    getL IHa. getL IHk.
    match goal with Hc : call_ok f args kws = true |- _ => rename Hc into Hcall end.
    match goal with Hn : forallb _ (names_of f) = true |- _ => rename Hn into Hnames end.
    assert (Hf : forall o, ok wl (eval f o)).
    { destruct f; try discriminate; intro o'.
      - reflexivity.
      - cbn [call_ok] in Hcall. destruct f; try discriminate. reflexivity. }
    cbn [eval]. bind (Hf o). bind (Tl o0). bind (Tl0 o1).
    rewrite (ho_calls_nil f args kws _ Hcall). pose proof (callee_benign f args kws wl Hcall Hnames) as Bc.
    finish. rewrite Bc. reflexivity.
  - (* EStarred *) intros e IH P wl H o. cbn [plain hse eval] in *. exact (IH P wl H o).
  - (* EComp *) intros elt IHe gs IHg P wl H o. cbn [plain hse eval] in *. split_hyps.
    match goal with Pg : plain_g gs = true, Hg : hse_g gs wl = false, Pe : plain elt = true, He : hse elt wl = false |- _ =>
      exact (IHg Pg wl Hg (eval elt) (IHe Pe wl He) o) end.
  - (* EDictComp *) intros k IHk v IHv gs IHg P wl H o. cbn [plain hse eval] in *. split_hyps.
    match goal with Pg : plain_g gs = true, Hg : hse_g gs wl = false |- _ => apply (IHg Pg wl Hg) end.
    intro o'. bindE IHk o'. bindE IHv o0. finish.
  - (* EFStr *) intros ps IH P wl H o. cbn [plain hse eval] in *. lift_nil wl. getL IH. exact (Tl o).
  - (* EFmt *) intros v IHv s IHs P wl H o. cbn [plain hse eval] in *. split_hyps. lift_nil wl.
    bindE IHv o. bindE IHs o0. finish.
  - (* ELambda *) intros hp ds IHd b IHb P wl H o. cbn [plain hse eval] in *. split_hyps.
    getL IHd. exact (Tl o).
  - (* ENamed *) intros x v IH P wl H o. cbn [plain hse eval] in *. split_hyps. lift_nil wl.
    match goal with Hx : negb _ = false |- _ => apply negb_false_iff in Hx; rename Hx into Hu end.
    bindE IH o. finish. cbn [benign]. rewrite Hu. reflexivity.
  - (* EOther *) intros; discriminate.
  - (* ENil *) intros _ wl _. repeat split; try (intro; reflexivity). intros k Hk o. exact (Hk o).
  - (* ECons *) intros e IHe tl IHtl P wl H. cbn [plain_l hse_l] in *. split_hyps.
    getL IHtl. repeat split.
    + intro o. cbn [eval_l]. bindE IHe o. bind (Tl o0). finish.
    + intro o. cbn [eval_chain]. destruct tl as [| e2 tl2].
      { match goal with Pe : plain e = true, He : hse e wl = false |- _ => exact (IHe Pe wl He o) end. }
      bindE IHe o. destruct (draw o0) as [d o2]. destruct (truthy d).
      * bind (Tc o2). finish.
      * finish.
    + intros k Hk o. cbn [eval_ifs]. bindE IHe o. destruct (draw o0) as [d o2]. destruct (truthy d).
      * bind (Ti k Hk o2). finish.
      * finish.
  - (* GNil *) intros _ wl _ k Hk o. exact (Hk o).
  - (* GCons *) intros t it IHit ifs IHifs rest IHrest P wl H k Hk o. cbn [plain_g hse_g eval_g] in *. split_hyps.
    match goal with Hx : negb _ = false |- _ => apply negb_false_iff in Hx end. split_hyps.
    repeat match goal with Hx : negb _ = true |- _ => apply negb_true_iff in Hx end.
    getL IHifs.
    bindE IHit o. destruct (draw o0) as [n o2].
    match goal with Pg : plain_g rest = true, Hg : hse_g rest wl = false |- _ =>
      bind (repeat_run_ok wl _ (Ti _ (IHrest Pg wl Hg k Hk)) n o2) end.
    finish.
Qed.

Definition eval_sound := proj1 eval_sound_all.
Definition eval_l_sound := proj1 (proj2 eval_sound_all).

(* ---------------- targets ---------------- *)
Lemma hse_t_mono_all :
  (forall t a b, wl_incl a b -> hse_t t a = false -> hse_t t b = false) /\
  (forall ts a b, wl_incl a b -> hse_ts ts a = false -> hse_ts ts b = false).
Proof.
  apply target_mutind; intros; cbn [hse_t hse_ts] in *; split_hyps; try assumption; try discriminate.
  - rewrite (hse_mono e a b) by assumption. rewrite (hse_mono i a b) by assumption. assumption.
  - eauto.
  - eauto.
  - match goal with IH1 : forall a b, _ -> hse_t t a = false -> _, IH2 : forall a b, _ -> hse_ts ts a = false -> _ |- _ =>
      rewrite (IH1 a b) by assumption; rewrite (IH2 a b) by assumption end. reflexivity.
Qed.
Definition hse_t_mono := proj1 hse_t_mono_all.
Definition hse_ts_mono := proj2 hse_t_mono_all.

Lemma store_sound_all :
  (forall t, plain_t t = true -> forall wl, hse_t t wl = false -> forall o, ok wl (store t o)) /\
  (forall ts, plain_ts ts = true -> forall wl, hse_ts ts wl = false -> forall o, ok wl (store_l ts o)).
Proof.
  apply target_mutind.
  - (* TName *) intros x _ wl H o. cbn [hse_t store] in *. apply negb_false_iff in H.
    unfold ok. cbn [fst all_benign forallb benign]. rewrite H. reflexivity.
  - (* TAttr *) intros; discriminate.
  - (* TSub *) intros e i P wl H o. cbn [plain_t hse_t store] in *. split_hyps.
    match goal with Hx : negb _ = false |- _ => apply negb_false_iff in Hx; rename Hx into Hu end.
    pose proof eval_sound as ES.
    bindE (ES e) o. bindE (ES i) o0. finish. cbn [benign]. rewrite Hu. reflexivity.
  - (* TSeq *) intros ts IH P wl H o. cbn [plain_t hse_t store] in *. exact (IH P wl H o).
  - (* TStar *) intros t IH P wl H o. cbn [plain_t hse_t store] in *. exact (IH P wl H o).
  - (* TNil *) intros; reflexivity.
  - (* TCons *) intros t IHt ts IHts P wl H o. cbn [plain_ts hse_ts store_l] in *. split_hyps.
    match goal with P1 : plain_t t = true, H1 : hse_t t wl = false |- _ => bind (IHt P1 wl H1 o) end.
    match goal with P1 : plain_ts ts = true, H1 : hse_ts ts wl = false |- _ => bind (IHts P1 wl H1 o0) end.
    finish.
Qed.
Definition store_sound := proj1 store_sound_all.
Definition store_l_sound := proj2 store_sound_all.

(* ---------------- statements ---------------- *)
Definition sok (wl : list name) (r : sres) : Prop :=
  all_benign wl (fst (fst r)) = true /\ snd (fst r) = ONormal.

Lemma iterate_ok : forall wl head body,
  (forall o, ok wl (head o)) -> (forall o, sok wl (body o)) ->
  forall n o, exists t o', iterate n head body o = (t, false, None, o') /\ all_benign wl t = true.
Proof.
  intros wl head body Hh Hb n. induction n as [| m IH]; intro o.
  - exists [], o. split; reflexivity.
  - cbn [iterate]. pose proof (Hh o) as B1. destruct (head o) as [t1 o1].
    pose proof (Hb o1) as [B2 N2]. destruct (body o1) as [[t2 out] o2]. cbn [fst snd] in *. subst out.
    destruct (IH o2) as [t3 [o3 [E3 B3]]]. rewrite E3.
    exists (t1 ++ t2 ++ t3), o3. split; [reflexivity |].
    unfold ok in B1. cbn [fst] in B1. rewrite !ab_app, B1, B2, B3. reflexivity.
Qed.

Ltac sbind F :=
  let B := fresh "B" in let N := fresh "N" in
  pose proof F as [B N];
  match type of B with context [fst (fst ?X)] => destruct X as [[? ?] ?] end; cbn [fst snd] in B, N; subst.

Ltac sfinish := unfold sok; cbn [fst snd]; rewrite ?ab_app; cbn [all_benign forallb];
  repeat match goal with B : all_benign _ _ = true |- _ => rewrite B; clear B end; split; reflexivity.

Ltac lift_nil_t wl :=
  repeat match goal with
         | H : hse_t ?e [] = false |- _ => apply (hse_t_mono e [] wl (wl_incl_nil wl)) in H
         | H : hse_ts ?e [] = false |- _ => apply (hse_ts_mono e [] wl (wl_incl_nil wl)) in H
         end.

(* T16.4 for statements, under the guard *)
Lemma exec_sound_all :
  (forall s, plain_s s = true -> forall wl, hse_s s wl = false -> forall o, sok wl (exec s o)) /\
  (forall ss, plain_ss ss = true -> forall wl, hse_ss ss wl = false -> forall o, sok wl (exec_ss ss o)).
Proof.
  pose proof eval_sound as ES. pose proof eval_l_sound as ELS.
  pose proof store_sound as TS. pose proof store_l_sound as TLS.
  apply stmt_mutind.
  - (* SExpr *) intros e P wl H o. cbn [plain_s hse_s exec] in *. bindE (ES e) o. sfinish.
  - (* SAssign *) intros ts v P wl H o. cbn [plain_s hse_s exec] in *. split_hyps. lift_nil wl. lift_nil_t wl.
    bindE (ES v) o.
    match goal with P1 : plain_ts ts = true, H1 : hse_ts ts wl = false |- _ => bind (TLS ts P1 wl H1 o0) end.
    sfinish.
  - (* SAug *) intros t v P wl H o. cbn [plain_s hse_s exec] in *. split_hyps. lift_nil wl. lift_nil_t wl.
    destruct t as [x | e a | e i | ts | t']; cbn [aug_parts store_event hse_t plain_t] in *;
      try discriminate; split_hyps.
    + (* TName *) match goal with Hx : negb _ = false |- _ => apply negb_false_iff in Hx; rename Hx into Hu end.
      bindE (ES v) o. unfold sok. cbn [fst snd]. rewrite !ab_app. cbn [all_benign forallb benign].
      rewrite Hu. repeat match goal with Bx : all_benign _ _ = true |- _ => rewrite Bx; clear Bx end. split; reflexivity.
    + (* TSub *) match goal with Hx : negb _ = false |- _ => apply negb_false_iff in Hx; rename Hx into Hu end.
      bindE (ES e) o. bindE (ES i) o0. bindE (ES v) o1.
      unfold sok. cbn [fst snd]. rewrite !ab_app. cbn [all_benign forallb benign].
      rewrite Hu. repeat match goal with Bx : all_benign _ _ = true |- _ => rewrite Bx; clear Bx end. split; reflexivity.
    + (* TSeq *) bindE (ES v) o. sfinish.
    + (* TStar *) bindE (ES v) o. sfinish.
  - (* SPass *) intros _ wl _ o. split; reflexivity.
  - (* SControl *) intros; discriminate.
  - (* SIf *) intros t b IHb e IHe P wl H o. cbn [plain_s hse_s exec] in *. split_hyps.
    bindE (ES t) o. destruct (draw o0) as [d o2]. destruct (truthy d).
    + match goal with P1 : plain_ss b = true, H1 : hse_ss b wl = false |- _ => sbind (IHb P1 wl H1 o2) end. sfinish.
    + match goal with P1 : plain_ss e = true, H1 : hse_ss e wl = false |- _ => sbind (IHe P1 wl H1 o2) end. sfinish.
  - (* SFor *) intros t it b IHb e IHe P wl H o. cbn [plain_s hse_s exec] in *. split_hyps.
    bindE (ES it) o. destruct (draw o0) as [n o2].
    match goal with P1 : plain_t t = true, H1 : hse_t t wl = false, P2 : plain_ss b = true, H2 : hse_ss b wl = false |- _ =>
      destruct (iterate_ok wl (store t) (exec_ss b) (TS t P1 wl H1) (IHb P2 wl H2) n o2) as [t2 [o3 [E2 B2]]] end.
    rewrite E2.
    match goal with P1 : plain_ss e = true, H1 : hse_ss e wl = false |- _ => sbind (IHe P1 wl H1 o3) end. sfinish.
  - (* SWhile *) intros; discriminate.
  - (* SWith *) intros; discriminate.
  - (* SDef *) intros x decos evald bases cbody IHc P wl H o. cbn [plain_s hse_s exec] in *. split_hyps.
    repeat match goal with Hx : negb _ = false |- _ => apply negb_false_iff in Hx end.
    destruct decos; [| discriminate]. subst bases.
    match goal with P1 : plain_l evald = true, H1 : hse_l evald wl = false |- _ =>
      destruct (ELS evald P1 wl H1) as [Tl _] end.
    cbn [eval_l]. bind (Tl o).
    match goal with P1 : plain_ss cbody = true, H1 : hse_ss cbody wl = false |- _ => sbind (IHc P1 wl H1 o0) end.
    cbn [decorator_calls app]. unfold sok. cbn [fst snd]. rewrite !ab_app. cbn [all_benign forallb benign].
    repeat match goal with Bx : all_benign _ _ = true |- _ => rewrite Bx; clear Bx end.
    match goal with Hu : String.eqb x underscore = true |- _ => rewrite Hu end. split; reflexivity.
  - (* SOther *) intros; discriminate.
  - (* SNil *) intros _ wl _ o. split; reflexivity.
  - (* SCons *) intros s IHs ss IHss P wl H o. cbn [plain_ss hse_ss exec_ss] in *. split_hyps.
    match goal with P1 : plain_s s = true, H1 : hse_s s wl = false |- _ => sbind (IHs P1 wl H1 o) end.
    match goal with P1 : plain_ss ss = true, H1 : hse_ss ss wl = false |- context [exec_ss ss ?o'] =>
      sbind (IHss P1 wl H1 o') end.
    sfinish.
Qed.

(* ================= the theorems ================= *)

(* T16.4 (partial): an expression judged free of side effects emits only harmless events, for every
   oracle, provided its callees are identifiable by name ([plain]) *)
Theorem hse_sound_partial :
  forall e wl, plain e = true -> hse e wl = false ->
  forall o, all_benign wl (fst (eval e o)) = true.
Proof. intros e wl P H o. exact (eval_sound e P wl H o). Qed.

(* T16.4 (partial), statements: only harmless events AND normal completion *)
Theorem hse_stmt_sound_partial :
  forall s wl, plain_s s = true -> hse_s s wl = false ->
  forall o, all_benign wl (fst (fst (exec s o))) = true /\ snd (fst (exec s o)) = ONormal.
Proof. intros s wl P H o. exact (proj1 exec_sound_all s P wl H o). Qed.

Local Open Scope string_scope.

(* R16.4: without the guard the claim is false *)
(* `_()` : the callee `_` is accepted whatever it is *)
Theorem hse_refuted_underscore_callee :
  exists e wl o, hse e wl = false /\ all_benign wl (fst (eval e o)) = false.
Proof. exists (ECall (EName "_") ENil ENil), [], []. split; vm_compute; reflexivity. Qed.

(* `list(map(print, xs))` : a higher-order builtin calls the function it is given *)
Theorem hse_refuted_higher_order :
  exists e wl o, hse e wl = false /\ (forall x, mem x wl = true -> mem x impure_builtins = false) /\
                 all_benign wl (fst (eval e o)) = false.
Proof.
  exists (ECall (EName "list") (ECons (ECall (EName "map") (ECons (EName "print") (ECons (EName "xs") ENil)) ENil) ENil) ENil),
         ["list"; "map"], [1].
  split; [vm_compute; reflexivity |]. split; [| vm_compute; reflexivity].
  intros x H. unfold mem in H. cbn [existsb] in H.
  destruct (String.eqb_spec x "list"); [subst; reflexivity |].
  destruct (String.eqb_spec x "map"); [subst; reflexivity | discriminate].
Qed.

(* `B().f()` : a method is accepted because some function named f was found free of side effects *)
Theorem hse_refuted_method_name :
  exists e wl o, hse e wl = false /\ all_benign wl (fst (eval e o)) = false.
Proof.
  exists (ECall (EAttr (ECall (EName "B") ENil ENil) "f") ENil ENil), ["B"; "f"], [].
  split; vm_compute; reflexivity.
Qed.

(* the guard and the premise are satisfiable together by a non-trivial tree:
   [f"{len(x)}" if y else g(z) for x in y if x] ; ''.join(t) *)
Example hse_partial_nonvacuous :
  let e := EComp (EIfExp (EName "y")
                         (EFStr (ECons (EFmt (EName "x") (EConst false)) ENil))
                         (ECall (EName "g") (ECons (EName "z") ENil) ENil))
                 (GCons (CTName "x") (EName "y") (ECons (EName "x") ENil) GNil) in
  let e2 := ECall (EAttr (EConst true) "join") (ECons (EName "t") ENil) ENil in
  plain e = true /\ hse e ["g"] = false /\ plain e2 = true /\ hse e2 [] = false /\
  hse (EComp (ECall (EName "h") ENil ENil) (GCons (CTName "x") (EName "y") ENil GNil)) ["g"] = true.
Proof. vm_compute. repeat split. Qed.

Local Close Scope string_scope.

(* ---------------- delete_pointless_statements ---------------- *)
Fixpoint stmts_list (ss : stmts) : list stmt :=
  match ss with SNil => [] | SCons s tl => s :: stmts_list tl end.

Lemma pointless_from_sound : forall body wl i k s,
  nth_error (stmts_list body) k = Some s ->
  nth k (pointless_from i body wl) false = true ->
  hse_s s wl = false.
Proof.
  induction body as [| s0 tl IH]; intros wl i k s Hn Hp.
  - destruct k; discriminate.
  - destruct k as [| k'].
    + cbn in Hn. inversion Hn; subst. cbn [pointless_from nth] in Hp.
      apply andb_true_iff in Hp. destruct Hp as [Hp _]. apply negb_true_iff in Hp. exact Hp.
    + cbn [stmts_list nth_error] in Hn. cbn [pointless_from nth] in Hp. exact (IH wl (S i) k' s Hn Hp).
Qed.

(* every statement that delete_pointless_statements deletes from a body emits only harmless events and
   completes normally (under the guard) *)
Theorem pointless_sound :
  forall body wl k s,
    nth_error (stmts_list body) k = Some s ->
    nth k (pointless body wl) false = true ->
    plain_s s = true ->
    forall o, all_benign wl (fst (fst (exec s o))) = true /\ snd (fst (exec s o)) = ONormal.
Proof.
  intros body wl k s Hn Hp P o.
  exact (hse_stmt_sound_partial s wl P (pointless_from_sound body wl 0 k s Hn Hp) o).
Qed.

(* a docstring (first statement, string constant) is never deleted *)
Theorem pointless_keeps_docstring :
  forall s tl wl, is_docstring s = true -> nth 0 (pointless (SCons s tl) wl) false = false.
Proof.
  intros s tl wl H. unfold pointless. cbn [pointless_from nth Nat.eqb]. rewrite H.
  cbn. apply andb_false_r.
Qed.

(* ---------------- safe_callable_names ---------------- *)
Lemma hse_s_mono_all :
  (forall s a b, wl_incl a b -> hse_s s a = false -> hse_s s b = false) /\
  (forall ss a b, wl_incl a b -> hse_ss ss a = false -> hse_ss ss b = false).
Proof.
  apply stmt_mutind; intros; cbn [hse_s hse_ss] in *; split_hyps; try discriminate;
    repeat match goal with
           | IH : forall a b, wl_incl a b -> ?h a = false -> ?h b = false, Hi : wl_incl ?a ?b, H : ?h ?a = false |- _ =>
               rewrite (IH a b Hi H); clear H
           | Hi : wl_incl ?a ?b, H : hse ?e ?a = false |- _ => rewrite (hse_mono e a b Hi H); clear H
           | Hi : wl_incl ?a ?b, H : hse_l ?e ?a = false |- _ => rewrite (hse_l_mono e a b Hi H); clear H
           | Hi : wl_incl ?a ?b, H : hse_t ?e ?a = false |- _ => rewrite (hse_t_mono e a b Hi H); clear H
           end;
    repeat match goal with
           | H : ?x = false |- context [?x] => rewrite H
           end; try reflexivity; try assumption.
Qed.
Definition hse_ss_mono := proj2 hse_s_mono_all.

Lemma fdef_pure_mono : forall d a b, wl_incl a b -> fdef_pure d a = true -> fdef_pure d b = true.
Proof.
  intros d a b Hi H. unfold fdef_pure in *. apply andb_true_iff in H. destruct H as [H0 H2].
  apply andb_true_iff in H0. destruct H0 as [H0 H1]. rewrite H0.
  apply negb_true_iff in H1. apply negb_true_iff in H2.
  rewrite (hse_ss_mono _ a b Hi H1), (hse_l_mono _ a b Hi H2). reflexivity.
Qed.

Lemma mem_cons : forall x a l, mem x (a :: l) = String.eqb x a || mem x l.
Proof. reflexivity. Qed.

Lemma wl_incl_tl : forall a l, wl_incl l (a :: l).
Proof. intros a l x H. rewrite mem_cons, H. apply orb_true_r. Qed.

Lemma wl_incl_trans : forall a b c, wl_incl a b -> wl_incl b c -> wl_incl a c.
Proof. intros a b c H1 H2 x H. exact (H2 x (H1 x H)). Qed.

Section SafeNames.
  Variable base shadowed dups : list name.
  Variable defs0 : list fdef.

  (* every safe name is a base name or the name of a (not shadowed, not shared) definition that is free of side
     effects relative to the safe names themselves *)
  Definition justified (safe : list name) : Prop :=
    forall x, mem x safe = true ->
      mem x base = true \/
      exists d, In d defs0 /\ f_name d = x /\ mem x shadowed = false /\ mem x dups = false /\
                fdef_pure d safe = true.

  (* every safe node is the definition at that index, free of side effects *)
  Definition nodes_justified (safe : list name) (nodes : list nat) : Prop :=
    forall i, In i nodes ->
      exists d, In (i, d) (number_from 0 defs0) /\ mem (f_name d) shadowed = false /\ fdef_pure d safe = true.

  Lemma justified_grow : forall safe d,
    justified safe -> In d defs0 -> mem (f_name d) shadowed = false -> mem (f_name d) dups = false ->
    fdef_pure d safe = true -> justified (f_name d :: safe).
  Proof.
    intros safe d J Hin Hsh Hdu Hp x Hx. rewrite mem_cons in Hx. apply orb_true_iff in Hx.
    destruct Hx as [Hx | Hx].
    - apply String.eqb_eq in Hx. subst x. right. exists d. repeat split; try assumption.
      exact (fdef_pure_mono d safe _ (wl_incl_tl _ _) Hp).
    - destruct (J x Hx) as [Hb | [d' [H1 [H2 [H3 [H4 H5]]]]]]; [left; exact Hb |].
      right. exists d'. repeat split; try assumption.
      exact (fdef_pure_mono d' safe _ (wl_incl_tl _ _) H5).
  Qed.

  Lemma nodes_grow : forall safe safe' nodes,
    nodes_justified safe nodes -> wl_incl safe safe' -> nodes_justified safe' nodes.
  Proof.
    intros safe safe' nodes K Hi i Hin. destruct (K i Hin) as [d [H1 [H2 H3]]].
    exists d. repeat split; try assumption. exact (fdef_pure_mono d safe safe' Hi H3).
  Qed.

  Lemma number_from_snd : forall (l : list fdef) k p, In p (number_from k l) -> In (snd p) l.
  Proof.
    induction l as [| x tl IH]; intros k p H; [destruct H |].
    cbn [number_from] in H. destruct H as [H | H]; [subst p; left; reflexivity | right; exact (IH (S k) p H)].
  Qed.

  Lemma safe_pass_inv : forall l safe nodes,
    (forall p, In p l -> In p (number_from 0 defs0)) ->
    justified safe -> nodes_justified safe nodes ->
    let '(s', n', _) := safe_pass l shadowed dups safe nodes in
    wl_incl safe s' /\ justified s' /\ nodes_justified s' n'.
  Proof.
    induction l as [| [i d] tl IH]; intros safe nodes Hl J K.
    - cbn [safe_pass]. split; [apply wl_incl_refl | split; assumption].
    - cbn [safe_pass].
      assert (Htl : forall p, In p tl -> In p (number_from 0 defs0)) by (intros p Hp; apply Hl; right; exact Hp).
      destruct (mem (f_name d) shadowed) eqn:Esh; [exact (IH safe nodes Htl J K) |].
      destruct (fdef_pure d safe) eqn:Ep; [| exact (IH safe nodes Htl J K)].
      assert (Hd : In (i, d) (number_from 0 defs0)) by (apply Hl; left; reflexivity).
      set (safe' := if mem (f_name d) dups then safe else f_name d :: safe).
      assert (Hi : wl_incl safe safe').
      { unfold safe'. destruct (mem (f_name d) dups); [apply wl_incl_refl | apply wl_incl_tl]. }
      assert (J' : justified safe').
      { unfold safe'. destruct (mem (f_name d) dups) eqn:Edu; [exact J |].
        apply justified_grow; try assumption. exact (number_from_snd defs0 0 (i, d) Hd). }
      assert (K' : nodes_justified safe' (i :: nodes)).
      { intros j [Hj | Hj].
        - subst j. exists d. repeat split; try assumption. exact (fdef_pure_mono d safe _ Hi Ep).
        - exact (nodes_grow safe _ nodes K Hi j Hj). }
      pose proof (IH safe' (i :: nodes) Htl J' K') as R.
      destruct (safe_pass tl shadowed dups safe' (i :: nodes)) as [[s' n'] c].
      destruct R as [R1 [R2 R3]]. split; [| split; assumption].
      exact (wl_incl_trans _ _ _ Hi R1).
  Qed.

  Lemma safe_loop_inv : forall fuel l safe nodes,
    (forall p, In p l -> In p (number_from 0 defs0)) ->
    justified safe -> nodes_justified safe nodes ->
    let '(s', n') := safe_loop fuel l shadowed dups safe nodes in
    wl_incl safe s' /\ justified s' /\ nodes_justified s' n'.
  Proof.
    induction fuel as [| k IH]; intros l safe nodes Hl J K.
    - cbn [safe_loop]. split; [apply wl_incl_refl | split; assumption].
    - cbn [safe_loop]. pose proof (safe_pass_inv l safe nodes Hl J K) as R.
      destruct (safe_pass l shadowed dups safe nodes) as [[s1 n1] c]. destruct R as [R1 [R2 R3]].
      destruct c; [| split; [exact R1 | split; assumption]].
      set (l' := filter (fun p => negb (existsb (Nat.eqb (fst p)) n1)) l).
      assert (Hf : forall p, In p l' -> In p (number_from 0 defs0)).
      { intros p Hp. apply filter_In in Hp. apply Hl. exact (proj1 Hp). }
      pose proof (IH l' s1 n1 Hf R2 R3) as R'.
      destruct (safe_loop k l' shadowed dups s1 n1) as [s2 n2].
      destruct R' as [Q1 [Q2 Q3]]. split; [exact (wl_incl_trans _ _ _ R1 Q1) | split; assumption].
  Qed.
End SafeNames.

Definition safe_functions (base shadowed dups : list name) (defs : list fdef) : list name * list nat :=
  safe_loop (S (List.length defs)) (number_from 0 defs) shadowed dups base [].

(* T16.5: every function name declared safe is a base name or names a definition -- not shadowed, not shared --
   whose checked statements and returned values are free of side effects relative to the final safe set *)
Theorem safe_names_justified :
  forall base shadowed dups defs x,
    mem x (fst (safe_functions base shadowed dups defs)) = true ->
    mem x base = true \/
    exists d, In d defs /\ f_name d = x /\ mem x shadowed = false /\ mem x dups = false /\
              fdef_pure d (fst (safe_functions base shadowed dups defs)) = true.
Proof.
  intros base shadowed dups defs x. unfold safe_functions.
  pose proof (safe_loop_inv base shadowed dups defs (S (List.length defs)) (number_from 0 defs) base []) as R.
  destruct (safe_loop (S (List.length defs)) (number_from 0 defs) shadowed dups base []) as [s n].
  cbn [fst]. destruct R as [_ [J _]].
  - intros p Hp. exact Hp.
  - intros y Hy. left. exact Hy.
  - intros i [].
  - exact (J x).
Qed.

Lemma number_from_nth : forall (l : list fdef) k i d,
  In (i, d) (number_from k l) -> k <= i /\ nth_error l (i - k) = Some d.
Proof.
  induction l as [| x tl IH]; intros k i d H; [destruct H |].
  cbn [number_from] in H. destruct H as [H | H].
  - inversion H; subst. split; [lia |]. replace (i - i) with 0 by lia. reflexivity.
  - destruct (IH (S k) i d H) as [G1 G2]. split; [lia |].
    replace (i - k) with (S (i - S k)) by lia. exact G2.
Qed.

(* a class is declared safe only if each of its constructors is such a definition (identified by its position,
   not by its name) *)
Theorem safe_class_justified :
  forall base shadowed dups defs c,
    class_safe (snd (safe_functions base shadowed dups defs)) c = true ->
    forall i, In i (snd c) ->
    exists d, nth_error defs i = Some d /\ mem (f_name d) shadowed = false /\
              fdef_pure d (fst (safe_functions base shadowed dups defs)) = true.
Proof.
  intros base shadowed dups defs c Hc i Hi. unfold safe_functions in *.
  pose proof (safe_loop_inv base shadowed dups defs (S (List.length defs)) (number_from 0 defs) base []) as R.
  destruct (safe_loop (S (List.length defs)) (number_from 0 defs) shadowed dups base []) as [s n].
  cbn [fst snd] in *. destruct R as [_ [_ K]].
  - intros p Hp. exact Hp.
  - intros y Hy. left. exact Hy.
  - intros j [].
  - unfold class_safe in Hc. rewrite forallb_forall in Hc. specialize (Hc i Hi).
    apply existsb_exists in Hc. destruct Hc as [j [Hj Hij]]. apply PeanoNat.Nat.eqb_eq in Hij. subst j.
    destruct (K i Hj) as [d [H1 [H2 H3]]]. exists d. repeat split; try assumption.
    destruct (number_from_nth defs 0 i d H1) as [_ G]. rewrite PeanoNat.Nat.sub_0_r in G. exact G.
Qed.

(* R16.5: when the caller does not tell which names are shared ([dups] = []), a second definition with the same
   name is taken for the first one *)
Local Open Scope string_scope.
Theorem safe_names_refuted_duplicate :
  exists base shadowed defs d,
    In d defs /\ mem (f_name d) (fst (safe_functions base shadowed [] defs)) = true /\
    mem (f_name d) base = false /\ mem (f_name d) shadowed = false /\
    fdef_pure d (fst (safe_functions base shadowed [] defs)) = false.
Proof.
  exists [], [],
    [mkF "f" false SNil (ECons (EConst false) ENil);
     mkF "f" false (SCons (SExpr (ECall (EName "print") ENil ENil)) SNil) ENil],
    (mkF "f" false (SCons (SExpr (ECall (EName "print") ENil ENil)) SNil) ENil).
  split; [right; left; reflexivity |]. vm_compute. repeat split.
Qed.
Local Close Scope string_scope.

Fixpoint nodupb (l : list name) : bool :=
  match l with [] => true | x :: tl => negb (mem x tl) && nodupb tl end.

Lemma mem_In : forall x l, mem x l = true <-> In x l.
Proof.
  intros x l. unfold mem. rewrite existsb_exists. split.
  - intros [y [H1 H2]]. apply String.eqb_eq in H2. subst y. exact H1.
  - intro H. exists x. split; [exact H | apply String.eqb_refl].
Qed.

Lemma nodupb_unique : forall (l : list fdef) a b,
  nodupb (map f_name l) = true -> In a l -> In b l -> f_name a = f_name b -> a = b.
Proof.
  induction l as [| x tl IH]; intros a b Hn Ha Hb Hab; [destruct Ha |].
  cbn [map nodupb] in Hn. apply andb_true_iff in Hn. destruct Hn as [Hx Htl]. apply negb_true_iff in Hx.
  assert (Hnot : forall y, In y tl -> f_name y <> f_name x).
  { intros y Hy E. assert (mem (f_name x) (map f_name tl) = true) as M.
    { apply mem_In. rewrite <- E. apply in_map. exact Hy. }
    rewrite M in Hx. discriminate. }
  destruct Ha as [Ha | Ha], Hb as [Hb | Hb]; subst.
  - reflexivity.
  - exfalso. exact (Hnot b Hb (eq_sym Hab)).
  - exfalso. exact (Hnot a Ha Hab).
  - exact (IH a b Htl Ha Hb Hab).
Qed.

(* the definitions whose name is not declared shared *)
Definition unshared (dups : list name) (defs : list fdef) : list fdef :=
  filter (fun d => negb (mem (f_name d) dups)) defs.

(* T16.5 (partial): when [dups] covers every name that several definitions share (boolean guard: the other names
   are distinct), EVERY definition whose name is declared safe is free of side effects *)
Theorem safe_names_partial_unique :
  forall base shadowed dups defs d,
    nodupb (map f_name (unshared dups defs)) = true ->
    In d defs -> mem (f_name d) base = false ->
    mem (f_name d) (fst (safe_functions base shadowed dups defs)) = true ->
    fdef_pure d (fst (safe_functions base shadowed dups defs)) = true.
Proof.
  intros base shadowed dups defs d Hn Hd Hb Hs.
  destruct (safe_names_justified base shadowed dups defs (f_name d) Hs) as [H | [d' [H1 [H2 [H3 [H4 H5]]]]]].
  - rewrite H in Hb. discriminate.
  - assert (Ia : In d (unshared dups defs)).
    { unfold unshared. apply filter_In. split; [exact Hd |]. rewrite H4. reflexivity. }
    assert (Ib : In d' (unshared dups defs)).
    { unfold unshared. apply filter_In. split; [exact H1 |]. rewrite H2, H4. reflexivity. }
    rewrite (nodupb_unique (unshared dups defs) d d' Hn Ia Ib (eq_sym H2)). exact H5.
Qed.

Local Open Scope string_scope.
Example safe_names_nonvacuous :
  let defs := [mkF "f" false SNil (ECons (ECall (EName "h") ENil ENil) ENil);
               mkF "h" false (SCons (SExpr (EName "x")) SNil) (ECons (EConst false) ENil);
               mkF "k" false (SCons (SExpr (ECall (EName "print") ENil ENil)) SNil) ENil;
               mkF "m" false SNil ENil; mkF "m" false (SCons (SExpr (ECall (EName "print") ENil ENil)) SNil) ENil] in
  nodupb (map f_name (unshared ["m"] defs)) = true /\
  fst (safe_functions ["len"] [] ["m"] defs) = ["f"; "h"; "len"].
Proof. vm_compute. split; reflexivity. Qed.
Local Close Scope string_scope.

(* ---------------- the guards of delete_pointless_statements ---------------- *)
Lemma pointless_ctx_from_spec : forall body in_try us_used wl i k s,
  nth_error (stmts_list body) k = Some s ->
  nth k (pointless_ctx_from in_try us_used i body wl) false = true ->
  hse_s s wl = false /\ (in_try = true -> cannot_raise s = true) /\
  (us_used = true -> mentions_us s = false) /\ iter_unk_s s = false.
Proof.
  induction body as [| s0 tl IH]; intros in_try us_used wl i k s Hn Hp.
  - destruct k; discriminate.
  - destruct k as [| k'].
    + cbn in Hn. inversion Hn; subst. cbn [pointless_ctx_from nth] in Hp.
      repeat (apply andb_true_iff in Hp; destruct Hp as [Hp ?]).
      repeat match goal with Hx : negb _ = true |- _ => apply negb_true_iff in Hx end.
      split; [assumption |]. split; [| split; [| assumption]].
      * intro E. subst in_try. match goal with Hx : negb true || _ = true |- _ => exact Hx end.
      * intro E. subst us_used. match goal with Hx : negb true || negb _ = true |- _ =>
          cbn in Hx; apply negb_true_iff in Hx; exact Hx end.
    + cbn [stmts_list nth_error] in Hn. cbn [pointless_ctx_from nth] in Hp. exact (IH _ _ wl (S i) k' s Hn Hp).
Qed.

(* T16.4f: what delete_pointless_statements deletes is free of side effects (so T16.4 applies), inside a try body
   with handlers it cannot raise, when `_` is read somewhere it does not touch `_`, and it iterates over nothing
   but objects built on the spot *)
Theorem pointless_ctx_sound : forall body in_try us_used wl k s,
  nth_error (stmts_list body) k = Some s ->
  nth k (pointless_ctx in_try us_used body wl) false = true ->
  hse_s s wl = false /\ (in_try = true -> cannot_raise s = true) /\
  (us_used = true -> mentions_us s = false) /\ iter_unk_s s = false.
Proof. intros. eapply pointless_ctx_from_spec; eassumption. Qed.

(* a statement that cannot raise does nothing at all *)
Theorem cannot_raise_inert : forall s o, cannot_raise s = true -> exec s o = ([], ONormal, o).
Proof.
  intros s o H. destruct s; try discriminate; [| reflexivity].
  destruct e; try discriminate. reflexivity.
Qed.

(* ---------------- the regenerated table ---------------- *)
(* T16.6 (generic part): a table that passes the boolean test lists no builtin known to have a side
   effect; coq/props/C16.v instantiates it with the regenerated constants.SAFE_CALLABLES *)
Definition table_ok (tbl : list name) : bool := forallb (fun x => negb (mem x impure_builtins)) tbl.

Lemma table_excludes_impure :
  forall tbl, table_ok tbl = true -> forall x, In x tbl -> mem x impure_builtins = false.
Proof.
  intros tbl H x Hx. unfold table_ok in H. rewrite forallb_forall in H.
  apply negb_true_iff. exact (H x Hx).
Qed.
